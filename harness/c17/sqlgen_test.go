package c17

// Grammar-based generator of LinDB query text.
//
// The generator walks the query rules of /repo/sql/grammar/SQL.g4
//
//	queryStmt      : T_EXPLAIN? sourceAndSelect whereClause? groupByClause? orderByClause? limitClause? T_WITH_VALUE?
//	sourceAndSelect: selectExpr fromClause | fromClause selectExpr
//	fields/field/alias, fieldExpr (* / + - paren exprFunc exprAtom durationLit star), exprFunc/funcParam,
//	exprAtom (ident identFilter? | decNumber | intNumber), conditionExpr, tagFilterExpr, timeRangeExpr/timeExpr/nowExpr,
//	groupByClause (groupByKey, fill, havingClause/boolExpr/binaryExpr), orderByClause/sortField, limitClause
//
// and the "show namespaces|metrics|fields|tag keys|tag values" rules, and emits only text the
// parser accepts *by construction*: besides the context free grammar it obeys the semantic
// checks of sql/query_stmt_parser.go (validation(), check() of order by, limit is an int32,
// start <= end, time strings in one of the four layouts of common/timeutil.ParseTimestamp) and
// the lexer's peculiarities (reserved words, the implicit 'true' 'false' 'null' tokens, STRING
// shadowing double quoted identifiers, L_DEC swallowing the character after the dot).
//
// Everything is drawn from rapid, so a statement is a pure function of the seed.

import (
	"fmt"
	"strings"
	"time"

	"pgregory.net/rapid"

	"github.com/lindb/lindb/verifharness/sim/ev"
)

// signatures of the three defects this generator found on the unchanged tree; a shape is left
// out only while its signature is listed in /verif/known_findings.json (ev.Known).
const (
	sigNilOperand       = "C17/nil-operand"
	sigInfNumber        = "C17/inf-number-literal"
	sigDurationOverflow = "C17/duration-overflow"
)

type tok struct {
	s    string
	word bool // needs white space between itself and a neighbouring word
}

type sqlGen struct {
	t        *rapid.T
	toks     []tok
	maxDepth int

	kwStyle int // 0 lower, 1 upper, 2 capitalised
	spacing int // 0 single spaces, 1 glued punctuation, 2 mixed white space

	// bookkeeping for "order by" (see queryStmtParser.check): texts of identifiers that end
	// up in fieldNames, and token slices of top level call select items.
	fieldCands [][]tok
	topCalls   [][]tok
	emptyAlias bool // an alias '' was emitted on a real select item (fieldNames[""] exists)

	kinds map[string]bool // clause kinds present
	edges map[string]bool // deliberately malformed shapes present (defect signatures)

	startClock, endClock bool // TimeRange.Start / .End depend on the wall clock
	inHaving             bool

	// size class: wide != "" makes ONE clause of the statement wide (wideN terms on one or two
	// levels) while the rest of the statement keeps its usual size; see wideTargets.
	wide     string
	wideN    int
	wideDone bool // the wide clause was really emitted
	noEdges  bool // inside a wide clause the deliberately malformed shapes are switched off

	// census of the operator / function tokens emitted into the select list ("sel|") and the
	// having clause ("hav|"): "<region>|op=<BinaryOPString>" and "<region>|fn=<function name>".
	// Compared with the parsed statement for the evidence only (censusMismatch in census_test.go).
	census map[string]int
	// parents: kinds of the expression nodes open around the current position ('b' binary incl. a
	// having comparison, 'p' paren, 'c' call); the innermost one is what the listener has on top of
	// its expression stack when an atom is visited.
	parents  []byte
	nowParam bool // now(<ident>) was written: the ident lands in the select list (observation)
	// filterInExpr: an identFilter was written where the enclosing node is a binary / paren
	filterInExpr bool
}

func (g *sqlGen) enter(kind byte) { g.parents = append(g.parents, kind) }
func (g *sqlGen) leave()          { g.parents = g.parents[:len(g.parents)-1] }

// filterBecomesOperand: a tag filter written here ends up as operand of the enclosing node.
func (g *sqlGen) filterBecomesOperand() bool {
	return len(g.parents) > 0 && g.parents[len(g.parents)-1] != 'c'
}

// count notes one operator ("op") or function ("fn") token of the current region.
func (g *sqlGen) count(kind, name string) {
	region := "sel|"
	if g.inHaving {
		region = "hav|"
	}
	g.census[region+kind+"="+name]++
}

// cmpOpName maps the spelling of a binaryOperator token to the statement model's operator name.
func cmpOpName(tok string) string {
	switch tok {
	case "<>":
		return "!="
	case "=~":
		return "like"
	}
	return tok
}

// wideTargets: the clause that gets wideN terms.
//
//	where   : tag filters joined by and/or (every 7th or so a parenthesised group)   -> one Condition tree with ~2*wideN nodes
//	in      : key [not] in (v1 ... v_wideN)                                            -> one InExpr with wideN values
//	arith   : select f0+f1*f2-...                                                      -> one SelectItem with ~2*wideN nodes
//	params  : select sum(p1, ..., p_wideN)                                             -> one CallExpr with wideN params
//	having  : wideN/2 comparisons joined by and/or                                     -> one Having tree
//	select / groupBy / orderBy: wideN list entries (each its own small expression)
var wideTargets = []string{"where", "where", "in", "arith", "arith", "params", "having", "select", "groupBy", "orderBy"}

// a ladder, not an integer range (rapid draws ranges mostly near their ends); dense around the
// powers of two where size limits usually sit. Not beyond 100: stmt.Unmarshal decodes every level of
// a tree into a generic value first, so a chain of n terms costs O(n^2) (about 15 ms at n = 100).
var wideLadder = []int{12, 20, 31, 32, 33, 34, 40, 48, 63, 64, 65, 66, 80, 100}

func newSQLGen(t *rapid.T) *sqlGen {
	g := &sqlGen{
		t:        t,
		maxDepth: rapid.SampledFrom([]int{1, 2, 3, 3, 4, 4, 5, 5}).Draw(t, "maxDepth"),
		kwStyle:  rapid.SampledFrom([]int{0, 0, 0, 1, 2}).Draw(t, "kwStyle"),
		spacing:  rapid.SampledFrom([]int{0, 0, 1, 2}).Draw(t, "spacing"),
		kinds:    map[string]bool{},
		edges:    map[string]bool{},
		census:   map[string]int{},
		// without an explicit bound the statement gets [now-1h, now]
		startClock: true,
		endClock:   true,
	}
	if g.chance(widePercent, "wide") {
		g.wide = rapid.SampledFrom(wideTargets).Draw(t, "wideTarget")
		g.wideN = rapid.SampledFrom(wideLadder).Draw(t, "wideN")
	}
	return g
}

// widePercent of the generated statements have one wide clause.
const widePercent = 2

// ---- token emission ---------------------------------------------------------------------

func (g *sqlGen) w(s string) { g.toks = append(g.toks, tok{s, true}) }  // word
func (g *sqlGen) p(s string) { g.toks = append(g.toks, tok{s, false}) } // punctuation / operator

// kw emits a (case-insensitive) keyword.
func (g *sqlGen) kw(s string) {
	switch g.kwStyle {
	case 1:
		s = strings.ToUpper(s)
	case 2:
		s = strings.ToUpper(s[:1]) + s[1:]
	}
	g.w(s)
}

func (g *sqlGen) mark() int { return len(g.toks) }
func (g *sqlGen) since(m int) []tok {
	return append([]tok(nil), g.toks[m:]...)
}

func (g *sqlGen) text() string {
	var sb strings.Builder
	for i, tk := range g.toks {
		if i > 0 {
			prev := g.toks[i-1]
			need := prev.word && tk.word
			switch {
			case g.spacing == 1 && !need:
			case g.spacing == 2:
				sb.WriteString([]string{" ", "  ", "\n", "\t", " \r\n "}[(i*7+len(tk.s))%5])
			default:
				sb.WriteString(" ")
			}
		}
		sb.WriteString(tk.s)
	}
	return sb.String()
}

// chance is true with (about) the given probability. rapid's integer generators are heavily
// biased towards small and boundary values (IntRange(0,99) < 1 holds in 11% of the draws), so the
// draw is hashed; 0 -- what the shrinker moves to -- always means "no".
func (g *sqlGen) chance(percent int, label string) bool {
	u := rapid.Uint64().Draw(g.t, label)
	return u != 0 && mix64(u)%100 < uint64(percent)
}

func mix64(x uint64) uint64 {
	x += 0x9e3779b97f4a7c15
	x = (x ^ (x >> 30)) * 0xbf58476d1ce4e5b9
	x = (x ^ (x >> 27)) * 0x94d049bb133111eb
	return x ^ (x >> 31)
}

// ---- identifiers ------------------------------------------------------------------------

var (
	fieldPool  = []string{"f", "g", "usage", "load_1", "Cpu.Idle", "x9", "user", "idle.", "HeapInuse", "p99"}
	tagPool    = []string{"host", "ip", "zone", "dc.name", "Node", "disk_1", "k8s.pod"}
	metricPool = []string{"cpu", "system.cpu.load", "m1", "lindb.runtime.mem", "Net_IO", "a.b.c.d"}
	nsPool     = []string{"ns", "prod.ns", "default_ns1", "lindb"}
	aliasPool  = []string{"a", "total", "avg_1", "X", "rate.per.sec"}
	// non reserved words (rule nonReservedWords) that cannot be confused with a keyword of the
	// query grammar in any position where the generator uses them.
	keywordIdents = []string{"create", "update", "set", "drop", "interval", "name", "shard", "replication", "memory",
		"ttl", "metattl", "pastttl", "futurettl", "kill", "show", "database", "databases", "namespace", "namespaces", "node",
		"metrics", "metric", "field", "fields", "tag", "info", "keys", "key", "values", "value", "queries", "query",
		"stats", "log", "profile", "use", "master", "metadata", "type", "types", "storages", "storage", "alive",
		"broker", "root", "brokers", "schemas", "state_repo", "state_machine", "requests", "request", "id", "rollup",
		"between", "is", "for",
		// function names and time units are identifiers when not followed by '(' / a number
		"sum", "min", "max", "count", "last", "first", "avg", "stddev", "quantile", "rate",
		"s", "m", "h", "d", "w", "M", "y", "S", "H", "D", "W", "Y",
		// keywords of the query grammar itself; `select sum(sum) as as from from on on` parses
		"select", "from", "on", "as", "where", "and", "or", "in", "like", "not", "group", "by", "having", "order",
		"asc", "desc", "limit", "fill", "previous", "explain", "with", "withvalue", "NULL",
	}
	// characters for quoted strings: ASCII incl. JSON/HTML specials, the \" sequence that
	// sql.Parse rewrites, control characters, multi byte runes, JS line separators.
	quotedAlphabet = []string{"a", "b", "Z", "0", "7", " ", " ", ".", "-", "_", "*", "%", "|", "(", ")", "[", "]", "{", "}", ",",
		"=", "<", ">", "&", "/", "\\", "\\\\", "\\\"", "\"", "`", "\n", "\t", "\r", "\x01", "\x7f", "\u00e9", "\u00fc", "\u4e2d", "\u6587",
		"\u2028", "\u2029", "\U0001F600", "\ufffd", "$", "#", "@", ":", ";", "+", "?", "^", "~", "!"}
)

// quoted draws the content of a quoted identifier (no single quote inside).
func (g *sqlGen) quotedContent(label string, min int) string {
	n := rapid.IntRange(min, 8).Draw(g.t, label+"N")
	var sb strings.Builder
	for i := 0; i < n; i++ {
		sb.WriteString(rapid.SampledFrom(quotedAlphabet).Draw(g.t, label))
	}
	return sb.String()
}

// ident emits one `ident` (rule ident) drawn for the given role. nonEmpty forbids ”.
func (g *sqlGen) ident(role string, pool []string, nonEmpty bool) {
	g.w(g.identText(role, pool, nonEmpty))
}

func (g *sqlGen) identText(role string, pool []string, nonEmpty bool) string {
	switch rapid.IntRange(0, 15).Draw(g.t, role+"Form") {
	case 0, 1, 2: // single quoted, arbitrary content
		min := 0
		if nonEmpty {
			min = 1
		}
		return "'" + g.quotedContent(role+"Q", min) + "'"
	case 3: // single quoted plain name (the usual way to write tag values)
		return "'" + rapid.SampledFrom(pool).Draw(g.t, role+"P") + "'"
	case 4: // back quoted (back quotes are kept in the name)
		return "`" + strings.ReplaceAll(g.quotedContent(role+"B", 0), "`", "") + "`"
	case 5: // special first character
		switch rapid.IntRange(0, 5).Draw(g.t, role+"S") {
		case 5: // ident : L_ID '.' L_ID  (a quoted first part keeps the T_DOT token apart)
			return "'" + rapid.SampledFrom([]string{"a", "x y", ""}).Draw(g.t, role+"S0") + "'." + rapid.SampledFrom([]string{"b", "sum", "c.d"}).Draw(g.t, role+"S00")
		case 0:
			return "_" + rapid.SampledFrom([]string{"a1", "tmp", "_x", "9"}).Draw(g.t, role+"S1")
		case 1:
			return "@" + rapid.SampledFrom([]string{"host", "a:b", "1"}).Draw(g.t, role+"S2")
		case 2:
			return "#" + rapid.SampledFrom([]string{"h1", "tag#2", "$x"}).Draw(g.t, role+"S3")
		case 3:
			return "$" + rapid.SampledFrom([]string{"v:1", "d", "_@"}).Draw(g.t, role+"S4")
		default:
			return "${" + strings.ReplaceAll(g.quotedContent(role+"V", 0), "}", "") + "}"
		}
	case 6: // a keyword used as identifier
		return rapid.SampledFrom(keywordIdents).Draw(g.t, role+"K")
	case 7: // pool name with a numeric suffix
		return fmt.Sprintf("%s%d", strings.TrimSuffix(rapid.SampledFrom(pool).Draw(g.t, role+"P"), "."), rapid.IntRange(0, 99).Draw(g.t, role+"Sfx"))
	default:
		return rapid.SampledFrom(pool).Draw(g.t, role+"P")
	}
}

// tagValue emits a tag value: mostly quoted strings.
func (g *sqlGen) tagValue() {
	switch rapid.IntRange(0, 9).Draw(g.t, "tvForm") {
	case 0:
		g.w(rapid.SampledFrom([]string{"web01", "a.b.c", "v1_2", "_x1", "${env}", "sum", "host"}).Draw(g.t, "tvPlain"))
	case 1, 2:
		g.w("'" + rapid.SampledFrom([]string{"1.1.1.1", "192.168.*", "host-1", "web.*\\.lindb\\.io", "^a|b$", "", "a b", "1"}).Draw(g.t, "tvCommon") + "'")
	default:
		g.w("'" + g.quotedContent("tvQ", 0) + "'")
	}
}

// ---- numbers and durations ---------------------------------------------------------------

func (g *sqlGen) digits(label string, min, max int) string {
	n := rapid.IntRange(min, max).Draw(g.t, label+"Len")
	b := make([]byte, n)
	for i := range b {
		b[i] = byte('0' + rapid.IntRange(0, 9).Draw(g.t, label))
	}
	return string(b)
}

// number emits decNumber | intNumber.
func (g *sqlGen) number() {
	sign := rapid.SampledFrom([]string{"", "", "", "-", "+"}).Draw(g.t, "numSign")
	var body string
	switch rapid.IntRange(0, 9).Draw(g.t, "numForm") {
	case 0, 1, 2:
		body = rapid.SampledFrom([]string{"0", "1", "2", "10", "100", "1000", "007", "60", "1024"}).Draw(g.t, "numCommon")
	case 3:
		body = g.digits("numInt", 1, 30) // up to 30 digits: finite, beyond 2^63 and 2^53
	case 4, 5:
		body = rapid.SampledFrom([]string{"0.5", "0.99", "1.5", ".5", "0.1", "0.2", "0.3", "99.9", "1.0", "0.0", "3.14159", ".001"}).Draw(g.t, "numDecCommon")
	case 6, 7:
		body = g.digits("numDecI", 1, 18) + "." + g.digits("numDecF", 1, 20)
	case 8:
		body = "." + g.digits("numDecF2", 1, 20)
	default:
		body = g.digits("numInt2", 1, 4)
	}
	g.w(sign + body)
}

// hugeNumber emits an integer literal beyond the float64 range (strconv.ParseFloat -> +Inf).
func (g *sqlGen) hugeNumber() {
	g.edges[sigInfNumber] = true
	g.w("1" + strings.Repeat(g.digits("hugeD", 1, 1), 309+rapid.IntRange(0, 20).Draw(g.t, "hugeLen")))
}

var unitMs = map[string]int64{"s": 1000, "S": 1000, "m": 60000, "h": 3600000, "H": 3600000, "d": 86400000, "D": 86400000,
	"w": 7 * 86400000, "W": 7 * 86400000, "M": 30 * 86400000, "y": 365 * 86400000, "Y": 365 * 86400000}

// duration emits durationLit with the given sign ("" "-" "+") and value; returns nothing.
func (g *sqlGen) duration(sign string, n int64, unit string) {
	if g.chance(10, "durSplit") {
		g.w(fmt.Sprintf("%s%d", sign, n))
		g.w(unit)
		return
	}
	g.w(fmt.Sprintf("%s%d%s", sign, n, unit))
}

func (g *sqlGen) anyDuration(label string) {
	unit := rapid.SampledFrom([]string{"s", "m", "h", "d", "w", "M", "y", "S", "H", "D", "W", "Y"}).Draw(g.t, label+"Unit")
	n := int64(rapid.SampledFrom([]int{0, 1, 1, 2, 5, 10, 15, 30, 60, 90, 100, 1500, 3600, 86400}).Draw(g.t, label+"N"))
	sign := rapid.SampledFrom([]string{"", "", "", "", "+", "-"}).Draw(g.t, label+"Sign")
	g.duration(sign, n, unit)
}

// ---- select expressions (rule fieldExpr) --------------------------------------------------

var funcNames = []string{"sum", "min", "max", "avg", "count", "last", "first", "stddev", "quantile", "rate"}
var orderByFuncs = []string{"sum", "min", "max", "avg", "count", "last", "first", "stddev"}

// malformedOperand emits a durationLit or a star where the listener expects an operand
// (the listener ignores both, so the enclosing binary/paren node keeps a nil child).
func (g *sqlGen) malformedOperand() {
	g.edges[sigNilOperand] = true
	if rapid.Bool().Draw(g.t, "malformedStar") {
		g.p("*")
	} else {
		g.anyDuration("malformedDur")
	}
}

func (g *sqlGen) wantNilOperandEdge() bool {
	return !g.noEdges && !ev.Known(sigNilOperand) && g.chance(1, "edgeNilOperand")
}

// operand emits a fieldExpr used as operand of a binary/paren node.
func (g *sqlGen) operand(depth int) {
	if g.wantNilOperandEdge() {
		g.malformedOperand()
		return
	}
	g.fieldExpr(depth)
}

// fieldExpr emits a fieldExpr whose tree has at most `depth` levels; never a bare duration / star.
func (g *sqlGen) fieldExpr(depth int) { g.fieldExpr0(depth, false) }

// fieldExpr0: with top set the expression is a whole select item, which must not be a bare
// number (the listener drops it and an empty select list is rejected).
func (g *sqlGen) fieldExpr0(depth int, top bool) {
	k := 0
	if depth > 1 {
		k = rapid.SampledFrom([]int{0, 1, 1, 2, 3, 3, 3}).Draw(g.t, "feKind")
	}
	switch k {
	case 1: // binary
		g.enter('b')
		g.operand(depth - 1)
		op := rapid.SampledFrom([]string{"+", "-", "*", "/"}).Draw(g.t, "arith")
		g.count("op", op)
		g.p(op)
		g.operand(depth - 1)
		g.leave()
	case 2: // paren
		g.p("(")
		g.enter('p')
		g.operand(depth - 1)
		g.leave()
		g.p(")")
	case 3:
		g.call(depth)
	default:
		g.atom(top)
	}
}

// atom emits exprAtom.
func (g *sqlGen) atom(identOnly bool) {
	k := rapid.IntRange(0, 9).Draw(g.t, "atomKind")
	if identOnly {
		k = 9
	}
	switch k {
	case 0, 1, 2:
		if !g.noEdges && !ev.Known(sigInfNumber) && g.chance(1, "edgeInf") {
			g.hugeNumber()
			return
		}
		g.count("atom", "number")
		g.number()
	default:
		m := g.mark()
		g.count("atom", "field")
		g.ident("field", fieldPool, false)
		if !g.inHaving {
			g.fieldCands = append(g.fieldCands, g.since(m))
		}
		if g.chance(3, "identFilter") { // ident identFilter : f[host='a']
			if g.filterBecomesOperand() {
				// observation (not a C17 matter): the listener makes the filter an operand of the
				// enclosing binary / paren node and drops the written operand; determinism and
				// the wire round trip must hold for the statement it builds all the same
				g.filterInExpr = true
			}
			g.p("[")
			g.tagFilter(1)
			g.p("]")
		}
	}
}

// call emits exprFunc with 0..3 params.
func (g *sqlGen) call(depth int) {
	g.callN(depth, rapid.SampledFrom([]int{0, 1, 1, 1, 1, 1, 2, 3}).Draw(g.t, "nParams"))
}

// callN emits exprFunc with n params.
func (g *sqlGen) callN(depth, n int) {
	fn := rapid.SampledFrom(funcNames).Draw(g.t, "func")
	g.count("fn", fn)
	g.kw(fn)
	g.p("(")
	g.enter('c')
	defer g.leave()
	for i := 0; i < n; i++ {
		if i > 0 {
			g.p(",")
		}
		switch rapid.IntRange(0, 19).Draw(g.t, "paramKind") {
		case 0: // funcParam : tagFilterExpr
			g.tagFilter(1)
		case 1: // fieldExpr : durationLit   e.g. rate(f, 1m)
			g.anyDuration("paramDur")
		case 2: // fieldExpr : star          e.g. count(*)
			g.p("*")
		default:
			g.fieldExpr(depth - 1)
		}
	}
	g.p(")")
}

// ---- wide clauses ---------------------------------------------------------------------------

// wideArith emits operand (op operand){wideN-1}: many terms in ONE select item, on one level of
// the text (the tree the listener builds leans to one side; mixed precedence mixes it).
func (g *sqlGen) wideArith() {
	g.wideDone = true
	g.noEdges = true
	defer func() { g.noEdges = false }()
	if g.wideN > 1 {
		g.enter('b')
		defer g.leave()
	}
	for i := 0; i < g.wideN; i++ {
		if i > 0 {
			op := rapid.SampledFrom([]string{"+", "+", "-", "*", "/"}).Draw(g.t, "arith")
			g.count("op", op)
			g.p(op)
		}
		d := 1
		if g.chance(12, "wideTermCall") {
			d = 2
		}
		g.fieldExpr(d)
	}
}

// wideCall emits a call with wideN params.
func (g *sqlGen) wideCall() {
	g.wideDone = true
	g.noEdges = true
	defer func() { g.noEdges = false }()
	g.callN(2, g.wideN)
}

// wideTagFilter emits tagFilter ((and|or) tagFilter){wideN-1}; some terms are parenthesised
// groups (`(dc='a' and (role='x' or role='y'))`).
func (g *sqlGen) wideTagFilter() {
	g.wideDone = true
	for i := 0; i < g.wideN; i++ {
		if i > 0 {
			g.kw(rapid.SampledFrom([]string{"and", "or", "or"}).Draw(g.t, "tfLogic"))
		}
		d := 1
		if g.chance(12, "wideTermGroup") {
			d = 3
		}
		g.tagFilter(d)
	}
}

// wideIn emits key [not] in (v1, ..., v_wideN).
func (g *sqlGen) wideIn() {
	g.wideDone = true
	g.ident("tagKey", tagPool, false)
	if g.chance(30, "notIn") {
		g.kw("not")
	}
	g.kw("in")
	g.p("(")
	for i := 0; i < g.wideN; i++ {
		if i > 0 {
			g.p(",")
		}
		g.tagValue()
	}
	g.p(")")
}

// wideBoolExpr emits wideN/2 comparisons joined by and/or (rule boolExpr).
func (g *sqlGen) wideBoolExpr() {
	g.wideDone = true
	g.noEdges = true
	defer func() { g.noEdges = false }()
	n := g.wideN / 2
	for i := 0; i < n; i++ {
		if i > 0 {
			lop := rapid.SampledFrom([]string{"and", "and", "or"}).Draw(g.t, "beLogic")
			g.count("op", lop)
			g.kw(lop)
		}
		g.boolExpr(rapid.SampledFrom([]int{2, 3, 3}).Draw(g.t, "wideCmpDepth"))
	}
}

// selectList emits `fields`.
func (g *sqlGen) selectList() {
	n := rapid.SampledFrom([]int{1, 1, 1, 2, 2, 3}).Draw(g.t, "nSelect")
	if g.wide == "select" {
		n = g.wideN
		g.wideDone = true
	}
	wideItem := g.wide == "arith" || g.wide == "params"
	real := 0
	for i := 0; i < n; i++ {
		if i > 0 {
			g.p(",")
		}
		// items the listener drops (bare number, duration) or that only set allFields (star);
		// a list made of dropped items only is rejected ("select fields cannot be empty"),
		// so they are only used once a real item exists. `select *` alone is fine.
		if i == 0 && n == 1 && !wideItem && g.chance(8, "selectStar") {
			g.p("*")
			g.kinds["star"] = true
			return
		}
		if real > 0 && g.chance(10, "droppedItem") {
			switch rapid.IntRange(0, 2).Draw(g.t, "droppedKind") {
			case 0:
				g.number()
			case 1:
				g.anyDuration("selDur")
			default:
				g.p("*")
				g.kinds["star"] = true
			}
			if g.chance(30, "droppedAlias") { // the alias lands on the previous select item
				g.kw("as")
				m := g.mark()
				g.ident("alias", aliasPool, true)
				g.fieldCands = append(g.fieldCands, g.since(m))
				g.kinds["alias"] = true
			}
			continue
		}
		real++
		m := g.mark()
		depth := g.maxDepth
		if i > 0 && depth > 2 {
			depth = rapid.IntRange(1, depth).Draw(g.t, "itemDepth")
		}
		if g.wide == "select" && depth > 2 {
			depth = 2
		}
		edgesBefore := len(g.edges)
		switch {
		case i == 0 && g.wide == "arith":
			g.wideArith()
		case i == 0 && g.wide == "params":
			g.wideCall()
		default:
			g.fieldExpr0(depth, true)
		}
		item := g.since(m)
		if isCallTokens(item) && len(g.edges) == edgesBefore {
			g.topCalls = append(g.topCalls, item)
		}
		if g.chance(35, "alias") {
			g.kw("as")
			if !ev.Known(sigNilOperand) && g.chance(2, "emptyAlias") {
				g.w("''")
				g.emptyAlias = true
			} else {
				m := g.mark()
				g.ident("alias", aliasPool, true)
				g.fieldCands = append(g.fieldCands, g.since(m))
			}
			g.kinds["alias"] = true
		}
	}
}

// isCallTokens reports whether the token slice is exactly one exprFunc: funcName ( ... ) with
// the closing parenthesis matching the first opening one.
func isCallTokens(ts []tok) bool {
	if len(ts) < 3 || !ts[0].word || ts[1].s != "(" || ts[len(ts)-1].s != ")" {
		return false
	}
	isFn := false
	for _, f := range funcNames {
		if strings.EqualFold(f, ts[0].s) {
			isFn = true
		}
	}
	if !isFn {
		return false
	}
	level := 0
	for i := 1; i < len(ts); i++ {
		switch ts[i].s {
		case "(":
			level++
		case ")":
			level--
			if level == 0 && i != len(ts)-1 {
				return false
			}
		}
	}
	return level == 0
}

// ---- where clause ---------------------------------------------------------------------------

// tagFilter emits tagFilterExpr with at most `depth` levels.
func (g *sqlGen) tagFilter(depth int) {
	k := 0
	if depth > 1 {
		k = rapid.SampledFrom([]int{0, 1, 1, 1, 2}).Draw(g.t, "tfKind")
	}
	switch k {
	case 1:
		g.tagFilter(depth - 1)
		g.kw(rapid.SampledFrom([]string{"and", "or"}).Draw(g.t, "tfLogic"))
		g.tagFilter(depth - 1)
	case 2:
		g.p("(")
		g.tagFilter(depth - 1)
		g.p(")")
	default:
		g.ident("tagKey", tagPool, false)
		switch rapid.IntRange(0, 8).Draw(g.t, "tfOp") {
		case 0:
			g.p("=")
			g.tagValue()
		case 1:
			g.kw("like")
			g.tagValue()
		case 2:
			g.kw("not")
			g.kw("like")
			g.tagValue()
		case 3:
			g.p("=~")
			g.tagValue()
		case 4:
			g.p("!~")
			g.tagValue()
		case 5:
			g.p(rapid.SampledFrom([]string{"!=", "<>"}).Draw(g.t, "neq"))
			g.tagValue()
		default:
			if g.chance(40, "notIn") {
				g.kw("not")
			}
			g.kw("in")
			g.p("(")
			n := rapid.SampledFrom([]int{1, 1, 2, 3, 5}).Draw(g.t, "nIn")
			for i := 0; i < n; i++ {
				if i > 0 {
					g.p(",")
				}
				g.tagValue()
			}
			g.p(")")
		}
	}
}

var timeLayouts = []string{"2006-01-02 15:04:05", "2006/01/02 15:04:05", "20060102 15:04:05", "20060102150405"}

func (g *sqlGen) absTime(label string, loYear, hiYear int) time.Time {
	y := rapid.IntRange(loYear, hiYear).Draw(g.t, label+"Y")
	mo := rapid.IntRange(1, 12).Draw(g.t, label+"Mo")
	d := rapid.IntRange(1, 28).Draw(g.t, label+"D")
	var h, mi, s int
	if g.chance(50, label+"Midnight") {
		h, mi, s = rapid.IntRange(0, 23).Draw(g.t, label+"h"), rapid.IntRange(0, 59).Draw(g.t, label+"mi"), rapid.IntRange(0, 59).Draw(g.t, label+"s")
	}
	return time.Date(y, time.Month(mo), d, h, mi, s, 0, time.UTC)
}

func (g *sqlGen) emitAbs(label string, tm time.Time) {
	g.w("'" + tm.Format(rapid.SampledFrom(timeLayouts).Draw(g.t, label+"Layout")) + "'")
}

// emitNow emits nowExpr with offset sign*n unit (n == 0 and plain => just now()).
func (g *sqlGen) emitNow(offsetSign string, n int64, unit string, plain bool) {
	g.kw("now")
	g.p("(")
	if g.chance(2, "nowParam") { // nowFunc : T_NOW ( exprFuncParams? ) -- a parameter is tolerated
		// observation: the listener visits it like a select expression and appends it to the select
		// list (`select g from m where time > now(f)` selects g and f)
		g.nowParam = true
		g.ident("field", fieldPool, false)
	}
	g.p(")")
	if plain {
		return
	}
	g.duration(offsetSign, n, unit)
}

type relOffset struct {
	sign string
	n    int64
	unit string
	ms   int64 // signed offset in ms
}

func (g *sqlGen) relOffset(label string, maxMs int64, allowFuture bool) relOffset {
	for {
		unit := rapid.SampledFrom([]string{"s", "m", "h", "h", "d", "d", "w", "M", "y", "H", "D"}).Draw(g.t, label+"Unit")
		n := int64(rapid.SampledFrom([]int{0, 1, 1, 2, 3, 6, 12, 24, 30, 45, 90}).Draw(g.t, label+"N"))
		ms := n * unitMs[unit]
		if ms > maxMs {
			continue
		}
		if allowFuture && g.chance(25, label+"Future") {
			return relOffset{"+", n, unit, ms}
		}
		return relOffset{"-", n, unit, -ms}
	}
}

// timeRange emits timeRangeExpr : timeExpr (T_AND timeExpr)? such that start <= end holds.
func (g *sqlGen) timeRange() {
	g.kinds["timeRange"] = true
	gt := func() { g.kw("time"); g.p(rapid.SampledFrom([]string{">", ">="}).Draw(g.t, "gtOp")) }
	lt := func() { g.kw("time"); g.p(rapid.SampledFrom([]string{"<", "<="}).Draw(g.t, "ltOp")) }
	const year = 365 * 86400000
	var start, end func()
	g.startClock, g.endClock = true, true
	switch rapid.IntRange(0, 9).Draw(g.t, "trKind") {
	case 0: // relative start only
		o := g.relOffset("trS", 3*year, false)
		start = func() { gt(); g.emitNow(o.sign, o.n, o.unit, false) }
	case 1, 2: // relative start and end, start offset strictly earlier than end offset
		var s, e relOffset
		for {
			s, e = g.relOffset("trS", 3*year, false), g.relOffset("trE", 3*year, true)
			if s.ms < e.ms {
				break
			}
		}
		start = func() { gt(); g.emitNow(s.sign, s.n, s.unit, false) }
		end = func() { lt(); g.emitNow(e.sign, e.n, e.unit, e.ms == 0 && g.chance(70, "plainNow")) }
	case 3: // absolute start only
		a := g.absTime("trA", 1971, 2019)
		start = func() { gt(); g.emitAbs("trA", a) }
		g.startClock = false
	case 4, 5: // absolute start and end
		a := g.absTime("trA", 1971, 2240)
		b := a
		if !g.chance(10, "sameInstant") {
			b = a.Add(time.Duration(rapid.Int64Range(1, 400*86400).Draw(g.t, "trSpanSec")) * time.Second)
		}
		start = func() { gt(); g.emitAbs("trA", a) }
		end = func() { lt(); g.emitAbs("trB", b) }
		g.startClock, g.endClock = false, false
	case 6: // absolute start, relative end
		a := g.absTime("trA", 1971, 2019)
		e := g.relOffset("trE", 3*year, true)
		start = func() { gt(); g.emitAbs("trA", a) }
		end = func() { lt(); g.emitNow(e.sign, e.n, e.unit, false) }
		g.startClock = false
	case 7: // far future absolute end only (start defaults to now-1h)
		b := g.absTime("trB", 2100, 2250)
		end = func() { lt(); g.emitAbs("trB", b) }
		g.endClock = false
	case 8: // relative start, far future absolute end
		o := g.relOffset("trS", 3*year, false)
		b := g.absTime("trB", 2100, 2250)
		start = func() { gt(); g.emitNow(o.sign, o.n, o.unit, false) }
		end = func() { lt(); g.emitAbs("trB", b) }
		g.endClock = false
	default: // an operator that sets neither bound: = != <> like =~
		op := rapid.SampledFrom([]string{"=", "!=", "<>", "like", "=~"}).Draw(g.t, "trOddOp")
		start = func() {
			g.kw("time")
			if op == "like" {
				g.kw(op)
			} else {
				g.p(op)
			}
			g.emitNow("-", 1, "h", g.chance(50, "plainNow2"))
		}
		g.kinds["timeRange"] = false
		delete(g.kinds, "timeRange")
	}
	switch {
	case start != nil && end != nil:
		if rapid.Bool().Draw(g.t, "endFirst") {
			end()
			g.kw("and")
			start()
		} else {
			start()
			g.kw("and")
			end()
		}
	case start != nil:
		start()
	default:
		end()
	}
}

func (g *sqlGen) where() {
	g.kw("where")
	form := rapid.IntRange(0, 4).Draw(g.t, "whereForm")
	depth := g.maxDepth
	filter := func() { g.tagFilter(depth) }
	switch g.wide {
	case "where":
		filter = g.wideTagFilter
	case "in":
		filter = g.wideIn
	}
	if form == 4 && (g.wide == "where" || g.wide == "in") {
		form = 2
	}
	switch form {
	case 0, 1: // tagFilterExpr
		filter()
		g.kinds["condition"] = true
	case 2: // tagFilterExpr AND timeRangeExpr
		filter()
		g.kw("and")
		g.timeRange()
		g.kinds["condition"] = true
	case 3: // timeRangeExpr AND tagFilterExpr
		g.timeRange()
		g.kw("and")
		filter()
		g.kinds["condition"] = true
	default: // timeRangeExpr
		g.timeRange()
	}
}

// ---- group by / having ------------------------------------------------------------------

func (g *sqlGen) boolExpr(depth int) {
	k := 0
	if depth > 2 {
		k = rapid.SampledFrom([]int{0, 1, 1, 2}).Draw(g.t, "beKind")
	}
	switch k {
	case 1:
		g.boolExpr(depth - 1)
		lop := rapid.SampledFrom([]string{"and", "or"}).Draw(g.t, "beLogic")
		g.count("op", lop)
		g.kw(lop)
		g.boolExpr(depth - 1)
	case 2:
		g.p("(")
		g.boolExpr(depth - 1)
		g.p(")")
	default: // boolExprAtom : fieldExpr binaryOperator fieldExpr
		d := depth - 1
		if d < 1 {
			d = 1
		}
		g.enter('b')
		defer g.leave()
		g.operand(d)
		op := rapid.SampledFrom([]string{"=", "<>", "!=", "<", "<=", ">", ">=", "like", "=~"}).Draw(g.t, "cmpOp")
		g.count("op", cmpOpName(op))
		if op == "like" {
			g.kw(op)
		} else {
			g.p(op)
		}
		g.operand(rapid.IntRange(1, d).Draw(g.t, "rhsDepth"))
	}
}

func (g *sqlGen) groupBy() {
	g.kw("group")
	g.kw("by")
	n := rapid.SampledFrom([]int{1, 1, 2, 3}).Draw(g.t, "nGroupBy")
	if g.wide == "groupBy" {
		n = g.wideN
		g.wideDone = true
	}
	for i := 0; i < n; i++ {
		if i > 0 {
			g.p(",")
		}
		switch rapid.IntRange(0, 5).Draw(g.t, "gbKind") {
		case 0: // T_TIME ( durationLit )
			g.kw("time")
			g.p("(")
			if !ev.Known(sigDurationOverflow) && g.chance(2, "edgeDurOverflow") {
				// n*1000 wraps around int64 to a value that is not a whole number of seconds
				g.edges[sigDurationOverflow] = true
				g.duration("", 18446744073709552+int64(rapid.IntRange(0, 1000).Draw(g.t, "ovfN")), "s")
			} else {
				unit := rapid.SampledFrom([]string{"s", "m", "h", "d", "w", "M", "y", "S", "H"}).Draw(g.t, "gbUnit")
				n := int64(rapid.SampledFrom([]int{0, 1, 1, 5, 10, 30, 45, 60, 90, 1500, 3600, 7}).Draw(g.t, "gbN"))
				g.duration(rapid.SampledFrom([]string{"", "", "", "+", "-"}).Draw(g.t, "gbSign"), n, unit)
			}
			g.p(")")
			g.kinds["interval"] = true
		case 1: // T_TIME ( )
			g.kw("time")
			g.p("(")
			g.p(")")
			g.kinds["interval"] = true
		default:
			g.ident("groupKey", tagPool, false)
			g.kinds["groupBy"] = true
		}
	}
	if g.chance(15, "fill") {
		g.kw("fill")
		g.p("(")
		switch rapid.IntRange(0, 3).Draw(g.t, "fillOpt") {
		case 0:
			g.w(rapid.SampledFrom([]string{"NULL", "Null", "nulL"}).Draw(g.t, "fillNull")) // lower case `null` is the JSON token
		case 1:
			g.kw("previous")
		case 2:
			g.w(g.digits("fillInt", 1, 4))
		default:
			g.w(g.digits("fillDecI", 1, 3) + "." + g.digits("fillDecF", 1, 3))
		}
		g.p(")")
	}
	if g.wide == "having" || g.chance(45, "having") {
		g.kw("having")
		g.inHaving = true
		if g.wide == "having" {
			g.wideBoolExpr()
		} else {
			g.boolExpr(g.maxDepth)
		}
		g.inHaving = false
		g.kinds["having"] = true
	}
}

// ---- order by -----------------------------------------------------------------------------

func (g *sqlGen) canOrderBy() bool { return len(g.fieldCands) > 0 }

func (g *sqlGen) orderBy() {
	g.kw("order")
	g.kw("by")
	n := rapid.SampledFrom([]int{1, 1, 2, 3}).Draw(g.t, "nOrderBy")
	if g.wide == "orderBy" {
		n = g.wideN
		g.wideDone = true
	}
	for i := 0; i < n; i++ {
		if i > 0 {
			g.p(",")
		}
		pickField := func() {
			g.toks = append(g.toks, g.fieldCands[rapid.IntRange(0, len(g.fieldCands)-1).Draw(g.t, "obField")]...)
		}
		k := rapid.IntRange(0, 9).Draw(g.t, "obKind")
		switch {
		case g.emptyAlias && k == 9:
			// with fieldNames[""] present check() lets an expression that is neither a field
			// nor a call through -- and the listener never attaches it to the order by item.
			g.edges[sigNilOperand] = true
			g.p("(")
			g.atom(false)
			g.p(")")
		case k <= 3:
			pickField()
		case k <= 6 || len(g.topCalls) == 0: // f( field )
			g.kw(rapid.SampledFrom(orderByFuncs).Draw(g.t, "obFunc"))
			g.p("(")
			pickField()
			g.p(")")
		default: // f( <a top level call of the select list> ): its Rewrite() is a known field name
			g.kw(rapid.SampledFrom(orderByFuncs).Draw(g.t, "obFunc"))
			g.p("(")
			g.toks = append(g.toks, g.topCalls[rapid.IntRange(0, len(g.topCalls)-1).Draw(g.t, "obCall")]...)
			g.p(")")
		}
		for j := rapid.SampledFrom([]int{0, 0, 1, 1, 2}).Draw(g.t, "nDir"); j > 0; j-- {
			g.kw(rapid.SampledFrom([]string{"asc", "desc"}).Draw(g.t, "dir"))
		}
	}
	g.kinds["orderBy"] = true
}

// ---- statement ------------------------------------------------------------------------------

func (g *sqlGen) from() {
	g.kw("from")
	g.ident("metric", metricPool, true)
	if g.chance(30, "onNs") {
		g.kw("on")
		g.ident("ns", nsPool, false)
		g.kinds["namespace"] = true
	}
}

// queryStmt emits one statement of rule queryStmt.
func (g *sqlGen) queryStmt() {
	if g.chance(15, "explain") {
		g.kw("explain")
		g.kinds["explain"] = true
	}
	if g.chance(15, "fromFirst") {
		g.from()
		g.kw("select")
		g.selectList()
	} else {
		g.kw("select")
		g.selectList()
		g.from()
	}
	if g.wide == "where" || g.wide == "in" || g.chance(70, "hasWhere") {
		g.where()
	}
	if g.wide == "having" || g.wide == "groupBy" || g.chance(50, "hasGroupBy") {
		g.groupBy()
	}
	if g.canOrderBy() && (g.wide == "orderBy" || g.chance(40, "hasOrderBy")) {
		g.orderBy()
	}
	if g.chance(40, "hasLimit") {
		g.kw("limit")
		switch rapid.IntRange(0, 5).Draw(g.t, "limitKind") {
		case 0:
			g.w(rapid.SampledFrom([]string{"0", "1", "007", "2147483647", "20", "100"}).Draw(g.t, "limitEdge"))
		default:
			g.w(fmt.Sprint(rapid.IntRange(0, 100000).Draw(g.t, "limit")))
		}
		g.kinds["limit"] = true
	}
	if g.chance(5, "withValue") {
		g.kw("withvalue")
	}
}

// metadataStmt emits one of the show statements that produce *stmt.MetricMetadata.
func (g *sqlGen) metadataStmt() string {
	g.kw("show")
	limit := func() {
		if g.chance(50, "mdLimit") {
			g.kw("limit")
			g.w(fmt.Sprint(rapid.IntRange(0, 100000).Draw(g.t, "mdLimitN")))
			g.kinds["limit"] = true
		}
	}
	kind := rapid.SampledFrom([]string{"namespaces", "metrics", "fields", "tagKeys", "tagValues", "tagValues", "tagValues"}).Draw(g.t, "mdKind")
	if g.wide != "" {
		// the only clause of a metadata statement that can be wide is the condition of show tag values
		kind = "tagValues"
		if g.wide != "in" {
			g.wide = "where"
		}
	}
	switch kind {
	case "namespaces":
		g.kw("namespaces")
		if g.chance(50, "mdPrefix") {
			g.kw("where")
			g.kw("namespace")
			g.p("=")
			g.ident("prefix", nsPool, false)
			g.kinds["prefix"] = true
		}
		limit()
	case "metrics":
		g.kw("metrics")
		if g.chance(40, "mdOn") {
			g.kw("on")
			g.ident("ns", nsPool, false)
			g.kinds["namespace"] = true
		}
		if g.chance(50, "mdPrefix") {
			g.kw("where")
			g.kw("metric")
			g.p("=")
			g.ident("prefix", metricPool, false)
			g.kinds["prefix"] = true
		}
		limit()
	case "fields":
		g.kw("fields")
		g.from()
	case "tagKeys":
		g.kw("tag")
		g.kw("keys")
		g.from()
	default:
		g.kw("tag")
		g.kw("values")
		g.from()
		g.kw("with")
		g.kw("key")
		g.p("=")
		g.ident("withKey", tagPool, false)
		if g.wide != "" || g.chance(70, "mdWhere") {
			g.where()
		}
		limit()
	}
	return kind
}

// sizeClasses: the labels of the size class of a generated text.
func (g *sqlGen) sizeClasses() []string {
	if !g.wideDone {
		return nil
	}
	return []string{"wide=" + g.wide, "wide:any", fmt.Sprintf("wideN=%s", sizeBucket(g.wideN))}
}

func sizeBucket(n int) string {
	switch {
	case n < 16:
		return "000..15"
	case n < 32:
		return "016..31"
	case n < 64:
		return "032..63"
	case n < 128:
		return "064..127"
	default:
		return "128.."
	}
}
