package c17

// (b) expression trees and statements built directly, i.e. not through the parser: every node
// kind of sql/stmt/expr.go in every position the Go types allow (the planner and API clients are
// free to build trees the grammar cannot derive: a NotExpr around a parenthesis, a SelectItem
// inside a call, a tag filter under an arithmetic operator, quantile(0.99) as "p99", ...).
//
// Soundness of the domain: children are never nil (no producer builds half a node; Rewrite()
// itself would panic), strings are valid UTF-8 (statements come from Go string literals or from
// the ANTLR rune stream, which is valid UTF-8), numbers are finite (JSON has no Inf/NaN and no
// producer in /repo creates them: literals come from strconv.ParseFloat of digits or are
// constants), Interval/StorageInterval are whole seconds (durations of the grammar and the
// database options are, and Interval's JSON form is its String()).

import (
	"fmt"
	"math"
	"strings"
	"testing"
	"unicode/utf8"

	"pgregory.net/rapid"

	"github.com/lindb/lindb/aggregation/function"
	"github.com/lindb/lindb/pkg/timeutil"
	"github.com/lindb/lindb/sql/stmt"
	"github.com/lindb/lindb/verifharness/sim/ev"
)

var allFuncTypes = []function.FuncType{function.Unknown, function.Sum, function.Min, function.Max, function.Count, function.Avg,
	function.Last, function.First, function.Quantile, function.Stddev, function.Rate}

var allBinaryOps = []stmt.BinaryOP{stmt.AND, stmt.OR, stmt.ADD, stmt.SUB, stmt.MUL, stmt.DIV, stmt.EQUAL, stmt.NOTEQUAL,
	stmt.GREATER, stmt.GREATEREQUAL, stmt.LESS, stmt.LESSEQUAL, stmt.LIKE, stmt.UNKNOWN}

var stringCorpus = []string{"", "f", "host", "cpu.load", "a b", "192.168.1.*", "it's", "say \"hi\"", "back\\slash", "tab\tnl\n", "<script>&amp;</script>",
	"  ", "\x00\x01\x1f\x7f", "中文", "\U0001F600", "null", "true", "{\"type\":\"field\"}", "[]", "\\u0041", "'quoted'", "`q`", "%", "�"}

func genString(t *rapid.T, label string) string {
	switch rapid.IntRange(0, 3).Draw(t, label+"Kind") {
	case 0:
		return rapid.SampledFrom(stringCorpus).Draw(t, label+"Corpus")
	case 1:
		s := rapid.String().Draw(t, label+"Any")
		if !utf8.ValidString(s) {
			t.Fatalf("harness: rapid.String() produced invalid UTF-8")
		}
		return s
	default:
		return rapid.StringMatching(`[a-zA-Z_][a-zA-Z0-9_.]{0,8}`).Draw(t, label+"Ident")
	}
}

func genFloat(t *rapid.T, label string) float64 {
	switch rapid.IntRange(0, 5).Draw(t, label+"Kind") {
	case 0:
		return rapid.SampledFrom([]float64{0, 1, -1, 0.5, 0.9, 0.95, 0.99, 0.999, 100, 1e21, 1e-7, 1e-6, 123456789012345678, math.MaxFloat64,
			math.SmallestNonzeroFloat64, -math.MaxFloat64, math.Copysign(0, -1), 1 << 53, 1<<53 + 2, 0.1 + 0.2, 1.0 / 3}).Draw(t, label+"Corpus")
	case 1:
		return float64(rapid.Int64().Draw(t, label+"Int"))
	case 2:
		return float64(rapid.IntRange(-100000, 100000).Draw(t, label+"Milli")) / 1000
	default:
		f := rapid.Float64().Draw(t, label+"Any")
		if math.IsInf(f, 0) || math.IsNaN(f) {
			return 0
		}
		return f
	}
}

// genExpr builds a tree of at most depth levels; leafy controls how often recursion stops early.
func genExpr(t *rapid.T, depth int) stmt.Expr {
	var kind int
	if depth <= 1 {
		kind = rapid.SampledFrom([]int{1, 5, 6, 7, 8, 10, 2}).Draw(t, "leafKind") // a call without parameters is a leaf too
	} else {
		// composite kinds twice as often as leaves (rapid's SampledFrom is roughly uniform)
		kind = rapid.SampledFrom([]int{0, 2, 3, 4, 9, 11, 0, 2, 3, 4, 9, 11, 2, 4, 1, 5, 6, 7, 8, 10}).Draw(t, "kind")
	}
	switch kind {
	case 0:
		return &stmt.SelectItem{Expr: genExpr(t, depth-1), Alias: genString(t, "alias")}
	case 1:
		return &stmt.FieldExpr{Name: genString(t, "name")}
	case 2:
		n := rapid.SampledFrom([]int{0, 1, 1, 1, 2, 3}).Draw(t, "nParams")
		if depth <= 1 {
			n = 0
		}
		c := &stmt.CallExpr{FuncType: rapid.SampledFrom(allFuncTypes).Draw(t, "funcType")}
		switch {
		case n > 0:
			for i := 0; i < n; i++ {
				c.Params = append(c.Params, genExpr(t, depth-1))
			}
		case rapid.Bool().Draw(t, "emptyNotNil"):
			c.Params = []stmt.Expr{}
		}
		return c
	case 3:
		return &stmt.ParenExpr{Expr: genExpr(t, depth-1)}
	case 4:
		return &stmt.BinaryExpr{Left: genExpr(t, depth-1), Operator: rapid.SampledFrom(allBinaryOps).Draw(t, "op"), Right: genExpr(t, depth-1)}
	case 5:
		return &stmt.EqualsExpr{Key: genString(t, "key"), Value: genString(t, "value")}
	case 6:
		return &stmt.LikeExpr{Key: genString(t, "key"), Value: genString(t, "value")}
	case 7:
		e := &stmt.InExpr{Key: genString(t, "key")}
		n := rapid.SampledFrom([]int{0, 1, 1, 2, 5}).Draw(t, "nValues")
		switch {
		case n > 0:
			for i := 0; i < n; i++ {
				e.Values = append(e.Values, genString(t, "value"))
			}
		case rapid.Bool().Draw(t, "emptyNotNil"):
			e.Values = []string{}
		}
		return e
	case 8:
		return &stmt.RegexExpr{Key: genString(t, "key"), Regexp: genString(t, "regexp")}
	case 9:
		return &stmt.NotExpr{Expr: genExpr(t, depth-1)}
	case 10:
		return &stmt.NumberLiteral{Val: genFloat(t, "val")}
	default:
		return &stmt.OrderByExpr{Expr: genExpr(t, depth-1), Desc: rapid.Bool().Draw(t, "desc")}
	}
}

// ---- size class: many nodes in one tree ------------------------------------------------------------
//
// genExpr bounds the DEPTH, and with it the size (a few dozen nodes). genWideExpr builds one tree
// with n terms, n from a ladder up to 100, in the shapes producers in /repo build:
//
//	rightChain : app/broker/api/prometheus/util.go makeCondition/walkMatcher: one EqualsExpr per label
//	             matcher, hung into a right-deep chain of BinaryExpr
//	leftChain  : what the listener builds for `a or b or c ...` / `f0+f1+f2 ...`
//	balanced   : a balanced binary tree over the terms (log n levels)
//	call       : one CallExpr with n params
//	in         : one InExpr with n values
//	nest       : n wrappers (paren / not / selectItem / orderBy) around one term
//
// terms are small trees of genExpr (depth 1, sometimes 2).
var wideExprShapes = []string{"rightChain", "rightChain", "leftChain", "leftChain", "balanced", "call", "in", "nest"}

var wideExprLadder = []int{2, 8, 16, 31, 32, 33, 34, 48, 63, 64, 65, 66, 80, 100}

func genWideExpr(t *rapid.T) (stmt.Expr, string) {
	shape := rapid.SampledFrom(wideExprShapes).Draw(t, "wideShape")
	n := rapid.SampledFrom(wideExprLadder).Draw(t, "wideN")
	term := func() stmt.Expr {
		if rapid.IntRange(0, 7).Draw(t, "termDeep") == 0 {
			return genExpr(t, 2)
		}
		return genExpr(t, 1)
	}
	op := func() stmt.BinaryOP {
		// makeCondition uses ADD for every link; parsed conditions use AND/OR
		return rapid.SampledFrom([]stmt.BinaryOP{stmt.ADD, stmt.AND, stmt.OR, stmt.AND, stmt.SUB, stmt.MUL}).Draw(t, "chainOp")
	}
	switch shape {
	case "rightChain":
		sameOp := rapid.Bool().Draw(t, "sameOp")
		first := op()
		terms := make([]stmt.Expr, n)
		for i := range terms {
			if sameOp { // the prometheus shape: equals filters only
				terms[i] = &stmt.EqualsExpr{Key: genString(t, "key"), Value: genString(t, "value")}
			} else {
				terms[i] = term()
			}
		}
		e := terms[n-1]
		for i := n - 2; i >= 0; i-- {
			o := first
			if !sameOp {
				o = op()
			}
			e = &stmt.BinaryExpr{Left: terms[i], Operator: o, Right: e}
		}
		return e, shape
	case "leftChain":
		e := term()
		for i := 1; i < n; i++ {
			e = &stmt.BinaryExpr{Left: e, Operator: op(), Right: term()}
		}
		return e, shape
	case "balanced":
		var build func(k int) stmt.Expr
		build = func(k int) stmt.Expr {
			if k <= 1 {
				return term()
			}
			return &stmt.BinaryExpr{Left: build(k / 2), Operator: op(), Right: build(k - k/2)}
		}
		return build(n), shape
	case "call":
		c := &stmt.CallExpr{FuncType: rapid.SampledFrom(allFuncTypes).Draw(t, "funcType")}
		for i := 0; i < n; i++ {
			c.Params = append(c.Params, term())
		}
		return c, shape
	case "in":
		e := &stmt.InExpr{Key: genString(t, "key")}
		for i := 0; i < n; i++ {
			e.Values = append(e.Values, genString(t, "value"))
		}
		return e, shape
	default:
		e := term()
		for i := 0; i < n; i++ {
			switch rapid.IntRange(0, 5).Draw(t, "wrapper") {
			case 0:
				e = &stmt.NotExpr{Expr: e}
			case 1:
				e = &stmt.SelectItem{Expr: e, Alias: genString(t, "alias")}
			case 2:
				e = &stmt.OrderByExpr{Expr: e, Desc: rapid.Bool().Draw(t, "desc")}
			default:
				e = &stmt.ParenExpr{Expr: e}
			}
		}
		return e, "nest"
	}
}

// wideExprPercent of the directly built trees / statements carry one wide tree.
const wideExprPercent = 3

func drawWide(t *rapid.T) bool {
	u := rapid.Uint64().Draw(t, "wide")
	return u != 0 && mix64(u)%100 < wideExprPercent
}

func TestExprTreeRoundTrip(t *testing.T) {
	rapid.Check(t, func(t *rapid.T) {
		var e stmt.Expr
		var sizeClass []string
		if drawWide(t) {
			var shape string
			e, shape = genWideExpr(t)
			sizeClass = []string{"wide=" + shape, "wide:any"}
		} else {
			depth := rapid.SampledFrom([]int{1, 2, 3, 3, 4, 4, 5, 5, 6}).Draw(t, "depth")
			e = genExpr(t, depth)
		}
		checkExprWire(t, "expression tree", e)
		kinds := map[string]bool{}
		nodeKinds(e, kinds)
		d := exprDepth(e)
		nKinds := 0
		for k := range kinds {
			if !strings.HasPrefix(k, "op=") && !strings.HasPrefix(k, "func=") {
				nKinds++
			}
		}
		data := stmt.Marshal(e)
		dl := fmt.Sprintf("depth=%d", d)
		if d > 12 {
			dl = "depth>12"
		}
		classes := append(sortedKeys(kinds, "node="), dl)
		classes = append(classes, sizeClass...)
		classes = append(classes, sizeLabels(exprNodes(e), exprFanout(e))...)
		ev.Case("TestExprTreeRoundTrip", string(data), d >= 3 && nKinds >= 3, classes, map[string]any{"json": string(data), "depth": d})
	})
}

// genSeconds draws an interval that is a whole number of seconds.
func genSeconds(t *rapid.T, label string) timeutil.Interval {
	switch rapid.IntRange(0, 3).Draw(t, label+"Kind") {
	case 0:
		return 0
	case 1:
		return timeutil.Interval(rapid.SampledFrom([]int64{1, 10, 60, 300, 3600, 86400, 7 * 86400, 30 * 86400, 365 * 86400, 90, 1500, 31 * 86400}).Draw(t, label+"Common") * 1000)
	default:
		return timeutil.Interval(rapid.Int64Range(-100000, 400*86400).Draw(t, label+"Sec") * 1000)
	}
}

// TestPlannedStatementRoundTrip: statements as a planner (or an API client) may build them, with
// every broker-side field set, and metadata statements, through the production (un)marshallers.
func TestPlannedStatementRoundTrip(t *testing.T) {
	rapid.Check(t, func(t *rapid.T) {
		depth := rapid.SampledFrom([]int{1, 2, 3, 4, 5}).Draw(t, "depth")
		// size class: one slot of the statement is wide (a wide tree as condition / having / first
		// select item / first order by item, or a long select / order by / group by list)
		wideSlot := ""
		if drawWide(t) {
			wideSlot = rapid.SampledFrom([]string{"cond", "cond", "having", "nSelect", "nOrderBy", "selectList", "orderByList", "groupByList"}).Draw(t, "wideSlot")
		}
		var sizeClass []string
		wideTree := func() stmt.Expr {
			e, shape := genWideExpr(t)
			sizeClass = []string{"wide=" + wideSlot + "/" + shape, "wide:any"}
			return e
		}
		optExpr := func(label string) stmt.Expr {
			if label == wideSlot {
				return wideTree()
			}
			if rapid.IntRange(0, 3).Draw(t, label) == 0 {
				return nil
			}
			return genExpr(t, depth)
		}
		exprList := func(label string) []stmt.Expr {
			n := rapid.SampledFrom([]int{0, 0, 1, 1, 2, 3}).Draw(t, label)
			if label == wideSlot {
				// the first entry is the wide tree
				out := []stmt.Expr{wideTree()}
				for i := 1; i < n; i++ {
					out = append(out, genExpr(t, depth))
				}
				return out
			}
			if (label == "nSelect" && wideSlot == "selectList") || (label == "nOrderBy" && wideSlot == "orderByList") {
				n = rapid.SampledFrom(wideExprLadder).Draw(t, "wideN")
				sizeClass = []string{"wide=" + wideSlot, "wide:any"}
				var out []stmt.Expr
				for i := 0; i < n; i++ {
					out = append(out, genExpr(t, rapid.IntRange(1, 2).Draw(t, "entryDepth")))
				}
				return out
			}
			if n == 0 {
				if rapid.Bool().Draw(t, label+"EmptyNotNil") {
					return []stmt.Expr{}
				}
				return nil
			}
			var out []stmt.Expr
			for i := 0; i < n; i++ {
				out = append(out, genExpr(t, depth))
			}
			return out
		}
		if rapid.IntRange(0, 3).Draw(t, "metadata") == 0 {
			m := &stmt.MetricMetadata{
				Namespace:  genString(t, "ns"),
				MetricName: genString(t, "metric"),
				Type:       stmt.MetricMetadataType(rapid.IntRange(0, 6).Draw(t, "type")),
				TagKey:     genString(t, "tagKey"),
				Prefix:     genString(t, "prefix"),
				Condition:  optExpr("cond"),
				Limit:      rapid.IntRange(0, math.MaxInt32).Draw(t, "limit"),
			}
			checkMetaWire(t, "metadata statement", m)
			payload, _ := m.MarshalJSON()
			d := exprDepth(m.Condition)
			classes := append([]string{"metadata", depthLabel(d)}, sizeClass...)
			classes = append(classes, sizeLabels(exprNodes(m.Condition), exprFanout(m.Condition))...)
			ev.Case("TestPlannedStatementRoundTrip", string(payload), d >= 3, classes, map[string]any{"payload": string(payload)})
			return
		}
		q := &stmt.Query{
			Explain:         rapid.Bool().Draw(t, "explain"),
			Namespace:       genString(t, "ns"),
			MetricName:      genString(t, "metric"),
			SelectItems:     exprList("nSelect"),
			AllFields:       rapid.Bool().Draw(t, "allFields"),
			Condition:       optExpr("cond"),
			TimeRange:       timeutil.TimeRange{Start: rapid.Int64().Draw(t, "start"), End: rapid.Int64().Draw(t, "end")},
			Interval:        genSeconds(t, "interval"),
			StorageInterval: genSeconds(t, "storageInterval"),
			IntervalRatio:   rapid.IntRange(0, 100000).Draw(t, "ratio"),
			AutoGroupByTime: rapid.Bool().Draw(t, "autoGroupByTime"),
			Having:          optExpr("having"),
			OrderByItems:    exprList("nOrderBy"),
			Limit:           rapid.IntRange(0, math.MaxInt32).Draw(t, "limit"),
		}
		nGroupBy := rapid.SampledFrom([]int{0, 0, 1, 2, 3}).Draw(t, "nGroupBy")
		if wideSlot == "groupByList" {
			nGroupBy = rapid.SampledFrom(wideExprLadder).Draw(t, "wideN")
			sizeClass = []string{"wide=" + wideSlot, "wide:any"}
		}
		for i := 0; i < nGroupBy; i++ {
			q.GroupBy = append(q.GroupBy, genString(t, "groupBy"))
		}
		if q.GroupBy == nil && rapid.Bool().Draw(t, "groupByEmptyNotNil") {
			q.GroupBy = []string{}
		}
		checkQueryWire(t, "built statement", q)
		payload, _ := q.MarshalJSON()
		d := queryDepth(q)
		nk := 0
		for _, b := range []bool{len(q.SelectItems) > 0, q.Condition != nil, q.Having != nil, len(q.OrderByItems) > 0, len(q.GroupBy) > 0,
			q.Interval != 0, q.StorageInterval != 0, q.Limit != 0, q.Explain} {
			if b {
				nk++
			}
		}
		classes := append([]string{"query", depthLabel(d), fmt.Sprintf("fieldsSet=%d", nk)}, sizeClass...)
		classes = append(classes, sizeLabels(querySize(q))...)
		ev.Case("TestPlannedStatementRoundTrip", string(payload), d >= 3 && nk >= 3, classes, map[string]any{"payload": string(payload)})
	})
}

func depthLabel(d int) string {
	if d > 12 {
		return "depth>12"
	}
	return fmt.Sprintf("depth=%d", d)
}
