package c17

// Operator census: does the statement carry what the text says? INFORMATIONAL ONLY.
//
// C17 states determinism of sql.Parse and the wire round trip of the parsed statement; it does not
// state that the parsed tree reflects the text. Nothing in this file can fail a test: a mismatch is
// counted in the evidence (class census:mismatch, a sample in the notes) and logged.
//
// The wire round trip and the determinism comparison both compare a parsed statement with another
// rendering of ITSELF, so a listener that maps a token to the wrong (or to no) member of the
// statement model is invisible to them: `having f >= 1` parsed with Operator 0 travels to the leaf
// unchanged and is "equal" on both sides. The generator knows which operator and function tokens it
// wrote into the select list and into the having clause (sqlGen.census); the expression trees the
// parser built for these two clauses must hold exactly the same multiset of BinaryExpr operators
// (rule binaryOperator / boolExprLogicalOp / the arithmetic alternatives of fieldExpr, by
// stmt.BinaryOPString) and of CallExpr function types (rule funcName, by function.FuncType.String).
// Precedence and associativity do not matter for a multiset, so the oracle needs no model of the
// tree shape. Statements with a deliberately malformed shape (g.edges) are left out: there the
// listener drops operands.

import (
	"fmt"
	"sort"
	"strings"

	"github.com/lindb/lindb/sql/stmt"
)

// treeCensus adds the operators and functions of the tree to m under the region prefix.
func treeCensus(region string, e stmt.Expr, m map[string]int) {
	if isNilExpr(e) {
		return
	}
	switch x := e.(type) {
	case *stmt.SelectItem:
		treeCensus(region, x.Expr, m)
	case *stmt.OrderByExpr:
		treeCensus(region, x.Expr, m)
	case *stmt.CallExpr:
		m[region+"fn="+x.FuncType.String()]++
		for _, p := range x.Params {
			treeCensus(region, p, m)
		}
	case *stmt.ParenExpr:
		treeCensus(region, x.Expr, m)
	case *stmt.NotExpr:
		treeCensus(region, x.Expr, m)
	case *stmt.BinaryExpr:
		m[region+"op="+stmt.BinaryOPString(x.Operator)]++
		treeCensus(region, x.Left, m)
		treeCensus(region, x.Right, m)
	case *stmt.FieldExpr:
		m[region+"atom=field"]++
	case *stmt.NumberLiteral:
		m[region+"atom=number"]++
	default:
		// a tag filter node has no place in a select item / having expression
		m[region+"node="+strings.TrimPrefix(fmt.Sprintf("%T", e), "*stmt.")]++
	}
}

func censusString(m map[string]int) string {
	keys := make([]string, 0, len(m))
	for k, n := range m {
		if n != 0 {
			keys = append(keys, k)
		}
	}
	sort.Strings(keys)
	var sb strings.Builder
	for _, k := range keys {
		fmt.Fprintf(&sb, "%s x%d ", k, m[k])
	}
	return strings.TrimSpace(sb.String())
}

// censusMismatch compares the tokens the generator wrote with the trees of the parsed statement;
// "" when they agree.
func censusMismatch(g *sqlGen, q *stmt.Query, text string) string {
	got := map[string]int{}
	for _, e := range q.SelectItems {
		treeCensus("sel|", e, got)
	}
	treeCensus("hav|", q.Having, got)
	want, have := censusString(g.census), censusString(got)
	if want != have {
		return fmt.Sprintf("text: %s | statement: %s | sql: %s", want, have, text)
	}
	return ""
}

// censusClasses: evidence classes of the census of one statement.
func censusClasses(g *sqlGen) []string {
	set := map[string]bool{}
	for k, n := range g.census {
		if n > 0 {
			set[k] = true
		}
	}
	out := sortedKeys(set, "census:")
	if len(out) > 0 {
		out = append(out, "census:checked")
	}
	return out
}
