package c12

import (
	"bytes"
	"fmt"
	"runtime/debug"

	protoMetricsV1 "github.com/lindb/common/proto/gen/v1/linmetrics"

	"github.com/lindb/lindb/models"
	"github.com/lindb/lindb/pkg/timeutil"
	"github.com/lindb/lindb/series/metric"
	"github.com/lindb/lindb/verifharness/sim/node"
)

// routed is what one ingestion request becomes on the broker: rows per (shard index, family).
type routed struct {
	shard      models.ShardID
	familyTime int64
	block      []byte
	rows       int
}

// routeBatch runs one ingestion request through the production broker path: proto metric ->
// flat row (BrokerRowProtoConverter.ConvertTo, the converter of the write handler) -> BrokerBatchRows ->
// NewShardGroupIterator(numOfShards) (jump hash of the tags hash; what databaseChannel.Write calls) ->
// per shard the family iterator -> the bytes BrokerRow.WriteTo hands to the family channel.
func routeBatch(ms []*protoMetricsV1.Metric, numOfShards int, interval timeutil.Interval) ([]routed, error) {
	// not from the pool: the rows of the request are the only rows the batch ever held
	return routeBatchIn(&metric.BrokerBatchRows{}, ms, numOfShards, interval)
}

// poolUse says what the pool handed out for one request.
type poolUse struct {
	backing int // rows the batch object held before (0: a batch that never held a row)
	rows    int // rows of this request
}

// routeBatchPooled is routeBatch with the batch object of the ingestion handlers: taken from the process-wide
// pool (metric.NewBrokerBatchRows: the previous occupant's rows stay in the backing slice behind the live
// rows), routed, handed to the family writers as bytes, and released to the pool again (what
// ChannelManager.Write's caller does when the write returns).
func routeBatchPooled(ms []*protoMetricsV1.Metric, numOfShards int, interval timeutil.Interval) ([]routed, poolUse, error) {
	batch := metric.NewBrokerBatchRows()
	use := poolUse{backing: cap(batch.Rows()), rows: len(ms)}
	defer batch.Release()
	out, err := routeBatchIn(batch, ms, numOfShards, interval)
	return out, use, err
}

// isolatePool makes the pool a function of the case: whether sync.Pool hands a released batch out again depends
// on the garbage collector, so the collector is off while the requests of one layout are written (a released
// batch is then certainly the next one handed out on this goroutine), and the pool is emptied first so that
// nothing leaks in from an earlier case. Correctness on the unchanged tree does not depend on either.
func isolatePool() (restore func()) {
	old := debug.SetGCPercent(-1)
	for i := 0; i < 1000; i++ {
		b := metric.NewBrokerBatchRows()
		if cap(b.Rows()) == 0 { // a batch that never held a row: the pool is empty now
			break
		}
	}
	return func() { debug.SetGCPercent(old) }
}

func routeBatchIn(batch *metric.BrokerBatchRows, ms []*protoMetricsV1.Metric, numOfShards int, interval timeutil.Interval) ([]routed, error) {
	conv := metric.NewProtoConverter(models.NewDefaultLimits())
	for _, m := range ms {
		m := m
		if err := batch.TryAppend(func(row *metric.BrokerRow) error { return conv.ConvertTo(m, row) }); err != nil {
			return nil, fmt.Errorf("harness: metric %s rejected by the converter: %w", m.Name, err)
		}
	}
	var out []routed
	it := batch.NewShardGroupIterator(int32(numOfShards))
	for it.HasRowsForNextShard() {
		shardIdx, famIt := it.FamilyRowsForNextShard(interval)
		for famIt.HasNextFamily() {
			familyTime, rows := famIt.NextFamily()
			var buf bytes.Buffer
			for i := range rows {
				if _, err := rows[i].WriteTo(&buf); err != nil {
					return nil, err
				}
			}
			out = append(out, routed{shard: models.ShardID(shardIdx), familyTime: familyTime, block: append([]byte(nil), buf.Bytes()...), rows: len(rows)})
		}
	}
	return out, nil
}

// writeBlock writes a routed block into the shard of the database the way the storage side does
// (StorageBatchRows.UnmarshalRows + DataFamily.WriteRows).
func writeBlock(n *node.Node, db string, r routed) error {
	shard, err := n.Shard(db, r.shard)
	if err != nil {
		return err
	}
	family, err := shard.GetOrCrateDataFamily(r.familyTime)
	if err != nil {
		return err
	}
	rows := metric.NewStorageBatchRows()
	rows.UnmarshalRows(r.block)
	if rows.Len() != r.rows {
		return fmt.Errorf("harness: %d rows decoded from %d", rows.Len(), r.rows)
	}
	return family.WriteRows(rows.Rows())
}
