package c12

// TestConcurrentResponseHandling: the "every arrival order of the leaf responses" half of the property
// when the responses arrive together. The root handles responses on a production worker pool with
// several workers (as the broker runtime does), the leaf responses of a query are handed to its task
// manager from one goroutine each, all released by a barrier at the same instant, and the payloads are
// deliberately asymmetric (one leaf with some thousand series, the others with 1-3) so that the
// handling of one response takes much longer than that of the others. How the workers interleave is
// not controlled: every query is repeated R times and every execution must give the answer of the
// 1-shard / 1-node layout. That oracle does not depend on the interleaving, so a single wrong
// execution is a violation (no re-execution rule here).

import (
	"fmt"
	"os"
	"strings"
	"testing"

	protoMetricsV1 "github.com/lindb/common/proto/gen/v1/linmetrics"
	"pgregory.net/rapid"

	"github.com/lindb/lindb/pkg/timeutil"
	"github.com/lindb/lindb/verifharness/sim/ev"
	"github.com/lindb/lindb/verifharness/sim/node"
)

const (
	concWorkers = 8 // the broker's query pool has several workers; >= 4 so that 4 leaf responses run together
	concLimit   = " limit 1000000"
)

type concCase struct {
	Leaves  int   `json:"leaves"`
	BigAt   int   `json:"bigLeaf"`   // index of the node (= position in the plan) with the big share
	BigN    int   `json:"bigSeries"` // series on the big node
	Tiny    []int `json:"tinySeries"`
	TwoKeys bool  `json:"hostAndZone"`
	Fields  []fieldDef
	MulV    int `json:"mulV"`
	AddV    int `json:"addV"`
	MulS    int `json:"mulS"`
	Second  int `json:"secondPointEvery"` // every k-th series gets a second row in a later request (0: none)
	Reps    int `json:"repetitions"`
}

func bucket(n int, bounds ...int) string {
	prev := 0
	for _, b := range bounds {
		if n < b {
			return fmt.Sprintf("%d..%d", prev, b-1)
		}
		prev = b
	}
	return fmt.Sprintf(">=%d", prev)
}

func genConcCase(t *rapid.T, maxBig, maxReps int) *concCase {
	c := &concCase{}
	c.Leaves = rapid.SampledFrom([]int{2, 2, 3, 3, 4, 4, 4}).Draw(t, "leaves")
	c.BigAt = rapid.IntRange(0, c.Leaves-1).Draw(t, "bigLeaf")
	// a fixed ladder (an integer range is drawn mostly near its lower end)
	var sizes []int
	for _, n := range []int{1500, 1800, 2200, 2600, 3000, 4000, 6000} {
		if n <= maxBig {
			sizes = append(sizes, n)
		}
	}
	c.BigN = rapid.SampledFrom(sizes).Draw(t, "bigSeries")
	for i := 0; i < c.Leaves; i++ {
		if i == c.BigAt {
			c.Tiny = append(c.Tiny, 0)
		} else {
			c.Tiny = append(c.Tiny, rapid.IntRange(1, 3).Draw(t, "tinySeries"))
		}
	}
	c.TwoKeys = rapid.Bool().Draw(t, "hostAndZone")
	// sum / min / max only: first/last over several series have no defined merge order
	c.Fields = [][]fieldDef{{{"s1", tSum}}, {{"mx", tMax}, {"s1", tSum}}, {{"mn", tMin}, {"s1", tSum}}}[rapid.IntRange(0, 2).Draw(t, "fields")]
	c.MulV = rapid.IntRange(1, 127).Draw(t, "mulV")
	c.AddV = rapid.IntRange(0, 128).Draw(t, "addV")
	c.MulS = rapid.IntRange(1, 17).Draw(t, "mulS")
	c.Second = rapid.SampledFrom([]int{0, 2, 3, 7}).Draw(t, "secondPointEvery")
	c.Reps = rapid.IntRange(maxReps/2, maxReps).Draw(t, "repetitions")
	return c
}

// dataset: one metric cpu in one data family; which series exist is chosen so that the production
// routing (one shard per node) puts BigN series on the big node and Tiny[i] on the others. Values and
// slots are a fixed function of the drawn parameters and the series number.
func (c *concCase) dataset(t fataler) (*dataset, *layoutSpec) {
	md := metricDef{Name: "cpu", TagKeys: []string{"host"}, Fields: c.Fields}
	if c.TwoKeys {
		md.TagKeys = []string{"host", "zone"}
	}
	d := &dataset{Metrics: []metricDef{md}}
	l := &layoutSpec{Shards: c.Leaves}
	want := make([]int, c.Leaves)
	for i := range want {
		l.Nodes = append(l.Nodes, []int{i})
		want[i] = c.Tiny[i]
	}
	want[c.BigAt] = c.BigN
	have := make([]int, c.Leaves)
	missing := c.BigN
	for _, w := range c.Tiny {
		missing += w
	}
	allFields := make([]int, len(c.Fields))
	for i := range allFields {
		allFields[i] = i
	}
	for cand := 0; missing > 0; cand++ {
		if cand > 40*c.BigN {
			t.Fatalf("harness: routing does not fill the nodes: %v of %v", have, want)
		}
		tags := map[string]string{"host": fmt.Sprintf("h%05d", cand)}
		if c.TwoKeys {
			tags["zone"] = []string{"za", "zb", "zc"}[cand%3]
		}
		rt, err := routeBatch([]*protoMetricsV1.Metric{pm("cpu", baseTime, tags, sf("x", protoMetricsV1.SimpleFieldType_DELTA_SUM, 1))}, l.Shards, timeutil.Interval(storageIntervalMs))
		if err != nil || len(rt) != 1 {
			t.Fatalf("harness: routing a single row: %v", err)
		}
		sh := int(rt[0].shard)
		if have[sh] >= want[sh] {
			continue
		}
		have[sh]++
		missing--
		d.Series = append(d.Series, seriesDef{Metric: 0, Tags: tags, Fields: allFields})
	}
	first := make([]point, 0, len(d.Series))
	var second []point
	for si := range d.Series {
		vals := func(k int) map[int]float64 {
			out := map[int]float64{}
			for fi := range c.Fields {
				out[fi] = float64((si*c.MulV+c.AddV+31*fi+k)%129-64) / 8
			}
			return out
		}
		slot := (si * c.MulS) % 9 // slots 0..8; a second row lies 9 slots later: all in the 10:00 family
		first = append(first, point{Series: si, Slot: slot, Off: int64(si % 10_000), Vals: vals(0)})
		if c.Second > 0 && si%c.Second == 0 {
			second = append(second, point{Series: si, Slot: slot + 9, Off: int64(si % 10_000), Vals: vals(17)})
		}
	}
	d.Batches = [][]point{first}
	if len(second) > 0 {
		d.Batches = append(d.Batches, second)
	}
	return d, l
}

func genConcQuery(t *rapid.T, c *concCase) (*querySpec, string) {
	q := &querySpec{Metric: 0, StartS: -60, EndS: 420}
	kind := rapid.SampledFrom([]string{"host", "host", "host", "host+time", "none", "none+time", "zone", "host+zone"}).Draw(t, "groupBy")
	if !c.TwoKeys {
		kind = strings.ReplaceAll(strings.ReplaceAll(kind, "host+zone", "host"), "zone", "host")
	}
	switch strings.TrimSuffix(kind, "+time") {
	case "host":
		q.GroupBy = []string{"host"}
	case "zone":
		q.GroupBy = []string{"zone"}
	case "host+zone":
		q.GroupBy = []string{"host", "zone"}
	}
	if strings.HasSuffix(kind, "+time") {
		q.Interval = rapid.SampledFrom([]int{30, 60, 300}).Draw(t, "interval")
	}
	n := rapid.IntRange(1, len(c.Fields)).Draw(t, "nItems")
	for _, fd := range rapid.Permutation(c.Fields).Draw(t, "itemFields")[:n] {
		fn := ""
		if rapid.Bool().Draw(t, "withFunc") {
			// the function that keeps the aggregate of the field type (sum(s1), max(mx), min(mn))
			fn = fd.Type.String()
		}
		q.Items = append(q.Items, selItem{Field: fd.Name, Func: fn})
	}
	return q, kind
}

// brief renders the observed responses without the group lists.
func brief(obs []respObs) string {
	var b strings.Builder
	for _, o := range obs {
		fmt.Fprintf(&b, "{%s -> %s: %s, %d series, %d bytes, refused=%v} ", o.From, o.Receiver, o.kind(), o.Series, o.Bytes, o.Dropped)
	}
	return b.String()
}

type concBudget struct{ maxBig, maxQueries, maxReps int }

func runConcurrentCase(t *rapid.T, group string, b concBudget) {
	c := genConcCase(t, b.maxBig, b.maxReps)
	nq := rapid.IntRange(1, b.maxQueries).Draw(t, "nQueries")
	var queries []*querySpec
	var kinds []string
	for i := 0; i < nq; i++ {
		q, kind := genConcQuery(t, c)
		queries = append(queries, q)
		kinds = append(kinds, kind)
	}

	dir, err := os.MkdirTemp("", "c12-")
	if err != nil {
		t.Fatalf("harness: %v", err)
	}
	defer os.RemoveAll(dir)
	n, err := node.Start(dir)
	if err != nil {
		t.Fatalf("harness: start engine: %v", err)
	}
	defer n.Close()
	d, l := c.dataset(t)
	caseSeq++
	e := &env{seq: caseSeq, t: t, group: group, n: n, nc: node.NewCluster(), xc: newXClusterPool(concWorkers, "root"),
		opt: node.DBOption(timeutil.Interval(storageIntervalMs)), d: d, sqlSuffix: concLimit}
	defer e.nc.Close()
	defer e.xc.Close()
	for i := 0; i < maxLeaves; i++ {
		e.nc.AddLeaf(leafName(i), n.Engine, fmt.Sprintf("@n%d", i))
		e.xc.AddLeaf(leafName(i), n.Engine, fmt.Sprintf("@n%d", i))
	}
	ref := &layoutSpec{Shards: 1, Nodes: [][]int{{0}}}
	e.build(0, ref)
	e.build(1, l)
	if e.retries > 0 {
		ev.Class(group, "info:layout-rewritten-after-failed-readback", e.retries)
	}
	desc := fmt.Sprintf("%+v", *c)

	for qi, q := range queries {
		sql := q.sql(d) + concLimit
		m := evalModel(d, q)
		// reference: 1 shard, 1 leaf (one response: nothing is concurrent at the root)
		e.xc.Concurrent = false
		rs, rerr := e.xc.Query("root:1", ref.db, sql)
		if rerr != nil {
			t.Fatalf("harness: the reference layout rejects %q: %v", sql, rerr)
		}
		want := node.Canon(rs)
		if msg := checkReference(want, m); msg != "" {
			t.Fatalf("reference layout (1 shard, 1 leaf) disagrees with the naive model\nquery: %s\n%s\ncase: %s", sql, msg, desc)
		}
		if len(m.ambiguous) > 0 {
			t.Fatalf("harness: order-ambiguous cells in a sum/min/max data set: %s", sql)
		}
		e.xc.Concurrent = true
		maxBytes, minBytes, withData := 0, -1, 0
		for r := 1; r <= c.Reps; r++ {
			rs, err := e.xc.Query("root:1", l.db, sql)
			obs := e.xc.observed()
			if msg, _ := diff(want, node.Canon(rs), err, m); msg != "" {
				t.Fatalf("C12 violated: the answer depends on how the root's workers interleave the handling of responses that arrive together\n"+
					"execution: %d of %d\nquery:     %s\nlayout:    %s (root pool of %d workers, %d responses released at the same instant)\nresponses: %s\n%s\ncase: %s",
					r, c.Reps, sql, l, concWorkers, c.Leaves, brief(obs), msg, desc)
			}
			if len(obs) != c.Leaves {
				t.Fatalf("harness: %d responses at the root, layout has %d leaves: %s", len(obs), c.Leaves, brief(obs))
			}
			if r > 1 {
				continue
			}
			for _, o := range obs {
				if o.Dropped {
					t.Fatalf("harness: a response was refused by the root: %s", brief(obs))
				}
				if o.kind() != "data" {
					t.Fatalf("harness: %s answered %s (every node holds series of the metric): %s", o.From, o.kind(), brief(obs))
				}
				withData++
				if o.Bytes > maxBytes {
					maxBytes = o.Bytes
				}
				if minBytes < 0 || o.Bytes < minBytes {
					minBytes = o.Bytes
				}
			}
		}
		e.xc.Concurrent = false
		ev.Class(group, "executions:concurrent-hand-over", c.Reps)
		classes := []string{
			fmt.Sprintf("layout:leaves=%d", c.Leaves),
			fmt.Sprintf("layout:big-leaf-is-target-number=%d", c.BigAt),
			"layout:big-leaf-series=" + bucket(c.BigN, 1500, 2000, 2500, 3000),
			"query:groupby=" + kinds[qi],
			"payload:largest-bytes=" + bucket(maxBytes, 1_000, 10_000, 50_000, 100_000, 200_000),
			"payload:smallest-bytes=" + bucket(minBytes, 100, 300, 1_000, 10_000),
			"payload:largest/smallest=" + bucket(maxBytes/(minBytes+1), 2, 10, 100, 1000),
			"repetitions=" + bucket(c.Reps, 12, 16, 20, 25),
			fmt.Sprintf("data:fields=%d", len(c.Fields)),
		}
		// non-trivial: >= 2 leaves answered with data and one payload is at least 100 times the smallest
		ev.Case(group, fmt.Sprintf("%s|%s", desc, sql), withData >= 2 && maxBytes >= 100*(minBytes+1), classes,
			map[string]any{"case": c, "query": sql, "layout": l, "largestPayload": maxBytes, "smallestPayload": minBytes})
	}
}

// TestConcurrentResponseHandling: see the comment at the top of the file.
func TestConcurrentResponseHandling(t *testing.T) {
	b := concBudget{maxBig: 3000, maxQueries: 3, maxReps: 24}
	rapid.Check(t, func(t *rapid.T) { runConcurrentCase(t, "TestConcurrentResponseHandling", b) })
}
