package c12

import (
	"context"
	"fmt"
	"os"
	"sort"
	"strings"
	"testing"
	"time"

	"github.com/lindb/common/pkg/encoding"
	protoMetricsV1 "github.com/lindb/common/proto/gen/v1/linmetrics"

	"github.com/lindb/lindb/coordinator/broker"
	"github.com/lindb/lindb/coordinator/discovery"
	"github.com/lindb/lindb/models"
	"github.com/lindb/lindb/pkg/timeutil"
	"github.com/lindb/lindb/rpc"
	"github.com/lindb/lindb/verifharness/sim/ev"
	"github.com/lindb/lindb/verifharness/sim/node"
)

// Plain reproductions (no rapid) of what the generated check found on the tree the harness was
// written against. A reproduction fails unless its signature is listed in known_findings.json.

const (
	sigReceiveOnly = "C12/group-by-plan-with-receive-only-targets"
	sigRootIsMid   = "C12/group-by-plan-root-is-computing-node"
	// timing dependent, found through C12's check although it is no layout dependence
	sigLeafReducesTwice = "C12/leaf-reduces-twice-when-two-families-finish-together"
)

func verdict(t *testing.T, sig string, reproduced bool, what string) {
	t.Helper()
	if !reproduced {
		return
	}
	if ev.Known(sig) {
		ev.KnownFinding("C12", sig+": "+strings.ReplaceAll(what, "\n", " | "))
		return
	}
	t.Fatalf("%s: %s", sig, what)
}

// fixture builds the reference layout (index 0) and the given layouts for a hand-written data set.
func fixture(t *testing.T, d *dataset, brokers []string, layouts ...*layoutSpec) (*env, []*layoutSpec) {
	t.Helper()
	dir, err := os.MkdirTemp("", "c12-")
	if err != nil {
		t.Fatal(err)
	}
	n, err := node.Start(dir)
	if err != nil {
		t.Fatal(err)
	}
	caseSeq++
	e := &env{seq: caseSeq, t: t, group: t.Name(), n: n, nc: node.NewCluster(), xc: newXCluster(brokers...), opt: node.DBOption(timeutil.Interval(storageIntervalMs)), d: d}
	t.Cleanup(func() {
		e.nc.Close()
		e.xc.Close()
		n.Close()
		os.RemoveAll(dir)
	})
	for i := 0; i < maxLeaves; i++ {
		e.nc.AddLeaf(leafName(i), n.Engine, fmt.Sprintf("@n%d", i))
		e.xc.AddLeaf(leafName(i), n.Engine, fmt.Sprintf("@n%d", i))
	}
	all := append([]*layoutSpec{{Shards: 1, Nodes: [][]int{{0}}}}, layouts...)
	for i, l := range all {
		e.build(i, l)
	}
	return e, all
}

// hostOn returns a host value whose series {host=<value>} of the metric is routed to the wanted
// shard (production routing), skipping values already taken.
func hostOn(t *testing.T, metric string, shards, want int, taken map[string]bool) string {
	t.Helper()
	for i := 0; i < 200; i++ {
		h := fmt.Sprintf("h%d", i)
		if taken[h] {
			continue
		}
		rt, err := routeBatch([]*protoMetricsV1.Metric{pm(metric, baseTime, map[string]string{"host": h}, sf("x", protoMetricsV1.SimpleFieldType_DELTA_SUM, 1))}, shards, timeutil.Interval(storageIntervalMs))
		if err != nil {
			t.Fatal(err)
		}
		if int(rt[0].shard) == want {
			taken[h] = true
			return h
		}
	}
	t.Fatalf("no host for shard %d of %d", want, shards)
	return ""
}

// tagsOn returns a tag set {key=<value>} whose series of the metric is routed to the wanted shard.
func tagsOn(t *testing.T, metric, key, prefix string, shards, want int) map[string]string {
	t.Helper()
	for i := 0; i < 200; i++ {
		tags := map[string]string{key: fmt.Sprintf("%s%d", prefix, i)}
		rt, err := routeBatch([]*protoMetricsV1.Metric{pm(metric, baseTime, tags, sf("x", protoMetricsV1.SimpleFieldType_DELTA_SUM, 1))}, shards, timeutil.Interval(storageIntervalMs))
		if err != nil {
			t.Fatal(err)
		}
		if int(rt[0].shard) == want {
			return tags
		}
	}
	t.Fatalf("no %s value for shard %d of %d", key, want, shards)
	return nil
}

func fullRange() string {
	return fmt.Sprintf("time>='%s' and time<='%s'", fmtTime(baseTime-60_000), fmtTime(baseTime+420_000))
}

func (e *env) direct(t *testing.T, db, sql string, order ...string) node.Result {
	t.Helper()
	e.xc.Compute = nil
	e.xc.Order = nil
	if len(order) > 0 {
		e.xc.Order = func(_ string, arrived []string) []string {
			if len(arrived) != len(order) {
				return arrived
			}
			return order
		}
	}
	rs, err := e.xc.Query("root:1", db, sql)
	if err != nil {
		t.Fatalf("%s on %s: %v", sql, db, err)
	}
	return node.Canon(rs)
}

// twoLeafData: metric cpu; series A {host=hA} reports s1 and la and lives on shard 0 of 2,
// series B {host=hB} reports s1 only and lives on shard 1 of 2.
func twoLeafData(t *testing.T) *dataset {
	taken := map[string]bool{}
	hA, hB := hostOn(t, "cpu", 2, 0, taken), hostOn(t, "cpu", 2, 1, taken)
	return &dataset{
		Metrics: []metricDef{{Name: "cpu", TagKeys: []string{"host"}, Fields: []fieldDef{{"la", tLast}, {"s1", tSum}}}},
		Series: []seriesDef{
			{Metric: 0, Tags: map[string]string{"host": hA}, Fields: []int{0, 1}},
			{Metric: 0, Tags: map[string]string{"host": hB}, Fields: []int{1}},
		},
		Batches: [][]point{{
			{Series: 0, Slot: 0, Vals: map[int]float64{0: 7, 1: 1}},
			{Series: 1, Slot: 0, Vals: map[int]float64{1: 2}},
		}},
	}
}

// A leaf that has rows of the metric but never saw one of the selected fields answers
// "field not found"; the root tolerates that as "this node has no data" and so drops the node's values
// of the other selected fields: the sum over both series is 3 on one node and 1 when the series
// live on two nodes.
func TestRegression_LeafMissingSelectedFieldDropsItsOtherFields(t *testing.T) {
	e, ls := fixture(t, twoLeafData(t), []string{"root"}, &layoutSpec{Shards: 2, Nodes: [][]int{{0}, {1}}})
	sql := "select s1, la from cpu where " + fullRange()
	ref := e.direct(t, ls[0].db, sql)
	got := e.direct(t, ls[1].db, sql)
	if ref[""]["s1"][baseTime] != 3 {
		t.Fatalf("harness: reference\n%s", ref)
	}
	verdict(t, sigFieldNotFound, !got.Equal(ref), fmt.Sprintf("%s\none node:\n%stwo nodes (second one has no field la): %+v\n%s", sql, ref, e.xc.observed(), got))
}

// The root (and an intermediate node) builds its aggregator from the field list of the first
// response with data; fields that only a later response carries are discarded.
func TestRegression_SelectStarFieldsDependOnFirstResponse(t *testing.T) {
	e, ls := fixture(t, twoLeafData(t), []string{"root"}, &layoutSpec{Shards: 2, Nodes: [][]int{{0}, {1}}})
	sql := "select * from cpu where " + fullRange()
	ref := e.direct(t, ls[0].db, sql)
	ab := e.direct(t, ls[1].db, sql, leafName(0), leafName(1))
	ba := e.direct(t, ls[1].db, sql, leafName(1), leafName(0))
	if !ab.Equal(ref) {
		t.Fatalf("harness: the order (node with both fields first) was expected to work:\n%s", ab)
	}
	verdict(t, sigSelectStar, !ba.Equal(ref), fmt.Sprintf("%s\nnode with fields la,s1 answers first:\n%snode with field s1 only answers first:\n%s", sql, ab, ba))
}

// fieldAggregator.Aggregate feeds every primitive stream of a partial result into every aggregate of
// the field: with two functions on one field (sum and max here) the sum grows with every merge level.
func TestRegression_TwoFunctionsOfOneFieldMixAggregates(t *testing.T) {
	taken := map[string]bool{}
	hA, hB := hostOn(t, "cpu", 2, 0, taken), hostOn(t, "cpu", 2, 1, taken)
	d := &dataset{
		Metrics: []metricDef{{Name: "cpu", TagKeys: []string{"host"}, Fields: []fieldDef{{"s1", tSum}}}},
		Series: []seriesDef{
			{Metric: 0, Tags: map[string]string{"host": hA}, Fields: []int{0}},
			{Metric: 0, Tags: map[string]string{"host": hB}, Fields: []int{0}},
		},
		Batches: [][]point{{{Series: 0, Slot: 0, Vals: map[int]float64{0: 2}}, {Series: 1, Slot: 0, Vals: map[int]float64{0: 1}}}},
	}
	e, ls := fixture(t, d, []string{"root", "mid0"}, &layoutSpec{Shards: 2, Nodes: [][]int{{0}, {1}}})
	sql := "select sum(s1), max(s1) from cpu where host in ('" + hA + "') and " + fullRange() + " group by host"
	ref := e.direct(t, ls[0].db, sql)
	two := e.direct(t, ls[1].db, sql)
	e.xc.Compute = []string{"mid0:1"}
	rs, err := e.xc.Query("root:1", ls[1].db, sql)
	if err != nil {
		t.Fatal(err)
	}
	mid := node.Canon(rs)
	key := "host=" + hA
	what := fmt.Sprintf("%s (one point, value 2)\n1 shard/1 leaf: sum=%v max=%v\n2 leaves: sum=%v max=%v\n2 leaves behind an intermediate node: sum=%v max=%v",
		sql, ref[key]["sum(s1)"][baseTime], ref[key]["max(s1)"][baseTime], two[key]["sum(s1)"][baseTime], two[key]["max(s1)"][baseTime],
		mid[key]["sum(s1)"][baseTime], mid[key]["max(s1)"][baseTime])
	verdict(t, sigMultiFunc, !mid.Equal(ref) || !two.Equal(ref) || ref[key]["sum(s1)"][baseTime] != 2, what)
}

// A leaf whose series of the metric never carried one of the tag keys of the condition fails the
// whole condition with "tag key not found" (tagValuesLookup), although no series there can match that
// atom and the other side of an OR does match: the root tolerates the error as "no data on this node".
func TestRegression_UnknownTagKeyOnLeafFailsWholeCondition(t *testing.T) {
	a, b := tagsOn(t, "cpu", "zone", "z", 2, 0), tagsOn(t, "cpu", "host", "h", 2, 1)
	d := &dataset{
		Metrics: []metricDef{{Name: "cpu", TagKeys: []string{"host", "zone"}, Ragged: true, Fields: []fieldDef{{"s1", tSum}}}},
		Series:  []seriesDef{{Metric: 0, Tags: a, Fields: []int{0}}, {Metric: 0, Tags: b, Fields: []int{0}}},
		Batches: [][]point{{{Series: 0, Slot: 0, Vals: map[int]float64{0: 1}}, {Series: 1, Slot: 0, Vals: map[int]float64{0: 2}}}},
	}
	e, ls := fixture(t, d, []string{"root"}, &layoutSpec{Shards: 2, Nodes: [][]int{{0}, {1}}}, &layoutSpec{Shards: 2, Nodes: [][]int{{0, 1}}})
	sql := fmt.Sprintf("select s1 from cpu where (zone='%s' or host='%s') and %s", a["zone"], b["host"], fullRange())
	ref := e.direct(t, ls[0].db, sql)
	if ref[""]["s1"][baseTime] != 3 {
		t.Fatalf("harness: reference\n%s", ref)
	}
	if one := e.direct(t, ls[2].db, sql); !one.Equal(ref) {
		t.Fatalf("two shards on one node:\n%s", one)
	}
	e.xc.Compute, e.xc.Order = nil, nil
	rs, err := e.xc.Query("root:1", ls[1].db, sql)
	got := node.Canon(rs)
	verdict(t, sigUnknownTagKey, err != nil || !got.Equal(ref), fmt.Sprintf("%s\none node: s1=3\ntwo nodes (one only has the series with zone, the other only the series with host): err=%v %+v\n%s", sql, err, e.xc.observed(), got))
}

// Every data load stage of a leaf (one per data family in the time range) ends with a reduce
// operator that reduces the shared down sampling aggregators "if no data load task is pending". When
// the last tasks of two families finish together, both reduce operators see zero pending tasks and
// read the aggregators before either resets them: the leaf's answer carries the sums twice. Timing
// dependent (order of 1 in 10^4 queries here), so this reproduction repeats one query and may miss it.
func TestRegression_LeafReducesTwice(t *testing.T) {
	d := &dataset{TwoFamilies: true,
		Metrics: []metricDef{{Name: "cpu", TagKeys: []string{"host", "zone"}, Fields: []fieldDef{{"la", tLast}, {"s1", tSum}, {"s2", tSum}}}},
		Batches: [][]point{{}, {}},
	}
	for i := 0; i < 16; i++ {
		d.Series = append(d.Series, seriesDef{Metric: 0, Tags: map[string]string{"host": fmt.Sprintf("h%d", i%4), "zone": fmt.Sprintf("z%d", i/4)}, Fields: []int{0, 1, 2}})
		d.Batches[0] = append(d.Batches[0], point{Series: i, Slot: 2, Vals: map[int]float64{0: 1, 1: 1, 2: 1}})  // family 10:00
		d.Batches[1] = append(d.Batches[1], point{Series: i, Slot: 20, Vals: map[int]float64{0: 2, 1: 2, 2: 2}}) // family 11:00
	}
	// six shards on one leaf: the race is per shard
	e, ls := fixture(t, d, []string{"root"}, &layoutSpec{Shards: 6, Nodes: [][]int{{0, 1, 2, 3, 4, 5}}})
	sql := "select sum(s1), max(la), min(la), s2 from cpu where " + fullRange() + " group by host,time(300s)"
	q := &querySpec{Metric: 0, Items: []selItem{{Field: "s1", Func: "sum"}, {Field: "la", Func: "max"}, {Field: "la", Func: "min"}, {Field: "s2"}}, StartS: -60, EndS: 420, Interval: 300, GroupBy: []string{"host"}}
	if q.sql(d) != sql {
		t.Fatalf("harness: %s", q.sql(d))
	}
	m := evalModel(d, q)
	n := 10000
	if ev.Known(sigLeafReducesTwice) {
		n = 2000
	}
	for i := 0; i < n; i++ {
		rs, err := e.xc.Query("root:1", ls[1].db, sql)
		if err != nil {
			t.Fatal(err)
		}
		if msg := checkReference(node.Canon(rs), m); msg != "" {
			verdict(t, sigLeafReducesTwice, true, fmt.Sprintf("execution %d of %s (16 series x 2 families, every group sums to 12): %s", i+1, sql, msg))
			return
		}
	}
}

// ---- the plans of the production state manager --------------------------------------------------------

type noConn struct{ rpc.ConnectionManager }

func (noConn) CreateConnection(models.Node) {}
func (noConn) CloseConnection(models.Node)  {}

// productionState starts coordinator/broker's state manager for the broker `self` and feeds it the
// discovery events of a cluster with the given live brokers and the layout's storage nodes.
func productionState(t *testing.T, e *env, self string, brokers []string, l *layoutSpec) broker.StateManager {
	t.Helper()
	sm, stop := startProductionState(t, e, self, brokers, l)
	t.Cleanup(stop)
	return sm
}

// startProductionState: see productionState; the caller stops the manager.
func startProductionState(t fataler, e *env, self string, brokers []string, l *layoutSpec) (broker.StateManager, func()) {
	ctx, cancel := context.WithCancel(context.Background())
	sm := broker.NewStateManager(ctx, e.xc.brokers[self].node, noConn{}, nil)
	stop := func() { sm.Close(); cancel() }
	sm.EmitEvent(&discovery.Event{Type: discovery.DatabaseConfigChanged, Key: "/database/config/" + l.db,
		Value: encoding.JSONMarshal(&models.Database{Name: l.db, Option: e.opt, NumOfShard: l.Shards, ReplicaFactor: 1})})
	for _, b := range brokers {
		nd := e.xc.brokers[b].node
		sm.EmitEvent(&discovery.Event{Type: discovery.NodeStartup, Key: "/live/nodes/" + b, Value: encoding.JSONMarshal(&nd)})
	}
	st := models.NewStorageState()
	st.ShardStates[l.db] = map[models.ShardID]models.ShardState{}
	for ni, shards := range l.Nodes {
		id := models.NodeID(ni + 1)
		st.LiveNodes[id] = models.StatefulNode{StatelessNode: models.StatelessNode{HostIP: fmt.Sprintf("leaf%d", ni), GRPCPort: 1}, ID: id}
		for _, s := range shards {
			st.ShardStates[l.db][models.ShardID(s)] = models.ShardState{ID: models.ShardID(s), State: models.OnlineShard, Leader: id}
		}
	}
	sm.EmitEvent(&discovery.Event{Type: discovery.StorageStateChanged, Key: "/storage/state", Value: encoding.JSONMarshal(st)})
	// events are consumed by the manager's goroutine
	deadline := time.Now().Add(5 * time.Second)
	for {
		rep, err := sm.GetQueryableReplicas(l.db)
		if err == nil && len(rep) == len(l.Nodes) && len(sm.GetLiveNodes()) == len(brokers) {
			return sm, stop
		}
		if time.Now().After(deadline) {
			stop()
			t.Fatalf("harness: the state manager did not take the events: %v %v %v", rep, err, sm.GetLiveNodes())
		}
		time.Sleep(2 * time.Millisecond)
	}
}

func groupByData(t *testing.T) *dataset {
	taken := map[string]bool{}
	d := &dataset{Metrics: []metricDef{{Name: "cpu", TagKeys: []string{"host"}, Fields: []fieldDef{{"s1", tSum}}}}, Batches: [][]point{{}}}
	for i := 0; i < 6; i++ {
		d.Series = append(d.Series, seriesDef{Metric: 0, Tags: map[string]string{"host": hostOn(t, "cpu", 2, i%2, taken)}, Fields: []int{0}})
		d.Batches[0] = append(d.Batches[0], point{Series: i, Slot: 0, Vals: map[int]float64{0: float64(i + 1)}})
	}
	return d
}

// The plan the production state manager builds for a group-by query when >= 2 storage nodes hold
// shards of the database: the live brokers (shuffled, at most 5), the first one computes, the others
// are "receive only". A receive-only broker ignores the request, registers no task and answers
// nothing; the leaves split the grouped series over ALL targets by hash. So
//   - the root waits for an answer of every target and only ever gets the one of the computing node;
//   - the series hashed to a receive-only broker are dropped there ("request may be evicted");
//   - if the root itself is a receive-only target, the leaf responses addressed to it are taken for
//     answers of its targets: the query returns early with part of the data.
//
// With one live broker the root is its own computing node: the intermediate task replaces the
// root's task in the broker's task manager (same request id) and removes it when done, the answer
// to the root finds no task.
func TestRegression_GroupByOverSeveralStorageNodesProductionPlan(t *testing.T) {
	for _, brokers := range [][]string{{"root:1"}, {"root:1", "mid0:1"}, {"root:1", "mid0:1", "mid1:1"}} {
		brokers := brokers
		t.Run(fmt.Sprintf("brokers=%d", len(brokers)), func(t *testing.T) {
			e, ls := fixture(t, groupByData(t), []string{"root", "mid0", "mid1"}, &layoutSpec{Shards: 2, Nodes: [][]int{{0}, {1}}})
			sql := "select s1 from cpu where " + fullRange() + " group by host"
			ref := e.direct(t, ls[0].db, sql)
			if len(ref) != 6 {
				t.Fatalf("harness: reference\n%s", ref)
			}
			e.xc.State = productionState(t, e, "root:1", brokers, ls[1])
			e.xc.Timeout = 1500 * time.Millisecond
			rs, err := e.xc.Query("root:1", ls[1].db, sql)
			obs := e.xc.observed()
			plans := strings.Join(e.xc.Plans, " ; ")
			dropped := 0
			for _, o := range obs {
				if o.Dropped {
					dropped++
				}
			}
			sort.Slice(obs, func(i, j int) bool { return obs[i].Receiver+obs[i].From < obs[j].Receiver+obs[j].From })
			got := node.Canon(rs)
			sig := sigReceiveOnly
			if len(brokers) == 1 {
				sig = sigRootIsMid
			}
			verdict(t, sig, err != nil || !got.Equal(ref), fmt.Sprintf("live brokers %v, storage nodes leaf0 leaf1, query at root:1: %s\nplans chosen by broker.StateManager.Choose: %s\nerr=%v, %d responses dropped for lack of a task; answer has %d of 6 groups\nresponses: %+v",
				brokers, sql, plans, err, dropped, len(got), obs))
		})
	}
}

// Observation behind cutSpec (no layout dependence, therefore no failure of this property's check): a leaf
// answers a group-by query with every series of the metric it finds in the data families of the time
// range, also with series that have no point inside the range (their field data is encoded but empty).
// The root merges such a group like any other, returns it as a series without fields, and its result
// limiter counts it: `limit N` then returns fewer than N groups with values - here, with one of three hosts
// having a point in the range, `limit 1` returns no value at all in about 2 of 3 executions (map order) -
// although the complete answer has a group with values. It happens on 1 shard / 1 node in the same way as
// on any other layout. Reported as a known finding when listed, logged otherwise.
const sigLimitCountsEmptyGroups = "C12/limit-counts-groups-without-values-in-the-time-range"

func TestRegression_LimitCountsGroupsWithoutValuesInTheTimeRange(t *testing.T) {
	d := &dataset{
		Metrics: []metricDef{{Name: "cpu", TagKeys: []string{"host"}, Fields: []fieldDef{{"s1", tSum}}}},
		Series: []seriesDef{
			{Metric: 0, Tags: map[string]string{"host": "h0"}, Fields: []int{0}},
			{Metric: 0, Tags: map[string]string{"host": "h1"}, Fields: []int{0}},
			{Metric: 0, Tags: map[string]string{"host": "h2"}, Fields: []int{0}},
		},
		// h0 has a point in slot 0, h1 and h2 only in slot 5 (same data family)
		Batches: [][]point{{
			{Series: 0, Slot: 0, Vals: map[int]float64{0: 1}},
			{Series: 1, Slot: 5, Vals: map[int]float64{0: 2}},
			{Series: 2, Slot: 5, Vals: map[int]float64{0: 3}},
		}},
	}
	e, ls := fixture(t, d, []string{"root"})
	q := &querySpec{Metric: 0, Items: []selItem{{Field: "s1"}}, StartS: 0, EndS: 9, GroupBy: []string{"host"}}
	complete := q.sqlWithLimit(d, completeLimit)
	rs, err := e.xc.Query("root:1", ls[0].db, complete)
	if err != nil {
		t.Fatal(err)
	}
	full := node.Canon(rs)
	if msg := checkReference(full, evalModel(d, q)); msg != "" || len(full) != 1 {
		t.Fatalf("harness: complete answer\n%s\n%s", msg, full)
	}
	series := len(rawKeys(rs))
	q.Limit = 1
	sql := q.sql(d)
	const runs = 60
	empty := 0
	for i := 0; i < runs; i++ {
		rs, err := e.xc.Query("root:1", ls[0].db, sql)
		if err != nil {
			t.Fatal(err)
		}
		got := node.Canon(rs)
		if len(rs.Series) != 1 {
			t.Fatalf("%s: %d series", sql, len(rs.Series))
		}
		if len(got) == 0 {
			empty++
		} else if !got.Equal(full) {
			t.Fatalf("%s:\n%sexpected\n%s", sql, got, full)
		}
	}
	what := fmt.Sprintf("%s | complete answer (%s): %d series, 1 with values (host=h0) | %d of %d executions returned a series without values instead of host=h0", sql, complete, series, empty, runs)
	if series > 1 && empty > 0 {
		if ev.Known(sigLimitCountsEmptyGroups) {
			ev.KnownFinding("C12", sigLimitCountsEmptyGroups+": "+what)
		} else {
			t.Logf("observation (not a layout dependence): %s", what)
		}
	}
}

// A storage node that fails (its task handler answers the request with an error response that is no not-found)
// must fail the query: the root cannot answer from the other nodes, the answer would not be a function of the
// written points. On the tree the harness was written against this only holds when the failure is handled after
// the root has sent its whole plan: query.exec runs the pipeline (the task send stages) on the caller's goroutine
// and then completes the task context with the pipeline's verdict - baseTaskContext.Complete(nil) overwrites the
// error a response has set in the meantime. The task is already marked done, so WaitResponse returns at once:
// without error, with whatever had been merged by then. A node that fails fast (its error response is back before
// the root has sent the requests to the other nodes) is exactly that case.
// Deterministic here through the harness-owned point at the end of the transport's SendRequest: both responses
// are handed to the root inside its last SendRequest.
const sigFailureForgotten = "C12/node-failure-handled-while-the-root-is-sending-is-forgotten"

func TestRegression_NodeFailureWhileTheRootIsSendingIsForgotten(t *testing.T) {
	e, ls := fixture(t, groupByData(t), []string{"root"}, &layoutSpec{Shards: 2, Nodes: [][]int{{0}, {1}}})
	sql := "select s1 from cpu where " + fullRange()
	ref := e.direct(t, ls[0].db, sql)
	e.xc.Compute, e.xc.Order = nil, nil
	e.xc.Sched = &sendSchedule{At: []int{1, 1}, Rank: []int{0, 1}}
	e.xc.FailLeaf = map[string]string{leafName(1): "injected: the storage node failed"}
	rs, err := e.xc.Query("root:1", ls[1].db, sql)
	obs := e.xc.observed()
	e.xc.Sched, e.xc.FailLeaf = nil, nil
	what := fmt.Sprintf("two storage nodes, leaf1 fails, both responses reach the root inside its last SendRequest: %s\nerr=%v\nanswer: %sanswer of one node holding everything: %sresponses: %+v",
		sql, err, node.Canon(rs), ref, obs)
	switch {
	case err != nil:
		// repaired in /repo (b8d4590, proposed_fix_node_failure_forgotten.diff): the failure of the node is reported
	case ev.Known(sigFailureForgotten):
		ev.KnownFinding("C12", sigFailureForgotten+": "+strings.ReplaceAll(what, "\n", " | "))
	default:
		t.Fatalf("%s: the failure of a storage node is forgotten, the query returns a partial answer without error\n%s", sigFailureForgotten, what)
	}
}
