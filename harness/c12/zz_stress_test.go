package c12

import (
	"fmt"
	"os"
	"testing"

	"pgregory.net/rapid"

	"github.com/lindb/lindb/pkg/timeutil"
	"github.com/lindb/lindb/verifharness/sim/node"
)

func TestZZStress(t *testing.T) {
	rapid.Check(t, func(t *rapid.T) {
		d := genDataset(t)
		l := genLayout(t)
		var qs []*querySpec
		for i := 0; i < 3; i++ {
			if q := genQuery(t, d, "x"); q != nil {
				qs = append(qs, q)
			}
		}
		dir, _ := os.MkdirTemp("", "c12-")
		defer os.RemoveAll(dir)
		n, err := node.Start(dir)
		if err != nil {
			t.Fatalf("%v", err)
		}
		defer n.Close()
		caseSeq++
		e := &env{seq: caseSeq, t: t, group: "x", n: n, nc: node.NewCluster(), xc: newXCluster("root", "mid0"), opt: node.DBOption(timeutil.Interval(storageIntervalMs)), d: d}
		defer e.nc.Close()
		defer e.xc.Close()
		for i := 0; i < maxLeaves; i++ {
			e.nc.AddLeaf(leafName(i), n.Engine, fmt.Sprintf("@n%d", i))
			e.xc.AddLeaf(leafName(i), n.Engine, fmt.Sprintf("@n%d", i))
		}
		e.build(1, l)
		for _, q := range qs {
			sql := q.sql(d)
			var first string
			for i := 0; i < 30; i++ {
				var got string
				which := "xc"
				if i%2 == 0 {
					rs, err := e.xc.Query("root:1", l.db, sql)
					_ = err
					got = node.Canon(rs).String()
				} else {
					which = "nc"
					rs, err := e.nc.Query(l.db, sql)
					_ = err
					got = node.Canon(rs).String()
				}
				if i == 0 {
					first = got
				} else if got != first && len(evalModel(d, q).ambiguous) == 0 {
					t.Fatalf("run %d (%s) differs\n%s\nlayout %s\nfirst:\n%s\nnow:\n%s\ndata %+v", i, which, sql, l, first, got, d)
				}
			}
		}
	})
}
