package c12

// Send-interleaved delivery: the production root (and the intermediate node) sends the task requests
// of a plan one after the other (task send stages run inline, in the iteration order of the request
// map) while responses are received by other goroutines, so the response of a node that already got
// its request can be handled before the next request leaves. The harness owns one point for this: the
// end of the transport's SendRequest (the request has been passed to the target, SendRequest has not
// returned to the sender). A sendSchedule says, by contact position, at which of these points each
// response is handed to the sender, and which ones only after the last request.

import (
	"fmt"
	"sort"
	"time"

	commonmodels "github.com/lindb/common/models"
	"pgregory.net/rapid"

	protoCommonV1 "github.com/lindb/lindb/proto/gen/v1/common"
	"github.com/lindb/lindb/verifharness/sim/ev"
	"github.com/lindb/lindb/verifharness/sim/node"
)

// sendSchedule is positional (the order in which the production code contacts the targets of a plan is
// the iteration order of a Go map, the harness does not control which node is contacted first).
type sendSchedule struct {
	// At[i] (i <= At[i] <= n, n = number of targets): the response of the target contacted i-th is handed
	// to the sender inside the transport's SendRequest of the request number At[i] (0-based; after that
	// request was passed on, before SendRequest returns); At[i] == n: after the last request was sent.
	At []int `json:"at"`
	// Rank: responses handed over at the same point go in ascending Rank[i].
	Rank []int `json:"rank"`
}

func (s *sendSchedule) String() string { return fmt.Sprintf("at=%v rank=%v", s.At, s.Rank) }

// positions handed over at point k (k == n: after the last send), in hand-over order.
func (s *sendSchedule) at(k int) []int {
	var out []int
	for i, a := range s.At {
		if a == k {
			out = append(out, i)
		}
	}
	sort.Slice(out, func(a, b int) bool { return s.Rank[out[a]] < s.Rank[out[b]] })
	return out
}

// expected sequence of contact positions at the receiver.
func (s *sendSchedule) sequence() []int {
	var out []int
	for k := 0; k <= len(s.At); k++ {
		out = append(out, s.at(k)...)
	}
	return out
}

// early: responses handed over while at least one request is still to be sent.
func (s *sendSchedule) early() int {
	n := 0
	for _, a := range s.At {
		if a < len(s.At)-1 {
			n++
		}
	}
	return n
}

// outstanding: requests not yet sent when the first response is handed over.
func (s *sendSchedule) outstanding() int {
	min := len(s.At)
	for _, a := range s.At {
		if a < min {
			min = a
		}
	}
	if min >= len(s.At) {
		return 0
	}
	return len(s.At) - 1 - min
}

// caughtUp: at some point before the last request every request sent so far has been answered (the
// sender has, for a moment, no outstanding response although the plan has more targets).
func (s *sendSchedule) caughtUp() bool {
	n := len(s.At)
	handed := 0
	for k := 0; k < n-1; k++ {
		handed += len(s.at(k))
		if handed == k+1 {
			return true
		}
	}
	return false
}

func (s *sendSchedule) classes() []string {
	n := len(s.At)
	late, delayed, atLast := 0, 0, 0
	for i, a := range s.At {
		switch {
		case a == n:
			late++
		case a == n-1:
			atLast++
		}
		if a > i && a < n {
			delayed++
		}
	}
	cl := []string{
		fmt.Sprintf("sched:responses-while-requests-remain=%d", s.early()),
		fmt.Sprintf("sched:requests-remaining-at-first-response=%d", s.outstanding()),
		fmt.Sprintf("sched:responses-after-last-request=%d", late),
	}
	if s.caughtUp() {
		cl = append(cl, "sched:all-sent-requests-answered-while-requests-remain")
		if late > 0 {
			cl = append(cl, "sched:all-sent-requests-answered-while-requests-remain+responses-after-last-request")
		}
	}
	if atLast > 0 {
		cl = append(cl, "sched:response-inside-the-last-send")
	}
	if delayed > 0 {
		cl = append(cl, "sched:response-held-until-a-later-send")
	}
	imm := true
	for i, a := range s.At {
		if a != i {
			imm = false
		}
	}
	if imm {
		cl = append(cl, "sched:every-node-answers-at-once")
	}
	return cl
}

// immediateSchedule: every node answers before the next request is sent (local / fast nodes).
func immediateSchedule(n int) *sendSchedule {
	s := &sendSchedule{At: make([]int, n), Rank: make([]int, n)}
	for i := range s.At {
		s.At[i], s.Rank[i] = i, i
	}
	return s
}

// genSchedule draws a schedule for n targets in which at least one response is handed over inside a
// SendRequest (the all-late schedules are what the delivery-order enumeration runs).
func genSchedule(t *rapid.T, n int, label string) *sendSchedule {
	s := &sendSchedule{At: make([]int, n)}
	for i := range s.At {
		// 4 of 10 responses as soon as possible, 3 of 10 after the last request, the others at any send in between
		switch k := rapid.IntRange(0, 9).Draw(t, label+"Kind"); {
		case k < 4:
			s.At[i] = i
		case k < 7:
			s.At[i] = n
		default:
			s.At[i] = rapid.IntRange(i, n-1).Draw(t, label+"At")
		}
	}
	all := true
	for _, a := range s.At {
		if a < n {
			all = false
		}
	}
	if all {
		i := rapid.IntRange(0, n-1).Draw(t, label+"Force")
		s.At[i] = rapid.IntRange(i, n-1).Draw(t, label+"ForceAt")
	}
	idx := make([]int, n)
	for i := range idx {
		idx[i] = i
	}
	s.Rank = rapid.Permutation(idx).Draw(t, label+"Rank")
	return s
}

// schedules drawn per case: [n] -> schedules for plans with n targets.
type schedPick map[int][]*sendSchedule

func genSchedPick(t *rapid.T, perN int) schedPick {
	out := schedPick{}
	for n := 2; n <= maxLeaves; n++ {
		for k := 0; k < perN; k++ {
			out[n] = append(out[n], genSchedule(t, n, fmt.Sprintf("sched%d", n)))
		}
	}
	return out
}

// ---- the transport side -------------------------------------------------------------------------

type sendState struct {
	receiver  string
	sched     *sendSchedule
	targets   int
	contacted []string // in the order the sender contacted them
	arrived   map[string]*protoCommonV1.TaskResponse
	handed    int
	sendsDone bool // the hand-overs inside the last SendRequest are finished
	lateDone  bool // somebody took the late batch
}

// sendObs is what happened to one scheduled delivery.
type sendObs struct {
	Receiver  string   `json:"receiver"`
	Contacted []string `json:"contacted"`
	Handed    []string `json:"handed"` // senders in hand-over order
	Points    []int    `json:"points"` // the point (request number, n = after the last) of each hand-over
}

// waitArrived waits for the response of a contacted target.
func (c *xcluster) waitArrived(st *sendState, from string) *protoCommonV1.TaskResponse {
	deadline := time.Now().Add(c.Timeout)
	for {
		c.mu.Lock()
		resp := st.arrived[from]
		c.mu.Unlock()
		if resp != nil {
			return resp
		}
		if time.Now().After(deadline) {
			c.mu.Lock()
			c.Stuck = append(c.Stuck, fmt.Sprintf("no response of %s for %s within %s", from, st.receiver, c.Timeout))
			c.mu.Unlock()
			return nil
		}
		time.Sleep(20 * time.Microsecond)
	}
}

// handScheduled hands one response to the receiver on a goroutine of its own (as the receive loop of
// the task client does) and waits until the receiver's task manager has taken it: handling is inline
// (inlinePool), so it is complete when this returns.
func (c *xcluster) handScheduled(st *sendState, pos, point int) {
	from := st.contacted[pos]
	resp := c.waitArrived(st, from)
	if resp == nil {
		return
	}
	done := make(chan struct{})
	go func() {
		defer close(done)
		c.handOver(st.receiver, pendingResp{from: from, resp: resp})
	}()
	timer := time.NewTimer(c.Timeout)
	defer timer.Stop()
	select {
	case <-done:
	case <-timer.C:
		c.mu.Lock()
		c.Stuck = append(c.Stuck, fmt.Sprintf("%s did not finish handling the response of %s within %s (handed over inside SendRequest number %d)", st.receiver, from, c.Timeout, point))
		c.mu.Unlock()
		<-done
	}
	c.mu.Lock()
	st.handed++
	for i := range c.Sends {
		if c.Sends[i].Receiver == st.receiver {
			c.Sends[i].Handed = append(c.Sends[i].Handed, from)
			c.Sends[i].Points = append(c.Sends[i].Points, point)
		}
	}
	c.mu.Unlock()
}

// afterSend runs at the end of the transport's SendRequest of request number k of a scheduled plan.
func (c *xcluster) afterSend(st *sendState, k int) {
	c.mu.Lock()
	if k == 0 {
		c.Sends = append(c.Sends, sendObs{Receiver: st.receiver})
	}
	for i := range c.Sends {
		if c.Sends[i].Receiver == st.receiver {
			c.Sends[i].Contacted = append([]string(nil), st.contacted...)
		}
	}
	c.mu.Unlock()
	for _, pos := range st.sched.at(k) {
		c.handScheduled(st, pos, k)
	}
	if k == st.targets-1 {
		c.mu.Lock()
		st.sendsDone = true
		c.mu.Unlock()
		// not on the sender's goroutine: the rest is "after the last request was sent"
		go c.releaseLate(st)
	}
}

// releaseLate hands over the responses scheduled after the last request once all of them arrived.
func (c *xcluster) releaseLate(st *sendState) {
	late := st.sched.at(st.targets)
	c.mu.Lock()
	if !st.sendsDone || st.lateDone {
		c.mu.Unlock()
		return
	}
	for _, pos := range late {
		if st.arrived[st.contacted[pos]] == nil {
			c.mu.Unlock()
			return
		}
	}
	st.lateDone = true
	c.mu.Unlock()
	for _, pos := range late {
		c.handScheduled(st, pos, st.targets)
	}
}

// quiesce waits until every response of every scheduled delivery was handed over.
func (c *xcluster) quiesce() {
	deadline := time.Now().Add(c.Timeout)
	for {
		c.mu.Lock()
		open := 0
		for _, st := range c.sends {
			if st.handed < len(st.contacted) {
				open++
			}
		}
		nStuck := len(c.Stuck)
		c.mu.Unlock()
		if open == 0 || nStuck > 0 {
			return
		}
		if time.Now().After(deadline) {
			c.mu.Lock()
			c.Stuck = append(c.Stuck, fmt.Sprintf("%d scheduled deliveries still open %s after the query returned", open, c.Timeout))
			c.mu.Unlock()
			return
		}
		time.Sleep(20 * time.Microsecond)
	}
}

// ---- the check ----------------------------------------------------------------------------------

// runScheduled executes the query under the schedules with the sender of the leaf requests being
// `sender` (the root, or the intermediate node when compute is set) and compares with the reference.
func (e *env) runScheduled(q *querySpec, sql string, m *modelOut, ref node.Result, l *layoutSpec, scheds []*sendSchedule,
	sender string, compute []string, kinds map[string]string, nData int, classes []string, dataJSON string,
	fail func(topology string, order []string, msg string, obs []respObs)) {
	t := e.t
	nLeaves := len(l.Nodes)
	topology := "root -> leaves, responses while the root is sending"
	tag := "root->leaves(send-interleaved)"
	if len(compute) > 0 {
		topology = "root -> intermediate -> leaves, responses while the intermediate node is sending"
		tag = "root->intermediate->leaves(send-interleaved)"
	}
	for _, s := range scheds {
		if len(s.At) != nLeaves {
			t.Fatalf("harness: schedule %s for %d leaves", s, nLeaves)
		}
		e.xc.Compute, e.xc.Order, e.xc.Sched = compute, nil, s
		var obs []respObs
		var sends []sendObs
		msg, a := e.repeat(func() (*commonmodels.ResultSet, error) {
			rs, err := e.xc.Query("root:1", l.db, sql)
			obs = e.xc.observed()
			e.xc.mu.Lock()
			sends = append([]sendObs(nil), e.xc.Sends...)
			stuck := append([]string(nil), e.xc.Stuck...)
			e.xc.mu.Unlock()
			if len(e.xc.Panics) > 0 {
				t.Fatalf("panic while a response was handled\nquery: %s\nlayout: %s\nschedule: %s\n%s", sql, l, s, e.xc.Panics[0])
			}
			if len(stuck) > 0 {
				t.Fatalf("C12 violated (or harness): a response handed over while requests were being sent was not handled\nquery: %s\nlayout: %s (%s)\nschedule: %s\n%v\nresponses: %+v", sql, l, topology, s, stuck, obs)
			}
			return rs, err
		}, ref, m)
		e.xc.Sched = nil
		describe := func() []string {
			out := []string{"schedule " + s.String()}
			for _, so := range sends {
				out = append(out, fmt.Sprintf("%s contacted %v, got the responses of %v at the requests %v (%d = after the last)", so.Receiver, so.Contacted, so.Handed, so.Points, nLeaves))
			}
			return out
		}
		if msg != "" {
			fail(topology, describe(), msg, obs)
		}
		// the harness did what the schedule says
		if len(sends) != 1 || sends[0].Receiver != sender || len(sends[0].Contacted) != nLeaves || len(sends[0].Handed) != nLeaves {
			t.Fatalf("harness: scheduled delivery incomplete: %+v (schedule %s, layout %s)", sends, s, l)
		}
		posOf := map[string]int{}
		for i, name := range sends[0].Contacted {
			posOf[name] = i
		}
		var fromLeaves []respObs
		for _, o := range obs {
			if o.Receiver == sender && o.From != "mid0:1" {
				fromLeaves = append(fromLeaves, o)
			}
		}
		seq := s.sequence()
		if len(fromLeaves) != nLeaves {
			t.Fatalf("harness: %d leaf responses at %s, layout has %d leaves: %+v", len(fromLeaves), sender, nLeaves, obs)
		}
		earlyKinds := map[string]bool{}
		for i, o := range fromLeaves {
			if posOf[o.From] != seq[i] || sends[0].Handed[i] != o.From {
				t.Fatalf("harness: responses were not handed over as scheduled (%s): %+v / %+v", s, sends, obs)
			}
			if o.Dropped {
				// the answer equals the reference, but it was built without this response
				fail(topology, describe(), fmt.Sprintf("%s had finished the request when the response of %s (contacted as number %d, response %s) reached it: the response was refused (no task for the request)",
					sender, o.From, seq[i], o.kind()), obs)
			}
			if sends[0].Points[i] < nLeaves-1 {
				earlyKinds[o.kind()] = true
			}
		}
		for _, o := range obs {
			if o.Dropped {
				fail(topology, describe(), "a response was dropped: no task for the request at "+o.Receiver, obs)
			}
		}
		// which node was contacted first is production's choice (map iteration): counted, not part of the case
		for k := range earlyKinds {
			ev.Class(e.group, "info:sched:response-while-requests-remain-was="+k, 1)
		}
		if sends[0].Contacted[0] != leafName(0) {
			ev.Class(e.group, "info:sched:first-contacted-node-is-not-the-first-target", 1)
		}
		if a > 0 {
			ev.Class(e.group, "info:order-ambiguous-first/last-cell-differs-from-reference", a)
		}
		ev.Class(e.group, "executions:"+tag, 1)
		cl := append(append([]string{}, classes...), s.classes()...)
		cl = append(cl, "topology="+tag)
		ev.Case(e.group, fmt.Sprintf("%s|%s|%s|%s|%s", dataJSON, sql, l, tag, s), nData >= 2 && s.early() > 0, cl,
			map[string]any{"query": sql, "layout": l, "topology": tag, "leafAnswers": kinds, "schedule": s, "data": e.d})
	}
	e.xc.Compute, e.xc.Order, e.xc.Sched = nil, nil, nil
}
