package c12

import (
	"fmt"
	"os"
	"testing"
	"time"

	"github.com/lindb/common/pkg/logger"
	protoMetricsV1 "github.com/lindb/common/proto/gen/v1/linmetrics"

	"github.com/lindb/lindb/models"
	"github.com/lindb/lindb/pkg/timeutil"
	"github.com/lindb/lindb/verifharness/sim/node"
)

func init() {
	time.Local = time.UTC
	_ = logger.RunningAtomicLevel.UnmarshalText([]byte("error"))
}

func pm(name string, ts int64, tags map[string]string, fields ...*protoMetricsV1.SimpleField) *protoMetricsV1.Metric {
	m := &protoMetricsV1.Metric{Name: name, Timestamp: ts, SimpleFields: fields}
	for _, k := range sortedKeys(tags) {
		m.Tags = append(m.Tags, &protoMetricsV1.KeyValue{Key: k, Value: tags[k]})
	}
	return m
}

func sf(name string, typ protoMetricsV1.SimpleFieldType, v float64) *protoMetricsV1.SimpleField {
	return &protoMetricsV1.SimpleField{Name: name, Type: typ, Value: v}
}

func TestProbe(t *testing.T) {
	dir, _ := os.MkdirTemp("", "c12-")
	defer os.RemoveAll(dir)
	t0 := time.Now()
	n, err := node.Start(dir)
	if err != nil {
		t.Fatal(err)
	}
	defer n.Close()
	fmt.Println("start", time.Since(t0))
	opt := node.DBOption(timeutil.Interval(10_000))
	base := time.Date(2023, 5, 1, 10, 0, 0, 0, time.UTC).UnixMilli()
	var ms []*protoMetricsV1.Metric
	for i := 0; i < 8; i++ {
		host := fmt.Sprintf("h%d", i)
		fs := []*protoMetricsV1.SimpleField{sf("s", protoMetricsV1.SimpleFieldType_DELTA_SUM, float64(i+1))}
		if i%2 == 0 {
			fs = append(fs, sf("mx", protoMetricsV1.SimpleFieldType_Max, float64(i)))
		} else {
			fs = append(fs, sf("la", protoMetricsV1.SimpleFieldType_LAST, float64(i)))
		}
		ms = append(ms, pm("m", base+int64(i%3)*10_000, map[string]string{"host": host, "zone": fmt.Sprintf("z%d", i%2)}, fs...))
	}
	// layouts
	type lay struct {
		db     string
		shards int
		nodes  [][]models.ShardID
	}
	lays := []lay{
		{"db_l0", 1, [][]models.ShardID{{0}}},
		{"db_l1", 4, [][]models.ShardID{{0, 2}, {1}, {3}}},
	}
	for _, l := range lays {
		t1 := time.Now()
		for i, sh := range l.nodes {
			if err := n.CreateDB(fmt.Sprintf("%s@n%d", l.db, i), opt, sh...); err != nil {
				t.Fatal(err)
			}
		}
		fmt.Println("create", l.db, time.Since(t1))
		rt, err := routeBatch(ms, l.shards, timeutil.Interval(10_000))
		if err != nil {
			t.Fatal(err)
		}
		for _, r := range rt {
			for i, sh := range l.nodes {
				for _, s := range sh {
					if s == r.shard {
						fmt.Printf("%s shard %d -> node %d rows %d\n", l.db, r.shard, i, r.rows)
						if err := writeBlock(n, fmt.Sprintf("%s@n%d", l.db, i), r); err != nil {
							t.Fatal(err)
						}
					}
				}
			}
		}
	}
	c := node.NewCluster()
	defer c.Close()
	x := newXCluster("root", "mid0", "mid1")
	defer x.Close()
	for i := 0; i < 4; i++ {
		c.AddLeaf(fmt.Sprintf("leaf%d:1", i), n.Engine, fmt.Sprintf("@n%d", i))
		x.AddLeaf(fmt.Sprintf("leaf%d:1", i), n.Engine, fmt.Sprintf("@n%d", i))
	}
	for _, l := range lays {
		m := map[string][]models.ShardID{}
		for i, sh := range l.nodes {
			m[fmt.Sprintf("leaf%d:1", i)] = sh
		}
		c.SetLayout(l.db, opt, m)
		x.SetLayout(l.db, opt, m)
	}
	tr := " where time>='2023-05-01 10:00:00' and time<='2023-05-01 10:05:00'"
	for _, q := range []string{
		"select s from m" + tr,
		"select s from m" + tr + " group by host",
		"select s, mx from m" + tr + " group by zone",
		"select la from m" + tr + " group by zone",
		"select * from m" + tr + " group by zone",
		"select * from m" + tr,
		"select s from m where host='h1' and time>='2023-05-01 10:00:00' and time<='2023-05-01 10:05:00' group by host",
		"select s from m where host='nope' and time>='2023-05-01 10:00:00' and time<='2023-05-01 10:05:00' group by host",
		"select s from nom" + tr,
		"select s from m where time>='2023-05-01 08:00:00' and time<='2023-05-01 08:05:00'",
		"select s from m" + tr + " group by host, time(30s)",
	} {
		fmt.Println("=====", q)
		for _, l := range lays {
			t1 := time.Now()
			rs, err := c.Query(l.db, q)
			d := time.Since(t1)
			fmt.Printf("--- node.Cluster %s (%v) err=%v\n%s", l.db, d, err, node.Canon(rs))
			x.Compute = nil
			t1 = time.Now()
			rs, err = x.Query("root:1", l.db, q)
			fmt.Printf("--- xcluster direct %s (%v) err=%v obs=%+v\n%s", l.db, time.Since(t1), err, x.observed(), node.Canon(rs))
			x.Compute = []string{"mid0:1"}
			t1 = time.Now()
			rs, err = x.Query("root:1", l.db, q)
			fmt.Printf("--- xcluster mid %s (%v) err=%v obs=%+v\n%s", l.db, time.Since(t1), err, x.observed(), node.Canon(rs))
		}
	}
}
