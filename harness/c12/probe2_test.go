package c12

import (
	"fmt"
	"os"
	"testing"
	"time"

	protoMetricsV1 "github.com/lindb/common/proto/gen/v1/linmetrics"

	"github.com/lindb/lindb/models"
	"github.com/lindb/lindb/pkg/timeutil"
	"github.com/lindb/lindb/verifharness/sim/node"
)

func TestProbe2(t *testing.T) {
	dir, _ := os.MkdirTemp("", "c12-")
	defer os.RemoveAll(dir)
	n, err := node.Start(dir)
	if err != nil {
		t.Fatal(err)
	}
	defer n.Close()
	opt := node.DBOption(timeutil.Interval(10_000))
	base := time.Date(2023, 5, 1, 10, 0, 0, 0, time.UTC).UnixMilli()
	var ms []*protoMetricsV1.Metric
	for i := 0; i < 6; i++ {
		host := fmt.Sprintf("h%d", i)
		rt, _ := routeBatch([]*protoMetricsV1.Metric{pm("m", base, map[string]string{"host": host}, sf("s", protoMetricsV1.SimpleFieldType_DELTA_SUM, 1))}, 2, timeutil.Interval(10_000))
		fmt.Println(host, "-> shard", rt[0].shard)
		fs := []*protoMetricsV1.SimpleField{sf("s", protoMetricsV1.SimpleFieldType_DELTA_SUM, float64(i+1))}
		tags := map[string]string{"host": host}
		if rt[0].shard == 0 {
			fs = append(fs, sf("mx", protoMetricsV1.SimpleFieldType_Max, float64(i)))
			tags["zone"] = "z"
		} else {
			fs = append(fs, sf("la", protoMetricsV1.SimpleFieldType_LAST, float64(i)))
		}
		ms = append(ms, pm("m", base+int64(i)*10_000, tags, fs...))
	}
	type lay struct {
		db     string
		shards int
		nodes  [][]models.ShardID
	}
	lays := []lay{
		{"db_l0", 1, [][]models.ShardID{{0}}},
		{"db_l1", 2, [][]models.ShardID{{0}, {1}}},
	}
	for _, l := range lays {
		for i, sh := range l.nodes {
			if err := n.CreateDB(fmt.Sprintf("%s@n%d", l.db, i), opt, sh...); err != nil {
				t.Fatal(err)
			}
		}
		for _, m := range ms {
			rt, err := routeBatch([]*protoMetricsV1.Metric{m}, l.shards, timeutil.Interval(10_000))
			if err != nil {
				t.Fatal(err)
			}
			for _, r := range rt {
				for i, sh := range l.nodes {
					for _, s := range sh {
						if s == r.shard {
							if err := writeBlock(n, fmt.Sprintf("%s@n%d", l.db, i), r); err != nil {
								t.Fatal(err)
							}
						}
					}
				}
			}
		}
	}
	x := newXCluster("root", "mid0", "mid1")
	defer x.Close()
	for i := 0; i < 4; i++ {
		x.AddLeaf(fmt.Sprintf("leaf%d:1", i), n.Engine, fmt.Sprintf("@n%d", i))
	}
	for _, l := range lays {
		m := map[string][]models.ShardID{}
		for i, sh := range l.nodes {
			m[fmt.Sprintf("leaf%d:1", i)] = sh
		}
		x.SetLayout(l.db, opt, m)
	}
	tr := " where time>='2023-05-01 10:00:00' and time<='2023-05-01 10:05:00'"
	for _, q := range []string{
		"select s, mx from m" + tr,
		"select s, la from m" + tr,
		"select * from m" + tr,
		"select * from m" + tr + " group by host",
		"select s from m" + tr + " group by zone",
		"select s from m where zone='z' and time>='2023-05-01 10:00:00' and time<='2023-05-01 10:05:00'",
		"select s from m where zone!='y' and time>='2023-05-01 10:00:00' and time<='2023-05-01 10:05:00'",
		"select s from m where zone not in ('y') and time>='2023-05-01 10:00:00' and time<='2023-05-01 10:05:00' group by host",
	} {
		fmt.Println("=====", q)
		for _, l := range lays {
			for _, ord := range [][]string{{"leaf0:1", "leaf1:1"}, {"leaf1:1", "leaf0:1"}} {
				for _, mid := range []bool{false, true} {
					if l.db == "db_l0" && (mid || ord[0] != "leaf0:1") {
						continue
					}
					ord := ord
					x.Order = func(_ string, arrived []string) []string {
						if len(arrived) == 1 {
							return arrived
						}
						return ord
					}
					x.Compute = nil
					if mid {
						x.Compute = []string{"mid0:1"}
					}
					rs, err := x.Query("root:1", l.db, q)
					fmt.Printf("--- %s order=%v mid=%v err=%v\n", l.db, ord, mid, err)
					for _, o := range x.observed() {
						fmt.Printf("      %s<-%s %s err=%q series=%d specs=%d\n", o.Receiver, o.From, o.kind(), o.Err, o.Series, o.Specs)
					}
					fmt.Print(node.Canon(rs))
				}
			}
		}
	}
}
