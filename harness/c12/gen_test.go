package c12

import (
	"fmt"
	"sort"
	"strings"
	"time"

	protoMetricsV1 "github.com/lindb/common/proto/gen/v1/linmetrics"
	"pgregory.net/rapid"

	"github.com/lindb/lindb/series/field"
	"github.com/lindb/lindb/verifharness/sim/ev"
)

// ---- data ------------------------------------------------------------------------------------

const (
	storageIntervalMs = int64(10_000)
	slotsPerCase      = 36 // 6 minutes from base
)

// base = 10:57:00: slots 0..17 lie in the 10:00 family, slots 18..35 in the 11:00 family.
var baseTime = time.Date(2023, 5, 1, 10, 57, 0, 0, time.UTC).UnixMilli()

type fieldType int

const (
	tSum fieldType = iota
	tMin
	tMax
	tLast
	tFirst
)

func (t fieldType) String() string { return [...]string{"sum", "min", "max", "last", "first"}[t] }

func (t fieldType) proto() protoMetricsV1.SimpleFieldType {
	switch t {
	case tSum:
		return protoMetricsV1.SimpleFieldType_DELTA_SUM
	case tMin:
		return protoMetricsV1.SimpleFieldType_Min
	case tMax:
		return protoMetricsV1.SimpleFieldType_Max
	case tLast:
		return protoMetricsV1.SimpleFieldType_LAST
	default:
		return protoMetricsV1.SimpleFieldType_FIRST
	}
}

// aggOf names the aggregate a function keeps for the field type (field.Type.GetFuncFieldParams).
func (t fieldType) aggOf(fn string) string {
	if fn == "" {
		return t.String()
	}
	return fn
}

func (t fieldType) lin() field.Type {
	return [...]field.Type{field.SumField, field.MinField, field.MaxField, field.LastField, field.FirstField}[t]
}

// funcs lists what series/field/type.go IsFuncSupported accepts for the type (rate excluded:
// not part of this property's query space); "" = plain field = the type's down sampling function.
func (t fieldType) funcs() []string {
	switch t {
	case tSum:
		return []string{"", "sum", "min", "max"}
	case tMin:
		return []string{"", "min"}
	case tMax:
		return []string{"", "max"}
	case tLast:
		return []string{"", "last", "sum", "min", "max"}
	default:
		return []string{"", "first", "sum", "min", "max"}
	}
}

type fieldDef struct {
	Name string    `json:"name"`
	Type fieldType `json:"type"`
}

type metricDef struct {
	Name    string     `json:"name"`
	TagKeys []string   `json:"tagKeys"` // union of the tag keys of the metric's series (sorted)
	Ragged  bool       `json:"raggedTags"`
	Fields  []fieldDef `json:"fields"`
}

type seriesDef struct {
	Metric int               `json:"metric"`
	Tags   map[string]string `json:"tags"`
	Fields []int             `json:"fields"` // indexes into the metric's fields
}

type point struct {
	Series int             `json:"series"`
	Slot   int             `json:"slot"` // storage slot relative to baseTime
	Off    int64           `json:"off"`  // ms inside the slot
	Vals   map[int]float64 `json:"vals"` // field index -> value (k/8)
}

func (p point) ts() int64 { return baseTime + int64(p.Slot)*storageIntervalMs + p.Off }

type dataset struct {
	TwoFamilies bool `json:"twoFamilies"`
	// Wide: the first metric has 40-70 series over 30 hosts, so that `group by host` has more groups than
	// the default limit (20) of a query and (with a second tag key) the series of a host live in several shards
	Wide bool `json:"wide,omitempty"`
	// OddTagValues: some tag values contain ',' or a backslash
	OddTagValues bool        `json:"oddTagValues,omitempty"`
	Metrics      []metricDef `json:"metrics"`
	Series       []seriesDef `json:"series"`
	Batches      [][]point   `json:"batches"` // ingestion requests in order
	// Flushes: storage flushes (metadata, index, data families) placed after ingestion requests, the same under every
	// layout (stored_test.go); none = every row stays in the memory databases
	Flushes []flushSpec `json:"flushes,omitempty"`
	// StoredKey = StoredValue: the tag condition the times of the first metric's series were shaped for (storeByShard)
	StoredKey   string `json:"storedKey,omitempty"`
	StoredValue string `json:"storedValue,omitempty"`
}

var fieldPool = []fieldDef{{"s1", tSum}, {"s2", tSum}, {"mn", tMin}, {"mx", tMax}, {"la", tLast}, {"fi", tFirst}}

// wideHosts: host values of a wide data set (> the default limit 20 of a query).
const wideHosts = 30

func genDataset(t *rapid.T) *dataset { return genDatasetWith(t, dataOpt{}) }

// dataOpt: ties = data made for `order by` (see genDatasetWith); skew = data made for fields that a storage node
// never saw (skew_test.go): the first metric has >= 2 tag keys (complete tag sets), >= 2 fields and most of 6-12 series.
// stored = data made for families that are partly on disk (stored_test.go): two data families, flushes between the requests.
type dataOpt struct{ ties, skew, stored bool }

// genDatasetWith: with ties set, the data set is made for `order by`: at least 5 series that mostly report every
// field, and (3 of 4 data sets) values from {-1, 0, 1, 2, 3}, so that the sums / minima / maxima / counts / first and
// last values of different groups are often equal and a later order by item has to decide.
func genDatasetWith(t *rapid.T, opt dataOpt) *dataset {
	ties, skew := opt.ties, opt.skew
	d := &dataset{}
	smallValues := ties && rapid.IntRange(0, 3).Draw(t, "smallValues") > 0
	// 1 of 8 data sets is wide (see dataset.Wide)
	d.Wide = rapid.IntRange(0, 7).Draw(t, "wideDataset") == 0 && !skew && !opt.stored
	// 1 of 4 data sets: some tag values contain the separator / escape characters of the group key a leaf sends
	// (series/tag ConcatTagValues / SplitTagValues)
	d.OddTagValues = rapid.IntRange(0, 3).Draw(t, "oddTagValues") == 0
	odd := func(v string) string {
		if d.OddTagValues {
			switch v {
			case "h6":
				return "h,6"
			case "h7":
				return `h\7,`
			case "zc":
				return "z,c"
			case "west":
				return `we\st`
			}
		}
		return v
	}
	nMetrics := rapid.SampledFrom([]int{1, 1, 1, 2, 2, 3}).Draw(t, "nMetrics")
	if (d.Wide || skew || opt.stored) && nMetrics > 2 {
		nMetrics = 2
	}
	for m := 0; m < nMetrics; m++ {
		md := metricDef{Name: []string{"cpu", "mem", "disk"}[m]}
		md.TagKeys = [][]string{{"host"}, {"host", "zone"}, {"host", "zone"}, {"dc", "host"}, {"dc", "host", "zone"}}[rapid.IntRange(0, 4).Draw(t, "tagKeys")]
		if d.Wide && m == 0 && len(md.TagKeys) == 1 {
			// a second key: the series of one host are spread over the shards
			md.TagKeys = []string{"host", "zone"}
		}
		// half of the metrics have series with different tag key sets (legal: a series is its tag set)
		md.Ragged = len(md.TagKeys) > 1 && rapid.Bool().Draw(t, "raggedTags")
		if (skew || opt.stored) && m == 0 {
			if len(md.TagKeys) == 1 {
				md.TagKeys = []string{"host", "zone"}
			}
			md.Ragged = false
		}
		if d.Wide && m == 0 && md.Ragged {
			// mostly complete tag sets, so that most hosts form a group
			md.Ragged = rapid.IntRange(0, 3).Draw(t, "wideRagged") == 0
		}
		nf := rapid.IntRange(1, 4).Draw(t, "nFields")
		if skew && m == 0 && nf < 2 {
			nf = 2
		}
		perm := rapid.Permutation(fieldPool).Draw(t, "fieldPick")
		md.Fields = append(md.Fields, perm[:nf]...)
		sort.Slice(md.Fields, func(i, j int) bool { return md.Fields[i].Name < md.Fields[j].Name })
		d.Metrics = append(d.Metrics, md)
	}
	nSeries := 0
	if skew || opt.stored {
		nSeries = rapid.IntRange(6, 12).Draw(t, "nSeries")
	} else if ties {
		nSeries = rapid.IntRange(5, 12).Draw(t, "nSeries")
	} else {
		nSeries = rapid.IntRange(nMetrics+1, 12).Draw(t, "nSeries")
	}
	nWide := 0
	if d.Wide {
		// a fixed ladder (an integer range is drawn mostly near its lower end); the other metric gets <= 4 series
		nWide = rapid.SampledFrom([]int{40, 50, 60, 70}).Draw(t, "nWideSeries")
		nSeries = nWide + (nMetrics-1)*rapid.IntRange(1, 4).Draw(t, "nOtherSeries")
	}
	seen := map[string]bool{}
	for s := 0; s < nSeries; s++ {
		m := s % nMetrics
		if d.Wide {
			m = 0
			if s >= nWide {
				m = 1
			}
		} else if s >= nMetrics {
			m = rapid.IntRange(0, nMetrics-1).Draw(t, "seriesMetric")
			if (skew || opt.stored) && rapid.IntRange(0, 3).Draw(t, "skewFirstMetric") > 0 {
				m = 0
			}
		}
		wide := d.Wide && m == 0
		md := d.Metrics[m]
		carried := md.TagKeys
		raggedBelow := 5
		if wide {
			raggedBelow = 2
		}
		if md.Ragged && rapid.IntRange(0, 9).Draw(t, "allTagKeys") < raggedBelow {
			// a series that carries only some of the metric's tag keys (at least one)
			carried = nil
			for _, k := range md.TagKeys {
				if rapid.Bool().Draw(t, "hasTagKey") {
					carried = append(carried, k)
				}
			}
			if len(carried) == 0 {
				carried = []string{rapid.SampledFrom(md.TagKeys).Draw(t, "oneTagKey")}
			}
		}
		tags := map[string]string{}
		for _, k := range carried {
			switch k {
			case "host":
				if wide {
					// the first wideHosts series take one host each (> 20 groups for sure), the others any
					h := s
					if s >= wideHosts {
						h = rapid.IntRange(0, wideHosts-1).Draw(t, "wideHost")
					}
					tags[k] = fmt.Sprintf("h%02d", h)
				} else {
					tags[k] = odd(fmt.Sprintf("h%d", rapid.IntRange(0, 7).Draw(t, "host")))
				}
			case "zone":
				tags[k] = odd(rapid.SampledFrom([]string{"za", "zb", "zc"}).Draw(t, "zone"))
			default:
				tags[k] = odd(rapid.SampledFrom([]string{"east", "west"}).Draw(t, "dc"))
			}
		}
		key := md.Name + "|" + seriesKey(tags)
		if seen[key] {
			continue
		}
		seen[key] = true
		sd := seriesDef{Metric: m, Tags: tags}
		allBelow := 6
		if ties {
			allBelow = 9
		}
		if len(md.Fields) == 1 || rapid.IntRange(0, 9).Draw(t, "allFields") < allBelow {
			for i := range md.Fields {
				sd.Fields = append(sd.Fields, i)
			}
		} else {
			// a series that reports only some of the metric's fields
			for i := range md.Fields {
				if rapid.Bool().Draw(t, "hasField") {
					sd.Fields = append(sd.Fields, i)
				}
			}
			if len(sd.Fields) == 0 {
				sd.Fields = []int{rapid.IntRange(0, len(md.Fields)-1).Draw(t, "oneField")}
			}
		}
		d.Series = append(d.Series, sd)
	}
	twoFamilies := rapid.Bool().Draw(t, "twoFamilies") || opt.stored
	d.TwoFamilies = twoFamilies
	maxSlot := slotsPerCase/2 - 1
	if twoFamilies {
		maxSlot = slotsPerCase - 1
	}
	// Rows of one series arrive in time order, one per ingestion request: the order inside a
	// request is not kept by the router (unstable sort by shard), and on the tree the harness was
	// written against a point written between two existing slots of a series loses the later one
	// (memory database, C11's subject). Neither is part of this property.
	nBatches := rapid.IntRange(5, 7).Draw(t, "nBatches")
	d.Batches = make([][]point, nBatches)
	for si, sd := range d.Series {
		maxPoints := 5
		if d.Wide && sd.Metric == 0 {
			maxPoints = 2
		}
		n := rapid.IntRange(1, maxPoints).Draw(t, "nPoints")
		used := map[int]bool{}
		var slots []int
		for i := 0; i < n; i++ {
			var slot int
			switch rapid.IntRange(0, 3).Draw(t, "slotKind") {
			case 0: // around the family boundary
				slot = rapid.IntRange(15, 20).Draw(t, "slot")
				if slot > maxSlot {
					slot = maxSlot
				}
			case 1: // the first slots: many series share them
				slot = rapid.IntRange(0, 3).Draw(t, "slot")
			default:
				slot = rapid.IntRange(0, maxSlot).Draw(t, "slot")
			}
			if !used[slot] {
				used[slot] = true
				slots = append(slots, slot)
			}
		}
		sort.Ints(slots)
		reqs := make([]int, nBatches)
		for i := range reqs {
			reqs[i] = i
		}
		reqs = rapid.Permutation(reqs).Draw(t, "requests")[:len(slots)]
		sort.Ints(reqs)
		for i, slot := range slots {
			p := point{Series: si, Slot: slot, Vals: map[int]float64{}}
			if rapid.Bool().Draw(t, "offInSlot") {
				p.Off = rapid.Int64Range(0, storageIntervalMs-1).Draw(t, "off")
			}
			for _, fi := range sd.Fields {
				if smallValues {
					p.Vals[fi] = float64(rapid.SampledFrom([]int{0, 1, 1, 2, 2, 3, -1}).Draw(t, "v"))
				} else {
					p.Vals[fi] = float64(rapid.IntRange(-400, 400).Draw(t, "v")) / 8
				}
			}
			d.Batches[reqs[i]] = append(d.Batches[reqs[i]], p)
		}
	}
	for i := range d.Batches {
		if len(d.Batches[i]) > 1 {
			d.Batches[i] = rapid.Permutation(d.Batches[i]).Draw(t, "rowOrder")
		}
	}
	return d
}

func seriesKey(tags map[string]string) string {
	var b strings.Builder
	for i, k := range sortedKeys(tags) {
		if i > 0 {
			b.WriteByte(',')
		}
		b.WriteString(k + "=" + tags[k])
	}
	return b.String()
}

func (d *dataset) protoOf(p point) *protoMetricsV1.Metric {
	sd := d.Series[p.Series]
	md := d.Metrics[sd.Metric]
	var fs []*protoMetricsV1.SimpleField
	for _, fi := range sd.Fields {
		if v, ok := p.Vals[fi]; ok {
			fs = append(fs, sf(md.Fields[fi].Name, md.Fields[fi].Type.proto(), v))
		}
	}
	return pm(md.Name, p.ts(), sd.Tags, fs...)
}

func pm(name string, ts int64, tags map[string]string, fields ...*protoMetricsV1.SimpleField) *protoMetricsV1.Metric {
	m := &protoMetricsV1.Metric{Name: name, Timestamp: ts, SimpleFields: fields}
	for _, k := range sortedKeys(tags) {
		m.Tags = append(m.Tags, &protoMetricsV1.KeyValue{Key: k, Value: tags[k]})
	}
	return m
}

func sf(name string, typ protoMetricsV1.SimpleFieldType, v float64) *protoMetricsV1.SimpleField {
	return &protoMetricsV1.SimpleField{Name: name, Type: typ, Value: v}
}

// ---- queries ---------------------------------------------------------------------------------

type selItem struct {
	Field string `json:"field"`
	Func  string `json:"func"` // "" = plain
	// Alias (`expr as alias`): only drawn for statements with an order by clause
	Alias string `json:"alias,omitempty"`
}

// text: the expression (the name of its values in the result set when the item has no alias).
func (s selItem) text() string {
	if s.Func == "" {
		return s.Field
	}
	return s.Func + "(" + s.Field + ")"
}

// name: the name of the item's values in the result set (aggregation/expression.go: alias, else the expression).
func (s selItem) name() string {
	if s.Alias != "" {
		return s.Alias
	}
	return s.text()
}

func (s selItem) sqlText() string {
	if s.Alias != "" {
		return s.text() + " as " + s.Alias
	}
	return s.text()
}

type cond struct {
	Op     string   `json:"op"` // "=", "!=", "in", "not in", "and", "or"
	Key    string   `json:"key,omitempty"`
	Values []string `json:"values,omitempty"`
	L, R   *cond    `json:"-"`
}

func (c *cond) text() string {
	switch c.Op {
	case "and", "or":
		return "(" + c.L.text() + " " + c.Op + " " + c.R.text() + ")"
	case "in", "not in":
		q := make([]string, len(c.Values))
		for i, v := range c.Values {
			q[i] = "'" + v + "'"
		}
		return c.Key + " " + c.Op + " (" + strings.Join(q, ",") + ")"
	default:
		return c.Key + c.Op + "'" + c.Values[0] + "'"
	}
}

// hasOr reports whether the condition contains a disjunction.
func (c *cond) hasOr() bool {
	if c == nil {
		return false
	}
	if c.Op == "or" {
		return true
	}
	if c.Op == "and" {
		return c.L.hasOr() || c.R.hasOr()
	}
	return false
}

// keys returns the tag keys the condition names.
func (c *cond) keys() []string {
	if c == nil {
		return nil
	}
	if c.Op == "and" || c.Op == "or" {
		return append(c.L.keys(), c.R.keys()...)
	}
	return []string{c.Key}
}

// eval: the meaning of the tag filter. A series that does not carry the key of an atom is not
// selected by the atom, negated or not (index semantics: a negated atom is "all series that have the
// key" minus the matching ones; same reading as C10).
func (c *cond) eval(tags map[string]string) bool {
	switch c.Op {
	case "and":
		return c.L.eval(tags) && c.R.eval(tags)
	case "or":
		return c.L.eval(tags) || c.R.eval(tags)
	}
	v, has := tags[c.Key]
	if !has {
		return false
	}
	in := false
	for _, x := range c.Values {
		if x == v {
			in = true
		}
	}
	if c.Op == "=" || c.Op == "in" {
		return in
	}
	return !in
}

type querySpec struct {
	Metric   int       `json:"metric"` // -1: a metric nobody wrote
	All      bool      `json:"all"`    // select *
	Items    []selItem `json:"items"`
	Cond     *cond     `json:"-"`
	CondText string    `json:"cond,omitempty"`
	StartS   int       `json:"startSec"` // seconds relative to baseTime
	EndS     int       `json:"endSec"`
	Interval int       `json:"intervalSec"` // 0 = no group by time
	GroupBy  []string  `json:"groupBy"`
	// Limit: explicit `limit N` (0: no limit clause, the parser's default limit applies)
	Limit     int    `json:"limit,omitempty"`
	LimitKind string `json:"limitKind,omitempty"`
	// OrderBy: `order by <item> [asc|desc] {, <item> [asc|desc]}` (see orderby_test.go)
	OrderBy []orderItem `json:"orderBy,omitempty"`
}

// defaultLimit is the limit of a query without a limit clause (sql/query_stmt_parser.go).
const defaultLimit = 20

// completeLimit is the limit of the complete answer a cut answer is compared with.
const completeLimit = 1000000

// effLimit: the number of series (groups) the answer may have.
func (q *querySpec) effLimit() int {
	if q.Limit > 0 {
		return q.Limit
	}
	return defaultLimit
}

// sqlWithLimit: the statement with the limit clause replaced.
func (q *querySpec) sqlWithLimit(d *dataset, limit int) string {
	c := *q
	c.Limit = limit
	return c.sql(d)
}

func fmtTime(ms int64) string { return time.UnixMilli(ms).UTC().Format("2006-01-02 15:04:05") }

func (q *querySpec) sql(d *dataset) string {
	name := "nometric"
	if q.Metric >= 0 {
		name = d.Metrics[q.Metric].Name
	}
	var b strings.Builder
	b.WriteString("select ")
	if q.All {
		b.WriteString("*")
	} else {
		for i, it := range q.Items {
			if i > 0 {
				b.WriteString(", ")
			}
			b.WriteString(it.sqlText())
		}
	}
	b.WriteString(" from " + name + " where ")
	if q.Cond != nil {
		b.WriteString(q.Cond.text() + " and ")
	}
	fmt.Fprintf(&b, "time>='%s' and time<='%s'", fmtTime(baseTime+int64(q.StartS)*1000), fmtTime(baseTime+int64(q.EndS)*1000))
	var gb []string
	gb = append(gb, q.GroupBy...)
	if q.Interval > 0 {
		gb = append(gb, fmt.Sprintf("time(%ds)", q.Interval))
	}
	if len(gb) > 0 {
		b.WriteString(" group by " + strings.Join(gb, ","))
	}
	for i, o := range q.OrderBy {
		if i == 0 {
			b.WriteString(" order by ")
		} else {
			b.WriteString(", ")
		}
		b.WriteString(o.text())
	}
	if q.Limit > 0 {
		fmt.Fprintf(&b, " limit %d", q.Limit)
	}
	return b.String()
}

const (
	sigFieldNotFound = "C12/leaf-missing-selected-field-drops-leaf-answer"
	sigSelectStar    = "C12/select-star-field-set-of-first-response"
	sigMultiFunc     = "C12/merge-of-field-with-several-functions-mixes-aggregates"
	sigUnknownTagKey = "C12/leaf-unknown-tag-key-fails-whole-condition"
)

// commonFields returns the fields of the metric that every series of it carries in every row.
func (d *dataset) commonFields(m int) []int {
	var out []int
	for fi := range d.Metrics[m].Fields {
		ok := true
		for si, sd := range d.Series {
			if sd.Metric != m {
				continue
			}
			has := false
			for _, x := range sd.Fields {
				if x == fi {
					has = true
				}
			}
			if !has {
				ok = false
			}
			for _, b := range d.Batches {
				for _, p := range b {
					if p.Series == si {
						if _, okv := p.Vals[fi]; !okv {
							ok = false
						}
					}
				}
			}
		}
		if ok {
			out = append(out, fi)
		}
	}
	return out
}

func genCondLeaf(t *rapid.T, d *dataset, mi int, md metricDef) *cond {
	key := rapid.SampledFrom(md.TagKeys).Draw(t, "condKey")
	var pool []string
	if mi >= 0 && rapid.IntRange(0, 7).Draw(t, "condFromData") > 0 {
		// values the metric's series really carry
		seen := map[string]bool{}
		for _, sd := range d.Series {
			// (a backslash inside a string literal of a statement is the SQL grammar's business, not this property's)
			if v, ok := sd.Tags[key]; ok && sd.Metric == mi && !seen[v] && !strings.Contains(v, "\\") {
				seen[v] = true
				pool = append(pool, v)
			}
		}
		sort.Strings(pool)
	}
	if len(pool) > 0 {
	} else if key == "host" {
		pool = []string{"h0", "h1", "h2", "h3", "h4", "h5", "h6", "h7", "h9"} // h9 is never written
	} else if key == "zone" {
		pool = []string{"za", "zb", "zc", "zz"} // zz is never written
	} else {
		pool = []string{"east", "west", "north"} // north is never written
	}
	op := rapid.SampledFrom([]string{"=", "=", "!=", "in", "in", "not in"}).Draw(t, "condOp")
	c := &cond{Op: op, Key: key}
	n := 1
	if op == "in" || op == "not in" {
		n = rapid.IntRange(1, 3).Draw(t, "condN")
	}
	vals := rapid.Permutation(pool).Draw(t, "condVals")
	if n > len(vals) {
		n = len(vals)
	}
	c.Values = append(c.Values, vals[:n]...)
	return c
}

func genQuery(t *rapid.T, d *dataset, group string) *querySpec {
	return genQueryWith(t, d, group, modeDefault)
}

type queryMode int

const (
	modeDefault queryMode = iota
	// modeOrder: the statement of TestOrderByLayoutIndependence (a select list, mostly grouped by tags over the
	// whole time range, always an order by clause and a limit drawn around the number of groups)
	modeOrder
	// modeSkew: the statement of TestGroupByFieldsANodeNeverSaw (mostly `select *` from the first metric, grouped by
	// tags, mostly no condition and the whole time range)
	modeSkew
	// modeStored: the statement of TestStoredFamiliesAndRequestBatching (mostly from the first metric, with the tag
	// condition the data set was shaped for, mostly over the whole time range)
	modeStored
)

// genQueryWith: orderMode = the statement of TestOrderByLayoutIndependence: a select list (no *), mostly grouped by
// tags over the whole time range, always with an order by clause and a limit drawn around the number of groups.
// Otherwise 1 of 5 grouped statements with a select list gets an order by clause (its limit clause stays as drawn).
func genQueryWith(t *rapid.T, d *dataset, group string, mode queryMode) *querySpec {
	orderMode, skew, stored := mode == modeOrder, mode == modeSkew, mode == modeStored
	q := &querySpec{}
	q.Metric = rapid.IntRange(0, len(d.Metrics)-1).Draw(t, "qMetric")
	if rapid.IntRange(0, 19).Draw(t, "unknownMetric") == 0 {
		q.Metric = -1
	}
	if (skew || stored) && rapid.IntRange(0, 4).Draw(t, "skewFirstMetric") > 0 {
		q.Metric = 0
	}
	var md metricDef
	if q.Metric >= 0 {
		md = d.Metrics[q.Metric]
	} else {
		md = metricDef{Name: "nometric", TagKeys: []string{"host"}, Fields: []fieldDef{{"s1", tSum}}}
	}
	// select list
	candidates := make([]int, len(md.Fields))
	for i := range md.Fields {
		candidates[i] = i
	}
	ragged := q.Metric >= 0 && len(d.commonFields(q.Metric)) < len(md.Fields)
	q.All = rapid.IntRange(0, 4).Draw(t, "selectAll") == 0 && !orderMode
	if skew && q.Metric >= 0 && rapid.IntRange(0, 3).Draw(t, "skewSelectAll") > 0 {
		q.All = true
	}
	if q.All && ragged && ev.Known(sigSelectStar) {
		q.All = false
		ev.Class(group, "excluded_known", 1)
	}
	if !q.All {
		if ragged && ev.Known(sigFieldNotFound) {
			candidates = d.commonFields(q.Metric)
			ev.Class(group, "excluded_known", 1)
			if len(candidates) == 0 {
				// nothing can be named that every leaf knows; `select *` is planned per leaf
				q.All = !ev.Known(sigSelectStar)
			}
		}
	}
	if !q.All && len(candidates) > 0 {
		n := rapid.IntRange(1, 3).Draw(t, "nItems")
		seen := map[string]bool{}
		aggOf := map[string]string{}
		for i := 0; i < n; i++ {
			fi := rapid.SampledFrom(candidates).Draw(t, "itemField")
			fd := md.Fields[fi]
			it := selItem{Field: fd.Name, Func: rapid.SampledFrom(fd.Type.funcs()).Draw(t, "itemFunc")}
			if seen[it.text()] {
				continue
			}
			if prev, ok := aggOf[fd.Name]; ok && prev != fd.Type.aggOf(it.Func) && ev.Known(sigMultiFunc) {
				ev.Class(group, "excluded_known", 1)
				continue
			}
			aggOf[fd.Name] = fd.Type.aggOf(it.Func)
			seen[it.text()] = true
			q.Items = append(q.Items, it)
		}
	}
	if !q.All && len(q.Items) == 0 {
		return nil
	}
	// tag condition
	switch rapid.IntRange(0, 5).Draw(t, "condKind") {
	case 0, 1, 2:
	case 3, 4:
		q.Cond = genCondLeaf(t, d, q.Metric, md)
	default:
		q.Cond = &cond{Op: rapid.SampledFrom([]string{"and", "or"}).Draw(t, "condBin"), L: genCondLeaf(t, d, q.Metric, md), R: genCondLeaf(t, d, q.Metric, md)}
	}
	if skew && rapid.IntRange(0, 2).Draw(t, "skewNoCond") > 0 {
		q.Cond = nil
	}
	if sc := d.storedCond(); stored && q.Metric == 0 && sc != nil && rapid.IntRange(0, 3).Draw(t, "storedCond") > 0 {
		q.Cond = sc
		if rapid.IntRange(0, 4).Draw(t, "storedCondAnd") == 0 {
			q.Cond = &cond{Op: "and", L: sc, R: genCondLeaf(t, d, q.Metric, md)}
		}
	}
	if q.Cond != nil {
		q.CondText = q.Cond.text()
	}
	// time range (seconds relative to base; the data lies in [0, 360))
	switch rapid.IntRange(0, 12).Draw(t, "rangeKind") {
	case 0, 1, 2, 3, 4, 5, 6, 12:
		q.StartS, q.EndS = -60, 420
	case 7:
		q.StartS = rapid.IntRange(-30, 60).Draw(t, "startS")
		q.EndS = q.StartS + rapid.IntRange(0, 300).Draw(t, "lenS")
	case 8, 9: // one family only
		if rapid.Bool().Draw(t, "firstFamily") {
			q.StartS, q.EndS = -60, 179
		} else {
			q.StartS, q.EndS = 180, 420
		}
	case 10: // a single storage slot
		q.StartS = rapid.IntRange(0, 35).Draw(t, "slotS") * 10
		q.EndS = q.StartS + rapid.IntRange(0, 9).Draw(t, "withinSlot")
	default: // nothing was written there
		q.StartS, q.EndS = -3600, -3000
	}
	if (orderMode || skew || stored) && rapid.IntRange(0, 2).Draw(t, "orderWholeRange") > 0 {
		q.StartS, q.EndS = -60, 420
	}
	q.Interval = rapid.SampledFrom([]int{0, 0, 10, 20, 30, 60, 300}).Draw(t, "interval")
	groupKind := rapid.IntRange(0, 3).Draw(t, "groupKind")
	if (orderMode || skew) && groupKind == 0 && rapid.IntRange(0, 9).Draw(t, "orderUngrouped") > 0 {
		groupKind = 1
	}
	switch groupKind {
	case 0:
	case 1, 2:
		q.GroupBy = []string{rapid.SampledFrom(md.TagKeys).Draw(t, "groupKey")}
	default:
		q.GroupBy = append([]string{}, md.TagKeys...)
		if len(q.GroupBy) == 3 && rapid.Bool().Draw(t, "groupTwoOfThree") {
			drop := rapid.IntRange(0, 2).Draw(t, "groupDrop")
			q.GroupBy = append(q.GroupBy[:drop:drop], q.GroupBy[drop+1:]...)
		}
	}
	if d.Wide && q.Metric == 0 && rapid.IntRange(0, 9).Draw(t, "wideByHost") < 5 {
		// the grouping with more groups than the default limit whose groups have several series
		q.GroupBy = []string{"host"}
	}
	genLimit(t, d, q)
	if !q.All && len(q.Items) > 0 {
		switch {
		case orderMode:
			genOrderBy(t, d, q, group, true)
		case len(q.GroupBy) > 0 && rapid.IntRange(0, 4).Draw(t, "orderBy") == 0:
			genOrderBy(t, d, q, group, false)
		}
	}
	return q
}

// genLimit draws the limit clause. No order by: which groups a cut answer holds is not specified, the
// limit is drawn relative to the number of groups of the complete answer (known from the written points).
func genLimit(t *rapid.T, d *dataset, q *querySpec) {
	q.LimitKind = "none"
	if len(q.GroupBy) == 0 {
		// one series at most: a limit clause never cuts
		if rapid.IntRange(0, 4).Draw(t, "limitUngrouped") == 0 {
			q.Limit = rapid.SampledFrom([]int{1, 2, 100}).Draw(t, "limit")
			q.LimitKind = "ungrouped"
		}
		return
	}
	groups := len(evalModel(d, q).groupKeys())
	switch k := rapid.IntRange(0, 9).Draw(t, "limitKind"); {
	case k < 4: // no clause: the default limit (cuts when a wide metric is grouped by host)
	case k < 7:
		q.Limit = rapid.IntRange(1, 4).Draw(t, "limit")
		q.LimitKind = "small(1..4)"
	case k < 9: // around the number of groups
		q.Limit = groups + rapid.IntRange(-1, 1).Draw(t, "limitOff")
		q.LimitKind = "groups-1..groups+1"
		if q.Limit < 1 {
			q.Limit = 1
		}
	default:
		q.Limit = rapid.SampledFrom([]int{defaultLimit, 100, completeLimit}).Draw(t, "limit")
		q.LimitKind = "large"
	}
}

// ---- naive model -------------------------------------------------------------------------------

// cell identifies one value of a result: series key, result field, timestamp.
type cell struct {
	key, field string
	ts         int64
}

type modelOut struct {
	// exact expectation of a cell: the aggregate (series/field/type.go: function and field type)
	// of the values of every written point that feeds it; absent for order-ambiguous cells
	exact   map[cell]float64
	present map[cell]bool // every cell the answer must have
	// first/last cells fed by >= 2 series or from >= 2 data families (the order in which the partial
	// results of series / families are merged is not fixed by any document): candidate values
	ambiguous map[cell][]float64
	matching  []int // series with at least one point in the answer
	// groupOf: series with at least one point in the answer -> key of its group
	groupOf map[int]string
}

// groupKeys: the groups (series of the result) of the complete answer, sorted.
func (m *modelOut) groupKeys() []string {
	seen := map[string]bool{}
	for c := range m.present {
		seen[c.key] = true
	}
	return sortedKeys(seen)
}

type feed struct {
	slot int64
	v    float64
}

// evalModel computes, from the written points only, which cells the answer has, their values,
// and which first/last cells depend on an order no document fixes. Each (series, storage slot) holds
// one written value, so a cell's value is the aggregate of the values of the points it covers.
func evalModel(d *dataset, q *querySpec) *modelOut { return evalModelOn(d, q, nil) }

// evalModelOn is evalModel over the series the filter accepts (nil: all).
func evalModelOn(d *dataset, q *querySpec, only func(series int) bool) *modelOut {
	out := &modelOut{exact: map[cell]float64{}, present: map[cell]bool{}, ambiguous: map[cell][]float64{}, groupOf: map[int]string{}}
	if q.Metric < 0 {
		return out
	}
	md := d.Metrics[q.Metric]
	si := storageIntervalMs
	start := floorDiv(baseTime+int64(q.StartS)*1000, si) * si
	end := floorDiv(baseTime+int64(q.EndS)*1000, si) * si
	iv := si
	if q.Interval > 0 {
		iv = int64(q.Interval) * 1000 / si * si // the planner truncates to a multiple of the storage interval
		if iv < si {
			iv = si
		}
	}
	items := q.Items
	if q.All {
		for _, f := range md.Fields {
			items = append(items, selItem{Field: f.Name})
		}
	}
	// (series, family, flush epoch of the family) triples feeding a cell: the points of one series in one family that
	// were written before and after a flush of the family are merged from a file and a memory database (or two files)
	contributors := map[cell]map[[3]int64]bool{}
	feeds := map[cell][]feed{}
	aggs := map[cell]string{}
	matched := map[int]bool{}
	for bi, b := range d.Batches {
		for _, p := range b {
			sd := d.Series[p.Series]
			if sd.Metric != q.Metric {
				continue
			}
			if q.Cond != nil && !q.Cond.eval(sd.Tags) {
				continue
			}
			slotStart := floorDiv(p.ts(), si) * si
			if slotStart < start || slotStart > end {
				continue
			}
			if only != nil && !only(p.Series) {
				continue
			}
			gtags := map[string]string{}
			grouped := true
			for _, k := range q.GroupBy {
				v, has := sd.Tags[k]
				if !has {
					grouped = false
				}
				gtags[k] = v
			}
			if !grouped {
				// a series that lacks one of the grouping keys belongs to no group
				continue
			}
			key := seriesKey(gtags)
			ts := start + (slotStart-start)/iv*iv
			for _, it := range items {
				fi := -1
				for i, f := range md.Fields {
					if f.Name == it.Field {
						fi = i
					}
				}
				v, ok := p.Vals[fi]
				if !ok {
					continue
				}
				matched[p.Series] = true
				out.groupOf[p.Series] = key
				c := cell{key, it.name(), ts}
				out.present[c] = true
				aggs[c] = md.Fields[fi].Type.aggOf(it.Func)
				feeds[c] = append(feeds[c], feed{slotStart, v})
				if contributors[c] == nil {
					contributors[c] = map[[3]int64]bool{}
				}
				contributors[c][[3]int64{int64(p.Series), floorDiv(p.ts(), 3600_000), int64(d.flushEpoch(bi, p.ts()))}] = true
			}
		}
	}
	for c, fs := range feeds {
		sort.Slice(fs, func(i, j int) bool { return fs[i].slot < fs[j].slot })
		switch aggs[c] {
		case "sum":
			x := 0.0
			for _, f := range fs {
				x += f.v
			}
			out.exact[c] = x
		case "min", "max":
			x := fs[0].v
			for _, f := range fs {
				if (aggs[c] == "min" && f.v < x) || (aggs[c] == "max" && f.v > x) {
					x = f.v
				}
			}
			out.exact[c] = x
		default: // first / last by time, when only one series of one family feeds the cell
			if len(contributors[c]) >= 2 {
				for _, f := range fs {
					out.ambiguous[c] = append(out.ambiguous[c], f.v)
				}
			} else if aggs[c] == "last" {
				out.exact[c] = fs[len(fs)-1].v
			} else {
				out.exact[c] = fs[0].v
			}
		}
	}
	for s := range matched {
		out.matching = append(out.matching, s)
	}
	sort.Ints(out.matching)
	return out
}

func floorDiv(a, b int64) int64 {
	q := a / b
	if a%b != 0 && (a < 0) != (b < 0) {
		q--
	}
	return q
}
