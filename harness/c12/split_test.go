package c12

import (
	"fmt"
	"os"
	"sort"
	"strings"
	"testing"

	"pgregory.net/rapid"

	"github.com/lindb/lindb/pkg/timeutil"
	"github.com/lindb/lindb/verifharness/sim/ev"
	"github.com/lindb/lindb/verifharness/sim/node"
)

// TestReceiverSplit checks the mechanism the intermediate level relies on (LeafReduceContext.BuildResultSet):
// with R receivers every leaf splits its grouped series over the receivers such that
//   - nothing is lost or duplicated: the R payloads of a leaf partition what the leaf sends to a single receiver;
//   - a group meets at one receiver: every leaf sends a given group to the same receiver index.
//
// The split is observed at the leaves' streams; no production plan in which more than one receiver
// merges exists on this tree (see TestRegression_GroupByOverSeveralStorageNodesProductionPlan), so
// the merged answer of such a plan is not part of the check.
func TestReceiverSplit(t *testing.T) {
	rapid.Check(t, func(t *rapid.T) {
		const group = "TestReceiverSplit"
		d := genDataset(t)
		l := genLayout(t)
		for i := 0; i < 4 && len(l.Nodes) < 2; i++ {
			l = genLayout(t)
		}
		var q *querySpec
		for i := 0; i < 5 && q == nil; i++ {
			q = genQuery(t, d, group)
			if q != nil && (len(q.GroupBy) == 0 || q.Metric < 0) {
				q = nil
			}
		}
		if q == nil {
			t.Skip("no group-by query drawn")
		}
		// groups that several series (hence several leaves) share matter here
		if md := d.Metrics[q.Metric]; len(md.TagKeys) >= 2 && rapid.IntRange(0, 9).Draw(t, "byCoarseKey") < 7 {
			// zone / dc have few values
			q.GroupBy = []string{md.TagKeys[len(md.TagKeys)-1]}
			if q.GroupBy[0] == "host" {
				q.GroupBy = []string{md.TagKeys[0]}
			}
		}
		if rapid.IntRange(0, 9).Draw(t, "wholeData") < 6 {
			q.Cond, q.CondText, q.StartS, q.EndS = nil, "", -60, 420
		}
		nRecv := rapid.IntRange(2, 3).Draw(t, "receivers")
		receivers := []string{"mid0:1", "mid1:1", "mid2:1"}[:nRecv]

		dir, err := os.MkdirTemp("", "c12-")
		if err != nil {
			t.Fatalf("harness: %v", err)
		}
		defer os.RemoveAll(dir)
		n, err := node.Start(dir)
		if err != nil {
			t.Fatalf("harness: start engine: %v", err)
		}
		defer n.Close()
		caseSeq++
		e := &env{seq: caseSeq, t: t, group: group, n: n, nc: node.NewCluster(), xc: newXCluster("root", "mid0", "mid1", "mid2"), opt: node.DBOption(timeutil.Interval(storageIntervalMs)), d: d}
		if d.Wide {
			e.sqlSuffix = concLimit
		}
		defer e.nc.Close()
		defer e.xc.Close()
		for i := 0; i < maxLeaves; i++ {
			e.xc.AddLeaf(leafName(i), n.Engine, fmt.Sprintf("@n%d", i))
		}
		e.build(1, l)
		sql := q.sql(d)

		// what every leaf sends to a single receiver
		if _, err := e.xc.Query("root:1", l.db, sql); err != nil && !strings.Contains(err.Error(), "not found") {
			t.Fatalf("harness: %s: %v", sql, err)
		}
		single := map[string][]string{}
		for _, o := range e.xc.observed() {
			single[o.From] = append([]string(nil), o.Groups...)
			sort.Strings(single[o.From])
		}
		obs, err := e.xc.leafSplit(l.db, sql, receivers)
		if err != nil {
			t.Fatalf("%v: %+v", err, obs)
		}
		fail := func(format string, args ...any) {
			t.Fatalf("receiver split broken\nquery: %s\nlayout: %s, receivers %v\n%s\nresponses: %+v\ndata: %+v", sql, l, receivers, fmt.Sprintf(format, args...), obs, d)
		}
		perLeaf := map[string][]string{}
		home := map[string]string{} // group -> receiver
		senders := map[string]int{} // group -> leaves that sent it
		busy := map[string]bool{}   // receivers that got data
		for _, o := range obs {
			if o.Err != "" && !strings.Contains(o.Err, "not found") {
				fail("leaf %s failed: %s", o.From, o.Err)
			}
			for _, g := range o.Groups {
				perLeaf[o.From] = append(perLeaf[o.From], g)
				busy[o.Receiver] = true
				if r, ok := home[g]; ok && r != o.Receiver {
					fail("group %q is sent to %s by one leaf and to %s by %s: it would be merged at two nodes", g, r, o.Receiver, o.From)
				}
				home[g] = o.Receiver
				senders[g]++
			}
		}
		shared := 0
		for _, c := range senders {
			if c >= 2 {
				shared++
			}
		}
		for leaf, want := range single {
			got := perLeaf[leaf]
			sort.Strings(got)
			if strings.Join(got, "|") != strings.Join(want, "|") {
				fail("leaf %s sends %q to one receiver but %q to %d receivers", leaf, want, got, nRecv)
			}
		}
		for leaf := range perLeaf {
			if _, ok := single[leaf]; !ok {
				fail("leaf %s only answers when there are several receivers", leaf)
			}
		}
		classes := []string{fmt.Sprintf("receivers=%d", nRecv), fmt.Sprintf("layout:leaves=%d", len(l.Nodes)), fmt.Sprintf("receivers-with-data=%d", len(busy)), "query:limit=" + q.LimitKind}
		if len(home) > q.effLimit() {
			// a leaf splits all its groups whatever the limit of the statement is (the limit is applied by the root)
			classes = append(classes, "limit:below-the-number-of-groups-the-leaves-send")
		}
		if d.Wide {
			classes = append(classes, "case:wide-data-set")
		}
		if shared > 0 {
			classes = append(classes, "group-sent-by->=2-leaves")
		}
		ev.Case(group, fmt.Sprintf("%+v|%s|%s|%d", d, sql, l, nRecv), shared > 0 && len(busy) >= 2, classes,
			map[string]any{"query": sql, "layout": l, "receivers": receivers, "groups": len(home), "groupsSentBySeveralLeaves": shared})
	})
}
