package c12

import (
	"fmt"
	"sort"
	"strings"
	"testing"

	protoMetricsV1 "github.com/lindb/common/proto/gen/v1/linmetrics"
	"pgregory.net/rapid"

	"github.com/lindb/lindb/models"
	"github.com/lindb/lindb/pkg/timeutil"
)

// ---- how the requests of a layout reach its shards ---------------------------------------------------------
//
// The points of a case are a fixed set; an ingestion history that delivers them is a sequence of requests. The
// reference layout gets the canonical requests (dataset.Batches), each decoded into a batch object of its own.
// Another layout may get the SAME points
//   - through the batch object of the ingestion handlers (metric.NewBrokerBatchRows: a process-wide pool; the object
//     still holds the rows of the request that used it before, of whatever database, behind its live rows),
//   - cut into requests of other sizes and row orders (a canonical request split, neighbours joined), under the
//     rules every history of this package obeys: the rows of a series arrive in time order, at most one per request,
//   - with requests for another database of the same broker in between (they only pass through the pool).
//
// The answer is a function of the written points, so every such history must give the reference answer.

type wreq struct {
	Rows [][2]int `json:"rows"` // (canonical request, index in it)
	// Foreign: rows of a request for another database that the broker routes right before this one (pooled mode)
	Foreign       int         `json:"foreign,omitempty"`
	ForeignShards int         `json:"foreignShards,omitempty"`
	Flush         []flushSpec `json:"flush,omitempty"` // flushes that follow this request
}

type writeSpec struct {
	Pooled    bool   `json:"pooled"`
	Rebatched bool   `json:"rebatched"`
	Requests  []wreq `json:"requests"`
}

// flushSpec: after canonical request After, every node of the layout flushes metadata, the index of every shard and
// the data families Family names (0: all; 1: only the family of the first hour; 2: only the family of the second hour).
type flushSpec struct {
	After  int `json:"after"`
	Family int `json:"family"`
}

var firstFamilyTime = floorDiv(baseTime, 3600_000) * 3600_000

func (f flushSpec) covers(familyTime int64) bool {
	switch f.Family {
	case 1:
		return familyTime == firstFamilyTime
	case 2:
		return familyTime == firstFamilyTime+3600_000
	}
	return true
}

// flushEpoch: the number of flushes of the point's data family that precede canonical request bi.
func (d *dataset) flushEpoch(bi int, ts int64) int {
	n := 0
	for _, f := range d.Flushes {
		if f.After < bi && f.covers(floorDiv(ts, 3600_000)*3600_000) {
			n++
		}
	}
	return n
}

// flushedLater: a flush of the point's data family follows canonical request bi (the point is in a file at query time).
func (d *dataset) flushedLater(bi int, ts int64) bool {
	for _, f := range d.Flushes {
		if f.After >= bi && f.covers(floorDiv(ts, 3600_000)*3600_000) {
			return true
		}
	}
	return false
}

// canonicalRequests: the requests of the reference layout.
func canonicalRequests(d *dataset) []wreq {
	out := make([]wreq, len(d.Batches))
	for bi, b := range d.Batches {
		for i := range b {
			out[bi].Rows = append(out[bi].Rows, [2]int{bi, i})
		}
		for _, f := range d.Flushes {
			if f.After == bi {
				out[bi].Flush = append(out[bi].Flush, f)
			}
		}
	}
	return out
}

var requestSizes = []int{1, 2, 3, 4, 6, 9, 14, 25, 60, 200}

// genWriteSpec draws how a layout receives the points (see above).
func genWriteSpec(t *rapid.T, d *dataset, pooled, rebatched bool) *writeSpec {
	w := &writeSpec{Pooled: pooled, Rebatched: rebatched}
	if !rebatched {
		w.Requests = canonicalRequests(d)
	} else {
		var cur wreq
		inCur := map[int]bool{}
		target := 0
		closeCur := func() {
			if len(cur.Rows) > 0 {
				w.Requests = append(w.Requests, cur)
			}
			cur, inCur, target = wreq{}, map[int]bool{}, 0
		}
		for bi, b := range d.Batches {
			idx := make([]int, len(b))
			for i := range idx {
				idx[i] = i
			}
			if len(idx) > 1 {
				idx = rapid.Permutation(idx).Draw(t, "rowOrderOfLayout")
			}
			for _, i := range idx {
				if inCur[b[i].Series] || (target > 0 && len(cur.Rows) >= target) {
					closeCur()
				}
				if target == 0 {
					target = rapid.SampledFrom(requestSizes).Draw(t, "requestSize")
				}
				cur.Rows = append(cur.Rows, [2]int{bi, i})
				inCur[b[i].Series] = true
			}
			var fl []flushSpec
			for _, f := range d.Flushes {
				if f.After == bi {
					fl = append(fl, f)
				}
			}
			switch {
			case len(fl) > 0:
				// a flush follows exactly the points of the canonical requests 0..bi
				closeCur()
				if len(w.Requests) == 0 {
					w.Requests = append(w.Requests, wreq{})
				}
				last := &w.Requests[len(w.Requests)-1]
				last.Flush = append(last.Flush, fl...)
			case len(cur.Rows) > 0 && !rapid.Bool().Draw(t, "requestContinuesIntoTheNextCanonicalOne"):
				closeCur()
			}
		}
		closeCur()
	}
	if pooled {
		for i := range w.Requests {
			if rapid.IntRange(0, 3).Draw(t, "foreignRequest") == 0 {
				w.Requests[i].Foreign = rapid.SampledFrom([]int{1, 2, 3, 10, 40, 90}).Draw(t, "foreignRows")
				w.Requests[i].ForeignShards = rapid.IntRange(1, 6).Draw(t, "foreignShards")
			}
		}
	}
	return w
}

// genWriteSpecs gives the layouts (not the reference) their histories.
func genWriteSpecs(t *rapid.T, d *dataset, layouts []*layoutSpec) {
	for _, l := range layouts {
		switch rapid.IntRange(0, 7).Draw(t, "writeMode") {
		case 0, 1:
		case 2:
			l.Write = genWriteSpec(t, d, true, false)
		case 3:
			l.Write = genWriteSpec(t, d, false, true)
		default:
			l.Write = genWriteSpec(t, d, true, true)
		}
	}
}

// foreignRequest passes a request for another database through the broker's routing (pooled batch, shard and family
// iterators); its rows go to that database's channels, i.e. nowhere near the layout.
func foreignRequest(rows, shards int) error {
	ms := make([]*protoMetricsV1.Metric, rows)
	for i := range ms {
		ms[i] = pm("net", baseTime+int64(i%36)*storageIntervalMs, map[string]string{"host": fmt.Sprintf("f%03d", i), "nic": "eth0"},
			sf("rx", protoMetricsV1.SimpleFieldType_DELTA_SUM, float64(1000+i)))
	}
	rt, _, err := routeBatchPooled(ms, shards, timeutil.Interval(storageIntervalMs))
	if err != nil {
		return err
	}
	n := 0
	for _, r := range rt {
		n += r.rows
	}
	if n != rows {
		return fmt.Errorf("routing of a request of %d rows over %d shards handed out %d rows", rows, shards, n)
	}
	return nil
}

// flushLayout: every node of the layout flushes in production order (metadata, index of each shard, data families).
func (e *env) flushLayout(l *layoutSpec, f flushSpec) error {
	for ni, shards := range l.Nodes {
		name := fmt.Sprintf("%s@n%d", l.db, ni)
		db, ok := e.n.Engine.GetDatabase(name)
		if !ok {
			return fmt.Errorf("database %s not found", name)
		}
		if err := db.FlushMeta(); err != nil {
			return err
		}
		for _, s := range shards {
			shard, ok := db.GetShard(models.ShardID(s))
			if !ok {
				return fmt.Errorf("shard %d of %s not found", s, name)
			}
			if err := shard.FlushIndex(); err != nil {
				return err
			}
			fams, err := e.n.Families(name, models.ShardID(s))
			if err != nil {
				return err
			}
			for _, fam := range fams {
				if f.covers(fam.FamilyTime()) {
					if err := fam.Flush(); err != nil {
						return err
					}
				}
			}
		}
	}
	return nil
}

// ---- data whose placement over shards AND data families follows one layout -----------------------------------

// storeByShard places flushes and rewrites WHEN the series of the first metric report, following the placement the
// production routing gives them under layout l: a tag condition (key = value, returned) selects some of the metric's
// series; on shards that hold selected and other series, the selected ones report only in one of the two hours and
// the other ones (also) report in the other hour, whose data family is flushed afterwards - so that on those shards
// one data family holds the metric on disk but none of the selected series, while another data family of the shard
// holds selected points. Any assignment of times to series is a legal data set; this one is merely correlated with l.
func storeByShard(t *rapid.T, d *dataset, l *layoutSpec) bool {
	nb := len(d.Batches)
	if l.Shards < 2 || nb < 3 {
		return false
	}
	routeSeries(t, d, l)
	// atoms that select some but not all series of the metric
	type atom struct{ k, v string }
	count := map[atom]int{}
	total := 0
	for _, sd := range d.Series {
		if sd.Metric != 0 {
			continue
		}
		total++
		for k, v := range sd.Tags {
			count[atom{k, v}]++
		}
	}
	var atoms []atom
	for a, n := range count {
		// (no backslash in a string literal of a statement, see genCondLeaf)
		if n < total && !strings.Contains(a.v, "\\") {
			atoms = append(atoms, a)
		}
	}
	if len(atoms) == 0 {
		return false
	}
	sort.Slice(atoms, func(i, j int) bool {
		// atoms that select many series first (zone / dc values), drawn mostly from the front
		if count[atoms[i]] != count[atoms[j]] {
			return count[atoms[i]] > count[atoms[j]]
		}
		return atoms[i].k+"="+atoms[i].v < atoms[j].k+"="+atoms[j].v
	})
	a := atoms[rapid.IntRange(0, len(atoms)-1).Draw(t, "storedAtom")]
	d.StoredKey, d.StoredValue = a.k, a.v
	selected := func(si int) bool { return d.Series[si].Tags[a.k] == a.v }

	// mirror: the selected series report in the first hour only, the later family is the one without them
	mirror := rapid.IntRange(0, 2).Draw(t, "storedMirror") == 0
	k := rapid.IntRange(0, nb-2).Draw(t, "flushAfter")
	fam := rapid.SampledFrom([]int{0, 0, 1}).Draw(t, "flushFamily")
	if mirror && fam == 1 {
		fam = 2
	}
	d.Flushes = []flushSpec{{After: k, Family: fam}}

	shaped := 0
	for sh := 0; sh < l.Shards; sh++ {
		var sel, oth []int
		for si, sd := range d.Series {
			if sd.Metric == 0 && l.shardOf[si] == sh {
				if selected(si) {
					sel = append(sel, si)
				} else {
					oth = append(oth, si)
				}
			}
		}
		if len(sel) == 0 || len(oth) == 0 {
			continue
		}
		if shaped > 0 && rapid.IntRange(0, 3).Draw(t, "shapeShard") == 0 {
			continue
		}
		shaped++
		for _, si := range sel {
			if mirror {
				// first hour only, written at any time
				rewritePoints(t, d, si, []span{{0, 17, 0, nb - 1, rapid.IntRange(1, 3).Draw(t, "nEarly")}})
			} else {
				// second hour only, written after the flush
				rewritePoints(t, d, si, []span{{18, 35, k + 1, nb - 1, rapid.IntRange(1, 3).Draw(t, "nLate")}})
			}
		}
		for i, si := range oth {
			if i > 0 && rapid.Bool().Draw(t, "otherSeriesAsDrawn") {
				continue
			}
			if mirror {
				// reports in the second hour before the flush (and maybe in the first hour, earlier)
				rewritePoints(t, d, si, []span{{0, 17, 0, k, rapid.IntRange(0, 1).Draw(t, "nEarly")}, {18, 35, 0, k, rapid.IntRange(1, 2).Draw(t, "nLate")}})
			} else {
				// reports in the first hour before the flush (and maybe in the second hour, later)
				rewritePoints(t, d, si, []span{{0, 17, 0, k, rapid.IntRange(1, 2).Draw(t, "nEarly")}, {18, 35, k + 1, nb - 1, rapid.IntRange(0, 2).Draw(t, "nLate")}})
			}
		}
	}
	// more flushes anywhere (also after the last request: everything the flush covers is on disk when the queries run)
	for n := rapid.IntRange(0, 2).Draw(t, "moreFlushes"); n > 0; n-- {
		d.Flushes = append(d.Flushes, flushSpec{After: rapid.IntRange(0, nb-1).Draw(t, "flushAfter"), Family: rapid.IntRange(0, 2).Draw(t, "flushFamily")})
	}
	sort.SliceStable(d.Flushes, func(i, j int) bool { return d.Flushes[i].After < d.Flushes[j].After })
	return shaped > 0
}

// span: n points in storage slots [slotLo, slotHi], in canonical requests [reqLo, reqHi].
type span struct{ slotLo, slotHi, reqLo, reqHi, n int }

// rewritePoints replaces the points of a series by the points of the spans (in the order given, which must be the
// time order): distinct slots, ascending, one row per request, requests ascending with the time.
func rewritePoints(t *rapid.T, d *dataset, si int, spans []span) {
	for bi := range d.Batches {
		kept := d.Batches[bi][:0:0]
		for _, p := range d.Batches[bi] {
			if p.Series != si {
				kept = append(kept, p)
			}
		}
		d.Batches[bi] = kept
	}
	sd := d.Series[si]
	minReq := 0
	for _, sp := range spans {
		lo := sp.reqLo
		if lo < minReq {
			lo = minReq
		}
		n := sp.n
		if avail := sp.reqHi - lo + 1; n > avail {
			n = avail
		}
		if n <= 0 {
			continue
		}
		pick := func(lo, hi, n int, label string) []int {
			all := make([]int, 0, hi-lo+1)
			for x := lo; x <= hi; x++ {
				all = append(all, x)
			}
			out := append([]int(nil), rapid.Permutation(all).Draw(t, label)[:n]...)
			sort.Ints(out)
			return out
		}
		slots := pick(sp.slotLo, sp.slotHi, n, "slotsOfSpan")
		reqs := pick(lo, sp.reqHi, n, "requestsOfSpan")
		for i := range slots {
			p := point{Series: si, Slot: slots[i], Vals: map[int]float64{}}
			if rapid.Bool().Draw(t, "offInSlot") {
				p.Off = rapid.Int64Range(0, storageIntervalMs-1).Draw(t, "off")
			}
			for _, fi := range sd.Fields {
				p.Vals[fi] = float64(rapid.IntRange(-400, 400).Draw(t, "v")) / 8
			}
			b := d.Batches[reqs[i]]
			at := rapid.IntRange(0, len(b)).Draw(t, "rowPosition")
			b = append(b, point{})
			copy(b[at+1:], b[at:])
			b[at] = p
			d.Batches[reqs[i]] = b
			minReq = reqs[i] + 1
		}
	}
}

// storedCond: the condition the data set was shaped for.
func (d *dataset) storedCond() *cond {
	if d.StoredKey == "" {
		return nil
	}
	return &cond{Op: "=", Key: d.StoredKey, Values: []string{d.StoredValue}}
}

// storedClasses: over the shards of the layout and the two data families: the family holds points of the queried
// metric on disk, but no selected point (series the condition selects, fields the statement names) on disk or in
// memory - the shard's read of that family finds nothing - while the other family of the shard holds selected points.
// Only for statements over the whole written time range.
func (l *layoutSpec) storedClasses(d *dataset, q *querySpec) []string {
	if len(d.Flushes) == 0 || q.Metric < 0 || q.StartS > 0 || q.EndS < 350 {
		return nil
	}
	md := d.Metrics[q.Metric]
	named := map[int]bool{}
	for fi, f := range md.Fields {
		if q.All {
			named[fi] = true
		}
		for _, it := range q.Items {
			if it.Field == f.Name {
				named[fi] = true
			}
		}
	}
	type sf struct{ shard, fam int }
	disk, sel := map[sf]bool{}, map[sf]bool{}
	for bi, b := range d.Batches {
		for _, p := range b {
			sd := d.Series[p.Series]
			if sd.Metric != q.Metric {
				continue
			}
			k := sf{l.shardOf[p.Series], 0}
			if p.Slot >= slotsPerCase/2 {
				k.fam = 1
			}
			if d.flushedLater(bi, p.ts()) {
				disk[k] = true
			}
			if q.Cond == nil || q.Cond.eval(sd.Tags) {
				for fi := range p.Vals {
					if named[fi] {
						sel[k] = true
					}
				}
			}
		}
	}
	var out []string
	for sh := 0; sh < l.Shards; sh++ {
		for fam := 0; fam < 2; fam++ {
			if disk[sf{sh, fam}] && !sel[sf{sh, fam}] && sel[sf{sh, 1 - fam}] {
				which := map[int]string{0: "earlier", 1: "later"}[fam]
				out = append(out, "stored:a-shard's-"+which+"-family-holds-the-metric-on-disk-but-no-selected-point,its-other-family-holds-selected-points")
				if q.Cond != nil {
					out = append(out, "stored:same+tag-condition+groupby="+map[bool]string{true: "tags", false: "none"}[len(q.GroupBy) > 0])
				}
			}
		}
	}
	if len(out) > 0 && l.Shards > 1 {
		out = append(out, "stored:family-without-selected-points-on-a-shard-of-a-multi-shard-layout")
	}
	return dedup(out)
}

// TestStoredFamiliesAndRequestBatching: the property over data sets whose points are spread over shards AND data
// families with parts of the families on disk (flushes between the requests; the series a tag condition selects are,
// on some shards of one layout, missing from one data family that holds the metric on disk), statements that mostly
// carry that tag condition, and layouts that receive the points through other ingestion histories (pooled batch
// objects, other request sizes and orders, requests of other databases in between).
func TestStoredFamiliesAndRequestBatching(t *testing.T) {
	b := caseBudget{layouts: 3, queries: 3, midSample: 3, scheds: 1, stored: true}
	rapid.Check(t, func(t *rapid.T) { runCase(t, "TestStoredFamiliesAndRequestBatching", b) })
}
