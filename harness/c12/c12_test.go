// Package c12 checks property C12: query results do not depend on sharding, node placement or
// response order (metamorphic: the same points under different physical layouts).
package c12

import (
	"fmt"
	"os"
	"sort"
	"strings"
	"testing"
	"time"

	commonmodels "github.com/lindb/common/models"
	"github.com/lindb/common/pkg/logger"
	protoMetricsV1 "github.com/lindb/common/proto/gen/v1/linmetrics"
	"pgregory.net/rapid"

	commonconstants "github.com/lindb/common/constants"
	"github.com/lindb/lindb/models"
	"github.com/lindb/lindb/pkg/option"
	"github.com/lindb/lindb/pkg/timeutil"
	"github.com/lindb/lindb/series/field"
	"github.com/lindb/lindb/verifharness/sim/ev"
	"github.com/lindb/lindb/verifharness/sim/node"
)

func TestMain(m *testing.M) { ev.Main(m) }

func init() {
	time.Local = time.UTC
	_ = logger.RunningAtomicLevel.UnmarshalText([]byte("error"))
}

const maxLeaves = 4

func leafName(i int) string { return fmt.Sprintf("leaf%d:1", i) }

// ---- layouts -----------------------------------------------------------------------------------

type layoutSpec struct {
	Shards int     `json:"shards"`
	Nodes  [][]int `json:"nodes"` // node -> shard ids
	// Write: the ingestion history that delivers the points to this layout (nil: the canonical requests, each decoded
	// into a batch object of its own; see stored_test.go)
	Write *writeSpec `json:"write,omitempty"`
	// IDs: shard -> id plan (containers_test.go): right before the j-th block written into the shard the series sequence
	// of the block's metrics moves to the j-th jump
	IDs map[int][]idJump `json:"ids,omitempty"`

	idStep     map[int]int    // shard -> blocks written so far
	containers map[string]int // "metric/shard" -> roaring containers of the metric's series ids there (read back)
	seriesIn   map[string]int // "metric/shard" -> series
	db         string         // logical database name; node i is the database db@n<i>
	shardOf    []int          // series -> shard (production routing)
	nodeOf     []int          // series -> node
	// requests written through a pooled batch object: it held more rows before / held rows before / never held a row
	poolShrunk, poolReused, poolFresh int
}

func (l *layoutSpec) String() string {
	s := fmt.Sprintf("shards=%d nodes=%v", l.Shards, l.Nodes)
	if l.Write != nil {
		s += fmt.Sprintf(" write=%+v", *l.Write)
	}
	if l.IDs != nil {
		s += fmt.Sprintf(" ids=%v containers(metric/shard)=%v", l.IDs, l.containers)
	}
	return s
}

func genLayout(t *rapid.T) *layoutSpec {
	l := &layoutSpec{}
	l.Shards = rapid.IntRange(1, 6).Draw(t, "shards")
	maxN := l.Shards
	if maxN > maxLeaves {
		maxN = maxLeaves
	}
	n := maxN
	if rapid.Bool().Draw(t, "fewerLeaves") {
		n = rapid.IntRange(1, maxN).Draw(t, "leaves")
	}
	ids := make([]int, l.Shards)
	for i := range ids {
		ids[i] = i
	}
	ids = rapid.Permutation(ids).Draw(t, "shardOrder")
	l.Nodes = make([][]int, n)
	for i, s := range ids {
		k := i
		if i >= n {
			k = rapid.IntRange(0, n-1).Draw(t, "shardNode")
		}
		l.Nodes[k] = append(l.Nodes[k], s)
	}
	for _, s := range l.Nodes {
		sort.Ints(s)
	}
	return l
}

// nodeLacksCondKey: some node holds series of the queried metric, none of which carries one of the
// tag keys the condition names (the node's metadata then does not know the key).
func (l *layoutSpec) nodeLacksCondKey(d *dataset, q *querySpec) bool {
	for ni := range l.Nodes {
		carried := map[string]bool{}
		any := false
		for si, sd := range d.Series {
			if sd.Metric == q.Metric && l.nodeOf[si] == ni {
				any = true
				for k := range sd.Tags {
					carried[k] = true
				}
			}
		}
		if !any {
			continue
		}
		for _, k := range q.Cond.keys() {
			if !carried[k] {
				return true
			}
		}
	}
	return false
}

// shardWithoutGroupKey: on some node, one shard holds series of the queried metric none of which
// carries all grouping keys, and another shard of the same node holds series that do.
func (l *layoutSpec) shardWithoutGroupKey(d *dataset, q *querySpec) bool {
	for ni, shards := range l.Nodes {
		with, without := 0, 0
		for _, sh := range shards {
			has, any := false, false
			for si, sd := range d.Series {
				if sd.Metric != q.Metric || l.nodeOf[si] != ni || l.shardOf[si] != sh {
					continue
				}
				any = true
				all := true
				for _, k := range q.GroupBy {
					if _, ok := sd.Tags[k]; !ok {
						all = false
					}
				}
				has = has || all
			}
			if any && has {
				with++
			} else if any {
				without++
			}
		}
		if with > 0 && without > 0 {
			return true
		}
	}
	return false
}

func (l *layoutSpec) layoutMap(only int) map[string][]models.ShardID {
	m := map[string][]models.ShardID{}
	for i, shards := range l.Nodes {
		if only >= 0 && i != only {
			continue
		}
		for _, s := range shards {
			m[leafName(i)] = append(m[leafName(i)], models.ShardID(s))
		}
	}
	return m
}

// ---- one case ------------------------------------------------------------------------------------

type fataler interface {
	Fatalf(format string, args ...any)
}

type env struct {
	t       fataler
	group   string
	n       *node.Node
	nc      *node.Cluster
	xc      *xcluster
	opt     *option.DatabaseOption
	d       *dataset
	retries int
	warmed  map[string]bool
	seq     int
	// sqlSuffix is appended to the read-back queries of verifyNode (" limit n" when a node holds more
	// groups than the default limit of a group-by query)
	sqlSuffix string
	// cut, when set, says that the limit of the current query cuts its answer: executions are compared with
	// the complete answer by the subset relation (see diffLimited) instead of equality
	cut   *cutSpec
	picks map[string]bool // see cutSpec.picks: over all layouts of the current query
	order *orderModel     // the current query has an order by clause: the key of every group with values
}

// cutSpec: under the current layout the complete answer of the query has more series (groups) than its limit.
// A series of the complete answer is a group the root merged from the leaf answers; on this tree that
// includes groups none of whose series has a point in the query's time range (the leaf sends such a series
// with empty field data): they are returned without values and take a place of the limit like any other
// group, so the cut is decided by the number of series of the complete answer, not by the model's groups.
type cutSpec struct {
	limit  int
	series int             // series of the complete answer under this layout (with and without values)
	data   int             // groups with values (= the model's groups)
	picks  map[string]bool // the sets of groups with values that answers held so far (sorted keys joined)
	short  int             // accepted answers with fewer series than the limit
	// order by: the statement says which groups with values the cut answer holds (orderby_test.go)
	order   *orderModel
	verdict *orderVerdict
}

// newCut: the limit cuts the complete answer (its series under the layout: `series`).
func newCut(q *querySpec, series map[string]bool, m *modelOut, om *orderModel, picks map[string]bool) *cutSpec {
	c := &cutSpec{limit: q.effLimit(), series: len(series), data: len(m.groupKeys()), picks: picks}
	if om != nil {
		valueless := 0
		for k := range series {
			if _, ok := om.keys[k]; !ok {
				valueless++
			}
		}
		c.order, c.verdict = om, om.verdict(valueless, c.limit)
	}
	return c
}

// rawKeys: the series of a result set (also those without values).
func rawKeys(rs *commonmodels.ResultSet) map[string]bool {
	out := map[string]bool{}
	if rs != nil {
		for _, s := range rs.Series {
			out[node.SeriesKey(s.Tags)] = true
		}
	}
	return out
}

var caseSeq int

// build creates the databases of the layout, writes every ingestion request through the production
// routing and reads every node back (see verifyNode); an unreadable copy is rebuilt under a new name.
func (e *env) build(idx int, l *layoutSpec) {
	d := e.d
	t := e.t
	// where does the production routing send each series?
	l.shardOf = make([]int, len(d.Series))
	l.nodeOf = make([]int, len(d.Series))
	for si, sd := range d.Series {
		rt, err := routeBatch([]*protoMetricsV1.Metric{pm(d.Metrics[sd.Metric].Name, baseTime, sd.Tags, sf("x", protoMetricsV1.SimpleFieldType_DELTA_SUM, 1))}, l.Shards, timeutil.Interval(storageIntervalMs))
		if err != nil || len(rt) != 1 {
			t.Fatalf("harness: routing a single row: %v (%d blocks)", err, len(rt))
		}
		l.shardOf[si] = int(rt[0].shard)
		l.nodeOf[si] = -1
		for ni, shards := range l.Nodes {
			for _, s := range shards {
				if s == l.shardOf[si] {
					l.nodeOf[si] = ni
				}
			}
		}
		if l.nodeOf[si] < 0 {
			t.Fatalf("harness: shard %d of %d is on no node: %v", l.shardOf[si], l.Shards, l.Nodes)
		}
	}
	for attempt := 0; ; attempt++ {
		// the name is unique in the process: lindb keeps per-database pool gauges in a global registry
		// (and does not stop a database's executor pools on Close), a reused name inherits them
		l.db = fmt.Sprintf("c%dl%d", e.seq, idx)
		if attempt > 0 {
			l.db = fmt.Sprintf("c%dl%dr%d", e.seq, idx, attempt)
		}
		for ni, shards := range l.Nodes {
			ids := make([]models.ShardID, len(shards))
			for i, s := range shards {
				ids[i] = models.ShardID(s)
			}
			if err := e.n.CreateDB(fmt.Sprintf("%s@n%d", l.db, ni), e.opt, ids...); err != nil {
				t.Fatalf("harness: create database: %v", err)
			}
		}
		if err := e.writeRequests(l); err != nil {
			t.Fatalf("%v", err)
		}
		bad := ""
		for ni := range l.Nodes {
			if msg := e.verifyNode(l, ni); msg != "" {
				bad = msg
				break
			}
		}
		if bad == "" {
			break
		}
		// Ingestion itself is not this property's subject (C09/C11): a copy that does not read back (on
		// the tree the harness was written against: the unlocked name->id lookups of the index and
		// metadata workers, C09) is written again under a new name.
		e.retries++
		if attempt >= 3 {
			if l.IDs != nil {
				t.Fatalf("C12 violated: a node of a layout whose shards hold the series of a metric in several roaring containers (series id plan) answers differently from the naive model of the rows routed to it, the reference layout (ids 0, 1, 2, ...) reads back fine (layout written %d times, every time)\nlayout: %s\n%s\ndata: %+v", attempt+1, l, bad, d)
			}
			t.Fatalf("a single node of layout %s answers differently from the naive model of the rows routed to it (layout written %d times, every time): %s\ndata: %+v", l, attempt+1, bad, d)
		}
	}
	e.nc.SetLayout(l.db, e.opt, l.layoutMap(-1))
	e.xc.SetLayout(l.db, e.opt, l.layoutMap(-1))
	if l.IDs != nil {
		if err := e.readIDs(l); err != nil {
			t.Fatalf("harness: series id plan of layout %s: %v", l, err)
		}
	}
}

// nodeOfShard: the node of the layout that holds the shard (-1: none).
func (l *layoutSpec) nodeOfShard(shard int) int {
	for k, shards := range l.Nodes {
		for _, s := range shards {
			if s == shard {
				return k
			}
		}
	}
	return -1
}

// writeRequests delivers the points to the databases of the layout: the requests of the layout's ingestion history
// (canonical ones when the layout has none of its own) are routed by the production broker path - all of them
// first, the way a broker hands its requests to the channels without waiting for the storage nodes (no blocking call
// lies between two uses of the batch pool) - and then written request by request, with the flushes that follow them.
func (e *env) writeRequests(l *layoutSpec) error {
	d := e.d
	reqs := canonicalRequests(d)
	pooled := false
	if l.Write != nil {
		reqs, pooled = l.Write.Requests, l.Write.Pooled
	}
	blocks := make([][]routed, len(reqs))
	l.idStep = nil
	route := func() error {
		if pooled {
			defer isolatePool()()
		}
		for ri, rq := range reqs {
			if pooled && rq.Foreign > 0 {
				if err := foreignRequest(rq.Foreign, rq.ForeignShards); err != nil {
					return err
				}
			}
			if len(rq.Rows) == 0 {
				continue
			}
			ms := make([]*protoMetricsV1.Metric, len(rq.Rows))
			want := map[int]int{}
			for i, at := range rq.Rows {
				p := d.Batches[at[0]][at[1]]
				ms[i] = d.protoOf(p)
				want[l.shardOf[p.Series]]++
			}
			var rt []routed
			var err error
			if pooled {
				var use poolUse
				rt, use, err = routeBatchPooled(ms, l.Shards, timeutil.Interval(storageIntervalMs))
				switch {
				case use.backing > use.rows:
					l.poolShrunk++
				case use.backing > 0:
					l.poolReused++
				default:
					l.poolFresh++
				}
			} else {
				rt, err = routeBatch(ms, l.Shards, timeutil.Interval(storageIntervalMs))
			}
			if err != nil {
				return err
			}
			got := map[int]int{}
			for _, r := range rt {
				got[int(r.shard)] += r.rows
				if l.nodeOfShard(int(r.shard)) < 0 {
					return fmt.Errorf("production routing picked shard %d of %d shards", r.shard, l.Shards)
				}
			}
			if fmt.Sprint(got) != fmt.Sprint(want) {
				return fmt.Errorf("routing of a request differs from routing row by row: request %v, single rows %v (layout %s)", got, want, l)
			}
			blocks[ri] = rt
		}
		return nil
	}
	if err := route(); err != nil {
		return err
	}
	for ri, rq := range reqs {
		for _, at := range rq.Rows {
			p := d.Batches[at[0]][at[1]]
			if err := e.warmMetadata(fmt.Sprintf("%s@n%d", l.db, l.nodeOf[p.Series]), p); err != nil {
				return fmt.Errorf("harness: metadata: %v", err)
			}
		}
		for _, r := range blocks[ri] {
			if l.IDs != nil {
				if err := e.applyIDJump(l, rq, r); err != nil {
					return fmt.Errorf("harness: series id plan: %v", err)
				}
			}
			if err := writeBlock(e.n, fmt.Sprintf("%s@n%d", l.db, l.nodeOfShard(int(r.shard))), r); err != nil {
				return fmt.Errorf("harness: write: %v", err)
			}
		}
		for _, f := range rq.Flush {
			if err := e.flushLayout(l, f); err != nil {
				return fmt.Errorf("harness: flush %+v: %v", f, err)
			}
		}
	}
	return nil
}

// warmMetadata assigns the ids of the row's metric, tag keys and fields on the node that will
// receive the row, with the calls ingestion makes (GenMetricID / GenTagKeyID / GenFieldID) but from one
// goroutine. On the tree the harness was written against the index worker and the metadata worker
// of a database make these calls concurrently for the first row of a metric and frequently lose a tag
// key, a field or the metric (unlocked get-or-create, reported under C09); with the ids in place both
// workers only look them up. The resulting state is what ingestion without that race produces.
func (e *env) warmMetadata(dbName string, p point) error {
	db, ok := e.n.Engine.GetDatabase(dbName)
	if !ok {
		return fmt.Errorf("database %s not found", dbName)
	}
	sd := e.d.Series[p.Series]
	md := e.d.Metrics[sd.Metric]
	key := dbName + "|" + md.Name
	if e.warmed == nil {
		e.warmed = map[string]bool{}
	}
	metricID, err := db.MetaDB().GenMetricID([]byte(commonconstants.DefaultNamespace), []byte(md.Name))
	if err != nil {
		return err
	}
	for _, k := range sortedKeys(sd.Tags) {
		tk := key + "|tag|" + k
		if e.warmed[tk] {
			continue
		}
		e.warmed[tk] = true
		if _, err := db.MetaDB().GenTagKeyID(metricID, []byte(k)); err != nil {
			return err
		}
	}
	for _, fi := range sd.Fields {
		if _, ok := p.Vals[fi]; !ok {
			continue
		}
		fk := key + "|" + md.Fields[fi].Name
		if e.warmed[fk] {
			continue
		}
		e.warmed[fk] = true
		if _, err := db.MetaDB().GenFieldID(metricID, field.Meta{Name: field.Name(md.Fields[fi].Name), Type: md.Fields[fi].Type.lin()}); err != nil {
			return err
		}
	}
	return nil
}

// verifyNode reads every metric of one node back (single leaf, every field, storage interval):
// without grouping and grouped by every tag key set some series of the metric on the node carries,
// and compares with what the naive model gives for the rows routed to the node.
func (e *env) verifyNode(l *layoutSpec, ni int) string {
	d := e.d
	e.xc.SetLayout(l.db, e.opt, l.layoutMap(ni))
	e.xc.Compute, e.xc.Order = nil, nil
	onNode := func(series int) bool { return l.nodeOf[series] == ni }
	for mi, md := range d.Metrics {
		keySets := map[string][]string{"": nil}
		for si, sd := range d.Series {
			if sd.Metric == mi && onNode(si) {
				ks := sortedKeys(sd.Tags)
				keySets[strings.Join(ks, ",")] = ks
			}
		}
		for _, name := range sortedKeys(keySets) {
			q := &querySpec{Metric: mi, All: true, StartS: -60, EndS: 420, GroupBy: keySets[name]}
			sql := q.sql(d) + e.sqlSuffix
			rs, err := e.xc.Query("root:1", l.db, sql)
			if err != nil && !strings.Contains(err.Error(), "not found") {
				return fmt.Sprintf("node %d: %s: %v", ni, sql, err)
			}
			got := node.Result{}
			if err == nil {
				got = node.Canon(rs)
			}
			if msg := checkReference(got, evalModelOn(d, q, onNode)); msg != "" {
				return fmt.Sprintf("node %d of %s (metric %s): %s\n%s\nanswer:\n%s", ni, l, md.Name, sql, msg, got)
			}
		}
	}
	return ""
}

// perms returns all permutations of 0..n-1 in lexicographic order (the first is the identity).
func perms(n int) [][]int {
	var out [][]int
	var rec func(cur []int, used []bool)
	rec = func(cur []int, used []bool) {
		if len(cur) == n {
			out = append(out, append([]int(nil), cur...))
			return
		}
		for i := 0; i < n; i++ {
			if !used[i] {
				used[i] = true
				rec(append(cur, i), used)
				used[i] = false
			}
		}
	}
	rec(nil, make([]bool, n))
	return out
}

// orderFn makes the delivery callback for a permutation of the sorted sender names (only the
// names that arrived are returned, in the wanted relative order).
func orderFn(perm []int, calls *int) func(arrived []string) []string {
	return func(arrived []string) []string {
		*calls++
		sorted := append([]string(nil), arrived...)
		sort.Strings(sorted)
		if len(sorted) != len(perm) {
			return sorted
		}
		out := make([]string, len(perm))
		for i, p := range perm {
			out[i] = sorted[p]
		}
		return out
	}
}

// diff compares the answer under a layout with the reference answer. Cells the model marks as
// order-ambiguous (first/last over several series of a group) must exist and hold one of the candidates.
func diff(ref node.Result, got node.Result, gotErr error, m *modelOut) (msg string, ambiguousDiffers int) {
	if gotErr != nil {
		if !strings.Contains(gotErr.Error(), "not found") {
			return "query failed: " + gotErr.Error(), 0
		}
		got = node.Result{}
	}
	cells := func(r node.Result) map[cell]float64 {
		out := map[cell]float64{}
		for k, fs := range r {
			for f, pts := range fs {
				for ts, v := range pts {
					out[cell{k, f, ts}] = v
				}
			}
		}
		return out
	}
	rc, gc := cells(ref), cells(got)
	var msgs []string
	for c, rv := range rc {
		gv, ok := gc[c]
		if !ok {
			msgs = append(msgs, fmt.Sprintf("missing [%s] %s %d (reference %v)", c.key, c.field, c.ts, rv))
			continue
		}
		if gv == rv {
			continue
		}
		if cand, amb := m.ambiguous[c]; amb {
			in := false
			for _, x := range cand {
				if x == gv {
					in = true
				}
			}
			if in {
				ambiguousDiffers++
				continue
			}
		}
		msgs = append(msgs, fmt.Sprintf("[%s] %s %d = %v, reference %v", c.key, c.field, c.ts, gv, rv))
	}
	for c, gv := range gc {
		if _, ok := rc[c]; !ok {
			msgs = append(msgs, fmt.Sprintf("extra [%s] %s %d = %v", c.key, c.field, c.ts, gv))
		}
	}
	sort.Strings(msgs)
	if len(msgs) > 8 {
		msgs = append(msgs[:8], fmt.Sprintf("... %d more", len(msgs)-8))
	}
	return strings.Join(msgs, "\n"), ambiguousDiffers
}

// checkReference compares the reference answer with the naive model: same cells, same values
// (order-ambiguous first/last cells: any value).
func checkReference(ref node.Result, m *modelOut) string {
	var msgs []string
	seen := map[cell]bool{}
	for k, fs := range ref {
		for f, pts := range fs {
			for ts, v := range pts {
				c := cell{k, f, ts}
				seen[c] = true
				if !m.present[c] {
					msgs = append(msgs, fmt.Sprintf("reference has [%s] %s %d = %v, no written point feeds it", k, f, ts, v))
				}
				if want, ok := m.exact[c]; ok && want != v {
					msgs = append(msgs, fmt.Sprintf("reference [%s] %s %d = %v, the written points give %v", k, f, ts, v, want))
				}
			}
		}
	}
	for c := range m.present {
		if !seen[c] {
			msgs = append(msgs, fmt.Sprintf("reference lacks [%s] %s %d although written points feed it", c.key, c.field, c.ts))
		}
	}
	sort.Strings(msgs)
	if len(msgs) > 8 {
		msgs = msgs[:8]
	}
	return strings.Join(msgs, "\n")
}

// diffLimited is the relation between an answer the limit cut and the complete answer (the same statement
// with a limit that does not cut, reference layout): no order by, so WHICH groups the answer holds is not
// specified and may differ from execution to execution; but
//   - it holds `limit` series (the complete answer has more than that under this layout), or fewer and then
//     every group with values of the complete answer,
//   - every group it holds with values is a group of the complete answer, with all its cells and their
//     values: a group is the aggregate of all its series wherever they are stored.
//
// An error instead of the answer is a difference (not-found only when the complete answer has values).
func diffLimited(full node.Result, rs *commonmodels.ResultSet, gotErr error, m *modelOut, cut *cutSpec) (msg string, ambiguousDiffers int) {
	if gotErr != nil {
		if strings.Contains(gotErr.Error(), "not found") && cut.data == 0 {
			return "", 0
		}
		return fmt.Sprintf("query failed: %v (the complete answer has %d series, %d with values)", gotErr, cut.series, cut.data), 0
	}
	got := node.Canon(rs)
	sub := node.Result{}
	for k := range got {
		if fs, ok := full[k]; ok {
			sub[k] = fs
		}
	}
	var msgs []string
	n := len(rs.Series)
	if n > cut.limit || len(rawKeys(rs)) != n {
		msgs = append(msgs, fmt.Sprintf("the result set has %d series (%d different ones), the limit is %d", n, len(rawKeys(rs)), cut.limit))
	}
	if n < cut.limit {
		// the limit was not reached, so nothing was cut: every group with values must be there (series
		// without values need not: whether one reaches the root may depend on the topology)
		var lacks []string
		for _, k := range m.groupKeys() {
			if _, ok := got[k]; !ok {
				lacks = append(lacks, "["+k+"]")
			}
		}
		if len(lacks) > 0 {
			msgs = append(msgs, fmt.Sprintf("the result set has only %d series, the limit is %d, and it lacks %d groups with values of the complete answer: %s", n, cut.limit, len(lacks), strings.Join(lacks, " ")))
		}
	}
	d, a := diff(sub, got, nil, m)
	if d != "" {
		msgs = append(msgs, "a returned group differs from the same group of the complete answer (extra = no such cell / group there):", d)
	}
	if cut.order != nil {
		held := map[string]bool{}
		for k := range got {
			held[k] = true
		}
		if o := cut.order.check(cut.verdict, held, cut.limit); o != "" {
			msgs = append(msgs, o)
		}
	}
	if len(msgs) > 0 {
		msgs = append(msgs, "answer:\n"+got.String()+"the groups of the answer in the complete answer:\n"+sub.String())
	} else {
		if cut.picks != nil {
			cut.picks[strings.Join(sortedKeys(got), "|")] = true
		}
		if n < cut.limit {
			cut.short++
		}
	}
	return strings.Join(msgs, "\n"), a
}

// executions: a disagreement only counts when the same execution (same query, layout, topology and
// delivery order) disagrees this many times in a row. Reason: on the tree the harness was written
// against a leaf occasionally (order of 1 in 10^4 queries over two data families) reduces its down
// sampling result twice when the data load stages of two families finish together, which doubles the
// sums of that answer (reported with TestRegression_LeafReducesTwice); the property is about layouts,
// not about that race.
const executions = 3

type caseBudget struct {
	layouts, queries int
	midSample        int // permutations tried through the intermediate node when there are 4 leaves (0 = all)
	scheds           int // drawn send-interleaved schedules per number of leaves (run at the root; the first one also at the intermediate node)
	// orderBy: tie-prone data, every statement has an order by clause (TestOrderByLayoutIndependence)
	orderBy bool
	// stored: flushes between the requests, series whose hours follow the shards of one layout, statements that mostly
	// carry the tag condition the data was shaped for (TestStoredFamiliesAndRequestBatching)
	stored bool
	// skewFields: under one of the layouts a node never saw some fields of the first metric, statements are mostly
	// `select * ... group by` (TestGroupByFieldsANodeNeverSaw)
	skewFields bool
	// containers: shards get series id plans, so that the series of a metric in one shard span several roaring
	// containers (TestSeriesIDContainers, containers_test.go)
	containers bool
}

func runCase(t *rapid.T, group string, b caseBudget) {
	d := genDatasetWith(t, dataOpt{ties: b.orderBy, skew: b.skewFields, stored: b.stored})
	// Storage state as such is no part of this property (C11/C03): unless the case places flushes (b.stored), every
	// layout keeps its rows in the memory databases.
	layouts := []*layoutSpec{{Shards: 1, Nodes: [][]int{{0}}}}
	nl := rapid.IntRange(2, b.layouts).Draw(t, "nLayouts")
	if b.containers {
		// the sharding of the reference, another id space
		l := &layoutSpec{Shards: 1, Nodes: [][]int{{0}}}
		genIDPlan(t, l, true)
		layouts = append(layouts, l)
	}
	for i := 0; i < nl; i++ {
		l := genLayout(t)
		if b.containers {
			genIDPlan(t, l, false)
		}
		layouts = append(layouts, l)
	}
	mode := modeDefault
	switch {
	case b.orderBy:
		mode = modeOrder
	case b.skewFields:
		mode = modeSkew
	case b.stored:
		mode = modeStored
	}
	if b.skewFields || (mode == modeDefault && !d.Wide && rapid.IntRange(0, 5).Draw(t, "fieldsFollowNodes") == 3) {
		// one of the layouts with >= 2 nodes decides which series of the first metric report which fields
		for _, l := range layouts[1:] {
			if skewFieldsByNode(t, d, l) {
				ev.Class(group, "case:fields-of-the-first-metric-follow-the-nodes-of-one-layout", 1)
				break
			}
		}
	}
	if b.stored {
		// one of the layouts with >= 2 shards decides in which hours the series of the first metric report
		for _, l := range layouts[1:] {
			if storeByShard(t, d, l) {
				ev.Class(group, "case:hours-of-the-first-metric's-series-follow-the-shards-of-one-layout", 1)
				break
			}
		}
		if len(d.Flushes) == 0 {
			d.Flushes = []flushSpec{{After: rapid.IntRange(0, len(d.Batches)-1).Draw(t, "flushAfter"), Family: rapid.IntRange(0, 2).Draw(t, "flushFamily")}}
		}
	}
	// how the points reach the layouts (the reference layout: canonical requests, a batch object per request)
	genWriteSpecs(t, d, layouts[1:])
	var queries []*querySpec
	nq := rapid.IntRange(1, b.queries).Draw(t, "nQueries")
	for i := 0; i < nq; i++ {
		if q := genQueryWith(t, d, group, mode); q != nil {
			queries = append(queries, q)
		}
	}
	midPick := rapid.Permutation(perms(4)[1:]).Draw(t, "midPerms")
	nodePick := rapid.IntRange(0, 23).Draw(t, "nodeClusterOrder")
	schedPicks := genSchedPick(t, b.scheds)

	dir, err := os.MkdirTemp("", "c12-")
	if err != nil {
		t.Fatalf("harness: %v", err)
	}
	defer os.RemoveAll(dir)
	n, err := node.Start(dir)
	if err != nil {
		t.Fatalf("harness: start engine: %v", err)
	}
	defer n.Close()
	caseSeq++
	e := &env{seq: caseSeq, t: t, group: group, n: n, nc: node.NewCluster(), xc: newXCluster("root", "mid0"), opt: node.DBOption(timeutil.Interval(storageIntervalMs)), d: d}
	if d.Wide {
		// the read-back of a node is grouped by every tag key set: more groups than the default limit
		e.sqlSuffix = concLimit
		ev.Class(group, "case:wide-data-set", 1)
	}
	defer e.nc.Close()
	defer e.xc.Close()
	for i := 0; i < maxLeaves; i++ {
		e.nc.AddLeaf(leafName(i), n.Engine, fmt.Sprintf("@n%d", i))
		e.xc.AddLeaf(leafName(i), n.Engine, fmt.Sprintf("@n%d", i))
	}
	for i, l := range layouts {
		e.build(i, l)
	}
	if e.retries > 0 {
		ev.Class(group, "info:layout-rewritten-after-failed-readback", e.retries)
	}
	for _, l := range layouts[1:] {
		if l.Write == nil {
			ev.Class(group, "write:canonical-requests,batch-object-per-request", 1)
			continue
		}
		ev.Class(group, fmt.Sprintf("write:pooled=%v,rebatched=%v", l.Write.Pooled, l.Write.Rebatched), 1)
		ev.Class(group, "write:pool:request-smaller-than-what-the-batch-object-held-before", l.poolShrunk)
		ev.Class(group, "write:pool:request-in-a-used-batch-object-not-smaller", l.poolReused)
		ev.Class(group, "write:pool:request-in-a-batch-object-that-never-held-a-row", l.poolFresh)
		foreign := 0
		for _, rq := range l.Write.Requests {
			if rq.Foreign > 0 {
				foreign++
			}
		}
		ev.Class(group, "write:pool:request-of-another-database-in-between", foreign)
	}
	if len(d.Flushes) > 0 {
		ev.Class(group, fmt.Sprintf("case:flushes=%d", len(d.Flushes)), 1)
	}
	dataJSON := fmt.Sprintf("%+v", d)
	ev.Class(group, fmt.Sprintf("case:queries=%d", len(queries)), 1)
	ev.Class(group, fmt.Sprintf("case:layouts=%d", len(layouts)-1), 1)

	for _, q := range queries {
		sql := q.sql(d)
		m := evalModel(d, q)
		// A group-by query is compared with its complete answer: the same statement with a limit that does
		// not cut. Whether the limit (explicit, or the default of the parser) cuts is decided per layout by
		// the number of series of the complete answer there (see cutSpec).
		e.cut, e.picks, e.order = nil, map[string]bool{}, nil
		if len(q.OrderBy) > 0 {
			e.order = newOrderModel(d, q, m)
		}
		refSQL := sql
		if len(q.GroupBy) > 0 {
			refSQL = q.sqlWithLimit(d, completeLimit)
		}
		// reference: 1 shard, 1 leaf, immediate delivery
		e.nc.Permute = nil
		var ref node.Result
		var refSeries map[string]bool
		for attempt := 1; ; attempt++ {
			rs, rerr := e.nc.Query(layouts[0].db, refSQL)
			rs, rerr = e.emptyOrderBy(rs, rerr, m)
			ref = node.Result{}
			if rerr != nil {
				if !strings.Contains(rerr.Error(), "not found") {
					t.Fatalf("harness: the reference layout rejects %q: %v", refSQL, rerr)
				}
			} else {
				ref = node.Canon(rs)
			}
			refSeries = rawKeys(rs)
			msg := checkReference(ref, m)
			if msg == "" {
				break
			}
			if attempt == executions {
				t.Fatalf("reference layout (1 shard, 1 leaf) disagrees with the naive model (%d executions)\nquery: %s\n%s\ndata: %s", executions, refSQL, msg, dataJSON)
			}
			ev.Class(group, "info:answer-not-reproduced-on-re-execution", 1)
		}
		if len(q.GroupBy) > 0 && len(refSeries) > q.effLimit() {
			// the cut answer of the reference layout itself
			e.cut = newCut(q, refSeries, m, e.order, e.picks)
			if msg, _ := e.repeat(func() (*commonmodels.ResultSet, error) { return e.nc.Query(layouts[0].db, sql) }, ref, m); msg != "" {
				t.Fatalf("C12 violated: the answer the limit cuts is no part of the complete answer, or not the part the order by clause names (1 shard, 1 leaf)\nquery:    %s\ncomplete: %s\n%s\ncomplete answer:\n%sdata: %s",
					sql, refSQL, msg, ref, dataJSON)
			}
			e.cut = nil
		}
		qClasses := []string{"query:select=" + map[bool]string{true: "star", false: "list"}[q.All],
			"query:groupby=" + map[bool]string{true: "tags", false: "none"}[len(q.GroupBy) > 0],
			"query:interval=" + map[bool]string{true: "time()", false: "storage"}[q.Interval > 0],
			"query:cond=" + map[bool]string{true: "yes", false: "no"}[q.Cond != nil],
			"reference=" + map[bool]string{true: "empty", false: "data"}[len(ref) == 0]}
		for _, it := range q.Items {
			qClasses = append(qClasses, "query:func="+map[bool]string{true: "plain", false: it.Func}[it.Func == ""])
		}
		if len(m.ambiguous) > 0 {
			qClasses = append(qClasses, "query:has-order-ambiguous-first/last-cells")
		}
		qClasses = append(qClasses, "query:limit="+q.LimitKind)
		qClasses = append(qClasses, q.orderClasses()...)
		if d.Wide && q.Metric == 0 {
			qClasses = append(qClasses, "query:over-the-wide-metric")
		}
		if q.Metric >= 0 {
			lacking := func(keys []string) bool {
				for _, sd := range d.Series {
					if sd.Metric != q.Metric {
						continue
					}
					for _, k := range keys {
						if _, ok := sd.Tags[k]; !ok {
							return true
						}
					}
				}
				return false
			}
			if lacking(q.GroupBy) {
				qClasses = append(qClasses, "query:group-by-key-some-series-lack")
			}
			if lacking(q.Cond.keys()) {
				qClasses = append(qClasses, "query:condition-key-some-series-lack")
			}
		}
		for li, l := range layouts[1:] {
			e.runLayout(q, sql, m, ref, li+1, l, qClasses, midPick, nodePick, schedPicks, b, dataJSON)
		}
		if len(e.picks) > 1 {
			// which groups a cut answer holds is indeed not fixed on this tree
			ev.Class(group, "info:limit:executions-of-one-query-returned-different-sets-of-groups", 1)
		}
		e.cut = nil
	}
}

// cutClasses: how the groups of a cut answer lie on the nodes of the layout.
func (l *layoutSpec) cutClasses(m *modelOut, cut *cutSpec) []string {
	nodesOf := map[string]map[int]bool{}
	groupsOn := map[int]map[string]bool{}
	for si, g := range m.groupOf {
		ni := l.nodeOf[si]
		if nodesOf[g] == nil {
			nodesOf[g] = map[int]bool{}
		}
		nodesOf[g][ni] = true
		if groupsOn[ni] == nil {
			groupsOn[ni] = map[string]bool{}
		}
		groupsOn[ni][g] = true
	}
	shared, over := false, false
	for _, ns := range nodesOf {
		if len(ns) >= 2 {
			shared = true
		}
	}
	for _, gs := range groupsOn {
		if len(gs) > cut.limit {
			over = true
		}
	}
	var out []string
	if shared {
		out = append(out, "limit:cut+a-group-has-series-on->=2-nodes")
	}
	if over && len(l.Nodes) >= 2 {
		out = append(out, "limit:cut+a-node-of->=2-holds-more-groups-than-the-limit")
	}
	if shared && over {
		out = append(out, "limit:cut+a-node-holds-more-groups-than-the-limit+a-group-has-series-on->=2-nodes")
	}
	return out
}

func (e *env) runLayout(q *querySpec, sql string, m *modelOut, ref node.Result, li int, l *layoutSpec,
	qClasses []string, midPick [][]int, nodePick int, schedPicks schedPick, b caseBudget, dataJSON string) {
	t := e.t
	nLeaves := len(l.Nodes)
	fail := func(topology string, order []string, msg string, obs []respObs) {
		refName, refText := "reference (1 shard, 1 leaf)", ref.String()
		if e.cut != nil {
			refName = fmt.Sprintf("the limit (%d) cuts the answer (%d series under this layout): the reference is the complete answer (limit %d; 1 shard, 1 leaf), every returned group must be a group of it",
				e.cut.limit, e.cut.series, completeLimit)
			refText = fmt.Sprintf("(%d groups with values, see above)\n", len(ref))
		}
		t.Fatalf("C12 violated: answer depends on the layout\nquery:    %s\nlayout:   %s (%s)\ndelivery: %v\nresponses: %+v\n%s\n%s:\n%sdata: %s",
			sql, l, topology, order, obs, msg, refName, refText, dataJSON)
	}
	names := make([]string, nLeaves)
	for i := range names {
		names[i] = leafName(i)
	}
	if q.Cond.hasOr() && ev.Known(sigUnknownTagKey) && l.nodeLacksCondKey(e.d, q) {
		ev.Class(e.group, "excluded_known", 1)
		return
	}
	classes := append([]string{}, qClasses...)
	classes = append(classes, fmt.Sprintf("layout:shards=%d", l.Shards), fmt.Sprintf("layout:leaves=%d", nLeaves))
	if len(q.GroupBy) > 0 && l.shardWithoutGroupKey(e.d, q) {
		classes = append(classes, "layout:a-shard-holds-only-series-without-the-group-key-next-to-a-shard-with")
	}
	classes = append(classes, l.storedClasses(e.d, q)...)
	classes = append(classes, l.idClasses(q)...)
	if n := l.lateFieldGroups(e.d, q); n > 0 {
		// every delivery order is run: in some of them the answer of the node without the field is merged first
		classes = append(classes, "fields:select-*-group-by:node-without-a-field-shares-groups-with-nodes-that-have-it="+bucket(n, 2, 3, 5))
	}
	ambDiffers := 0

	// (0) group by: the complete answer (a limit that does not cut) under this layout. It must be the
	// reference, and its number of series decides whether the limit of the query cuts under this layout.
	e.cut = nil
	defer func() {
		if e.cut != nil && e.cut.short > 0 {
			ev.Class(e.group, "info:limit:cut-answer-with-fewer-series-than-the-limit(all-groups-with-values-present)", e.cut.short)
		}
		e.cut = nil
	}()
	if len(q.GroupBy) > 0 {
		completeSQL := q.sqlWithLimit(e.d, completeLimit)
		var series map[string]bool
		var obs []respObs
		e.xc.Compute, e.xc.Order = nil, nil
		msg, a := e.repeat(func() (*commonmodels.ResultSet, error) {
			rs, err := e.xc.Query("root:1", l.db, completeSQL)
			obs = e.xc.observed()
			series = rawKeys(rs)
			return rs, err
		}, ref, m)
		if msg != "" {
			fail("root -> leaves; the statement with a limit that does not cut: "+completeSQL, names, msg, obs)
		}
		ambDiffers += a
		ev.Class(e.group, "executions:root->leaves(complete answer of a group-by query)", 1)
		data := len(m.groupKeys())
		if len(series) > data {
			classes = append(classes, "limit:complete-answer-has-series-without-values")
		}
		switch {
		case len(series) > q.effLimit():
			e.cut = newCut(q, series, m, e.order, e.picks)
			if e.cut.order != nil {
				classes = append(classes, e.cut.verdict.classes(e.cut.order, e.cut.limit)...)
			}
			classes = append(classes, "limit:cuts-the-answer", "limit:cuts:series/limit="+bucket(len(series)*10/e.cut.limit, 12, 15, 20, 30, 50)+"(x0.1)")
			if q.Limit > 0 {
				classes = append(classes, "limit:cuts:explicit-limit")
			} else {
				classes = append(classes, "limit:cuts:default-limit-20")
			}
			if data <= e.cut.limit {
				classes = append(classes, "limit:cuts-only-because-of-series-without-values")
			}
			classes = append(classes, l.cutClasses(m, e.cut)...)
		case data == 0:
		case len(series) == q.effLimit():
			classes = append(classes, "limit:equals-the-number-of-series")
		default:
			classes = append(classes, "limit:above-the-number-of-series")
		}
	}

	// (1) every delivery order at the root. The first run (canonical order = send order) also tells
	// what each leaf answered.
	all := perms(nLeaves)
	kinds := map[string]string{}
	nData, nNotFound, nEmpty := 0, 0, 0
	for pi, p := range all {
		order := make([]string, nLeaves)
		for i, x := range p {
			order[i] = names[x]
		}
		e.xc.Compute = nil
		e.xc.Order = func(_ string, arrived []string) []string {
			if len(arrived) != nLeaves {
				return arrived
			}
			return order
		}
		var obs []respObs
		msg, a := e.repeat(func() (*commonmodels.ResultSet, error) {
			rs, err := e.xc.Query("root:1", l.db, sql)
			obs = e.xc.observed()
			if len(e.xc.Panics) > 0 {
				t.Fatalf("panic while the root handled a response\nquery: %s\nlayout: %s\ndelivery: %v\n%s", sql, l, order, e.xc.Panics[0])
			}
			return rs, err
		}, ref, m)
		if msg != "" {
			fail("root -> leaves", order, msg, obs)
		}
		ambDiffers += a
		if len(obs) != nLeaves {
			t.Fatalf("harness: %d responses at the root, layout has %d leaves: %+v", len(obs), nLeaves, obs)
		}
		for i, o := range obs {
			if o.From != order[i] || o.Receiver != "root:1" || o.Dropped {
				t.Fatalf("harness: responses were not handed over in the wanted order %v: %+v", order, obs)
			}
		}
		ev.Class(e.group, "executions:root->leaves", 1)
		if pi > 0 {
			continue
		}
		specs := map[int]bool{}
		for _, o := range obs {
			kinds[o.From] = o.kind()
			switch o.kind() {
			case "data":
				nData++
				specs[o.Specs] = true
			case "notfound":
				nNotFound++
			case "empty":
				nEmpty++
			default:
				fail("root -> leaves", order, "a leaf failed: "+o.Err, obs)
			}
		}
		classes = append(classes, fmt.Sprintf("leaves-with-data=%d", nData))
		if nNotFound > 0 {
			classes = append(classes, "some-leaf=not-found")
		}
		if nEmpty > 0 {
			classes = append(classes, "some-leaf=empty-answer")
		}
		if len(specs) > 1 {
			classes = append(classes, "leaves-differ-in-fields")
		}
		if nLeaves >= 2 {
			switch {
			case nNotFound == nLeaves:
				classes = append(classes, "notfound:all")
			case nNotFound == nLeaves-1:
				classes = append(classes, "notfound:all-but-one")
			}
			if nNotFound > 0 && nNotFound < nLeaves {
				// all orders are run: some order starts with a not-found answer, some order ends with one
				classes = append(classes, "notfound:first-response", "notfound:last-response")
			}
		}
	}
	e.xc.Order = nil

	// (1b) a storage node that holds data of the answer fails (its task processor returns an error that is no
	// not-found): the answer would no longer be a function of the written points, so the query must fail instead of
	// answering from the other nodes - whether the failure is handled first or last. The responses are handed to the
	// root after its pipeline ended (a failure handled while the root is still sending is the known finding
	// sigFailureForgotten, see TestRegression_NodeFailureWhileTheRootIsSendingIsForgotten).
	if nData > 0 {
		victim := ""
		for _, name := range names {
			if kinds[name] == "data" {
				victim = name
				break
			}
		}
		for _, first := range []bool{true, false} {
			if nLeaves == 1 && !first {
				continue
			}
			order := []string{}
			if first {
				order = append(order, victim)
			}
			for _, name := range names {
				if name != victim {
					order = append(order, name)
				}
			}
			if !first {
				order = append(order, victim)
			}
			e.xc.Compute, e.xc.AfterPlan = nil, true
			e.xc.Order = func(_ string, arrived []string) []string {
				if len(arrived) != nLeaves {
					return arrived
				}
				return order
			}
			e.xc.FailLeaf = map[string]string{victim: "injected: the storage node failed"}
			rs, err := e.xc.Query("root:1", l.db, sql)
			obs := e.xc.observed()
			e.xc.mu.Lock()
			stuck := append([]string(nil), e.xc.Stuck...)
			e.xc.mu.Unlock()
			e.xc.FailLeaf, e.xc.Order, e.xc.AfterPlan = nil, nil, false
			if len(stuck) > 0 {
				t.Fatalf("harness: %v", stuck)
			}
			if err == nil {
				t.Fatalf("C12 violated: storage node %s failed (it holds data of the answer), the query returned an answer instead of an error\nquery:    %s\nlayout:   %s\ndelivery: %v (after the root had sent the plan)\nresponses: %+v\nanswer:\n%sdata: %s",
					victim, sql, l, order, obs, node.Canon(rs), dataJSON)
			}
			what := "fault:a-node-with-data-fails:" + map[bool]string{true: "failure-handled-first", false: "failure-handled-last"}[first]
			if nLeaves == 1 {
				what = "fault:the-only-node-fails"
			}
			ev.Class(e.group, what, 1)
			if !strings.Contains(err.Error(), "injected") {
				ev.Class(e.group, "info:fault:the-query-fails-with-another-error-than-the-node's", 1)
			}
		}
	}

	// (1c) a storage node does not answer before the deadline of the request (hung or slow node, lost response) while
	// every other node's answer has been handled by the root: the nodes that answered in time are a matter of the
	// schedule, so the query must fail (timeout) instead of answering from them. The deadline is owned by the harness
	// (waitingCtx.fire), it passes when the other responses have been handled.
	if nLeaves >= 2 && nData > 0 {
		e.withheldResponses(q, sql, l, names, kinds, dataJSON, false)
		if len(q.GroupBy) > 0 {
			// the same one level down: the intermediate node of a group-by plan waits for the leaf responses
			e.withheldResponses(q, sql, l, names, kinds, dataJSON, true)
		}
	}

	// (2) the same through sim/node's cluster (production pool of one worker at the root) for the
	// reversed order and one more generated order
	if nLeaves >= 2 {
		partial := 0
		for _, p := range [][]int{all[len(all)-1], all[nodePick%len(all)]} {
			calls := 0
			e.nc.Permute = orderFn(p, &calls)
			order := make([]string, nLeaves)
			for i, x := range p {
				order[i] = names[x]
			}
			msg, a := e.repeat(func() (*commonmodels.ResultSet, error) { return e.nc.Query(l.db, sql) }, ref, m)
			if msg != "" {
				fail("root -> leaves (sim/node cluster)", order, msg, nil)
			}
			ambDiffers += a
			if calls != 1 {
				partial++
			}
			ev.Class(e.group, "executions:root->leaves(sim/node)", 1)
		}
		e.nc.Permute = nil
		if partial > 0 {
			ev.Class(e.group, "info:sim/node-responses-released-in-more-than-one-batch", partial)
		}
	}
	classes = dedup(classes)
	nonTrivial := nData >= 2 && len(all) > 1
	canon := fmt.Sprintf("%s|%s|%s|direct", dataJSON, sql, l)
	ev.Case(e.group, canon, nonTrivial, append(classes, "topology=root->leaves", fmt.Sprintf("delivery-orders=%d", len(all))),
		map[string]any{"query": sql, "layout": l, "topology": "root->leaves", "leafAnswers": kinds, "orders": len(all), "data": e.d})

	if ambDiffers > 0 {
		ev.Class(e.group, "info:order-ambiguous-first/last-cell-differs-from-reference", ambDiffers)
		ambDiffers = 0
	}

	// (2b) responses handed to the root while it is still sending the requests of the plan: every node
	// answers at once, and the drawn schedules
	if nLeaves >= 2 {
		scheds := append([]*sendSchedule{immediateSchedule(nLeaves)}, schedPicks[nLeaves]...)
		e.runScheduled(q, sql, m, ref, l, scheds, "root:1", nil, kinds, nData, classes, dataJSON, fail)
	}

	// (3) group by: root -> one computing intermediate node -> leaves (what BuildPhysicalPlan yields for
	// one candidate broker); the state manager only builds a compute plan when >= 2 storage nodes have shards
	if len(q.GroupBy) == 0 || nLeaves < 2 {
		return
	}
	midPerms := all
	if nLeaves == 4 && b.midSample > 0 {
		midPerms = append([][]int{all[0]}, midPick[:b.midSample]...)
	}
	for _, p := range midPerms {
		order := make([]string, nLeaves)
		for i, x := range p {
			order[i] = names[x]
		}
		e.xc.Compute = []string{"mid0:1"}
		e.xc.Order = func(receiver string, arrived []string) []string {
			if receiver != "mid0:1" || len(arrived) != nLeaves {
				return arrived
			}
			return order
		}
		var mobs []respObs
		msg, a := e.repeat(func() (*commonmodels.ResultSet, error) {
			rs, err := e.xc.Query("root:1", l.db, sql)
			mobs = e.xc.observed()
			if len(e.xc.Panics) > 0 {
				t.Fatalf("panic while a response was handled\nquery: %s\nlayout: %s\ndelivery: %v\n%s", sql, l, order, e.xc.Panics[0])
			}
			return rs, err
		}, ref, m)
		if msg != "" {
			fail("root -> intermediate -> leaves", order, msg, mobs)
		}
		ambDiffers += a
		toRoot, toMid := 0, 0
		for _, o := range mobs {
			switch o.Receiver {
			case "root:1":
				toRoot++
				if o.From != "mid0:1" {
					t.Fatalf("harness: with an intermediate node the root got an answer from %s: %+v", o.From, mobs)
				}
			case "mid0:1":
				toMid++
			}
			if o.Dropped {
				fail("root -> intermediate -> leaves", order, "a response was dropped: no task for the request at "+o.Receiver, mobs)
			}
		}
		if toRoot != 1 || toMid != nLeaves {
			t.Fatalf("harness: intermediate topology: %d answers at the root, %d at the intermediate node: %+v", toRoot, toMid, mobs)
		}
		ev.Class(e.group, "executions:root->intermediate->leaves", 1)
	}
	e.xc.Compute, e.xc.Order = nil, nil
	ev.Case(e.group, fmt.Sprintf("%s|%s|%s|mid", dataJSON, sql, l), nData >= 2,
		append(classes, "topology=root->intermediate->leaves", fmt.Sprintf("delivery-orders=%d", len(midPerms))),
		map[string]any{"query": sql, "layout": l, "topology": "root->intermediate->leaves", "leafAnswers": kinds, "orders": len(midPerms), "data": e.d})
	if ambDiffers > 0 {
		ev.Class(e.group, "info:order-ambiguous-first/last-cell-differs-from-reference", ambDiffers)
	}

	// (3b) the same at the intermediate node, which sends the leaf requests with the same task context code
	mscheds := []*sendSchedule{immediateSchedule(nLeaves)}
	if len(schedPicks[nLeaves]) > 0 {
		mscheds = append(mscheds, schedPicks[nLeaves][0])
	}
	e.runScheduled(q, sql, m, ref, l, mscheds, "mid0:1", []string{"mid0:1"}, kinds, nData, classes, dataJSON, fail)
}

// withheldResponses: see (1c) of runLayout. Victims: the first node with data, the last node with data, the first node
// without data (empty or not-found answer: the root cannot know that), each with the other responses handed over in
// send order; the withheld response is lost, or arrives when the query is over (alternating).
func (e *env) withheldResponses(q *querySpec, sql string, l *layoutSpec, names []string, kinds map[string]string, dataJSON string, viaMid bool) {
	t := e.t
	var withData, without []string
	for _, name := range names {
		if kinds[name] == "data" {
			withData = append(withData, name)
		} else {
			without = append(without, name)
		}
	}
	type pick struct{ victim, what string }
	picks := []pick{{withData[0], "first-node-with-data"}}
	if len(withData) > 1 {
		picks = append(picks, pick{withData[len(withData)-1], "last-node-with-data"})
	}
	if len(without) > 0 {
		picks = append(picks, pick{without[0], "node-without-data(" + kinds[without[0]] + ")"})
	}
	waiter, level := "root:1", "root"
	if viaMid {
		waiter, level = "mid0:1", "intermediate"
		if len(sql)%2 == 0 && len(picks) > 1 { // one or two of them (a function of the case)
			picks = picks[:len(picks)-1]
		}
		if len(picks) > 2 {
			picks = picks[:2]
		}
	}
	for pi, p := range picks {
		late := pi%2 == 1
		e.xc.Compute, e.xc.Order, e.xc.AfterPlan = nil, nil, true
		if viaMid {
			e.xc.Compute = []string{"mid0:1"}
		}
		e.xc.mu.Lock()
		e.xc.Withhold, e.xc.Late = map[string]bool{p.victim: true}, late
		e.xc.mu.Unlock()
		rs, err := e.xc.Query("root:1", l.db, sql)
		obs := e.xc.observed()
		e.xc.mu.Lock()
		stuck := append([]string(nil), e.xc.Stuck...)
		panics := append([]string(nil), e.xc.Panics...)
		e.xc.Withhold, e.xc.Late = nil, false
		e.xc.mu.Unlock()
		e.xc.AfterPlan, e.xc.Compute = false, nil
		if len(stuck) > 0 {
			t.Fatalf("harness: %v", stuck)
		}
		if len(panics) > 0 {
			t.Fatalf("panic while the root handled a response (one response withheld until the deadline)\nquery: %s\nlayout: %s\n%s", sql, l, panics[0])
		}
		handledData, handled := 0, 0
		for _, o := range obs {
			if o.Receiver != waiter {
				continue
			}
			if o.From == p.victim {
				if !late {
					t.Fatalf("harness: the withheld response of %s was handed over: %+v", p.victim, obs)
				}
				continue
			}
			handled++
			if o.kind() == "data" {
				handledData++
			}
		}
		if handled != len(names)-1 {
			t.Fatalf("harness: %d of %d other responses were handed to the root before the deadline: %+v", handled, len(names)-1, obs)
		}
		if err == nil {
			t.Fatalf("C12 violated: storage node %s (%s) did not answer before the deadline of the request (waiting node: %s), the query returned an answer built from the nodes that did instead of an error\nquery:    %s\nlayout:   %s\nresponses handled before the deadline: %d (%d with data); the withheld one %s\nresponses: %+v\nanswer:\n%sdata: %s",
				p.victim, kinds[p.victim], waiter, sql, l, handled, handledData, map[bool]string{true: "arrived after the query had returned", false: "never arrived"}[late], obs, node.Canon(rs), dataJSON)
		}
		ev.Class(e.group, "deadline:waiting-node="+level, 1)
		ev.Class(e.group, "deadline:withheld="+p.what, 1)
		ev.Class(e.group, "deadline:withheld-response-"+map[bool]string{true: "arrives-after-the-query-returned", false: "is-lost"}[late], 1)
		switch {
		case handledData > 0 && kinds[p.victim] == "data":
			ev.Class(e.group, "deadline:partial-data-merged,a-node-with-data-missing", 1)
		case handledData > 0:
			ev.Class(e.group, "deadline:all-data-merged,a-node-without-data-missing", 1)
		default:
			ev.Class(e.group, "deadline:no-data-merged", 1)
		}
		if !strings.Contains(err.Error(), "timeout") {
			ev.Class(e.group, "info:deadline:the-query-fails-with-another-error-than-timeout", 1)
		}
	}
}

// emptyOrderBy: an order by item that is a plain field is resolved by the root through the field list of the
// responses (buildOrderBy); when no response carried one (every node answered not-found) and the root does
// not report not-found itself, it reports "cannot parse order by function". For an answer that is empty by the
// written points this is the same observation as not-found / an empty result set.
func (e *env) emptyOrderBy(rs *commonmodels.ResultSet, err error, m *modelOut) (*commonmodels.ResultSet, error) {
	if err != nil && e.order != nil && len(m.present) == 0 && strings.Contains(err.Error(), "cannot parse order by function") {
		ev.Class(e.group, "info:orderby:empty-answer-reported-as-cannot-parse-order-by-function", 1)
		return nil, nil
	}
	return rs, err
}

// repeat executes the query and compares with the reference; a disagreement is returned only if
// it shows in `executions` executions in a row (see executions).
func (e *env) repeat(exec func() (*commonmodels.ResultSet, error), ref node.Result, m *modelOut) (msg string, ambiguousDiffers int) {
	for attempt := 1; ; attempt++ {
		rs, err := exec()
		rs, err = e.emptyOrderBy(rs, err, m)
		if e.cut != nil {
			msg, ambiguousDiffers = diffLimited(ref, rs, err, m, e.cut)
		} else {
			msg, ambiguousDiffers = diff(ref, node.Canon(rs), err, m)
		}
		if msg == "" || attempt == executions {
			return msg, ambiguousDiffers
		}
		ev.Class(e.group, "info:answer-not-reproduced-on-re-execution", 1)
	}
}

func dedup(in []string) []string {
	seen := map[string]bool{}
	var out []string
	for _, s := range in {
		if !seen[s] {
			seen[s] = true
			out = append(out, s)
		}
	}
	return out
}

// TestLayoutIndependence is the property: every layout / delivery order gives the reference answer.
func TestLayoutIndependence(t *testing.T) {
	// one budget for both tiers (a replay must make the same draws); the thorough tier runs more cases
	b := caseBudget{layouts: 4, queries: 3, midSample: 0, scheds: 2}
	rapid.Check(t, func(t *rapid.T) { runCase(t, "TestLayoutIndependence", b) })
}
