package c12

// xcluster extends sim/node's loop-back cluster (root -> leaves) by the broker level of the
// production topology: several brokers, each with its own task manager (query.NewTaskManager) and
// its own production intermediate processor (query.NewIntermediateTaskProcessor); one of them is
// the root of a query. It also records every response that reaches a receiver, so that a layout can
// be classified (which leaf answered with data / empty / not-found).
//
// What is production code: root planner (query.MetricDataSearch), intermediate processor, leaf
// processor, task managers, contexts, result-set builder. What is harness: the transport (request ->
// processor of the target, as query.TaskHandler.process does it: run on a pool, a returned error
// becomes an error response on the requester's stream), the streams (response -> task manager of
// the receiver, as the task client's receive loop does it), the pool on which a broker handles
// responses (inline, see inlinePool), the delivery order of the leaf responses of one request, the
// points at which they are delivered relative to the sender's requests (after all requests, or inside the
// transport's SendRequest while the sender still has requests to send: Sched, see sched_test.go), and the
// state manager answers (Choose / GetDatabaseCfg mirror coordinator/broker's stateManager, or are
// delegated to a real one: field State).

import (
	"context"
	"errors"
	"fmt"
	"runtime"
	"runtime/debug"
	"sort"
	"strings"
	"sync"
	"sync/atomic"
	"time"

	commonmodels "github.com/lindb/common/models"
	"github.com/lindb/common/pkg/encoding"

	"github.com/lindb/lindb/coordinator/broker"
	"github.com/lindb/lindb/flow"
	"github.com/lindb/lindb/internal/concurrent"
	"github.com/lindb/lindb/internal/linmetric"
	"github.com/lindb/lindb/metrics"
	"github.com/lindb/lindb/models"
	"github.com/lindb/lindb/pkg/option"
	protoCommonV1 "github.com/lindb/lindb/proto/gen/v1/common"
	"github.com/lindb/lindb/query"
	qctx "github.com/lindb/lindb/query/context"
	"github.com/lindb/lindb/rpc"
	"github.com/lindb/lindb/sql"
	"github.com/lindb/lindb/sql/stmt"
	"github.com/lindb/lindb/tsdb"
)

// respObs is one response as seen by its receiver.
type respObs struct {
	Receiver string   `json:"receiver"`
	From     string   `json:"from"`
	Err      string   `json:"err,omitempty"`
	Series   int      `json:"series"`  // time series in the payload
	Bytes    int      `json:"bytes"`   // size of the payload
	Specs    int      `json:"specs"`   // aggregator specs in the payload
	Dropped  bool     `json:"dropped"` // the receiver's task manager knows no task of this request id
	Groups   []string `json:"-"`       // group tags of the time series in the payload
}

func (o respObs) kind() string {
	switch {
	case o.Err != "" && strings.Contains(o.Err, "not found"):
		return "notfound"
	case o.Err != "":
		return "error"
	case o.Series > 0:
		return "data"
	default:
		return "empty"
	}
}

// inlinePool runs a submitted task on the caller's goroutine: a response is completely handled by
// the receiver's task context before the next one is handed over (the production pool with one
// worker gives the same order, but sleeps 5 ms whenever the worker is still busy).
type inlinePool struct {
	c       *xcluster
	stopped bool
}

func (p *inlinePool) Submit(ctx context.Context, task *concurrent.Task) {
	if ctx.Err() != nil {
		return
	}
	defer func() {
		if r := recover(); r != nil {
			p.c.mu.Lock()
			p.c.Panics = append(p.c.Panics, fmt.Sprintf("%v\n%s", r, debug.Stack()))
			p.c.mu.Unlock()
		}
	}()
	task.Exec()
}

func (p *inlinePool) Stopped() bool { return p.stopped }
func (p *inlinePool) Stop()         { p.stopped = true }

type xbroker struct {
	name    string
	node    models.StatelessNode
	pool    concurrent.Pool // responses are handled strictly in hand-over order
	taskMgr query.TaskManager
	proc    query.TaskProcessor
}

type xleaf struct {
	name string
	proc query.TaskProcessor
}

type xcluster struct {
	mu      sync.Mutex
	brokers map[string]*xbroker
	leaves  map[string]*xleaf
	lorder  []string // leaf names in registration order = order of the targets in a leaf plan
	reqPool concurrent.Pool
	layout  map[string]map[string][]models.ShardID
	dbCfg   map[string]models.Database
	Timeout time.Duration

	// Compute lists the brokers BuildPhysicalPlan would pick for a group-by query (after its shuffle):
	// the first is the computing intermediate node, the others are receive-only. Empty = the state
	// manager answers with the leaf plan (what production does when only one storage node has shards).
	Compute []string

	// State, when set, answers Choose / GetDatabaseCfg instead of the mirror below (a production
	// broker.StateManager fed with discovery events, see regression tests).
	State broker.StateManager

	// FailLeaf: storage node -> failure text: the node's task processor fails with that error instead of executing the
	// request (the requester gets the error response the production task handler sends for a processor error)
	FailLeaf map[string]string

	// AfterPlan: the buffered leaf responses of a request are released only after the root has sent the whole plan
	// and waits for the responses (see waitPlanSent); otherwise as soon as the last one arrived, which may be a moment
	// earlier
	AfterPlan bool
	rootCtx   *waitingCtx

	// Withhold: storage node -> its response of the running query is NOT handed to the root before the deadline of the
	// request (a hung or slow node, a lost response); needs AfterPlan. The other responses of the batch are handed over
	// in the wanted order, each completely handled by the root (inline pool); then the harness lets the deadline of the
	// query's context pass (waitingCtx.fire: the deadline is harness-owned, no duration is waited for). Late: the
	// withheld responses reach the root's task manager after the query returned (a slow node), otherwise never.
	Withhold map[string]bool
	Late     bool
	withheld []heldResp
	// the task contexts of the requests brokers are processing (intermediate nodes): like the root's, their deadline is
	// harness-owned and they notice when the node starts to wait for its leaf responses
	midCtx map[string]*waitingCtx

	// Order decides in which order the buffered responses of one request are released to the
	// receiver (nil: canonical order = sorted by sender name).
	Order func(receiver string, arrived []string) []string

	// Concurrent: the buffered leaf responses of one request are handed to the receiver from one goroutine
	// each, all released by a barrier at the same instant (instead of one after the other); with a
	// multi-worker response pool (newXClusterPool) the receiver then handles them concurrently.
	Concurrent bool
	handing    sync.WaitGroup // hand-over goroutines of the Concurrent mode
	releasing  sync.WaitGroup // goroutines that hand a complete batch of buffered responses over

	// Sched, when set, replaces the "all responses after all requests" delivery for every sender whose
	// leaf plan has len(Sched.At) targets: responses are handed over at harness-owned points inside the
	// transport's SendRequest, i.e. while the sender is still sending (see sendSchedule).
	Sched *sendSchedule
	sends map[string]*sendState // receiver|request id -> state of a scheduled delivery
	Sends []sendObs             // scheduled deliveries of the last query
	Stuck []string              // harness problems of a scheduled delivery (a response that never arrived, ...)

	pending  map[string][]pendingResp // receiver|request id -> buffered responses
	expect   map[string]int           // receiver|request id -> requests sent by the receiver
	Obs      []respObs
	Panics   []string // panics while a receiver handled a response
	splitSeq int
	Plans    []string // physical plans the production state manager chose (State != nil)
}

type heldResp struct {
	receiver string
	p        pendingResp
}

type pendingResp struct {
	from string
	resp *protoCommonV1.TaskResponse
}

func newXCluster(brokers ...string) *xcluster { return newXClusterPool(0, brokers...) }

// newXClusterPool: workers == 0: every broker handles responses inline (deterministic, see inlinePool);
// workers > 0: on a production worker pool of that many workers (what the broker runtime creates).
func newXClusterPool(workers int, brokers ...string) *xcluster {
	c := &xcluster{
		brokers: map[string]*xbroker{},
		leaves:  map[string]*xleaf{},
		layout:  map[string]map[string][]models.ShardID{},
		dbCfg:   map[string]models.Database{},
		Timeout: 20 * time.Second,
		pending: map[string][]pendingResp{},
		expect:  map[string]int{},
		sends:   map[string]*sendState{},
	}
	c.reqPool = concurrent.NewPool("verif-c12-req", 8, time.Second, metrics.NewConcurrentStatistics("verif-c12-req", linmetric.BrokerRegistry))
	for _, host := range brokers {
		b := &xbroker{node: models.StatelessNode{HostIP: host, GRPCPort: 1}}
		b.name = b.node.Indicator()
		b.pool = &inlinePool{c: c}
		if workers > 0 {
			b.pool = concurrent.NewPool("verif-c12-"+host, workers, time.Second, metrics.NewConcurrentStatistics("verif-c12-"+host, linmetric.BrokerRegistry))
		}
		b.taskMgr = query.NewTaskManager(b.pool, linmetric.BrokerRegistry)
		c.brokers[b.name] = b
	}
	// processors are created when the timeout is known (see processor())
	return c
}

func (c *xcluster) Close() {
	c.mu.Lock()
	for _, w := range c.midCtx {
		w.expire()
	}
	c.midCtx = nil
	c.mu.Unlock()
	c.reqPool.Stop()
	for _, b := range c.brokers {
		b.pool.Stop()
	}
}

func (c *xcluster) processor(b *xbroker) query.TaskProcessor {
	if b.proc == nil {
		b.proc = query.NewIntermediateTaskProcessor(b.node, c.Timeout, &xstate{c: c}, b.taskMgr, &xtransport{c: c, self: b.name})
	}
	return b.proc
}

// engineView maps the database name of a request to the leaf's own database.
type engineView struct {
	tsdb.Engine
	inner  tsdb.Engine
	suffix string
}

func (e *engineView) GetDatabase(name string) (tsdb.Database, bool) {
	return e.inner.GetDatabase(name + e.suffix)
}

func (e *engineView) GetShard(name string, id models.ShardID) (tsdb.Shard, bool) {
	return e.inner.GetShard(name+e.suffix, id)
}

type leafNodeT struct {
	models.Node
	name string
}

func (l *leafNodeT) Indicator() string { return l.name }

// AddLeaf registers a storage node: requests for database X are answered from X+suffix of engine.
func (c *xcluster) AddLeaf(name string, engine tsdb.Engine, suffix string) {
	l := &xleaf{name: name}
	l.proc = query.NewLeafTaskProcessor(&leafNodeT{name: name}, &engineView{inner: engine, suffix: suffix}, &xserverFactory{c: c, from: name})
	c.leaves[name] = l
	c.lorder = append(c.lorder, name)
}

func (c *xcluster) SetLayout(db string, opt *option.DatabaseOption, layout map[string][]models.ShardID) {
	c.layout[db] = layout
	n := 0
	for _, s := range layout {
		n += len(s)
	}
	c.dbCfg[db] = models.Database{Name: db, Option: opt, NumOfShard: n, ReplicaFactor: 1}
}

// xstate is the broker.StateManager of every broker (all brokers see the same cluster state).
// Choose mirrors coordinator/broker stateManager.Choose.
type xstate struct {
	broker.StateManager
	c *xcluster
}

func (s *xstate) Choose(database string, numOfNodes int) ([]*models.PhysicalPlan, error) {
	if s.c.State != nil {
		plans, err := s.c.State.Choose(database, numOfNodes)
		if err == nil {
			s.c.mu.Lock()
			for _, p := range plans {
				s.c.Plans = append(s.c.Plans, string(encoding.JSONMarshal(p)))
			}
			s.c.mu.Unlock()
		}
		return plans, err
	}
	layout, ok := s.c.layout[database]
	if !ok {
		return nil, fmt.Errorf("database %s not found", database)
	}
	if numOfNodes > 1 && len(layout) > 1 && len(s.c.Compute) > 0 {
		var live []models.StatelessNode
		for _, name := range s.c.Compute {
			live = append(live, s.c.brokers[name].node)
		}
		if len(live) == 1 {
			// production function (its shuffle of one element is the identity)
			return []*models.PhysicalPlan{flow.BuildPhysicalPlan(database, live, numOfNodes)}, nil
		}
		// BuildPhysicalPlan shuffles with a clock-seeded source; the harness fixes the order
		// (c.Compute is the order after the shuffle) and builds the same plan.
		plan := &models.PhysicalPlan{Database: database}
		for i, n := range live {
			if i == numOfNodes {
				break
			}
			plan.AddTarget(&models.Target{Indicator: n.Indicator(), ReceiveOnly: i != 0})
		}
		return []*models.PhysicalPlan{plan}, nil
	}
	plan := &models.PhysicalPlan{Database: database}
	for _, name := range s.c.lorder {
		if shards, ok := layout[name]; ok {
			plan.AddTarget(&models.Target{Indicator: name, ShardIDs: shards})
		}
	}
	return []*models.PhysicalPlan{plan}, nil
}

func (s *xstate) GetDatabaseCfg(name string) (models.Database, bool) {
	if s.c.State != nil {
		return s.c.State.GetDatabaseCfg(name)
	}
	cfg, ok := s.c.dbCfg[name]
	return cfg, ok
}

// xtransport is the rpc.TransportManager of one broker.
type xtransport struct {
	c    *xcluster
	self string
}

func (t *xtransport) SendRequest(target string, req *protoCommonV1.TaskRequest) error {
	c := t.c
	var proc query.TaskProcessor
	if leaf, ok := c.leaves[target]; ok {
		proc = leaf.proc
	} else if b, ok := c.brokers[target]; ok {
		proc = c.processor(b)
	} else {
		return fmt.Errorf("no such node %s", target)
	}
	var st *sendState
	sendIdx := -1
	if _, isLeaf := c.leaves[target]; isLeaf {
		// the sender will send this plan to every target: that many leaf responses are ordered as one batch
		plan := models.PhysicalPlan{}
		if err := encoding.JSONUnmarshal(req.PhysicalPlan, &plan); err != nil {
			return err
		}
		key := t.self + "|" + req.RequestID
		c.mu.Lock()
		if sched := c.Sched; sched != nil && len(sched.At) == len(plan.Targets) {
			if st = c.sends[key]; st == nil {
				st = &sendState{receiver: t.self, sched: sched, targets: len(plan.Targets), arrived: map[string]*protoCommonV1.TaskResponse{}}
				c.sends[key] = st
			}
			st.contacted = append(st.contacted, target)
			sendIdx = len(st.contacted) - 1
		} else {
			c.expect[key] = len(plan.Targets)
		}
		c.mu.Unlock()
	}
	back := &xstream{c: c, to: t.self, from: target}
	taskCtx := flow.NewTaskContextWithTimeout(context.Background(), c.Timeout)
	if _, isBroker := c.brokers[target]; isBroker {
		// what flow.NewTaskContextWithTimeout builds, with the harness between the deadline and the processor
		tctx, cancel := context.WithTimeout(context.Background(), c.Timeout)
		dctx, expire := context.WithCancel(tctx)
		w := &waitingCtx{Context: dctx, waiting: make(chan struct{}), expire: expire}
		taskCtx.Cancel()
		taskCtx = &flow.TaskContext{Ctx: w, Cancel: func() { expire(); cancel() }, Start: time.Now()}
		c.mu.Lock()
		if c.midCtx == nil {
			c.midCtx = map[string]*waitingCtx{}
		}
		c.midCtx[target] = w
		c.mu.Unlock()
	}
	// query.TaskHandler.process: run on a pool; an error or a panic becomes an error response on the requester's stream
	sendErr := func(err error) {
		_ = back.Send(&protoCommonV1.TaskResponse{RequestID: req.RequestID, Completed: true, ErrMsg: err.Error()})
	}
	c.mu.Lock()
	failure := c.FailLeaf[target]
	c.mu.Unlock()
	c.reqPool.Submit(taskCtx.Ctx, concurrent.NewTask(func() {
		if failure != "" {
			// the node's processor fails: query.TaskHandler.process answers with an error response
			sendErr(errors.New(failure))
			return
		}
		if err := proc.Process(taskCtx, back, req); err != nil {
			sendErr(err)
		}
	}, sendErr))
	if st != nil {
		// harness-owned point: the request is on its way, SendRequest has not returned to the sender yet
		c.afterSend(st, sendIdx)
	}
	return nil
}

func (t *xtransport) SendResponse(_ string, _ *protoCommonV1.TaskResponse) error {
	return fmt.Errorf("harness: SendResponse not expected")
}

// xserverFactory gives a leaf the stream to a receiver.
type xserverFactory struct {
	rpc.TaskServerFactory
	c    *xcluster
	from string
}

func (f *xserverFactory) GetStream(receiver string) protoCommonV1.TaskService_HandleServer {
	if _, ok := f.c.brokers[receiver]; !ok {
		return nil
	}
	return &xstream{c: f.c, to: receiver, from: f.from}
}

type xstream struct {
	protoCommonV1.TaskService_HandleServer
	c        *xcluster
	to, from string
}

func (s *xstream) Send(resp *protoCommonV1.TaskResponse) error {
	s.c.deliver(s.to, resp, s.from)
	return nil
}

func (c *xcluster) handOver(receiver string, p pendingResp) {
	c.receive(receiver, p, c.observe(receiver, p))
}

// observe records the response (decoding its payload) and returns its index in Obs.
func (c *xcluster) observe(receiver string, p pendingResp) int {
	o := respObs{Receiver: receiver, From: p.from, Err: p.resp.ErrMsg, Series: -1, Bytes: len(p.resp.Payload)}
	if p.resp.ErrMsg == "" {
		tsList := &protoCommonV1.TimeSeriesList{}
		if err := tsList.Unmarshal(p.resp.Payload); err == nil {
			o.Series = len(tsList.TimeSeriesList)
			o.Specs = len(tsList.FieldAggSpecs)
			for _, ts := range tsList.TimeSeriesList {
				o.Groups = append(o.Groups, ts.Tags)
			}
		}
	}
	// recorded before the hand-over: handling the last response completes the query
	c.mu.Lock()
	idx := len(c.Obs)
	c.Obs = append(c.Obs, o)
	c.mu.Unlock()
	return idx
}

// receive is the task client's receive loop: taskReceiver.Receive(resp, fromNode).
func (c *xcluster) receive(receiver string, p pendingResp, idx int) {
	if err := c.brokers[receiver].taskMgr.Receive(p.resp, p.from); err != nil {
		c.mu.Lock()
		if idx < len(c.Obs) {
			c.Obs[idx].Dropped = true
		}
		c.mu.Unlock()
	}
}

func (c *xcluster) deliver(receiver string, resp *protoCommonV1.TaskResponse, from string) {
	key := receiver + "|" + resp.RequestID
	c.mu.Lock()
	if st := c.sends[key]; st != nil {
		if _, fromLeaf := c.leaves[from]; fromLeaf {
			st.arrived[from] = resp
			c.mu.Unlock()
			c.releaseLate(st)
			return
		}
	}
	want := c.expect[key]
	if _, fromLeaf := c.leaves[from]; !fromLeaf || want == 0 {
		// the answer of an intermediate node, or the receiver sent no request of this id (a
		// receive-only target): nothing to order
		c.mu.Unlock()
		c.handOver(receiver, pendingResp{from: from, resp: resp})
		return
	}
	c.pending[key] = append(c.pending[key], pendingResp{from: from, resp: resp})
	if len(c.pending[key]) < want {
		c.mu.Unlock()
		return
	}
	batch := c.pending[key]
	delete(c.pending, key)
	delete(c.expect, key)
	// the query is over for the harness only when the whole batch has been handed over: the receiver may finish the
	// request at an earlier response (a failure), the remaining hand-overs must not run into the next query
	c.releasing.Add(1)
	defer c.releasing.Done()
	c.mu.Unlock()
	sort.Slice(batch, func(i, j int) bool { return batch[i].from < batch[j].from })
	names := make([]string, len(batch))
	byName := map[string]pendingResp{}
	for i, b := range batch {
		names[i] = b.from
		byName[b.from] = b
	}
	order := names
	if c.Order != nil {
		order = c.Order(receiver, names)
	}
	if c.Concurrent {
		barrier := make(chan struct{})
		var ready sync.WaitGroup
		for _, n := range order {
			// decoded for the record before the barrier: behind it there is only the call of Receive
			idx := c.observe(receiver, byName[n])
			ready.Add(1)
			c.handing.Add(1)
			go func(p pendingResp) {
				defer c.handing.Done()
				ready.Done()
				<-barrier
				c.receive(receiver, p, idx)
			}(byName[n])
		}
		ready.Wait()
		close(barrier)
		return
	}
	if c.AfterPlan {
		c.waitPlanSent(receiver, resp.RequestID)
	}
	c.mu.Lock()
	withhold := c.Withhold
	c.mu.Unlock()
	held := false
	for _, n := range order {
		if withhold[n] {
			c.mu.Lock()
			c.withheld = append(c.withheld, heldResp{receiver, byName[n]})
			c.mu.Unlock()
			held = true
			continue
		}
		c.handOver(receiver, byName[n])
	}
	if held {
		// every other response has been handled by the receiver: now the deadline of the request passes
		if w := c.ctxOf(receiver); w != nil {
			w.fire()
		}
	}
}

// ctxOf: the context in which the receiver executes the running query (the root's, or the task context of an
// intermediate node).
func (c *xcluster) ctxOf(receiver string) *waitingCtx {
	c.mu.Lock()
	defer c.mu.Unlock()
	if w, ok := c.midCtx[receiver]; ok {
		return w
	}
	return c.rootCtx
}

// waitPlanSent returns when the root of the running query has sent its plan and is waiting for the responses (the
// task sending stages and the completion callback of the root's pipeline run on the goroutine that then calls
// waitResponse, see waitingCtx). A condition is awaited, no duration is assumed (the deadline only reports a stuck
// harness).
func (c *xcluster) waitPlanSent(receiver, requestID string) {
	w := c.ctxOf(receiver)
	if w == nil {
		return
	}
	timer := time.NewTimer(c.Timeout)
	defer timer.Stop()
	select {
	case <-w.waiting:
	case <-timer.C:
		c.mu.Lock()
		c.Stuck = append(c.Stuck, fmt.Sprintf("%s did not start to wait for the responses of request %s within %s", receiver, requestID, c.Timeout))
		c.mu.Unlock()
	}
}

// waitingCtx is the context of a query; it notices when the production code asks for its Done channel from
// MetricContext.waitResponse, i.e. when the root (pipeline executed, task completed with the pipeline's verdict) enters
// the select in which it waits for the responses.
type waitingCtx struct {
	context.Context
	once    sync.Once
	waiting chan struct{}
	// the deadline of the request is owned by the harness: fire() lets it pass (Done is closed, Err reports
	// context.DeadlineExceeded), whatever the wall clock says
	expire context.CancelFunc
	fired  atomic.Bool
}

func (w *waitingCtx) fire() {
	w.fired.Store(true)
	w.expire()
}

func (w *waitingCtx) Err() error {
	if err := w.Context.Err(); err != nil && w.fired.Load() {
		return context.DeadlineExceeded
	}
	return w.Context.Err()
}

func (w *waitingCtx) Done() <-chan struct{} {
	var pcs [8]uintptr
	n := runtime.Callers(2, pcs[:])
	frames := runtime.CallersFrames(pcs[:n])
	for {
		f, more := frames.Next()
		if strings.HasSuffix(f.Function, ".waitResponse") {
			w.once.Do(func() { close(w.waiting) })
			break
		}
		if !more {
			break
		}
	}
	return w.Context.Done()
}

// Query runs the statement with the given broker as root.
func (c *xcluster) Query(root, db, sqlText string) (*commonmodels.ResultSet, error) {
	st, err := sql.Parse(sqlText)
	if err != nil {
		return nil, fmt.Errorf("parse: %w", err)
	}
	q, ok := st.(*stmt.Query)
	if !ok {
		return nil, fmt.Errorf("not a query statement: %T", st)
	}
	b, ok := c.brokers[root]
	if !ok {
		return nil, fmt.Errorf("harness: no broker %s", root)
	}
	c.mu.Lock()
	c.Obs, c.Plans = nil, nil
	c.pending = map[string][]pendingResp{}
	c.expect = map[string]int{}
	c.sends, c.Sends, c.Stuck = map[string]*sendState{}, nil, nil
	c.mu.Unlock()
	tctx, cancel := context.WithTimeout(context.Background(), c.Timeout)
	defer cancel()
	dctx, expire := context.WithCancel(tctx)
	defer expire()
	ctx := &waitingCtx{Context: dctx, waiting: make(chan struct{}), expire: expire}
	c.mu.Lock()
	c.rootCtx = ctx
	c.withheld = nil
	for _, w := range c.midCtx {
		w.expire() // the task contexts of the previous query's intermediate nodes: release their timers
	}
	c.midCtx = nil
	c.mu.Unlock()
	// every response of a scheduled delivery has reached its receiver (or was refused by it) before the
	// query is over for the harness, whatever the root made of them
	defer c.quiesce()
	defer c.handing.Wait()
	rs, err := query.MetricDataSearch(ctx, &models.ExecuteParam{Database: db, SQL: sqlText}, q, &query.SearchMgr{
		Timeout:      c.Timeout,
		CurNode:      b.node,
		Choose:       &xstate{c: c},
		TaskMgr:      b.taskMgr,
		TransportMgr: &xtransport{c: c, self: b.name},
	})
	c.releasing.Wait()
	c.mu.Lock()
	late := c.withheld
	c.withheld = nil
	c.mu.Unlock()
	if c.Late {
		// the slow node's answer arrives when the query is over
		for _, h := range late {
			c.handOver(h.receiver, h.p)
		}
	}
	if err != nil {
		return nil, err
	}
	res, ok := rs.(*commonmodels.ResultSet)
	if !ok {
		return nil, fmt.Errorf("unexpected result type %T", rs)
	}
	return res, nil
}

// leafSplit sends the leaf plan of the database with the given receivers to every leaf, the way
// IntermediateMetricContext.MakePlan does for the targets of a compute plan, and returns what
// each leaf sent to each receiver. Nobody merges the responses (the receivers have no task).
func (c *xcluster) leafSplit(db, sqlText string, receivers []string) ([]respObs, error) {
	st, err := sql.Parse(sqlText)
	if err != nil {
		return nil, err
	}
	q := st.(*stmt.Query)
	cfg, ok := c.dbCfg[db]
	if !ok {
		return nil, fmt.Errorf("harness: no database %s", db)
	}
	qctx.VerifCalcTimeRangeAndInterval(q, cfg)
	payload, _ := q.MarshalJSON()
	saved := c.Compute
	c.Compute = nil
	plans, err := (&xstate{c: c}).Choose(db, 1)
	c.Compute = saved
	if err != nil {
		return nil, err
	}
	plan := plans[0]
	for _, r := range receivers {
		plan.AddReceiver(r)
	}
	c.mu.Lock()
	c.Obs = nil
	c.pending = map[string][]pendingResp{}
	c.expect = map[string]int{}
	c.splitSeq++
	reqID := fmt.Sprintf("split-%d", c.splitSeq)
	c.mu.Unlock()
	req := &protoCommonV1.TaskRequest{RequestID: reqID, RequestType: protoCommonV1.RequestType_Data, PhysicalPlan: encoding.JSONMarshal(plan), Payload: payload}
	tr := &xtransport{c: c, self: receivers[0]}
	for _, target := range plan.Targets {
		if err := tr.SendRequest(target.Indicator, req); err != nil {
			return nil, err
		}
	}
	want := len(plan.Targets) * len(receivers)
	deadline := time.Now().Add(c.Timeout)
	for {
		obs := c.observed()
		if len(obs) >= want {
			return obs, nil
		}
		if time.Now().After(deadline) {
			return obs, fmt.Errorf("harness: %d of %d leaf responses", len(obs), want)
		}
		time.Sleep(200 * time.Microsecond)
	}
}

// observed returns a copy of the responses seen during the last query.
func (c *xcluster) observed() []respObs {
	c.mu.Lock()
	defer c.mu.Unlock()
	return append([]respObs(nil), c.Obs...)
}
