package c12

import (
	"fmt"
	"os"
	"strings"
	"testing"
	"time"

	commonmodels "github.com/lindb/common/models"
	"pgregory.net/rapid"

	"github.com/lindb/lindb/pkg/timeutil"
	"github.com/lindb/lindb/verifharness/sim/ev"
	"github.com/lindb/lindb/verifharness/sim/node"
)

// TestProductionPlans: the property with the physical plans chosen by the production state manager
// (coordinator/broker StateManager fed with discovery events: 1-3 live brokers, the storage nodes of a generated
// layout with >= 2 nodes) instead of the harness' mirror of it: the root asks it for the plan of every statement
// (how many compute nodes it asks for is the root's decision), the answer must be the answer of the 1-shard/1-node
// layout. Statements: the query space of TestLayoutIndependence; while the known findings about plans with a
// compute level are listed (group by over >= 2 storage nodes cannot complete on this tree), the statements are not
// grouped by tags - an ungrouped statement is planned root -> storage nodes whatever the number of live brokers.
func TestProductionPlans(t *testing.T) {
	rapid.Check(t, func(t *rapid.T) {
		const group = "TestProductionPlans"
		d := genDataset(t)
		l := genLayout(t)
		for i := 0; i < 6 && len(l.Nodes) < 2; i++ {
			l = genLayout(t)
		}
		if len(l.Nodes) < 2 {
			t.Skip("no layout with >= 2 nodes drawn")
		}
		genWriteSpecs(t, d, []*layoutSpec{l})
		var queries []*querySpec
		for i := rapid.IntRange(1, 3).Draw(t, "nQueries"); i > 0; i-- {
			q := genQuery(t, d, group)
			if q == nil {
				continue
			}
			if len(q.GroupBy) > 0 && (ev.Known(sigReceiveOnly) || ev.Known(sigRootIsMid)) {
				ev.Class(group, "excluded_known", 1)
				q.GroupBy, q.OrderBy, q.Limit, q.LimitKind = nil, nil, 0, "none"
			}
			queries = append(queries, q)
		}
		live := [][]string{{"root:1"}, {"root:1", "mid0:1"}, {"root:1", "mid0:1", "mid1:1"}}[rapid.IntRange(0, 2).Draw(t, "liveBrokers")]

		dir, err := os.MkdirTemp("", "c12-")
		if err != nil {
			t.Fatalf("harness: %v", err)
		}
		defer os.RemoveAll(dir)
		n, err := node.Start(dir)
		if err != nil {
			t.Fatalf("harness: start engine: %v", err)
		}
		defer n.Close()
		caseSeq++
		e := &env{seq: caseSeq, t: t, group: group, n: n, nc: node.NewCluster(), xc: newXCluster("root", "mid0", "mid1"), opt: node.DBOption(timeutil.Interval(storageIntervalMs)), d: d}
		if d.Wide {
			e.sqlSuffix = concLimit
		}
		defer e.nc.Close()
		defer e.xc.Close()
		for i := 0; i < maxLeaves; i++ {
			e.nc.AddLeaf(leafName(i), n.Engine, fmt.Sprintf("@n%d", i))
			e.xc.AddLeaf(leafName(i), n.Engine, fmt.Sprintf("@n%d", i))
		}
		ref := &layoutSpec{Shards: 1, Nodes: [][]int{{0}}}
		e.build(0, ref)
		e.build(1, l)
		sm, stop := startProductionState(t, e, "root:1", live, l)
		defer stop()
		dataJSON := fmt.Sprintf("%+v", d)
		for _, q := range queries {
			sql := q.sql(d)
			m := evalModel(d, q)
			e.cut, e.order = nil, nil
			if len(q.OrderBy) > 0 {
				e.order = newOrderModel(d, q, m)
			}
			refSQL := sql
			if len(q.GroupBy) > 0 {
				refSQL = q.sqlWithLimit(d, completeLimit)
			}
			rs, rerr := e.nc.Query(ref.db, refSQL)
			rs, rerr = e.emptyOrderBy(rs, rerr, m)
			want := node.Result{}
			if rerr != nil {
				if !strings.Contains(rerr.Error(), "not found") {
					t.Fatalf("harness: the reference layout rejects %q: %v", refSQL, rerr)
				}
			} else {
				want = node.Canon(rs)
			}
			if msg := checkReference(want, m); msg != "" {
				// the reference against the model is TestLayoutIndependence's subject (re-execution rule there)
				ev.Class(group, "info:reference-differs-from-the-model(not-judged-here)", 1)
				continue
			}
			e.xc.State, e.xc.Compute, e.xc.Order = sm, nil, nil
			e.xc.Timeout = 1500 * time.Millisecond
			var obs []respObs
			var plans string
			msg, _ := e.repeat(func() (*commonmodels.ResultSet, error) {
				rs, err := e.xc.Query("root:1", l.db, refSQL)
				obs = e.xc.observed()
				plans = strings.Join(e.xc.Plans, " ; ")
				return rs, err
			}, want, m)
			e.xc.State = nil
			if msg != "" {
				t.Fatalf("C12 violated: the answer under the plan of the production state manager differs from the 1-shard/1-node answer\nquery:  %s\nlayout: %s, live brokers %v\nplans chosen by broker.StateManager.Choose: %s\nresponses: %+v\n%s\nreference:\n%sdata: %s",
					refSQL, l, live, plans, obs, msg, want, dataJSON)
			}
			nData, dropped := 0, 0
			for _, o := range obs {
				if o.kind() == "data" {
					nData++
				}
				if o.Dropped {
					dropped++
				}
			}
			if dropped > 0 {
				t.Fatalf("C12 violated: %d responses found no task at their receiver\nquery:  %s\nlayout: %s, live brokers %v\nplans: %s\nresponses: %+v", dropped, refSQL, l, live, plans, obs)
			}
			classes := []string{fmt.Sprintf("plans:live-brokers=%d", len(live)), fmt.Sprintf("layout:leaves=%d", len(l.Nodes)), fmt.Sprintf("leaves-with-data=%d", nData),
				"query:groupby=" + map[bool]string{true: "tags", false: "none"}[len(q.GroupBy) > 0], "query:interval=" + map[bool]string{true: "time()", false: "storage"}[q.Interval > 0]}
			ev.Case(group, fmt.Sprintf("%s|%s|%s|%v", dataJSON, refSQL, l, live), nData >= 2, classes,
				map[string]any{"query": refSQL, "layout": l, "liveBrokers": live, "plans": plans})
		}
	})
}
