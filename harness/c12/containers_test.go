package c12

// Series id plans: the series of a metric in one shard are numbered in creation order by the shard's index, and the leaf
// query path works roaring container by roaring container (65536 ids): after the scan of a shard one grouping stage +
// data load context is created per container of the filtered series ids, each context counts its own pending data load
// tasks and is reduced into the leaf answer when its last task ends. A shard that has seen more than 65536 series of a
// metric therefore runs a different leaf pipeline than several shards that each hold fewer - with the same points.
//
// Class: under a layout a shard gets an id plan: right before the j-th block written into the shard, the series
// sequence of every metric with rows in that block moves forward to `boundary*65536 - back` (seam
// index.VerifSetNextSeriesID, tag verif: the state of the index after that many series of the metric were created
// earlier in the shard - series that carry no point in any queried range and are not in the data family). The new
// series of the block get the following ids (production id hand-out, in the order the write path meets them): with
// back >= 1 the first `back` of them end in the container below the boundary, the rest above it; with back == 0 the
// block starts a new container. The reference layout (1 shard, 1 node) has no plan (ids 0, 1, 2, ...); a case has one
// layout with 1 shard and a plan (same sharding, other id space), and generated layouts (1-6 shards) where some shards
// have a plan and others none. Everything else - oracle, delivery orders, intermediate node, faults - is runCase.
//
// After a layout is built the ids are read back from the shard's index (self check + classes ids:*).

import (
	"fmt"
	"sort"
	"testing"

	commonconstants "github.com/lindb/common/constants"
	"pgregory.net/rapid"

	"github.com/lindb/lindb/index"
	"github.com/lindb/lindb/models"
	"github.com/lindb/lindb/verifharness/sim/ev"
)

const idContainer = 1 << 16

// idJump: the series created next get ids from Boundary*65536 - Back on.
type idJump struct {
	Boundary int `json:"boundary"` // 1..3 (models.NewDefaultLimits: at most 200000 series per metric)
	Back     int `json:"back"`
}

func (j idJump) next() uint32 { return uint32(j.Boundary*idContainer - j.Back) }

// genIDPlan gives shards of the layout an id plan (every shard when all is set, else about 2 of 3).
func genIDPlan(t *rapid.T, l *layoutSpec, all bool) {
	l.IDs = map[int][]idJump{}
	for s := 0; s < l.Shards; s++ {
		if !all && rapid.IntRange(0, 2).Draw(t, "shardHasIDPlan") == 0 {
			continue
		}
		n := rapid.IntRange(1, 3).Draw(t, "idJumps")
		first := rapid.IntRange(1, 4-n).Draw(t, "firstBoundary")
		for k := 0; k < n; k++ {
			back := rapid.SampledFrom([]int{0, 1, 1, 2, 2, 3, 5}).Draw(t, "back")
			l.IDs[s] = append(l.IDs[s], idJump{Boundary: first + k, Back: back})
		}
	}
}

// applyIDJump: see above; called right before block r of request rq is written.
func (e *env) applyIDJump(l *layoutSpec, rq wreq, r routed) error {
	s := int(r.shard)
	plan := l.IDs[s]
	if l.idStep == nil {
		l.idStep = map[int]int{}
	}
	step := l.idStep[s]
	l.idStep[s]++
	if step >= len(plan) {
		return nil
	}
	dbName := fmt.Sprintf("%s@n%d", l.db, l.nodeOfShard(s))
	db, ok := e.n.Engine.GetDatabase(dbName)
	if !ok {
		return fmt.Errorf("database %s not found", dbName)
	}
	shard, err := e.n.Shard(dbName, r.shard)
	if err != nil {
		return err
	}
	metrics := map[int]bool{}
	for _, at := range rq.Rows {
		p := e.d.Batches[at[0]][at[1]]
		if l.shardOf[p.Series] == s {
			metrics[e.d.Series[p.Series].Metric] = true
		}
	}
	next := plan[step].next()
	for mi := range e.d.Metrics {
		if !metrics[mi] {
			continue
		}
		mid, err := db.MetaDB().GenMetricID([]byte(commonconstants.DefaultNamespace), []byte(e.d.Metrics[mi].Name))
		if err != nil {
			return err
		}
		if ids, err := shard.IndexDB().GetSeriesIDsForMetric(mid); err == nil && !ids.IsEmpty() && ids.Maximum() >= next {
			continue // the sequence only moves forward
		}
		if !index.VerifSetNextSeriesID(shard.IndexDB(), mid, next) {
			return fmt.Errorf("the shard's index database is not the production implementation")
		}
	}
	return nil
}

// readIDs reads the series ids of every metric in every shard of the layout back from the index: l.containers
// ("metric index/shard" -> number of roaring containers) and l.idsOf (the ids).
func (e *env) readIDs(l *layoutSpec) error {
	l.containers = map[string]int{}
	l.seriesIn = map[string]int{}
	for ni, shards := range l.Nodes {
		dbName := fmt.Sprintf("%s@n%d", l.db, ni)
		db, ok := e.n.Engine.GetDatabase(dbName)
		if !ok {
			return fmt.Errorf("database %s not found", dbName)
		}
		for _, s := range shards {
			shard, err := e.n.Shard(dbName, models.ShardID(s))
			if err != nil {
				return err
			}
			for mi, md := range e.d.Metrics {
				want := 0
				for si, sd := range e.d.Series {
					if sd.Metric == mi && l.shardOf[si] == s && e.d.seriesHasPoint(si) {
						want++
					}
				}
				if want == 0 {
					continue
				}
				mid, err := db.MetaDB().GenMetricID([]byte(commonconstants.DefaultNamespace), []byte(md.Name))
				if err != nil {
					return err
				}
				ids, err := shard.IndexDB().GetSeriesIDsForMetric(mid)
				if err != nil {
					return fmt.Errorf("series ids of %s in shard %d: %v", md.Name, s, err)
				}
				if int(ids.GetCardinality()) != want {
					return fmt.Errorf("shard %d holds %d series of %s, the index numbers %v", s, want, md.Name, ids.ToArray())
				}
				high := map[uint32]bool{}
				for _, id := range ids.ToArray() {
					high[id>>16] = true
				}
				key := fmt.Sprintf("%d/%d", mi, s)
				l.containers[key] = len(high)
				l.seriesIn[key] = want
			}
		}
	}
	return nil
}

// seriesHasPoint: some ingestion request carries a row of the series.
func (d *dataset) seriesHasPoint(si int) bool {
	for _, b := range d.Batches {
		for _, p := range b {
			if p.Series == si {
				return true
			}
		}
	}
	return false
}

// idClasses: how the shards of the layout hold the queried metric.
func (l *layoutSpec) idClasses(q *querySpec) []string {
	if l.IDs == nil || q.Metric < 0 {
		return nil
	}
	maxC, multi, single := 0, 0, 0
	keys := make([]string, 0, len(l.containers))
	for k := range l.containers {
		keys = append(keys, k)
	}
	sort.Strings(keys)
	for _, k := range keys {
		var mi, s int
		_, _ = fmt.Sscanf(k, "%d/%d", &mi, &s)
		if mi != q.Metric {
			continue
		}
		c := l.containers[k]
		if c > maxC {
			maxC = c
		}
		if c >= 2 {
			multi++
		} else {
			single++
		}
	}
	out := []string{fmt.Sprintf("ids:containers-of-the-queried-metric-in-one-shard(max)=%d", maxC)}
	if multi > 0 {
		out = append(out, "ids:a-shard-holds-the-queried-metric-in->=2-containers")
		if single > 0 {
			out = append(out, "ids:shards-with-one-and-shards-with-several-containers")
		}
		out = append(out, "ids:multi-container-shard:groupby="+map[bool]string{true: "tags", false: "none"}[len(q.GroupBy) > 0],
			"ids:multi-container-shard:fields="+map[bool]string{true: ">=2", false: "1"}[q.All || len(q.Items) > 1],
			"ids:multi-container-shard:cond="+map[bool]string{true: "yes", false: "no"}[q.Cond != nil])
	}
	return out
}

// TestSeriesIDContainers: layout independence where shards hold the metric's series in several roaring containers.
func TestSeriesIDContainers(t *testing.T) {
	rapid.Check(t, func(t *rapid.T) {
		b := caseBudget{layouts: 3, queries: 3, midSample: 2, scheds: 1, containers: true}
		// 1 of 3 cases: two data families with flushes between the requests (the case shape of
		// TestStoredFamiliesAndRequestBatching), so that the leaf reads the containers from files and from memory
		b.stored = rapid.IntRange(0, 2).Draw(t, "storedData") == 0
		if b.stored {
			ev.Class("TestSeriesIDContainers", "case:stored-data(flushes-between-the-requests)", 1)
		}
		runCase(t, "TestSeriesIDContainers", b)
	})
}
