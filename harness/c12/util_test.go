package c12

import "sort"

func sortedKeys[V any](m map[string]V) []string {
	keys := make([]string, 0, len(m))
	for k := range m {
		keys = append(keys, k)
	}
	sort.Strings(keys)
	return keys
}
