package c12

import (
	"fmt"
	"math"
	"sort"
	"strings"
	"testing"

	"pgregory.net/rapid"

	"github.com/lindb/lindb/aggregation"
	"github.com/lindb/lindb/aggregation/function"
	"github.com/lindb/lindb/pkg/collections"
	"github.com/lindb/lindb/verifharness/sim/ev"
)

// ---- order by: statement ---------------------------------------------------------------------------
//
// `order by <item> [asc|desc] {, <item> [asc|desc]} limit N` over a group-by query: the root evaluates the
// select list for every merged group, pushes the groups into a heap of N rows (aggregation/topn.go) in the
// iteration order of the grouping aggregator's map - which is filled in the arrival order of the leaf
// responses - and returns what the heap keeps. Which N groups the answer holds is therefore specified by the
// order by clause, not by the layout; only groups that tie on ALL items may replace each other.
//
// What an item means (sql/query_stmt_parser.go check(), query/context/root_metric_context.go buildOrderBy,
// aggregation/order_by.go GetValue): the item names the values of ONE select item by its result name (alias,
// else the expression text) and reduces the points of a group's time series (one per time slot of the
// answer) to one number:
//   fn(name)  fn in sum/min/max/count/avg/first/last/stddev (function.IsSupportOrderBy) over the points in time order;
//   field     a stored field that is selected plain: the field type's function (sum field: sum, min: min, max: max,
//             last: last, first: first - field.Type.GetOrderByFunc).
// asc (default) keeps the N smallest, desc the N largest; a later item only decides between groups that are
// equal on every earlier item.

type orderItem struct {
	Ref  string `json:"ref"`            // result name of a select item (or, degenerate, a field that is only selected inside a function)
	Func string `json:"func,omitempty"` // "" = plain field
	Dir  string `json:"dir,omitempty"`  // "", "asc", "desc"
	Form string `json:"form"`
}

func (o orderItem) text() string {
	s := o.Ref
	if o.Func != "" {
		s = o.Func + "(" + o.Ref + ")"
	}
	if o.Dir != "" {
		s += " " + o.Dir
	}
	return s
}

// orderFuncs: function.IsSupportOrderBy.
var orderFuncs = []string{"sum", "min", "max", "count", "avg", "first", "last", "stddev"}

var linFunc = map[string]function.FuncType{"sum": function.Sum, "min": function.Min, "max": function.Max, "count": function.Count,
	"avg": function.Avg, "first": function.First, "last": function.Last, "stddev": function.Stddev}

// sigStddev: found by TestTopNPushOrder on the tree this extension was written against, repaired in /repo by 7ebde5f
// (see TestRegression_OrderByStddevAccumulator); stddev items are generated like every other function.
const sigStddev = "C12/order-by-stddev-accumulator-starts-at-first-value"

func drawOrderFunc(t *rapid.T, _ string, label string) string {
	return rapid.SampledFrom(orderFuncs).Draw(t, label)
}

const (
	formField    = "field"           // select f ... order by f
	formFnField  = "fn(field)"       // select f ... order by max(f)
	formFnAlias  = "fn(alias)"       // select sum(f) as a ... order by max(a)
	formFnNested = "fn(fn(field))"   // select sum(f) ... order by max(sum(f))
	formDegen    = "names-no-result" // select sum(f) ... order by sum(f): names no values of the result (see the observation test)
)

// genOrderBy adds the order by clause (and aliases) to a statement with a select list. own = the statement of
// the order-by test: the limit clause is drawn again, around the number of groups with values.
func genOrderBy(t *rapid.T, d *dataset, q *querySpec, group string, own bool) {
	for i := range q.Items {
		if rapid.IntRange(0, 3).Draw(t, "alias") == 0 {
			q.Items[i].Alias = fmt.Sprintf("a%d", i)
		}
	}
	n := rapid.SampledFrom([]int{1, 2, 2, 2, 3, 3}).Draw(t, "nOrderBy")
	seen := map[string]bool{}
	for k := 0; k < n; k++ {
		it := q.Items[rapid.IntRange(0, len(q.Items)-1).Draw(t, "orderTarget")]
		fn := drawOrderFunc(t, group, "orderFunc")
		if k == 0 && n >= 2 && rapid.IntRange(0, 2).Draw(t, "firstItemTies") > 0 {
			// few different values over the groups: the later items have to decide
			fn = rapid.SampledFrom([]string{"count", "count", "max", "min", "first", "last"}).Draw(t, "firstItemFunc")
		}
		var o orderItem
		switch {
		case it.Alias != "":
			o = orderItem{Ref: it.Alias, Func: fn, Form: formFnAlias}
		case it.Func == "":
			if rapid.IntRange(0, 2).Draw(t, "orderPlainField") == 0 {
				o = orderItem{Ref: it.Field, Form: formField}
			} else {
				o = orderItem{Ref: it.Field, Func: fn, Form: formFnField}
			}
		default:
			if rapid.IntRange(0, 15).Draw(t, "orderNamesNoResult") == 11 {
				o = orderItem{Ref: it.Field, Func: it.Func, Form: formDegen}
			} else {
				o = orderItem{Ref: it.text(), Func: fn, Form: formFnNested}
			}
		}
		o.Dir = rapid.SampledFrom([]string{"", "asc", "desc", "desc"}).Draw(t, "orderDir")
		if key := o.Func + "(" + o.Ref + ")"; !seen[key] {
			seen[key] = true
			q.OrderBy = append(q.OrderBy, o)
		}
	}
	if !own || len(q.GroupBy) == 0 {
		return
	}
	groups := len(evalModel(d, q).groupKeys())
	switch k := rapid.IntRange(0, 9).Draw(t, "orderLimitKind"); {
	case k == 0:
		q.Limit, q.LimitKind = 0, "none"
	case k < 8 && groups >= 2:
		q.Limit, q.LimitKind = rapid.IntRange(1, groups-1).Draw(t, "orderLimit"), "orderby:below-the-groups"
	case k < 9:
		q.Limit, q.LimitKind = groups, "orderby:equals-the-groups"
		if q.Limit < 1 {
			q.Limit = 1
		}
	default:
		q.Limit, q.LimitKind = groups+rapid.IntRange(1, 3).Draw(t, "orderLimitAbove"), "orderby:above-the-groups"
	}
}

// ---- order by: model --------------------------------------------------------------------------------

// keyVal: the value of one order by item for one group. known = false: the written points do not fix it (an
// order-ambiguous first/last cell, no value of the item in the group, or an item that names no values of the result).
// approx: computed in floating point by another formula than production (stddev): compared with a tolerance.
type keyVal struct {
	v      float64
	known  bool
	approx bool
}

// keyOf reduces the points of a group (in time order) by an order by function.
func keyOf(vals []float64, fn string) keyVal {
	if len(vals) == 0 {
		return keyVal{}
	}
	sum, mn, mx := 0.0, vals[0], vals[0]
	for _, v := range vals {
		sum += v // exact: k/8 with small k
		mn, mx = math.Min(mn, v), math.Max(mx, v)
	}
	n := float64(len(vals))
	switch fn {
	case "sum":
		return keyVal{v: sum, known: true}
	case "min":
		return keyVal{v: mn, known: true}
	case "max":
		return keyVal{v: mx, known: true}
	case "count":
		return keyVal{v: n, known: true}
	case "avg":
		// one correctly rounded division of two exact numbers: equal quotients give equal floats
		return keyVal{v: sum / n, known: true}
	case "first":
		return keyVal{v: vals[0], known: true}
	case "last":
		return keyVal{v: vals[len(vals)-1], known: true}
	case "stddev":
		// population standard deviation (two passes; production uses Welford's recurrence)
		mean, sq := sum/n, 0.0
		for _, v := range vals {
			sq += (v - mean) * (v - mean)
		}
		return keyVal{v: math.Sqrt(sq / n), known: true, approx: true}
	}
	return keyVal{}
}

type orderModel struct {
	desc  []bool
	texts []string
	keys  map[string][]keyVal // group with values -> key
	// unresolved: some item names no values of the result: every comparison that reaches it is open
	unresolved bool
}

// newOrderModel computes the order by key of every group with values from the model's cells.
func newOrderModel(d *dataset, q *querySpec, m *modelOut) *orderModel {
	om := &orderModel{keys: map[string][]keyVal{}}
	if q.Metric < 0 {
		// a metric nobody wrote: no groups
		for _, o := range q.OrderBy {
			om.desc = append(om.desc, o.Dir == "desc")
			om.texts = append(om.texts, o.text())
		}
		return om
	}
	md := d.Metrics[q.Metric]
	type resolved struct {
		name, fn string
		ok       bool
	}
	var rs []resolved
	for _, o := range q.OrderBy {
		om.desc = append(om.desc, o.Dir == "desc")
		om.texts = append(om.texts, o.text())
		r := resolved{fn: o.Func}
		for _, it := range q.Items {
			if it.name() != o.Ref {
				continue
			}
			if o.Func != "" {
				r.name, r.ok = it.name(), true
			} else if it.Func == "" && it.Alias == "" {
				// a plain field: the function of its type
				for _, f := range md.Fields {
					if f.Name == o.Ref {
						r.name, r.fn, r.ok = it.name(), f.Type.String(), true
					}
				}
			}
		}
		if !r.ok {
			om.unresolved = true
		}
		rs = append(rs, r)
	}
	type tv struct {
		ts int64
		v  float64
	}
	points := map[[2]string][]tv{}
	open := map[[2]string]bool{}
	for c := range m.present {
		k := [2]string{c.key, c.field}
		if v, ok := m.exact[c]; ok {
			points[k] = append(points[k], tv{c.ts, v})
		} else {
			open[k] = true
		}
	}
	for _, g := range m.groupKeys() {
		key := make([]keyVal, len(rs))
		for i, r := range rs {
			k := [2]string{g, r.name}
			if !r.ok || open[k] {
				continue
			}
			pts := points[k]
			sort.Slice(pts, func(a, b int) bool { return pts[a].ts < pts[b].ts })
			vals := make([]float64, len(pts))
			for j, p := range pts {
				vals[j] = p.v
			}
			key[i] = keyOf(vals, r.fn)
		}
		om.keys[g] = key
	}
	return om
}

// cmp: +1 = a surely precedes b (a is kept rather than b), -1 = b surely precedes a, 0 = open (equal on every
// item, or the comparison reaches a value the written points do not fix). nil = a group without values.
func (om *orderModel) cmp(a, b []keyVal) int {
	if a == nil || b == nil {
		return 0
	}
	for i := range om.desc {
		x, y := a[i], b[i]
		if !x.known || !y.known {
			return 0
		}
		if x.approx || y.approx {
			if math.Abs(x.v-y.v) <= 1e-9*(1+math.Abs(x.v)+math.Abs(y.v)) {
				return 0
			}
		} else if x.v == y.v {
			continue
		}
		before := x.v < y.v
		if om.desc[i] {
			before = !before
		}
		if before {
			return 1
		}
		return -1
	}
	return 0
}

type orderVerdict struct {
	in, out map[string]bool // groups with values that every / no correct answer holds
	// determined: every group with values is in or out: all correct answers hold the same groups with values
	determined bool
	// laterDecides: a group that is in and a group that is out are equal on the first item
	laterDecides bool
	openKeys     int // groups with values whose key has a component the written points do not fix
}

// verdict: which groups with values `limit n` must / must not return. valueless: series of the complete answer
// that have no value (they are pushed like any group; what they compare as is not asserted and whether they
// reach the root is not either: they count as possible predecessors only).
func (om *orderModel) verdict(valueless int, n int) *orderVerdict {
	v := &orderVerdict{in: map[string]bool{}, out: map[string]bool{}, determined: true}
	groups := sortedKeys(om.keys)
	for _, g := range groups {
		ahead, maybeAhead := 0, valueless
		for _, h := range groups {
			if h == g {
				continue
			}
			switch om.cmp(om.keys[h], om.keys[g]) {
			case 1:
				ahead++
				maybeAhead++
			case 0:
				maybeAhead++
			}
		}
		switch {
		case ahead >= n:
			v.out[g] = true
		case maybeAhead <= n-1:
			v.in[g] = true
		default:
			v.determined = false
		}
		for _, k := range om.keys[g] {
			if !k.known {
				v.openKeys++
				break
			}
		}
	}
	if len(om.desc) >= 2 {
		for g := range v.in {
			for h := range v.out {
				a, b := om.keys[g][0], om.keys[h][0]
				if a.known && b.known && !a.approx && !b.approx && a.v == b.v {
					v.laterDecides = true
				}
			}
		}
	}
	return v
}

func (om *orderModel) describe(v *orderVerdict) string {
	var b strings.Builder
	fmt.Fprintf(&b, "order by key (%s) of the groups with values, from the written points:\n", strings.Join(om.texts, ", "))
	for _, g := range sortedKeys(om.keys) {
		var ks []string
		for _, k := range om.keys[g] {
			if k.known {
				ks = append(ks, fmt.Sprint(k.v))
			} else {
				ks = append(ks, "?")
			}
		}
		what := "open"
		if v.in[g] {
			what = "must be returned"
		} else if v.out[g] {
			what = "must not be returned"
		}
		fmt.Fprintf(&b, "  [%s] (%s) %s\n", g, strings.Join(ks, ", "), what)
	}
	return b.String()
}

// check compares the groups with values of an answer the limit cut with the verdict.
func (om *orderModel) check(v *orderVerdict, got map[string]bool, limit int) string {
	var msgs []string
	for _, g := range sortedKeys(got) {
		if v.out[g] {
			msgs = append(msgs, fmt.Sprintf("group [%s] is returned although at least %d groups precede it under the order by clause", g, limit))
		}
	}
	for _, g := range sortedKeys(v.in) {
		if !got[g] {
			msgs = append(msgs, fmt.Sprintf("group [%s] is not returned although fewer than %d groups can precede it under the order by clause", g, limit))
		}
	}
	if len(msgs) == 0 {
		return ""
	}
	return strings.Join(msgs, "\n") + "\n" + om.describe(v)
}

func (q *querySpec) orderClasses() []string {
	if len(q.OrderBy) == 0 {
		return []string{"query:orderby=no"}
	}
	out := []string{"query:orderby=yes", fmt.Sprintf("orderby:items=%d", len(q.OrderBy))}
	dirs := map[bool]bool{}
	for _, o := range q.OrderBy {
		out = append(out, "orderby:form="+o.Form, "orderby:dir="+map[string]string{"": "default", "asc": "asc", "desc": "desc"}[o.Dir])
		if o.Func != "" {
			out = append(out, "orderby:fn="+o.Func)
		}
		dirs[o.Dir == "desc"] = true
	}
	if len(dirs) == 2 {
		out = append(out, "orderby:asc-and-desc-items")
	}
	for _, it := range q.Items {
		if it.Alias != "" {
			out = append(out, "query:select-item-with-alias")
			break
		}
	}
	if len(q.GroupBy) == 0 {
		out = append(out, "orderby:ungrouped")
	}
	return out
}

func (v *orderVerdict) classes(om *orderModel, limit int) []string {
	out := []string{"orderby:cut"}
	if v.determined {
		out = append(out, "orderby:cut:groups-of-the-answer-fully-determined")
	} else {
		out = append(out, "orderby:cut:tie-or-open-key-at-the-cut(only-the-determined-groups-asserted)")
	}
	if v.laterDecides {
		out = append(out, "orderby:cut:first-item-ties-across-the-cut-a-later-item-decides")
	}
	if v.openKeys > 0 {
		out = append(out, "orderby:cut:some-group-key-not-fixed-by-the-written-points")
	}
	if om.unresolved {
		out = append(out, "orderby:cut:item-names-no-result-values(nothing-about-the-order-asserted)")
	}
	if len(v.in) > 0 && len(v.out) > 0 {
		out = append(out, "orderby:cut:groups-that-must-and-groups-that-must-not-be-returned")
	}
	return out
}

// TestOrderByLayoutIndependence: the property over statements with an order by clause (tie-prone data).
func TestOrderByLayoutIndependence(t *testing.T) {
	b := caseBudget{layouts: 3, queries: 3, midSample: 5, scheds: 1, orderBy: true}
	rapid.Check(t, func(t *rapid.T) { runCase(t, "TestOrderByLayoutIndependence", b) })
}

// ---- the heap alone ---------------------------------------------------------------------------------

type heapRow struct {
	Tags   string               `json:"tags"`
	Fields map[string][]float64 `json:"fields"` // field -> points in slot order
	Slots  map[string][]int     `json:"slots"`
}

func (r heapRow) production() aggregation.Row {
	fields := map[string]*collections.FloatArray{}
	for f, vals := range r.Fields {
		arr := collections.NewFloatArray(16)
		for i, v := range vals {
			arr.SetValue(r.Slots[f][i], v)
		}
		fields[f] = arr
	}
	return aggregation.NewOrderByRow(r.Tags, fields)
}

// TestTopNPushOrder: the container the root uses for `order by ... limit N` (aggregation.NewTopNOrderBy over
// aggregation.NewOrderByRow rows, i.e. the production rows and comparison) returns the same rows for every
// order in which the same rows are pushed - the push order is the only thing of a layout the container sees -
// and those rows are the N first under the lexicographic order by key (rows equal on all items may replace
// each other).
func TestTopNPushOrder(t *testing.T) {
	const group = "TestTopNPushOrder"
	pool := []string{"f0", "f1", "f2"}
	rapid.Check(t, func(t *rapid.T) {
		nItems := rapid.IntRange(1, 3).Draw(t, "items")
		om := &orderModel{keys: map[string][]keyVal{}}
		var items []*aggregation.OrderByItem
		var fns []string
		for i := 0; i < nItems; i++ {
			f := rapid.SampledFrom(pool).Draw(t, "field")
			fn := drawOrderFunc(t, group, "fn")
			if i == 0 && nItems >= 2 && rapid.Bool().Draw(t, "firstItemTies") {
				fn = rapid.SampledFrom([]string{"count", "count", "max", "min", "first", "last"}).Draw(t, "firstItemFunc")
			}
			desc := rapid.Bool().Draw(t, "desc")
			items = append(items, &aggregation.OrderByItem{Name: f, FuncType: linFunc[fn], Desc: desc})
			fns = append(fns, fn)
			om.desc = append(om.desc, desc)
			om.texts = append(om.texts, fmt.Sprintf("%s(%s) %s", fn, f, map[bool]string{true: "desc", false: "asc"}[desc]))
		}
		nRows := rapid.IntRange(1, 10).Draw(t, "rows")
		small := rapid.IntRange(0, 3).Draw(t, "smallValues") > 0
		// 1 of 4 cases has rows without any point of a field (the key component is then not asserted)
		pointCounts := []int{1, 1, 1, 2, 2, 3, 4}
		if rapid.IntRange(0, 3).Draw(t, "rowsLackFields") == 2 {
			pointCounts = []int{1, 1, 0, 2, 2, 3, 4}
		}
		rows := make([]heapRow, nRows)
		for i := range rows {
			r := heapRow{Tags: fmt.Sprintf("g%d", i), Fields: map[string][]float64{}, Slots: map[string][]int{}}
			for _, f := range pool {
				k := rapid.SampledFrom(pointCounts).Draw(t, "points")
				slot := 0
				for j := 0; j < k; j++ {
					slot += rapid.IntRange(0, 2).Draw(t, "gap")
					var v float64
					if small {
						v = float64(rapid.SampledFrom([]int{0, 1, 1, 2, 2, 3, -1}).Draw(t, "v"))
					} else {
						v = float64(rapid.IntRange(-400, 400).Draw(t, "v")) / 8
					}
					r.Fields[f] = append(r.Fields[f], v)
					r.Slots[f] = append(r.Slots[f], slot)
					slot++
				}
			}
			rows[i] = r
			key := make([]keyVal, nItems)
			for k, it := range items {
				key[k] = keyOf(r.Fields[it.Name], fns[k]) // no point of the field: not asserted
			}
			om.keys[r.Tags] = key
		}
		limit := rapid.IntRange(1, nRows+1).Draw(t, "limit")
		ident := make([]int, nRows)
		for i := range ident {
			ident[i] = i
		}
		var orders [][]int
		if nRows <= 4 {
			orders = perms(nRows)
		} else {
			rev := make([]int, nRows)
			for i := range rev {
				rev[i] = nRows - 1 - i
			}
			orders = [][]int{ident, rev}
			for i := 0; i < 6; i++ {
				orders = append(orders, rapid.Permutation(ident).Draw(t, "pushOrder"))
			}
		}
		v := om.verdict(0, limit)
		want := limit
		if nRows < want {
			want = nRows
		}
		sets := map[string]bool{}
		for _, order := range orders {
			ob := aggregation.NewTopNOrderBy(items, limit)
			for _, i := range order {
				ob.Push(rows[i].production())
			}
			got := map[string]bool{}
			for _, r := range ob.ResultSet() {
				tags, _ := r.ResultSet()
				if got[tags] {
					t.Fatalf("row %s is returned twice\npush order %v, limit %d\nrows: %+v", tags, order, limit, rows)
				}
				if _, ok := om.keys[tags]; !ok {
					t.Fatalf("row %s was never pushed", tags)
				}
				got[tags] = true
			}
			if len(got) != want {
				t.Fatalf("%d rows pushed, limit %d: %d rows returned\npush order %v\nrows: %+v", nRows, limit, len(got), order, rows)
			}
			if msg := om.check(v, got, limit); msg != "" {
				t.Fatalf("the rows the top-N container keeps are not the first %d under the order by items (push order %v)\nreturned: %v\n%srows: %+v",
					limit, order, sortedKeys(got), msg, rows)
			}
			sets[strings.Join(sortedKeys(got), "|")] = true
		}
		if v.determined && len(sets) != 1 {
			t.Fatalf("harness: determined answer, %d different sets", len(sets))
		}
		classes := []string{fmt.Sprintf("orderby:items=%d", nItems), "rows=" + bucket(nRows, 2, 4, 6, 8), fmt.Sprintf("push-orders=%s", bucket(len(orders), 2, 6, 8, 24))}
		for _, fn := range fns {
			classes = append(classes, "orderby:fn="+fn)
		}
		switch {
		case limit < nRows:
			classes = append(classes, "limit<rows")
			classes = append(classes, v.classes(om, limit)...)
			if len(sets) > 1 {
				classes = append(classes, "info:rows-equal-on-all-items-replaced-each-other")
			}
		case limit == nRows:
			classes = append(classes, "limit=rows")
		default:
			classes = append(classes, "limit>rows")
		}
		ev.Case(group, fmt.Sprintf("%v|%+v|%d", om.texts, rows, limit), limit < nRows && len(orders) >= 2, classes,
			map[string]any{"orderBy": om.texts, "rows": rows, "limit": limit, "pushOrders": len(orders)})
	})
}

// TestRegression_OrderModelExamples: the order by model on hand-written examples.
func TestRegression_OrderModelExamples(t *testing.T) {
	k := func(vs ...float64) []keyVal {
		out := make([]keyVal, len(vs))
		for i, v := range vs {
			out[i] = keyVal{v: v, known: true}
		}
		return out
	}
	for fn, want := range map[string]float64{"sum": 6, "min": 1, "max": 3, "count": 3, "avg": 2, "first": 2, "last": 1} {
		if got := keyOf([]float64{2, 3, 1}, fn); !got.known || got.v != want || got.approx {
			t.Fatalf("%s(2,3,1) = %+v, want %v", fn, got, want)
		}
	}
	if got := keyOf([]float64{2, 4, 4, 4, 5, 5, 7, 9}, "stddev"); !got.approx || math.Abs(got.v-2) > 1e-12 {
		t.Fatalf("stddev = %+v, want 2", got)
	}
	if keyOf(nil, "sum").known {
		t.Fatal("no points: the key must be open")
	}
	// errors desc, latency asc; limit 2
	om := &orderModel{desc: []bool{true, false}, texts: []string{"e desc", "l"}, keys: map[string][]keyVal{
		"a": k(3, 9), "b": k(2, 1), "c": k(2, 5), "d": k(2, 5), "e": k(1, 0)}}
	v := om.verdict(0, 2)
	if !v.in["a"] || !v.in["b"] || !v.out["c"] || !v.out["d"] || !v.out["e"] || !v.determined || !v.laterDecides {
		t.Fatalf("limit 2: %+v", v)
	}
	v = om.verdict(0, 3) // c and d tie on all items: one of them, not determined
	if !v.in["a"] || !v.in["b"] || v.in["c"] || v.out["c"] || v.in["d"] || v.out["d"] || !v.out["e"] || v.determined {
		t.Fatalf("limit 3: %+v", v)
	}
	if msg := om.check(v, map[string]bool{"a": true, "b": true, "d": true}, 3); msg != "" {
		t.Fatal(msg)
	}
	if msg := om.check(v, map[string]bool{"a": true, "c": true, "d": true}, 3); !strings.Contains(msg, "[b] is not returned") {
		t.Fatal("missing b not reported: " + msg)
	}
	if msg := om.check(v, map[string]bool{"a": true, "b": true, "e": true}, 3); !strings.Contains(msg, "[e] is returned") {
		t.Fatal("e not reported: " + msg)
	}
	// a series without values may take a place: with limit 2 only a is certain
	v = om.verdict(1, 2)
	if !v.in["a"] || v.in["b"] || v.out["b"] || !v.out["c"] {
		t.Fatalf("limit 2 with a series without values: %+v", v)
	}
	// an open key: nothing about that group, and it may precede the others
	om.keys["f"] = []keyVal{{v: 2, known: true}, {}}
	v = om.verdict(0, 2)
	if !v.in["a"] || v.in["b"] || v.out["b"] || v.in["f"] || v.out["f"] || !v.out["e"] {
		t.Fatalf("open key: %+v", v)
	}
}

// ---- plain reproductions ------------------------------------------------------------------------------

// orderData: metric cpu, one series per host, field s1 (sum); vals[i] = the points of host h<i>, one every second slot.
func orderData(vals ...[]float64) *dataset {
	d := &dataset{Metrics: []metricDef{{Name: "cpu", TagKeys: []string{"host"}, Fields: []fieldDef{{"s1", tSum}}}}}
	n := 0
	for _, v := range vals {
		if len(v) > n {
			n = len(v)
		}
	}
	d.Batches = make([][]point, n)
	for i, v := range vals {
		d.Series = append(d.Series, seriesDef{Metric: 0, Tags: map[string]string{"host": fmt.Sprintf("h%d", i)}, Fields: []int{0}})
		for k, x := range v {
			d.Batches[k] = append(d.Batches[k], point{Series: i, Slot: 2 * k, Vals: map[int]float64{0: x}})
		}
	}
	return d
}

// Found by TestTopNPushOrder, repaired in /repo by 7ebde5f (proposed_fix_order_by_stddev_accumulator.diff); this plain
// test fails if it returns. OrderByRow.aggregate started the sum of squared deviations at the first value
// (`value = val`) instead of 0, so stddev of a series was sqrt((first + sum of squared deviations) / n): 1 instead of
// 0 for the single point 1, NaN for the single point -1. topNHeap.Less treats a NaN difference as "equal" (neither
// > 0 nor < 0), which is no strict weak order: which rows the heap keeps then depended on the order the groups are
// pushed - the iteration order of the root's group map, filled in the arrival order of the leaf responses.
func TestRegression_OrderByStddevAccumulator(t *testing.T) {
	vals := [][]float64{{-1}, {0, 2}, {0, 4}} // standard deviations 0, 1, 2
	rows := make([]heapRow, len(vals))
	for i, v := range vals {
		rows[i] = heapRow{Tags: fmt.Sprintf("h%d", i), Fields: map[string][]float64{"s1": v}, Slots: map[string][]int{"s1": []int{0, 1}[:len(v)]}}
	}
	one := rows[0].production().GetValue("s1", function.Stddev)
	items := []*aggregation.OrderByItem{{Name: "s1", FuncType: function.Stddev}}
	kept := map[string]bool{}
	for _, order := range perms(3) {
		ob := aggregation.NewTopNOrderBy(items, 1)
		for _, i := range order {
			ob.Push(rows[i].production())
		}
		for _, r := range ob.ResultSet() {
			tags, _ := r.ResultSet()
			kept[tags] = true
		}
	}
	// the same through a query: 1 shard, 1 node
	e, ls := fixture(t, orderData(vals...), []string{"root"})
	sql := "select s1 from cpu where " + fullRange() + " group by host order by stddev(s1) limit 1"
	answers := map[string]bool{}
	for i := 0; i < 40; i++ {
		rs, err := e.xc.Query("root:1", ls[0].db, sql)
		if err != nil {
			t.Fatalf("%s: %v", sql, err)
		}
		answers[strings.Join(sortedKeys(rawKeys(rs)), "|")] = true
	}
	if one != 0 || len(kept) != 1 || !kept["h0"] || len(answers) != 1 || !answers["host=h0"] {
		t.Fatalf(sigStddev+": stddev of the single point -1 is %v (0 expected) | rows with the points %v, order by stddev(s1) limit 1 (h0 expected): the 6 push orders keep %v | 40 executions of %q on 1 shard / 1 node return %v",
			one, vals, sortedKeys(kept), sql, sortedKeys(answers))
	}
}

// Observation (not asserted; the generated check asserts nothing about the order for this form): an order by
// item fn(f) reads the values stored under the name of the function's PARAMETER (buildOrderBy: fieldName =
// Params[0].Rewrite()), but the values of the select item fn(f) are stored under "fn(f)" (alias, else expression).
// `select sum(s1) ... order by sum(s1) desc limit 1` therefore compares 0 with 0 for all groups and returns
// whichever group the heap saw first; `select s1 ... order by sum(s1)`, `select sum(s1) as a ... order by sum(a)`
// and `select sum(s1) ... order by sum(sum(s1))` do order. Happens on 1 shard / 1 node like on any layout.
func TestRegression_OrderByFunctionOfSelectedFunctionOrdersNothing(t *testing.T) {
	e, ls := fixture(t, orderData([]float64{1}, []float64{5}, []float64{2}, []float64{3}, []float64{4}), []string{"root"})
	count := func(sql string) map[string]bool {
		answers := map[string]bool{}
		for i := 0; i < 40; i++ {
			rs, err := e.xc.Query("root:1", ls[0].db, sql)
			if err != nil {
				t.Fatalf("%s: %v", sql, err)
			}
			answers[strings.Join(sortedKeys(rawKeys(rs)), "|")] = true
		}
		return answers
	}
	for _, sql := range []string{
		"select s1 from cpu where " + fullRange() + " group by host order by sum(s1) desc limit 1",
		"select sum(s1) as a from cpu where " + fullRange() + " group by host order by sum(a) desc limit 1",
		"select sum(s1) from cpu where " + fullRange() + " group by host order by sum(sum(s1)) desc limit 1",
	} {
		if got := count(sql); len(got) != 1 || !got["host=h1"] {
			t.Fatalf("%s: host=h1 (sum 5) expected, 40 executions returned %v", sql, sortedKeys(got))
		}
	}
	sql := "select sum(s1) from cpu where " + fullRange() + " group by host order by sum(s1) desc limit 1"
	if got := count(sql); len(got) != 1 || !got["host=h1"] {
		t.Logf("observation (no layout dependence: 1 shard, 1 node): %s: host=h1 (sum 5) expected, 40 executions returned %v", sql, sortedKeys(got))
	}
}
