package c12

import (
	"testing"

	protoMetricsV1 "github.com/lindb/common/proto/gen/v1/linmetrics"
	"pgregory.net/rapid"

	"github.com/lindb/lindb/pkg/timeutil"
)

// ---- fields a storage node never saw, under group by -------------------------------------------------------
//
// A field of a metric exists on a storage node once a row carrying it was written there. A `select *` query is
// planned per node, so nodes that hold series of the same groups may answer with different field lists. The
// root (and an intermediate node) creates the groups of the first answer with the aggregators of ITS fields;
// when a later answer brings a field the merge did not know yet, every group that exists already has to get its
// own aggregator for it (aggregation/group_agg.go AddAggregatorSpecs) - which only shows when
//   - the statement takes its field list from the nodes (`select *`; an explicit list naming a field some node
//     lacks is the known finding C12/leaf-missing-selected-field-drops-leaf-answer and is not generated),
//   - it groups by tags and >= 2 groups have series on the node WITHOUT the field and on a node WITH it,
//   - the answer of the node without the field is merged first (every delivery order is run).

// lateFieldGroups: over the nodes A of the layout and the fields f no series of the queried metric on A ever
// reported: the largest number of groups that A answers with values AND that get values of f from other nodes.
func (l *layoutSpec) lateFieldGroups(d *dataset, q *querySpec) int {
	if !q.All || len(q.GroupBy) == 0 || q.Metric < 0 || len(l.Nodes) < 2 {
		return 0
	}
	md := d.Metrics[q.Metric]
	known := make([]map[int]bool, len(l.Nodes))
	for i := range known {
		known[i] = map[int]bool{}
	}
	for _, b := range d.Batches {
		for _, p := range b {
			if d.Series[p.Series].Metric == q.Metric {
				for fi := range p.Vals {
					known[l.nodeOf[p.Series]][fi] = true
				}
			}
		}
	}
	best := 0
	for a := range l.Nodes {
		here := evalModelOn(d, q, func(s int) bool { return l.nodeOf[s] == a }).groupKeys()
		if len(here) < 2 {
			continue
		}
		elsewhere := evalModelOn(d, q, func(s int) bool { return l.nodeOf[s] != a })
		for fi, f := range md.Fields {
			if known[a][fi] {
				continue
			}
			fed := map[string]bool{}
			for c := range elsewhere.present {
				if c.field == f.Name {
					fed[c.key] = true
				}
			}
			n := 0
			for _, g := range here {
				if fed[g] {
					n++
				}
			}
			if n > best {
				best = n
			}
		}
	}
	return best
}

// routeSeries fills shardOf / nodeOf with the production routing (as env.build does).
func routeSeries(t fataler, d *dataset, l *layoutSpec) {
	l.shardOf = make([]int, len(d.Series))
	l.nodeOf = make([]int, len(d.Series))
	for si, sd := range d.Series {
		rt, err := routeBatch([]*protoMetricsV1.Metric{pm(d.Metrics[sd.Metric].Name, baseTime, sd.Tags, sf("x", protoMetricsV1.SimpleFieldType_DELTA_SUM, 1))}, l.Shards, timeutil.Interval(storageIntervalMs))
		if err != nil || len(rt) != 1 {
			t.Fatalf("harness: routing a single row: %v (%d blocks)", err, len(rt))
		}
		l.shardOf[si] = int(rt[0].shard)
		for ni, shards := range l.Nodes {
			for _, s := range shards {
				if s == l.shardOf[si] {
					l.nodeOf[si] = ni
				}
			}
		}
	}
}

// skewFieldsByNode rewrites which series of the first metric report which fields so that, under layout l, one
// node (one that holds >= 2 series of the metric, if there is one) never sees 1..n-1 of the metric's n fields,
// while most series on the other nodes do report them. Any assignment of fields to series is a legal data set;
// this one is merely correlated with the placement the production routing gives the series under l.
func skewFieldsByNode(t *rapid.T, d *dataset, l *layoutSpec) bool {
	md := d.Metrics[0]
	if len(l.Nodes) < 2 || len(md.Fields) < 2 {
		return false
	}
	routeSeries(t, d, l)
	perNode := make([]int, len(l.Nodes))
	for si, sd := range d.Series {
		if sd.Metric == 0 {
			perNode[l.nodeOf[si]]++
		}
	}
	var cands []int
	for _, min := range []int{2, 1} {
		for ni, n := range perNode {
			if n >= min {
				cands = append(cands, ni)
			}
		}
		if len(cands) > 0 {
			break
		}
	}
	if len(cands) == 0 {
		return false
	}
	a := rapid.SampledFrom(cands).Draw(t, "nodeWithoutFields")
	idx := make([]int, len(md.Fields))
	for i := range idx {
		idx[i] = i
	}
	idx = rapid.Permutation(idx).Draw(t, "fieldsTheNodeLacks")
	nDrop := rapid.IntRange(1, len(idx)-1).Draw(t, "nFieldsTheNodeLacks")
	drop := map[int]bool{}
	for _, fi := range idx[:nDrop] {
		drop[fi] = true
	}
	kept := idx[nDrop]
	value := func() float64 { return float64(rapid.IntRange(-400, 400).Draw(t, "v")) / 8 }
	for si := range d.Series {
		sd := &d.Series[si]
		if sd.Metric != 0 {
			continue
		}
		has := map[int]bool{}
		for _, fi := range sd.Fields {
			has[fi] = true
		}
		if l.nodeOf[si] == a {
			for fi := range drop {
				delete(has, fi)
			}
			if len(has) == 0 {
				has[kept] = true
			}
		} else if rapid.IntRange(0, 3).Draw(t, "reportsTheFields") > 0 {
			for fi := range drop {
				has[fi] = true
			}
		}
		sd.Fields = sd.Fields[:0]
		for fi := range md.Fields {
			if has[fi] {
				sd.Fields = append(sd.Fields, fi)
			}
		}
		for _, b := range d.Batches {
			for _, p := range b {
				if p.Series != si {
					continue
				}
				for fi := range md.Fields {
					if _, ok := p.Vals[fi]; ok && !has[fi] {
						delete(p.Vals, fi)
					} else if !ok && has[fi] {
						p.Vals[fi] = value()
					}
				}
			}
		}
	}
	return true
}

// TestGroupByFieldsANodeNeverSaw: the property over data sets in which a storage node never saw some fields of a
// metric whose groups it shares with other nodes, and statements that take their field list from the nodes.
func TestGroupByFieldsANodeNeverSaw(t *testing.T) {
	b := caseBudget{layouts: 3, queries: 3, midSample: 5, scheds: 1, skewFields: true}
	rapid.Check(t, func(t *rapid.T) { runCase(t, "TestGroupByFieldsANodeNeverSaw", b) })
}
