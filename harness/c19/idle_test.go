package c19

// Long-lived pool class: many pipelines on ONE real concurrent.Pool, separated by idle periods in
// which the pool's dispatcher reaps ready workers (workerPool.idle: one ready worker is stopped after
// every idle time-out without a task). Production pools live as long as the process (ExecutorPool of a
// database, the task pool of the handler; idle time-out 5 s+), so every query after a quiet period runs
// on a pool whose workers have been reaped and must be created again.
//
// The harness owns the idle period: the pool is constructed with an idle time-out of one millisecond
// and an idle step waits on the pool's own statistics (WorkersAlive gauge) until the requested number
// of workers has been reaped (one | all) - a fact, not a slept time. A round is one pipeline (sync root,
// 1-4 pooled stages below it, optionally a pooled grandchild below each) run through the production
// pipeline + baseStage + pool; in a "gang" round the pooled children wait for each other inside their
// operator until min(children, maxWorkers) of them are executing at the same time (Pool.Submit
// documents that the dispatcher starts new workers until maxWorkers are running), which makes the
// pool grow to its width again after it was reaped.
//
// Oracle per round: the completion callback fires exactly once (observed when it fires; counted again
// after the pool was stopped at the end of the case), err != nil iff a stage of the round fails, every
// stage whose ancestors succeeded ran exactly once, no other stage ran. A liveness guard (heartbeats of
// the test process, see waitBounded) only turns "never" into a verdict.

import (
	"context"
	"errors"
	"fmt"
	"strings"
	"sync"
	"sync/atomic"
	"testing"
	"time"

	"pgregory.net/rapid"

	"github.com/lindb/lindb/flow"
	"github.com/lindb/lindb/internal/concurrent"
	"github.com/lindb/lindb/internal/linmetric"
	"github.com/lindb/lindb/metrics"
	"github.com/lindb/lindb/query"
	"github.com/lindb/lindb/query/stage"
	trackerpkg "github.com/lindb/lindb/query/tracker"
	"github.com/lindb/lindb/verifharness/sim/ev"
)

type idleRound struct {
	Children   int    // pooled stages below the sync root
	Grand      bool   // a pooled stage below every child
	Gang       bool   // the children rendezvous inside their operators
	FailAt     int    // -1: nothing fails; k: child k fails (its grandchild must not run)
	IdleBefore string // none | one | all: workers reaped before the round starts
}

type idleSpec struct {
	MaxWorkers int
	Rounds     []idleRound
}

func (s *idleSpec) canon() string {
	var b strings.Builder
	fmt.Fprintf(&b, "w=%d", s.MaxWorkers)
	for _, r := range s.Rounds {
		fmt.Fprintf(&b, " [%s c%d g%v gang%v f%d]", r.IdleBefore, r.Children, r.Grand, r.Gang, r.FailAt)
	}
	return b.String()
}

var (
	idleStatsMu  sync.Mutex
	idleStats    *metrics.ConcurrentStatistics
	idleStatsGen int
)

func idlePoolStats() *metrics.ConcurrentStatistics {
	idleStatsMu.Lock()
	defer idleStatsMu.Unlock()
	if idleStats == nil {
		idleStatsGen++
		idleStats = metrics.NewConcurrentStatistics(fmt.Sprintf("c19-idle-%d", idleStatsGen), linmetric.StorageRegistry)
	}
	return idleStats
}

func abandonIdleStats() {
	idleStatsMu.Lock()
	idleStats = nil
	idleStatsMu.Unlock()
}

// idleLivenessTicks: heartbeats (10 ms sleeps of a goroutine of this process) after which an awaited
// event counts as "never" (>= 8 s on an idle box, longer on a starved one).
const idleLivenessTicks = 800

func waitTicks(done <-chan struct{}, ticks int64) bool {
	startLeafHeartbeat()
	from := leafHeartbeat.Load()
	for {
		select {
		case <-done:
			return true
		case <-time.After(20 * time.Millisecond):
		}
		if leafHeartbeat.Load()-from >= ticks {
			select {
			case <-done:
				return true
			default:
				return false
			}
		}
	}
}

// pollTicks waits until pred holds (a fact read from the pool's statistics).
func pollTicks(pred func() bool, ticks int64) bool {
	startLeafHeartbeat()
	from := leafHeartbeat.Load()
	for !pred() {
		if leafHeartbeat.Load()-from >= ticks {
			return pred()
		}
		time.Sleep(200 * time.Microsecond)
	}
	return true
}

type idleOp struct {
	name string
	fn   func() error
}

func (o *idleOp) Identifier() string { return o.name }
func (o *idleOp) Execute() error     { return o.fn() }

var errIdleStage = errors.New("c19: stage of the round fails")

type idleRoundResult struct {
	cb      int32
	cbErr   error
	ran     []int32 // root, children, grandchildren
	timeout string
}

type idleResult struct {
	rounds       []*idleRoundResult
	reaped       []int // workers reaped in the idle period before the round
	aliveAtStart []int
	created      int
	killedTotal  int
	fail         string
}

// runIdleCase runs the rounds of the case on one pool.
func runIdleCase(spec *idleSpec) *idleResult {
	stats := idlePoolStats()
	res := &idleResult{}
	if alive := stats.WorkersAlive.Get(); alive != 0 {
		abandonIdleStats()
		res.fail = fmt.Sprintf("harness: %v workers of a previous case are still alive", alive)
		return res
	}
	pool := concurrent.NewPool("c19-idle", spec.MaxWorkers, time.Millisecond, stats)
	ctx := context.Background()
	var cbs []*atomic.Int32

	for ri := range spec.Rounds {
		rd := spec.Rounds[ri]
		// ---- the idle period: wait for the fact that the dispatcher reaped workers
		before := int(stats.WorkersAlive.Get())
		target := before
		switch rd.IdleBefore {
		case "one":
			if before > 0 {
				target = before - 1
			}
		case "all":
			target = 0
		}
		if !pollTicks(func() bool { return int(stats.WorkersAlive.Get()) <= target }, idleLivenessTicks) {
			res.fail = fmt.Sprintf("round %d: the idle pool (idle time-out 1ms) never reaped its ready workers: %v alive, waited for <= %d",
				ri, stats.WorkersAlive.Get(), target)
			break
		}
		now := int(stats.WorkersAlive.Get())
		res.reaped = append(res.reaped, before-now)
		res.aliveAtStart = append(res.aliveAtStart, now)

		// ---- the round: one pipeline
		rr := &idleRoundResult{ran: make([]int32, 1+2*rd.Children)}
		res.rounds = append(res.rounds, rr)
		cbCount := new(atomic.Int32)
		cbs = append(cbs, cbCount)
		cbDone := make(chan struct{})
		var cbMu sync.Mutex
		gangN := rd.Children
		if gangN > spec.MaxWorkers {
			gangN = spec.MaxWorkers
		}
		var gangMu sync.Mutex
		gangArrived := 0
		gangOpen := make(chan struct{})

		mk := func(idx int, name string, pooled bool, fn func() error, next func() []stage.Stage) *stage.VerifStage {
			var st *stage.VerifStage
			if pooled {
				st = stage.NewVerifStage(ctx, pool, name)
			} else {
				st = stage.NewVerifStage(nil, nil, name)
			}
			st.PlanFn = func() stage.PlanNode {
				return stage.NewPlanNode(&idleOp{name: name, fn: func() error {
					atomic.AddInt32(&rr.ran[idx], 1)
					if fn != nil {
						return fn()
					}
					return nil
				}})
			}
			st.NextFn = next
			return st
		}
		children := func() []stage.Stage {
			var out []stage.Stage
			for k := 0; k < rd.Children; k++ {
				k := k
				var next func() []stage.Stage
				if rd.Grand {
					next = func() []stage.Stage {
						return []stage.Stage{mk(1+rd.Children+k, fmt.Sprintf("r%d-g%d", ri, k), true, nil, nil)}
					}
				}
				out = append(out, mk(1+k, fmt.Sprintf("r%d-c%d", ri, k), true, func() error {
					if rd.Gang && k < gangN {
						gangMu.Lock()
						gangArrived++
						if gangArrived == gangN {
							close(gangOpen)
						}
						gangMu.Unlock()
						// never reached on a pool that runs maxWorkers tasks at a time; bounded so that a
						// narrower pool shows as a failed round, not as a stuck process
						if !waitTicks(gangOpen, idleLivenessTicks) {
							cbMu.Lock()
							if rr.timeout == "" {
								rr.timeout = fmt.Sprintf("only %d of %d pooled stages of the round ever executed at the same time on a pool of %d workers", gangArrived, gangN, spec.MaxWorkers)
							}
							cbMu.Unlock()
						}
					}
					if rd.FailAt == k {
						return errIdleStage
					}
					return nil
				}, next))
			}
			return out
		}
		root := mk(0, fmt.Sprintf("r%d-root", ri), false, nil, children)
		tracker := trackerpkg.NewStageTracker(&flow.TaskContext{Ctx: ctx, Cancel: func() {}, Start: time.Now()})
		pipeline := query.NewExecutePipeline(tracker, func(err error) {
			if cbCount.Add(1) == 1 {
				cbMu.Lock()
				rr.cbErr = err
				cbMu.Unlock()
				close(cbDone)
			}
		})
		execDone := make(chan struct{})
		go func() {
			defer close(execDone)
			pipeline.Execute(root)
		}()
		if !waitTicks(cbDone, 2*idleLivenessTicks) {
			cbMu.Lock()
			rr.timeout = fmt.Sprintf("the pipeline never signalled its completion (stages run: %v; workers alive %v, created %v, killed %v)%s",
				rr.ran, stats.WorkersAlive.Get(), stats.WorkersCreated.Get(), stats.WorkersKilled.Get(), prefixed("; ", rr.timeout))
			cbMu.Unlock()
			res.fail = fmt.Sprintf("round %d: %s", ri, rr.timeout)
			break
		}
		if !waitTicks(execDone, idleLivenessTicks) {
			res.fail = fmt.Sprintf("round %d: Pipeline.Execute never returned", ri)
			break
		}
	}
	// quiesce: Stop joins the workers; afterwards the callback counters are final
	if res.fail != "" {
		abandonIdleStats()
		go pool.Stop()
	} else {
		res.created = int(stats.WorkersCreated.Get())
		res.killedTotal = int(stats.WorkersKilled.Get())
		if !stopBounded(pool) {
			abandonIdleStats()
			res.fail = "the pool does not stop"
		}
	}
	for i, rr := range res.rounds {
		rr.cb = cbs[i].Load()
	}
	return res
}

func prefixed(p, s string) string {
	if s == "" {
		return ""
	}
	return p + s
}

func checkIdle(spec *idleSpec, res *idleResult) []string {
	var bad []string
	if res.fail != "" {
		bad = append(bad, res.fail)
	}
	for ri, rr := range res.rounds {
		rd := spec.Rounds[ri]
		if rr.timeout != "" && res.fail == "" {
			bad = append(bad, fmt.Sprintf("round %d: %s", ri, rr.timeout))
		}
		if rr.cb != 1 && !(rr.cb == 0 && res.fail != "") {
			bad = append(bad, fmt.Sprintf("round %d: completion callback fired %d times, want exactly once", ri, rr.cb))
		}
		if rr.cb == 0 {
			continue
		}
		if (rr.cbErr != nil) != (rd.FailAt >= 0) {
			bad = append(bad, fmt.Sprintf("round %d: callback error %v, failing stage of the round: %d", ri, rr.cbErr, rd.FailAt))
		}
		for idx, n := range rr.ran {
			want := int32(1)
			if idx > rd.Children { // grandchild
				k := idx - 1 - rd.Children
				if !rd.Grand || rd.FailAt == k {
					want = 0
				}
			}
			if n != want {
				bad = append(bad, fmt.Sprintf("round %d: stage %d ran %d times, want %d", ri, idx, n, want))
			}
		}
	}
	return bad
}

func genIdleSpec(t *rapid.T) *idleSpec {
	s := &idleSpec{MaxWorkers: rapid.SampledFrom([]int{1, 1, 2, 2, 3, 4}).Draw(t, "max_workers")}
	n := rapid.IntRange(2, 8).Draw(t, "rounds")
	for i := 0; i < n; i++ {
		r := idleRound{
			Children:   rapid.IntRange(1, 4).Draw(t, "children"),
			Grand:      rapid.Bool().Draw(t, "grand"),
			Gang:       pick(t, "gang", false, true, true),
			FailAt:     -1,
			IdleBefore: pick(t, "idle", "none", "one", "one", "all", "all"),
		}
		if pick(t, "fails", false, false, false, true) {
			r.FailAt = rapid.IntRange(0, r.Children-1).Draw(t, "fail_at")
		}
		s.Rounds = append(s.Rounds, r)
	}
	return s
}

func classifyIdle(spec *idleSpec, res *idleResult) (bool, []string) {
	cl := []string{fmt.Sprintf("idle:max_workers:%d", spec.MaxWorkers), fmt.Sprintf("idle:rounds:%d", len(spec.Rounds))}
	total := 0
	afterFull := false
	for i, n := range res.reaped {
		total += n
		cl = append(cl, "idle:period:"+spec.Rounds[i].IdleBefore, fmt.Sprintf("idle:reaped_before_round:%d", n))
		if i < len(res.aliveAtStart) && res.aliveAtStart[i] == 0 && i > 0 {
			cl = append(cl, "idle:round_starts_on_a_pool_without_workers")
		}
		if total >= spec.MaxWorkers {
			afterFull = true
		}
	}
	q := total / spec.MaxWorkers
	if q > 3 {
		q = 3
	}
	cl = append(cl, fmt.Sprintf("idle:reaped_total_over_max_workers:%d", q))
	for _, rd := range spec.Rounds {
		if rd.Gang && rd.Children >= 2 && spec.MaxWorkers >= 2 {
			cl = append(cl, "idle:gang_round")
		}
		if rd.FailAt >= 0 {
			cl = append(cl, "idle:failing_round")
		}
	}
	if res.created > spec.MaxWorkers {
		cl = append(cl, "idle:workers_created_again_after_reap")
	}
	// non-trivial: a round ran after at least maxWorkers workers had been reaped in total
	return afterFull, cl
}

func runAndCheckIdle(t interface {
	Fatalf(format string, args ...any)
}, group string, spec *idleSpec) {
	res := runIdleCase(spec)
	bad := checkIdle(spec, res)
	nt, classes := classifyIdle(spec, res)
	ev.Case(group, spec.canon(), nt, classes, map[string]any{"spec": spec.canon(), "reaped": res.reaped, "created": res.created})
	if len(bad) > 0 {
		t.Fatalf("C19 long-lived pool violation (%s):\n  %s", spec.canon(), strings.Join(bad, "\n  "))
	}
}

// TestPipelineLongLivedPool: rounds of pipelines on one pool, separated by idle periods in which the
// dispatcher reaps workers.
func TestPipelineLongLivedPool(t *testing.T) {
	rapid.Check(t, func(rt *rapid.T) {
		runAndCheckIdle(rt, "TestPipelineLongLivedPool", genIdleSpec(rt))
	})
}
