package c19

import (
	"fmt"
	"testing"

	"github.com/lindb/lindb/models"
	"github.com/lindb/lindb/verifharness/sim/ev"
)

// TestLeafFixedShapes runs one fixed request per failure class of the leaf check (every legal-input
// failure, every fault point as error and as panic, failing shard first / in the middle / last on
// serial pools) and requires, besides the oracle of TestLeafResponses, that the planned failure
// point was really reached. It keeps the generated classes from silently becoming vacuous when the
// leaf pipeline changes, and is the plain (rapid-free) form of the class.
func TestLeafFixedShapes(t *testing.T) {
	fx := startLeafFixture(t)
	defer fx.close()
	refs := &leafRefs{m: map[string]string{}}
	all := []models.ShardID{0, 1, 2}
	data := func(mod func(r *leafReq)) *leafReq {
		r := &leafReq{Metric: "cpu", Select: []string{"f"}, Range: "both", Shards: all, Receivers: 1}
		mod(r)
		return r
	}
	meta := func(kind string, mod func(r *leafReq)) *leafReq {
		r := &leafReq{Meta: true, MetaKind: kind, Metric: "cpu", MetaKey: "host", Shards: all, Receivers: 1}
		mod(r)
		return r
	}
	hostA := whereSpec{Preds: []pred{{Key: "host", Val: "a"}}}
	type shape struct {
		name    string
		req     *leafReq
		outcome string // ok | error
		fired   bool
	}
	shapes := []shape{
		{"plain", data(func(r *leafReq) {}), "ok", false},
		{"group by, two receivers", data(func(r *leafReq) { r.GroupBy = []string{"host", "dc"}; r.Receivers = 2; r.Select = []string{"f", "g"} }), "ok", false},
		{"where + explain", data(func(r *leafReq) { r.Where = hostA; r.Explain = true }), "ok", false},
		{"no family in range", data(func(r *leafReq) { r.Range = "none" }), "ok", false},
		{"shard the node does not have", data(func(r *leafReq) { r.Shards = []models.ShardID{unknownShard, 1} }), "ok", false},
		{"metric only on one shard", data(func(r *leafReq) { r.Metric = "solo"; r.GroupBy = []string{"host"} }), "ok", false},
		{"unknown metric", data(func(r *leafReq) { r.Metric = "nometric" }), "error", false},
		{"unknown field", data(func(r *leafReq) { r.Select = []string{"f", "nofield"} }), "error", false},
		{"unknown group by key", data(func(r *leafReq) { r.GroupBy = []string{"nokey"} }), "error", false},
		{"only unknown where keys", data(func(r *leafReq) { r.Where = whereSpec{Preds: []pred{{Key: "nokey", Val: "1"}}} }), "error", false},
		{"undecodable plan", data(func(r *leafReq) { r.Pre = "bad-plan" }), "error", false},
		{"plan without this node", data(func(r *leafReq) { r.Pre = "not-a-leaf"; r.Receivers = 2 }), "error", false},
		{"unknown database", data(func(r *leafReq) { r.Pre = "no-database" }), "error", false},
		{"undecodable query", data(func(r *leafReq) { r.Pre = "bad-payload" }), "error", false},
		{"undecodable suggest", meta("metrics", func(r *leafReq) { r.Pre = "bad-payload" }), "error", false},
		{"suggest namespaces", meta("namespaces", func(r *leafReq) {}), "ok", false},
		{"suggest fields of an unknown metric", meta("fields", func(r *leafReq) { r.Metric = "nometric" }), "ok", false},
		{"suggest tag values with where", meta("tagvalues", func(r *leafReq) { r.Where = whereSpec{Preds: []pred{{Key: "dc", Val: "y"}}}; r.Shards = []models.ShardID{1} }), "ok", false},
	}
	addFault := func(name string, base *leafReq, point string, panics []bool, shard models.ShardID, nth int) {
		for _, p := range panics {
			r := *base
			r.Fault = faultSpec{Point: point, Panic: p, Shard: shard, Nth: nth}
			shapes = append(shapes, shape{fmt.Sprintf("%s: %s panic=%v shard=%d nth=%d", name, point, p, shard, nth), &r, "error", true})
		}
	}
	both, onlyPanic := []bool{false, true}, []bool{true}
	plain := data(func(r *leafReq) {})
	grouped := data(func(r *leafReq) { r.GroupBy = []string{"host"}; r.Receivers = 2 })
	filtered := data(func(r *leafReq) { r.Where = hostA; r.Shards = []models.ShardID{2, 0, 1} })
	addFault("data", plain, fpGetDatabase, onlyPanic, 0, 0)
	addFault("data", plain, fpGetMetricID, both, 0, 0)
	addFault("data", plain, fpGetSchema, both, 0, 0)
	addFault("data", filtered, fpFindTagValues, both, 0, 0)
	for _, sh := range all { // failing shard first / middle / last in plan order
		addFault("data", plain, fpFamilies, onlyPanic, sh, 0)
		addFault("data", plain, fpSeries, both, sh, 0)
		addFault("data", grouped, fpLoaderLoad, onlyPanic, sh, 1)
	}
	addFault("data", filtered, fpSeries, both, 2, 0)
	addFault("data", plain, fpFilter, both, 1, 0)
	addFault("data", plain, fpFilter, both, 0, 1)
	addFault("data", grouped, fpGroupingCtx, both, 1, 0)
	addFault("data", grouped, fpBuildGroup, onlyPanic, 0, 0)
	addFault("data", plain, fpRSLoad, onlyPanic, 1, 0)
	addFault("data", plain, fpRSLoad, onlyPanic, 2, 3)
	addFault("data", plain, fpLoaderLoad, onlyPanic, 0, 0)
	if leafExcluded(sigCollectErrorAnswersEarly) {
		addFault("data", grouped, fpCollectValues, onlyPanic, 0, 0) // the error form is TestRegression_LeafCollectErrorAnswersBeforeStagesFinished
	} else {
		addFault("data", grouped, fpCollectValues, both, 0, 0)
	}
	addFault("suggest", meta("metrics", func(r *leafReq) {}), fpSuggest, both, 0, 0)
	addFault("suggest", meta("namespaces", func(r *leafReq) {}), fpGetDatabase, onlyPanic, 0, 0)
	addFault("suggest", meta("fields", func(r *leafReq) {}), fpGetMetricID, both, 0, 0)
	addFault("suggest", meta("tagkeys", func(r *leafReq) {}), fpGetSchema, both, 0, 0)
	addFault("suggest", meta("tagvalues", func(r *leafReq) {}), fpSuggest, both, 0, 0)
	addFault("suggest", meta("tagvalues", func(r *leafReq) { r.Where = hostA }), fpFindTagValues, both, 0, 0)
	addFault("suggest", meta("tagvalues", func(r *leafReq) { r.Where = hostA }), fpSeries, both, 2, 0)

	for _, width := range []int{1, 8} {
		for _, s := range shapes {
			c := &leafCase{Reqs: []*leafReq{s.req}, Width: width, TaskWorkers: 1}
			res, err := runLeafCase(fx, c)
			if err != nil {
				t.Fatalf("%s (pool width %d): %v", s.name, width, err)
			}
			bad, outcomes := checkLeaf(fx, refs, c, res, res.ids)
			if len(bad) > 0 {
				t.Fatalf("%s (pool width %d): %v", s.name, width, bad)
			}
			if outcomes[0] != s.outcome {
				t.Fatalf("%s (pool width %d): answered %s, the shape expects %s", s.name, width, outcomes[0], s.outcome)
			}
			if (res.fired[0] > 0) != s.fired {
				t.Fatalf("%s (pool width %d): fault point reached = %v, the shape expects %v (the class is vacuous)", s.name, width, res.fired[0] > 0, s.fired)
			}
		}
	}
	// all shapes as concurrent requests of one stream, in batches
	for _, width := range []int{1, 8} {
		for at := 0; at < len(shapes); at += 6 {
			c := &leafCase{Width: width, TaskWorkers: 4}
			for _, s := range shapes[at:min(at+6, len(shapes))] {
				c.Reqs = append(c.Reqs, s.req)
			}
			res, err := runLeafCase(fx, c)
			if err != nil {
				t.Fatalf("batch at %d (pool width %d): %v", at, width, err)
			}
			if bad, _ := checkLeaf(fx, refs, c, res, res.ids); len(bad) > 0 {
				t.Fatalf("batch at %d (pool width %d): %v", at, width, bad)
			}
		}
	}
}

// TestRegression_LeafCollectErrorAnswersBeforeStagesFinished: finding sigCollectErrorAnswersEarly.
// select f from cpu group by host over shards 0,1,2; MetaDB.CollectTagValues returns an error. The
// collection runs inside Stage.Complete() of the grouping stage that finishes last among the grouping
// tasks; its data-load stages were submitted just before. LeafGroupingContext answers at once
// (SendResponse releases the shard contexts and closes their result sets); the data-load stages then
// call FilterResultSet.Load / DataLoader.Load of closed result sets.
func TestRegression_LeafCollectErrorAnswersBeforeStagesFinished(t *testing.T) {
	fx := startLeafFixture(t)
	defer fx.close()
	r := &leafReq{Metric: "cpu", Select: []string{"f"}, Range: "both", Shards: []models.ShardID{0, 1, 2}, Receivers: 1,
		GroupBy: []string{"host"}, Fault: faultSpec{Point: fpCollectValues}}
	late := ""
	for _, width := range []int{1, 8} {
		c := &leafCase{Reqs: []*leafReq{r}, Width: width, TaskWorkers: 1}
		res, err := runLeafCase(fx, c)
		if err != nil {
			t.Fatal(err)
		}
		got := res.got[rootIndicator]
		if len(got) != 1 || got[0].ErrMsg == "" || res.fired[0] == 0 {
			t.Fatalf("pool width %d: %d responses (error %q), failure raised %d times: want one error response", width, len(got), firstErrMsg(got), res.fired[0])
		}
		if res.late[0] != "" && late == "" {
			late = fmt.Sprintf("pool width %d: %s", width, res.late[0])
		}
	}
	switch {
	case late == "":
		if leafExcluded(sigCollectErrorAnswersEarly) {
			t.Logf("%s no longer reproduces on this tree: remove it from the exclusions", sigCollectErrorAnswersEarly)
		}
	case leafExcluded(sigCollectErrorAnswersEarly):
		ev.KnownFinding("C19", fmt.Sprintf("the leaf answers a failed grouping tag collection before the request's stages have finished (%s): %s", sigCollectErrorAnswersEarly, late))
	default:
		t.Fatalf("the leaf answered (and released the request) before its stages had finished although no stage panicked: %s", late)
	}
}
