// Package c19 checks property C19: a query pipeline completes exactly once and reports
// failure if any stage failed.
//
// Generated stage trees of harness stages (stage.VerifStage embeds the production baseStage,
// so Execute / pool submission / panic routing are production code) are run through the
// production pipeline query.NewExecutePipeline(...).Execute(...). Async stages run on a real
// concurrent.Pool and block on a gate inside their plan node's operator; the harness releases
// the gates in a generated order and, before it releases the next one, waits until the handler
// the pipeline passed to Stage.Execute for the released stage has returned (see hStage) and
// every newly submitted async stage has reached its gate, so the completion order is owned by
// the harness. Complete() of a stage can be slow (nodeSpec.HoldComplete, see run.hold): the next
// stage is released while the stage is inside Complete(). A second test releases all blocked
// stages at once ("waves"), so that stages really complete concurrently.
//
// Where a stage panics is a generated dimension (fault point): inside its operator (Execute), or
// in one of the three methods every concrete stage supplies itself and the pipeline calls around
// the operator: Plan() (always inline in the goroutine that completed the parent: the caller or
// a pool worker of an ancestor, also for async stages), NextStages() (in the goroutine that ran
// the operator) and Complete() (inside the state machine's completeStage).
//
// What Identifier() of a stage returns is a generated attribute as well (see identGen):
// production stages are NOT uniquely named. shardScanStage.NextStages creates one
// "Grouping[Shard(n)]" stage per series container of the shard (async siblings with one
// identifier, in flight at the same time), each of them creates a "Data Load[<family time>]"
// stage per time segment (async cousins with one identifier below parents with one identifier),
// and the root creates several "TaskSend" stages. So stages that share an identifier with a
// concurrently running sibling, cousin, ancestor or unrelated stage are generated deliberately;
// the pipeline must keep the bookkeeping of such stages apart.
package c19

import (
	"context"
	"errors"
	"fmt"
	"sort"
	"strings"
	"sync"
	"sync/atomic"
	"testing"
	"time"

	"go.uber.org/zap/zapcore"
	"pgregory.net/rapid"

	"github.com/lindb/common/pkg/logger"

	"github.com/lindb/lindb/constants"
	"github.com/lindb/lindb/flow"
	"github.com/lindb/lindb/internal/concurrent"
	"github.com/lindb/lindb/internal/linmetric"
	"github.com/lindb/lindb/metrics"
	"github.com/lindb/lindb/query"
	"github.com/lindb/lindb/query/stage"
	trackerpkg "github.com/lindb/lindb/query/tracker"
	"github.com/lindb/lindb/verifharness/sim/ev"
)

func TestMain(m *testing.M) { ev.Main(m) }

func init() {
	// the pool and the pipeline log every panic with a stack trace.
	logger.RunningAtomicLevel.SetLevel(zapcore.FatalLevel)
}

// sigSyncPanicUnderAsync is the signature of the second finding of this check (see
// TestRegression_SyncPanicUnderAsyncParentNeverCompletes). Its shape is removed from the
// generator only while known_findings.json lists it.
const sigSyncPanicUnderAsync = "C19/sync-panic-under-async-parent"

// sigCompletePanics is the signature of the third finding (see TestRegression_CompletePanics*):
// a panic inside Stage.Complete(). The fault point is removed from the generator only while
// known_findings.json lists it.
const sigCompletePanics = "C19/stage-complete-panics-under-state-machine-lock"

// waitBound bounds every wait of the harness; it is reached only when something is wrong
// (a released stage never completes, a submitted stage never runs, the pool does not drain).
const waitBound = 5 * time.Second

// ---- case description ---------------------------------------------------------------------

type outKind int

const (
	outOK       outKind = iota
	outIgnored          // ErrNotFound from a plan node built with NewPlanNodeWithIgnore: the stage succeeds
	outFail             // plain error
	outNotFound         // ErrNotFound from a plan node that does not ignore it: the stage fails
	outPanic
)

func (o outKind) String() string {
	return [...]string{"ok", "ignored", "fail", "notfound", "panic"}[o]
}

func (o outKind) succeeds() bool { return o == outOK || o == outIgnored }

const (
	planSingle    = 0 // NewPlanNode(main)
	planComposite = 1 // NewEmptyPlanNode + children: Pre ok operators, main, Post ok operators
	planNil       = 2 // Plan() returns nil (sync + ok only: there is no operator that could hold a gate)
)

// fault points outside the operator (a panic; these methods cannot return an error).
const (
	faultNone     = 0
	faultPlan     = 1 // Plan() panics: no plan node, the operator never runs (Out is irrelevant)
	faultNext     = 2 // NextStages() panics after the operator succeeded: no child is started
	faultComplete = 3 // Complete() panics (after the children were started, or after the stage failed)
)

var faultNames = [...]string{"", "plan", "next", "complete"}

type nodeSpec struct {
	ID        int
	Parent    int // -1 for the root
	Children  []int
	Async     bool
	Out       outKind // outcome of the main operator; outPanic = the operator panics
	Fault     int     // panic outside the operator (faultPlan / faultNext / faultComplete)
	PanicKind int     // 0 string, 1 error, 2 runtime error, 3 other value
	Plan      int
	Pre, Post int
	Prio      int // release priority among async stages (lower first); serial mode only
	// HoldComplete (async stages, serial mode): Complete() of the stage takes long - it returns
	// only when a stage the harness released meanwhile has been handled completely by the
	// pipeline, or after holdBound (see run.hold).
	HoldComplete bool
	// Ident is the label Identifier() of the stage is built from; stages with the same label
	// return the same identifier. "" = a label of its own (the stage number).
	Ident string
}

type caseSpec struct {
	Nodes     []nodeSpec
	Wave      bool   // release all blocked stages at once instead of one by one
	IdentMode string // how the identifiers were generated (evidence only), "" = unique
}

// identifier is what Stage.Identifier() of stage i returns.
func (s *caseSpec) identifier(i int) string {
	if l := s.Nodes[i].Ident; l != "" {
		return "c19-ident-" + l
	}
	return fmt.Sprintf("c19-stage-%d", i)
}

func (s *caseSpec) isAncestor(a, i int) bool {
	for p := s.Nodes[i].Parent; p >= 0; p = s.Nodes[p].Parent {
		if p == a {
			return true
		}
	}
	return false
}

func (s *caseSpec) level(i int) int {
	l := 1
	for p := s.Nodes[i].Parent; p >= 0; p = s.Nodes[p].Parent {
		l++
	}
	return l
}

func (s *caseSpec) canon() string {
	var sb strings.Builder
	var rec func(i int)
	rec = func(i int) {
		n := &s.Nodes[i]
		mode := "s"
		if n.Async {
			mode = fmt.Sprintf("a%d", n.Prio)
		}
		fmt.Fprintf(&sb, "%d:%s:%s", i, mode, n.Out)
		if n.Out == outPanic {
			fmt.Fprintf(&sb, "%d", n.PanicKind)
		}
		if n.Fault != faultNone {
			fmt.Fprintf(&sb, "!%s%d", faultNames[n.Fault], n.PanicKind)
		}
		if n.Ident != "" {
			fmt.Fprintf(&sb, "~%s", n.Ident)
		}
		if n.HoldComplete {
			sb.WriteString(":hold")
		}
		switch n.Plan {
		case planComposite:
			fmt.Fprintf(&sb, ":p%d+%d", n.Pre, n.Post)
		case planNil:
			sb.WriteString(":nil")
		}
		if len(n.Children) > 0 {
			sb.WriteString("[")
			for k, c := range n.Children {
				if k > 0 {
					sb.WriteString(",")
				}
				rec(c)
			}
			sb.WriteString("]")
		}
	}
	rec(0)
	if s.Wave {
		sb.WriteString(" wave")
	}
	return sb.String()
}

// passes: the children of the stage are started (its operator succeeds and neither Plan() nor
// NextStages() panics; Complete() is called after the children were started).
func (n *nodeSpec) passes() bool {
	return n.Out.succeeds() && n.Fault != faultPlan && n.Fault != faultNext
}

// modelStarted: a stage is started iff every ancestor succeeded (children of a failed stage
// are not planned). Exact when no started stage panics.
func (s *caseSpec) modelStarted() []bool {
	st := make([]bool, len(s.Nodes))
	for i := range s.Nodes { // ids are in pre-order: a parent precedes its children
		n := &s.Nodes[i]
		if n.Parent < 0 {
			st[i] = true
		} else {
			st[i] = st[n.Parent] && s.Nodes[n.Parent].passes()
		}
	}
	return st
}

func (s *caseSpec) hasAsyncAncestor(i int) bool {
	for p := s.Nodes[i].Parent; p >= 0; p = s.Nodes[p].Parent {
		if s.Nodes[p].Async {
			return true
		}
	}
	return false
}

// ---- one execution ---------------------------------------------------------------------------

type result struct {
	CbCount       int
	CbErr         error
	Planned       []int // Plan() calls per stage
	Began, Ended  []int // executions of the stage's main operator (nil plan: counted at Plan())
	CompleteCalls []int
	Faulted       []int // panics raised by the stage outside its operator (Plan / NextStages / Complete)
	PlannedAtCb   []int // copies taken inside the first callback
	EndedAtCb     []int
	HandlerAtCb   []int // handler calls (see hStage) per stage inside the first callback
	// EarlyComplete: stages whose Complete() was called although their operator had not ended
	// (or never ran), in the order seen; Collisions: relations of stages that were registered while another stage
	// with the same identifier was registered and not yet completed (evidence).
	EarlyComplete []int
	Collisions    []string
	// Held: Complete() calls that were held; Overtaken: of these, the ones that ended because a
	// stage released during the hold was handled completely (else: holdBound expired)
	Held, Overtaken int
	// X<i> stage i runs (after its gate), E<i> its operator ended, C<i> Complete(), CB callback,
	// PP<i> / NP<i> / CP<i>: Plan() / NextStages() / Complete() of stage i panics
	Seq []string
}

type run struct {
	spec *caseSpec

	mu       sync.Mutex
	cond     *sync.Cond
	timedOut bool

	planned, began, ended, completeCalls []int
	faulted                              []int
	panics                               int // panics raised by the harness so far
	arrived, released                    []bool
	gates                                []chan struct{}
	seq                                  []string

	cbCount     atomic.Int32 // exactly-once is judged on this counter
	cbErr       error
	plannedAtCb []int
	endedAtCb   []int
	handlerAtCb []int

	live          []bool // registered with the state machine (Plan() called), Complete() not yet called
	collisions    map[string]bool
	earlyComplete []int // see result.EarlyComplete

	// handler bookkeeping per stage (see hStage): calls so far, calls running now, and whether a
	// further call must follow (the last one panicked on a pool worker: the pool's recover
	// calls the stage's error handler)
	hCalls, hDepth []int
	hExpectErr     []bool

	relSeq                  int   // releases so far
	relAt                   []int // relSeq at the release of the stage (0 = not released)
	holdActive, holdExpired []bool
	holdSince               []int // relSeq when the hold began
	held, overtakes         int
}

// holdBound bounds a held Complete(). The unchanged pipeline calls Complete() under the lock of
// its state machine, so no other stage can be handled completely meanwhile and every hold lasts
// holdBound (wall clock as a liveness bound only; the oracle does not depend on it).
const holdBound = 2 * time.Millisecond

// hold (called from Complete() of stage id): if another stage is parked on its gate (or on its way to it), keep
// Complete() from returning until a stage released from now on has been handled completely
// (its handlers returned) or holdBound has passed. The main loop treats a holding stage as
// quiescent and releases the next stage, so "the next stage runs and completes while this one is
// inside Complete()" is a schedule of the harness, not a matter of luck.
func (r *run) hold(id int) {
	r.mu.Lock()
	defer r.mu.Unlock()
	parked := false
	for j := range r.spec.Nodes {
		if n := &r.spec.Nodes[j]; n.Async && n.Fault != faultPlan && r.planned[j] > 0 && !r.released[j] {
			parked = true // (submitted; it may still be on its way to the gate)
		}
		if r.holdActive[j] {
			// one hold at a time: two holders that are overtaken by the same stage would resume
			// at the same moment, in an order the harness does not own (cannot happen on the
			// unchanged tree, whose Complete() calls exclude one another)
			return
		}
	}
	if !parked {
		return
	}
	r.holdSince[id], r.holdExpired[id] = r.relSeq, false
	r.holdActive[id] = true
	r.held++
	r.cond.Broadcast()
	timer := time.AfterFunc(holdBound, func() {
		r.mu.Lock()
		r.holdExpired[id] = true
		r.cond.Broadcast()
		r.mu.Unlock()
	})
	defer timer.Stop()
	for r.holding(id) {
		r.cond.Wait()
	}
	if r.overtaken(id) {
		r.overtakes++
	}
	r.holdActive[id] = false
	r.cond.Broadcast()
}

// overtaken (r.mu held): a stage released after the hold of stage id began has been handled completely.
func (r *run) overtaken(id int) bool {
	for j := range r.spec.Nodes {
		if j != id && r.relAt[j] > r.holdSince[id] && r.handlersDone(j) {
			return true
		}
	}
	return false
}

// holding (r.mu held): Complete() of stage id is being held and will not return in this state
// (a predicate, not a flag set by the holder: the main loop and the holder see the end of a hold
// at the same moment).
func (r *run) holding(id int) bool {
	return r.holdActive[id] && !r.holdExpired[id] && !r.overtaken(id)
}

// hStage is what the pipeline gets: the harness stage with Execute overridden only to wrap the
// two handlers the pipeline passes in (production baseStage.Execute runs them where and when it
// always does), so that the harness knows when the pipeline's code for a stage has returned
// without relying on what that code does (it used to wait for Stage.Complete() of the released
// stage: a pipeline that accounts the completion to another stage, or drops it, then showed up
// as a 5 s time-out only).
type hStage struct {
	*stage.VerifStage
	r  *run
	id int
}

func (h *hStage) Execute(node stage.PlanNode, completeHandle func(), errHandle func(err error)) {
	h.VerifStage.Execute(node,
		func() { h.r.handler(h.id, completeHandle) },
		func(err error) { h.r.handler(h.id, func() { errHandle(err) }) })
}

func (r *run) handler(id int, fn func()) {
	r.mu.Lock()
	r.hCalls[id]++
	r.hDepth[id]++
	r.hExpectErr[id] = false
	r.mu.Unlock()
	returned := false
	defer func() {
		r.mu.Lock()
		r.hDepth[id]--
		if !returned && r.spec.Nodes[id].Async {
			// panicking through the task of this stage into the pool's recover
			r.hExpectErr[id] = true
		}
		r.cond.Broadcast()
		r.mu.Unlock()
	}()
	fn()
	returned = true
}

// handlersDone (r.mu held): the pipeline's code for stage i has run and returned.
func (r *run) handlersDone(i int) bool {
	return r.hCalls[i] > 0 && r.hDepth[i] == 0 && !r.hExpectErr[i]
}

type harnessOp struct {
	r    *run
	id   int
	main bool
}

func (o *harnessOp) Identifier() string { return fmt.Sprintf("c19-op-%d", o.id) }

type otherPanicValue struct{ id int }

// completeFaultUnguarded is set only in the child process of
// TestRegression_CompletePanicsInsidePoolPanicHandler.
var completeFaultUnguarded bool

// raise panics with a value of the generated kind.
func raise(id, kind int) {
	switch kind {
	case 0:
		panic(fmt.Sprintf("c19-stage-%d panicked", id))
	case 1:
		panic(fmt.Errorf("c19-stage-%d panicked", id))
	case 2:
		var m map[int]int
		m[id] = 1 // runtime error: assignment to entry in nil map
	default:
		panic(otherPanicValue{id})
	}
}

// fault records and raises the panic of stage id at a fault point outside the operator.
func (r *run) fault(id int, what string) {
	r.mu.Lock()
	r.faulted[id]++
	r.panics++
	r.seq = append(r.seq, fmt.Sprintf("%s%d", what, id))
	r.cond.Broadcast()
	r.mu.Unlock()
	raise(id, r.spec.Nodes[id].PanicKind)
}

func (o *harnessOp) Execute() error {
	if !o.main {
		return nil
	}
	r, id := o.r, o.id
	n := &r.spec.Nodes[id]
	r.mu.Lock()
	r.began[id]++
	if n.Async {
		r.arrived[id] = true
		r.cond.Broadcast()
	}
	r.mu.Unlock()
	if n.Async {
		<-r.gates[id]
	}
	r.mu.Lock()
	r.seq = append(r.seq, fmt.Sprintf("X%d", id))
	r.mu.Unlock()
	defer func() {
		r.mu.Lock()
		r.ended[id]++
		r.seq = append(r.seq, fmt.Sprintf("E%d", id))
		r.cond.Broadcast()
		r.mu.Unlock()
	}()
	switch n.Out {
	case outFail:
		return fmt.Errorf("c19-stage-%d failed", id)
	case outNotFound, outIgnored:
		return fmt.Errorf("c19-stage-%d: %w", id, constants.ErrNotFound)
	case outPanic:
		r.mu.Lock()
		r.panics++
		r.mu.Unlock()
		raise(id, n.PanicKind)
	}
	return nil
}

func (r *run) planNode(id int) stage.PlanNode {
	n := &r.spec.Nodes[id]
	r.mu.Lock()
	r.planned[id]++
	r.noteRegistered(id)
	r.mu.Unlock()
	if n.Fault == faultPlan {
		r.fault(id, "PP")
	}
	r.mu.Lock()
	if n.Plan == planNil {
		r.began[id]++
		r.ended[id]++
		r.seq = append(r.seq, fmt.Sprintf("X%d", id), fmt.Sprintf("E%d", id))
	}
	r.mu.Unlock()
	newMain := func() stage.PlanNode {
		op := &harnessOp{r: r, id: id, main: true}
		if n.Out == outIgnored {
			return stage.NewPlanNodeWithIgnore(op)
		}
		return stage.NewPlanNode(op)
	}
	switch n.Plan {
	case planNil:
		return nil
	case planComposite:
		root := stage.NewEmptyPlanNode()
		for k := 0; k < n.Pre; k++ {
			root.AddChild(stage.NewPlanNode(&harnessOp{r: r, id: id}))
		}
		root.AddChild(newMain())
		for k := 0; k < n.Post; k++ {
			root.AddChild(stage.NewPlanNode(&harnessOp{r: r, id: id}))
		}
		return root
	default:
		return newMain()
	}
}

// noteRegistered (r.mu held): stage id has just been registered with the state machine
// (executeStage registers a stage right before it calls Plan()). Records how it is related to
// the stages of the same identifier that are registered and not completed at this moment.
func (r *run) noteRegistered(id int) {
	s := r.spec
	for j := range s.Nodes {
		if j == id || !r.live[j] || s.identifier(j) != s.identifier(id) {
			continue
		}
		rel := "other"
		switch {
		case s.Nodes[j].Parent == s.Nodes[id].Parent:
			rel = "siblings"
		case s.isAncestor(j, id):
			rel = "ancestor"
		case s.level(j) == s.level(id):
			rel = "cousins"
		}
		mode := "mixed"
		switch {
		case s.Nodes[j].Async && s.Nodes[id].Async:
			mode = "async"
		case !s.Nodes[j].Async && !s.Nodes[id].Async:
			mode = "sync"
		}
		r.collisions[rel] = true
		r.collisions[rel+":"+mode] = true
	}
	r.live[id] = true
}

func (r *run) callback(err error) {
	first := r.cbCount.Add(1) == 1
	r.mu.Lock()
	if first {
		r.cbErr = err
		r.plannedAtCb = append([]int(nil), r.planned...)
		r.endedAtCb = append([]int(nil), r.ended...)
		r.handlerAtCb = append([]int(nil), r.hCalls...)
	}
	r.seq = append(r.seq, "CB")
	r.cond.Broadcast()
	r.mu.Unlock()
}

// waitFor waits (bounded) until pred holds; pred runs under r.mu.
func (r *run) waitFor(pred func() bool) bool {
	r.mu.Lock()
	defer r.mu.Unlock()
	if pred() {
		return true
	}
	r.timedOut = false
	timer := time.AfterFunc(waitBound, func() {
		r.mu.Lock()
		r.timedOut = true
		r.cond.Broadcast()
		r.mu.Unlock()
	})
	defer timer.Stop()
	for !pred() {
		if r.timedOut {
			return false
		}
		r.cond.Wait()
	}
	return true
}

// quiescent: for every released stage the handler the pipeline gave to Stage.Execute (complete
// or error handler) has run and returned, and every async stage planned so far has reached its
// gate. Then no pipeline code is running: all other started async stages are parked on their
// gates and everything that runs inline has run. (A panic on a worker - of the operator, of an
// inline descendant, of the planning of a child - ends in the pool's recover, which calls the
// released stage's error handler: a stage whose handler panicked on a worker is waited for
// until that second call has returned.)
func (r *run) quiescent() bool {
	for i := range r.spec.Nodes {
		if r.released[i] && !r.handlersDone(i) && !r.holding(i) {
			return false
		}
		if n := &r.spec.Nodes[i]; n.Async && n.Fault != faultPlan && r.planned[i] > 0 && !r.arrived[i] {
			return false // (a stage whose Plan() panics is never submitted)
		}
	}
	return true
}

var (
	statsMu   sync.Mutex
	poolStats *metrics.ConcurrentStatistics
	statsGen  int
)

// sharedStats returns the pool statistics shared by the cases of the process. After a case
// whose pool could not be drained (a worker is stuck for ever; the case has failed) the
// statistics are replaced, so that the following cases (shrinking) are judged on their own.
func sharedStats() *metrics.ConcurrentStatistics {
	statsMu.Lock()
	defer statsMu.Unlock()
	if poolStats == nil {
		statsGen++
		poolStats = metrics.NewConcurrentStatistics(fmt.Sprintf("c19-verif-%d", statsGen), linmetric.StorageRegistry)
	}
	return poolStats
}

func abandonStats() {
	statsMu.Lock()
	poolStats = nil
	statsMu.Unlock()
}

// runCase executes one case. The returned error reports a harness-level time-out (which is a
// failure of the case as well: something never completed).
func runCase(spec *caseSpec) (*result, error) {
	n := len(spec.Nodes)
	r := &run{
		spec:    spec,
		planned: make([]int, n), began: make([]int, n), ended: make([]int, n), completeCalls: make([]int, n),
		faulted: make([]int, n),
		arrived: make([]bool, n), released: make([]bool, n), gates: make([]chan struct{}, n),
		live: make([]bool, n), collisions: map[string]bool{},
		hCalls: make([]int, n), hDepth: make([]int, n), hExpectErr: make([]bool, n),
		relAt: make([]int, n), holdActive: make([]bool, n), holdExpired: make([]bool, n), holdSince: make([]int, n),
	}
	r.cond = sync.NewCond(&r.mu)
	nAsync := 0
	for i := range spec.Nodes {
		r.gates[i] = make(chan struct{})
		if spec.Nodes[i].Async {
			nAsync++
		}
	}
	stats := sharedStats()
	if alive := stats.WorkersAlive.Get(); alive != 0 {
		return nil, fmt.Errorf("harness: %v workers of a previous case are still alive", alive)
	}
	// one worker per async stage: a stage parked on its gate never keeps another one from starting.
	pool := concurrent.NewPool("c19-verif", nAsync+1, time.Minute, stats)
	ctx := context.Background()

	stages := make([]*stage.VerifStage, n)
	for i := range spec.Nodes {
		id := i
		if spec.Nodes[i].Async {
			stages[i] = stage.NewVerifStage(ctx, pool, spec.identifier(i))
		} else {
			stages[i] = stage.NewVerifStage(nil, nil, spec.identifier(i))
		}
		stages[i].PlanFn = func() stage.PlanNode { return r.planNode(id) }
		stages[i].NextFn = func() []stage.Stage {
			if spec.Nodes[id].Fault == faultNext {
				r.fault(id, "NP")
			}
			var next []stage.Stage
			for _, c := range spec.Nodes[id].Children {
				next = append(next, &hStage{VerifStage: stages[c], r: r, id: c})
			}
			return next
		}
		stages[i].CompleteFn = func() {
			r.mu.Lock()
			r.completeCalls[id]++
			r.live[id] = false
			r.seq = append(r.seq, fmt.Sprintf("C%d", id))
			if r.ended[id] == 0 {
				// the state machine completes a stage whose operator is still running (parked on
				// its gate) or never ran: it took this stage for another one.
				r.earlyComplete = append(r.earlyComplete, id)
			}
			// Only as the first panic of the case: Complete() of a stage is also called from the
			// pool's own recover (error handler of a task that panicked), where a second panic
			// is outside every recover of the process and would kill the test process (that
			// shape runs in a child process, see TestRegression_CompletePanicsInsidePoolPanicHandler).
			fire := spec.Nodes[id].Fault == faultComplete && (r.panics == 0 || completeFaultUnguarded)
			r.cond.Broadcast()
			r.mu.Unlock()
			if spec.Nodes[id].HoldComplete {
				r.hold(id)
			}
			if fire {
				r.fault(id, "CP")
			}
		}
	}

	var herr error
	releaseAll := func() {
		r.mu.Lock()
		for i := range r.gates {
			if !r.released[i] {
				r.released[i] = true
				r.relSeq++
				r.relAt[i] = r.relSeq
				close(r.gates[i])
			}
		}
		r.mu.Unlock()
	}
	stopPool := func() bool {
		done := make(chan struct{})
		go func() { pool.Stop(); close(done) }()
		select {
		case <-done:
			return true
		case <-time.After(waitBound):
			return false
		}
	}

	tracker := trackerpkg.NewStageTracker(&flow.TaskContext{Ctx: ctx, Cancel: func() {}, Start: time.Now()})
	pipeline := query.NewExecutePipeline(tracker, r.callback)

	execDone := make(chan struct{})
	go func() {
		defer close(execDone)
		pipeline.Execute(&hStage{VerifStage: stages[0], r: r, id: 0})
	}()
	select {
	case <-execDone:
	case <-time.After(waitBound):
		herr = errors.New("Pipeline.Execute did not return")
	}

	for herr == nil {
		if !r.waitFor(r.quiescent) {
			herr = errors.New("not quiescent: the handlers of a released stage never returned or a submitted stage never ran")
			break
		}
		r.mu.Lock()
		var blocked []int
		for i := range spec.Nodes {
			if r.arrived[i] && !r.released[i] {
				blocked = append(blocked, i)
			}
		}
		if len(blocked) > 0 && !spec.Wave {
			sort.Slice(blocked, func(a, b int) bool { return spec.Nodes[blocked[a]].Prio < spec.Nodes[blocked[b]].Prio })
			blocked = blocked[:1]
		}
		for _, i := range blocked {
			r.released[i] = true
			r.relSeq++
			r.relAt[i] = r.relSeq
			close(r.gates[i])
		}
		r.mu.Unlock()
		if len(blocked) == 0 {
			break
		}
	}
	// From here on nothing is parked; Stop joins every worker, so afterwards no pipeline code
	// is running anywhere and the callback counter is final (no timed grace period needed).
	releaseAll()
	if !stopPool() {
		abandonStats()
		if herr == nil {
			herr = errors.New("worker pool did not drain")
		}
	}
	if herr == nil {
		<-execDone
	}

	r.mu.Lock()
	defer r.mu.Unlock()
	res := &result{
		CbCount: int(r.cbCount.Load()), CbErr: r.cbErr,
		Planned: append([]int(nil), r.planned...), Began: append([]int(nil), r.began...), Ended: append([]int(nil), r.ended...),
		CompleteCalls: append([]int(nil), r.completeCalls...), Faulted: append([]int(nil), r.faulted...),
		PlannedAtCb: r.plannedAtCb, EndedAtCb: r.endedAtCb, HandlerAtCb: r.handlerAtCb,
		EarlyComplete: append([]int(nil), r.earlyComplete...),
		Seq:           append([]string(nil), r.seq...),
	}
	res.Held, res.Overtaken = r.held, r.overtakes
	for c := range r.collisions {
		res.Collisions = append(res.Collisions, c)
	}
	sort.Strings(res.Collisions)
	return res, herr
}

// ---- oracle ----------------------------------------------------------------------------------

type violation struct{ Sig, Text string }

func checkOracle(spec *caseSpec, res *result) []violation {
	var vs []violation
	add := func(sig, f string, a ...any) { vs = append(vs, violation{sig, fmt.Sprintf(f, a...)}) }
	model := spec.modelStarted()

	executedFailure, executedPanic := -1, -1
	for i := range spec.Nodes {
		if res.Faulted[i] > 0 && executedPanic < 0 {
			executedPanic = i
		}
		if res.Began[i] == 0 {
			continue
		}
		switch spec.Nodes[i].Out {
		case outFail, outNotFound:
			if executedFailure < 0 {
				executedFailure = i
			}
		case outPanic:
			if executedPanic < 0 {
				executedPanic = i
			}
		}
	}

	// (1) exactly once
	switch {
	case res.CbCount == 0:
		add("callback-never", "completion callback never fired")
	case res.CbCount > 1:
		add("callback-multiple", "completion callback fired %d times", res.CbCount)
	}
	// (2) error iff some executed stage failed or panicked
	if res.CbCount >= 1 {
		wantErr := executedFailure >= 0 || executedPanic >= 0
		switch {
		case wantErr && res.CbErr == nil:
			f := executedFailure
			if f < 0 {
				f = executedPanic
			}
			what := spec.Nodes[f].Out.String()
			if res.Faulted[f] > 0 {
				what = faultNames[spec.Nodes[f].Fault] + " panicked"
			}
			add("error-lost", "stage %d (%s) was executed and did not succeed, but the pipeline completed with err == nil", f, what)
		case !wantErr && res.CbErr != nil:
			add("spurious-error", "no executed stage failed, but the pipeline completed with %v", res.CbErr)
		}
	}
	// (3) what ran
	if res.Planned[0] == 0 {
		add("root-not-started", "the root stage was never planned")
	}
	for i := range spec.Nodes {
		if res.Planned[i] > 1 || res.Began[i] > 1 {
			add("stage-twice", "stage %d was planned %d times and executed %d times", i, res.Planned[i], res.Began[i])
		}
		if res.Planned[i] > 0 && !model[i] {
			add("child-of-failed-stage-started", "stage %d was started although an ancestor did not succeed", i)
		}
		if res.Began[i] != res.Ended[i] {
			add("harness", "stage %d: began %d ended %d", i, res.Began[i], res.Ended[i])
		}
	}
	if executedPanic < 0 {
		// no panic: the started set is exactly the model's, every started stage ran, and the
		// callback came after all of them had finished (and nothing was started after it).
		for i := range spec.Nodes {
			if model[i] && (res.Planned[i] != 1 || res.Began[i] != 1) {
				add("stage-not-run", "stage %d should have run once (all ancestors succeeded): planned %d, executed %d",
					i, res.Planned[i], res.Began[i])
			}
		}
		if res.CbCount >= 1 {
			for i := range spec.Nodes {
				if res.PlannedAtCb[i] != res.Planned[i] {
					add("early-callback", "stage %d was started after the completion callback", i)
				} else if res.Planned[i] > 0 && res.EndedAtCb[i] != res.Planned[i] {
					add("early-callback", "completion callback fired while started stage %d had not finished", i)
				} else if res.Planned[i] > 0 && res.HandlerAtCb[i] == 0 {
					// "finished" on the pipeline's side: the operator ended and the pipeline has
					// been told so (the handler it passed to Stage.Execute was called). That the
					// handler has RETURNED cannot be demanded: the callback is fired from inside
					// the handler of the stage that finishes last, and a handler of another worker
					// may be in its last instructions (after its decrement of pending).
					add("early-callback", "completion callback fired before the pipeline's handler of started stage %d (%s) was called", i, spec.identifier(i))
				}
			}
		}
	}
	return vs
}

// observations are things the check counts and prints as context of a violation but never
// fails a case on: C19 speaks about the completion signal, not about Stage.Complete() calls.
//
//	stage-completed-twice          Complete() of one stage called more than once
//	stage-completed-while-running  Complete() of a stage called although its operator had not
//	                               ended / never ran (the pipeline took the stage for another one)
func observations(spec *caseSpec, res *result) []violation {
	var vs []violation
	add := func(sig, f string, a ...any) { vs = append(vs, violation{sig, fmt.Sprintf(f, a...)}) }
	for i := range spec.Nodes {
		if res.CompleteCalls[i] > 1 {
			add("stage-completed-twice", "Complete() of stage %d (%s) was called %d times", i, spec.identifier(i), res.CompleteCalls[i])
		}
	}
	for _, i := range res.EarlyComplete {
		what := "is still running"
		if res.Began[i] == 0 {
			what = "never ran"
		}
		add("stage-completed-while-running", "Complete() of stage %d (%s) was called although its operator %s; other stages started with the same identifier: %s",
			i, spec.identifier(i), what, sameIdent(spec, res, i))
	}
	return vs
}

func contextText(spec *caseSpec, res *result) string {
	var sb strings.Builder
	for _, v := range observations(spec, res) {
		fmt.Fprintf(&sb, "\n  (context, not a violation by itself: %s) %s", v.Sig, v.Text)
	}
	return sb.String()
}

// sameIdent lists the started stages that return the same identifier as stage i.
func sameIdent(spec *caseSpec, res *result, i int) string {
	var l []string
	for j := range spec.Nodes {
		if j != i && res.Planned[j] > 0 && spec.identifier(j) == spec.identifier(i) {
			l = append(l, fmt.Sprint(j))
		}
	}
	if len(l) == 0 {
		return "none"
	}
	return strings.Join(l, ",")
}

// ---- evidence ----------------------------------------------------------------------------------

func depthOf(spec *caseSpec) int {
	d := make([]int, len(spec.Nodes))
	max := 0
	for i := range spec.Nodes {
		if p := spec.Nodes[i].Parent; p >= 0 {
			d[i] = d[p] + 1
		} else {
			d[i] = 1
		}
		if d[i] > max {
			max = d[i]
		}
	}
	return max
}

// classify returns the non-trivial verdict and the class labels of an executed case.
// NT rule: >= 1 failing stage that is not the last to complete, or >= 2 async siblings (both run).
func classify(spec *caseSpec, res *result) (bool, []string) {
	var cl []string
	cl = append(cl, fmt.Sprintf("depth=%d", depthOf(spec)))
	n := len(spec.Nodes)
	switch {
	case n == 1:
		cl = append(cl, "size=1")
	case n <= 4:
		cl = append(cl, "size=2-4")
	case n <= 10:
		cl = append(cl, "size=5-10")
	case n <= 20:
		cl = append(cl, "size=11-20")
	default:
		cl = append(cl, "size>20")
	}
	asyncSiblings, maxFan := false, 0
	nAsyncRun, nSyncRun := 0, 0
	for i := range spec.Nodes {
		if len(spec.Nodes[i].Children) > maxFan {
			maxFan = len(spec.Nodes[i].Children)
		}
		k := 0
		for _, c := range spec.Nodes[i].Children {
			if spec.Nodes[c].Async && res.Began[c] > 0 {
				k++
			}
		}
		if k >= 2 {
			asyncSiblings = true
		}
		if res.Began[i] > 0 {
			if spec.Nodes[i].Async {
				nAsyncRun++
			} else {
				nSyncRun++
			}
		}
	}
	cl = append(cl, fmt.Sprintf("maxfan=%d", maxFan))
	switch {
	case nAsyncRun == 0:
		cl = append(cl, "run:all-sync")
	case nSyncRun == 0:
		cl = append(cl, "run:all-async")
	default:
		cl = append(cl, "run:mixed")
	}
	if asyncSiblings {
		cl = append(cl, "async-siblings>=2")
	}
	seenObs := map[string]bool{}
	for _, v := range observations(spec, res) {
		if !seenObs[v.Sig] {
			seenObs[v.Sig] = true
			cl = append(cl, "observed:"+v.Sig)
		}
	}
	if res.Held > 0 {
		cl = append(cl, "complete-held")
	}
	if res.Overtaken > 0 {
		// (never on the unchanged tree: Complete() runs under the state machine's lock)
		cl = append(cl, "complete-held:overtaken")
	}
	// identifiers: how they were generated, and which collisions were live during the run
	if spec.IdentMode == "" {
		cl = append(cl, "ident=unique")
	} else {
		cl = append(cl, "ident="+spec.IdentMode)
	}
	for _, c := range res.Collisions {
		cl = append(cl, "same-ident-in-flight:"+c)
	}
	if len(res.Collisions) > 0 {
		cl = append(cl, "same-ident-in-flight")
	} else if spec.IdentMode != "" {
		cl = append(cl, "same-ident-never-in-flight")
	}
	// completion order: the stage whose operator ended / whose fault fired last
	lastEnded := -1
	for _, e := range res.Seq {
		for _, pre := range []string{"E", "PP", "NP", "CP"} {
			var id int
			if strings.HasPrefix(e, pre) {
				if _, err := fmt.Sscanf(e[len(pre):], "%d", &id); err == nil {
					lastEnded = id
				}
				break
			}
		}
	}
	failNotLast, anyFail, anyPanic := false, false, false
	for i := range spec.Nodes {
		if res.Faulted[i] > 0 {
			// panic outside the operator: where it was raised decides which recover sees it
			anyPanic = true
			n := &spec.Nodes[i]
			where := "sync-on-caller"
			switch {
			case n.Fault == faultPlan && n.Parent < 0:
				where = "root" // async or not: planned in Pipeline.Execute's goroutine
			case n.Fault == faultPlan && n.Async && spec.Nodes[n.Parent].Async:
				where = "async-planned-by-async-parent" // the next frame with a recover is the pool's
			case n.Fault == faultPlan && n.Async && spec.hasAsyncAncestor(i):
				where = "async-planned-by-sync-parent-on-worker"
			case n.Fault == faultPlan && n.Async:
				where = "async-planned-on-caller"
			case n.Async:
				where = "async"
			case spec.hasAsyncAncestor(i):
				where = "sync-on-worker"
			}
			cl = append(cl, "fault@"+faultNames[n.Fault]+":"+where, "fault@"+faultNames[n.Fault])
			if n.Fault == faultComplete && !n.Out.succeeds() {
				cl = append(cl, "fault@complete:of-failed-stage")
			}
			if n.Fault == faultNext && len(n.Children) > 0 {
				cl = append(cl, "fault@next:with-children")
			}
			if i != lastEnded {
				failNotLast = true
			}
		}
		if res.Began[i] == 0 || spec.Nodes[i].Out.succeeds() {
			continue
		}
		if spec.Nodes[i].Out == outPanic {
			anyPanic = true
			switch {
			case spec.Nodes[i].Async:
				cl = append(cl, "panic:async")
			case spec.hasAsyncAncestor(i):
				cl = append(cl, "panic:sync-on-worker")
			default:
				cl = append(cl, "panic:sync-on-caller")
			}
			cl = append(cl, "fault@exec")
		} else {
			anyFail = true
			if spec.Nodes[i].Async {
				cl = append(cl, "fail:async")
			} else {
				cl = append(cl, "fail:sync")
			}
		}
		if i != lastEnded {
			failNotLast = true
		}
	}
	if anyFail {
		cl = append(cl, "some-stage-failed")
	}
	if anyPanic {
		cl = append(cl, "some-stage-panicked")
	}
	if !anyFail && !anyPanic {
		cl = append(cl, "all-ok")
	}
	if failNotLast && !spec.Wave {
		cl = append(cl, "failing-stage-not-last")
	}
	for i := range spec.Nodes {
		if res.Began[i] > 0 && !spec.Nodes[i].Async && spec.hasAsyncAncestor(i) {
			cl = append(cl, "sync-stage-on-worker")
			break
		}
	}
	for i := range spec.Nodes {
		if res.Began[i] > 0 && spec.Nodes[i].Out == outIgnored {
			cl = append(cl, "ignored-notfound")
			break
		}
	}
	if res.CbErr != nil {
		cl = append(cl, "cb:error")
	} else if res.CbCount > 0 {
		cl = append(cl, "cb:nil")
	}
	nt := asyncSiblings
	if !spec.Wave && failNotLast {
		// in wave mode the completion order is not owned by the harness: only the sibling rule counts
		nt = true
	}
	return nt, cl
}

func sample(spec *caseSpec, res *result) any {
	return map[string]any{
		"tree":      spec.canon(),
		"ident":     spec.IdentMode,
		"events":    strings.Join(res.Seq, " "),
		"callbacks": res.CbCount,
		"err":       fmt.Sprint(res.CbErr),
	}
}

// ---- generator ---------------------------------------------------------------------------------

const maxNodes = 40

var percent = func() []int {
	p := make([]int, 100)
	for i := range p {
		p[i] = i
	}
	return p
}()

func genSpec(t *rapid.T, wave bool) *caseSpec {
	spec := &caseSpec{Wave: wave}
	// 0 free sync/async mix; 1 production leaf shape (sync root, async below); 2 all sync
	// (metadata / root pipelines); 3 all async; 4 burst (see genBurst)
	shape := rapid.SampledFrom([]int{0, 0, 0, 0, 0, 1, 1, 2, 3, 4}).Draw(t, "shape")
	if shape == 4 {
		return genBurst(t, wave)
	}
	idents := newIdentGen(t)
	// (rapid's IntRange is biased towards the lower bound, SampledFrom is uniform)
	depth := rapid.SampledFrom([]int{1, 2, 2, 3, 3, 3, 4, 4}).Draw(t, "depth")
	allowPanic := rapid.SampledFrom([]bool{false, false, false, true, true}).Draw(t, "allowPanic")

	var build func(parent, level int) int
	build = func(parent, level int) int {
		id := len(spec.Nodes)
		spec.Nodes = append(spec.Nodes, nodeSpec{ID: id, Parent: parent})
		var async bool
		switch shape {
		case 1:
			async = parent >= 0
		case 2:
			async = false
		case 3:
			async = true
		default:
			async = rapid.Bool().Draw(t, "async")
		}
		spec.Nodes[id].Async = async
		idents.assign(t, spec, id)
		fan := 0
		if level < depth {
			if level == 1 {
				fan = rapid.SampledFrom([]int{1, 2, 2, 3, 4}).Draw(t, "fanout")
			} else {
				fan = rapid.SampledFrom([]int{0, 1, 2, 2, 3, 4}).Draw(t, "fanout")
			}
		}
		// outcome: inner stages mostly succeed, else nothing below them runs
		w := rapid.SampledFrom(percent).Draw(t, "outcome")
		var out outKind
		if fan > 0 {
			switch {
			case w < 78:
				out = outOK
			case w < 83:
				out = outIgnored
			case w < 91:
				out = outFail
			case w < 94:
				out = outNotFound
			default:
				out = outPanic
			}
		} else {
			switch {
			case w < 50:
				out = outOK
			case w < 55:
				out = outIgnored
			case w < 78:
				out = outFail
			case w < 84:
				out = outNotFound
			default:
				out = outPanic
			}
		}
		if out == outPanic {
			if !allowPanic {
				out = outFail
			} else {
				out = genFault(t, spec, id)
			}
		}
		spec.Nodes[id].Out = out
		pl := rapid.SampledFrom(percent[:10]).Draw(t, "plan")
		switch {
		case spec.Nodes[id].Fault == faultPlan:
			spec.Nodes[id].Plan = planSingle // never built
		case pl == 0 && !async && out == outOK:
			spec.Nodes[id].Plan = planNil
		case pl < 5:
			spec.Nodes[id].Plan = planSingle
		default:
			spec.Nodes[id].Plan = planComposite
			spec.Nodes[id].Pre = rapid.IntRange(0, 2).Draw(t, "pre")
			spec.Nodes[id].Post = rapid.IntRange(0, 2).Draw(t, "post")
		}
		for k := 0; k < fan && len(spec.Nodes) < maxNodes; k++ {
			c := build(id, level+1)
			spec.Nodes[id].Children = append(spec.Nodes[id].Children, c)
		}
		return id
	}
	build(-1, 1)

	assignReleaseOrder(t, spec)
	idents.finish(spec)
	return spec
}

// genBurst: a root with 2-4 succeeding async children, each with 1-2 children that mostly fail
// or panic (inline on the parent's worker, or on a worker of their own). In wave mode the
// children are released together, so several failures / worker-side panics are handed to the
// state machine at the same time.
func genBurst(t *rapid.T, wave bool) *caseSpec {
	spec := &caseSpec{Wave: wave}
	idents := newIdentGen(t)
	add := func(parent int, async bool, out outKind) int {
		id := len(spec.Nodes)
		spec.Nodes = append(spec.Nodes, nodeSpec{ID: id, Parent: parent, Async: async, Out: out})
		idents.assign(t, spec, id)
		if parent >= 0 {
			spec.Nodes[parent].Children = append(spec.Nodes[parent].Children, id)
		}
		return id
	}
	root := add(-1, rapid.Bool().Draw(t, "rootAsync"), outOK)
	k := rapid.SampledFrom([]int{2, 3, 4}).Draw(t, "children")
	for c := 0; c < k; c++ {
		child := add(root, true, outOK)
		g := rapid.SampledFrom([]int{1, 1, 2}).Draw(t, "grandchildren")
		for j := 0; j < g; j++ {
			async := rapid.Bool().Draw(t, "async")
			out := rapid.SampledFrom([]outKind{outOK, outFail, outFail, outPanic, outPanic, outPanic}).Draw(t, "outcome")
			id := add(child, async, out)
			if out == outPanic {
				spec.Nodes[id].Out = genFault(t, spec, id)
			}
		}
	}
	assignReleaseOrder(t, spec)
	idents.finish(spec)
	return spec
}

// identGen draws what Identifier() of every stage returns (nodeSpec.Ident). The mode is drawn
// first and the label of a stage when the stage is created (not in a pass of its own at the end
// of the case), so that rapid can remove a subtree without shifting these draws.
//
//	unique    every stage has an identifier of its own
//	siblings  per parent: all children share one identifier (production: the
//	          "Grouping[Shard(n)]" stages of a shard scan, the "TaskSend" stages), or they are
//	          split over two identifiers, or they stay unique
//	kind      one identifier per (level, sync/async): siblings and cousins of a kind collide
//	level     identifiers drawn per stage from an alphabet of 1-2 per level: siblings, cousins
//	free      identifiers drawn per stage from an alphabet of 1-3 for the whole tree: also
//	          parent/child, ancestor/descendant and unrelated stages collide
type identGen struct {
	mode     string
	alphabet int
	sib      map[int]string // siblings mode: what the children of a stage get
}

func newIdentGen(t *rapid.T) *identGen {
	g := &identGen{sib: map[int]string{}}
	g.mode = rapid.SampledFrom([]string{"", "", "", "siblings", "siblings", "siblings", "kind", "level", "free", "free"}).Draw(t, "identMode")
	switch g.mode {
	case "level":
		g.alphabet = rapid.SampledFrom([]int{1, 2}).Draw(t, "identAlphabet")
	case "free":
		g.alphabet = rapid.SampledFrom([]int{1, 2, 3}).Draw(t, "identAlphabet")
	}
	return g
}

// assign labels stage id (Parent and Async are set).
func (g *identGen) assign(t *rapid.T, spec *caseSpec, id int) {
	n := &spec.Nodes[id]
	switch g.mode {
	case "siblings":
		g.sib[id] = rapid.SampledFrom([]string{"all", "all", "all", "split", "unique"}).Draw(t, "childIdents")
		if n.Parent < 0 {
			return
		}
		switch g.sib[n.Parent] {
		case "all":
			n.Ident = fmt.Sprintf("g%d", n.Parent)
		case "split":
			n.Ident = fmt.Sprintf("g%d.%d", n.Parent, rapid.SampledFrom(percent[:2]).Draw(t, "ident"))
		}
	case "kind":
		k := "s"
		if n.Async {
			k = "a"
		}
		n.Ident = fmt.Sprintf("k%d%s", spec.level(id), k)
	case "level":
		n.Ident = fmt.Sprintf("l%d.%d", spec.level(id), rapid.SampledFrom(percent[:g.alphabet]).Draw(t, "ident"))
	case "free":
		n.Ident = fmt.Sprintf("f%d", rapid.SampledFrom(percent[:g.alphabet]).Draw(t, "ident"))
	}
}

// finish: a case in which no two stages share an identifier is a case with unique identifiers.
func (g *identGen) finish(spec *caseSpec) {
	seen := map[string]bool{}
	shared := false
	for i := range spec.Nodes {
		id := spec.identifier(i)
		shared = shared || seen[id]
		seen[id] = true
	}
	if shared {
		spec.IdentMode = g.mode
		return
	}
	for i := range spec.Nodes {
		spec.Nodes[i].Ident = ""
	}
}

// genFault: stage id (Parent and Async are set) is to panic; draws where (fault point) and with
// which value, sets Fault / PanicKind and returns the outcome of the stage's operator.
func genFault(t *rapid.T, spec *caseSpec, id int) outKind {
	n := &spec.Nodes[id]
	at := rapid.SampledFrom([]string{"exec", "exec", "exec", "exec", "plan", "plan", "plan", "next", "next", "complete"}).Draw(t, "faultAt")
	if at == "complete" && ev.Known(sigCompletePanics) {
		at = "exec"
	}
	if ev.Known(sigSyncPanicUnderAsync) {
		// a panic that unwinds through executeStage of a registered stage into the pool's recover
		switch {
		case !n.Async && spec.hasAsyncAncestor(id):
			return outFail
		case n.Async && at == "plan" && spec.hasAsyncAncestor(id):
			return outFail
		}
	}
	n.PanicKind = rapid.SampledFrom(percent[:4]).Draw(t, "panicKind")
	switch at {
	case "plan":
		n.Fault = faultPlan
		return outOK
	case "next":
		n.Fault = faultNext
		return rapid.SampledFrom([]outKind{outOK, outOK, outOK, outIgnored}).Draw(t, "opOutcome")
	case "complete":
		n.Fault = faultComplete
		return rapid.SampledFrom([]outKind{outOK, outOK, outFail}).Draw(t, "opOutcome")
	}
	return outPanic
}

func assignReleaseOrder(t *rapid.T, spec *caseSpec) {
	if spec.Wave {
		return
	}
	var asyncIDs []int
	for i := range spec.Nodes {
		if spec.Nodes[i].Async {
			asyncIDs = append(asyncIDs, i)
		}
	}
	if len(asyncIDs) > 1 {
		perm := rapid.Permutation(asyncIDs).Draw(t, "releaseOrder")
		for prio, id := range perm {
			spec.Nodes[id].Prio = prio
		}
		// slow Complete(): in 1 case of 10, for about half of the async stages
		if rapid.SampledFrom(percent[:10]).Draw(t, "holds") == 9 {
			for _, id := range asyncIDs {
				spec.Nodes[id].HoldComplete = rapid.Bool().Draw(t, "holdComplete")
			}
		}
	}
}

// ---- properties ----------------------------------------------------------------------------------

func runAndCheck(t interface {
	Fatalf(format string, args ...any)
}, group string, spec *caseSpec) {
	res, herr := runCase(spec)
	if res != nil {
		nt, cl := classify(spec, res)
		ev.Case(group, spec.canon(), nt, cl, sample(spec, res))
	}
	if herr != nil {
		events, extra := "", ""
		if res != nil {
			events = strings.Join(res.Seq, " ")
			for _, v := range checkOracle(spec, res) {
				extra += fmt.Sprintf("\n  [%s] %s", v.Sig, v.Text)
			}
			extra += contextText(spec, res)
		}
		t.Fatalf("C19 violated: [stuck] %v (waited %v)%s\n tree:   %s\n events: %s", herr, waitBound, extra, spec.canon(), events)
	}
	if vs := checkOracle(spec, res); len(vs) > 0 {
		var sb strings.Builder
		for _, v := range vs {
			fmt.Fprintf(&sb, "\n  [%s] %s", v.Sig, v.Text)
		}
		sb.WriteString(contextText(spec, res))
		t.Fatalf("C19 violated:%s\n tree:   %s\n events: %s\n callbacks=%d err=%v",
			sb.String(), spec.canon(), strings.Join(res.Seq, " "), res.CbCount, res.CbErr)
	}
}

// TestConcurrentCompletionStress: burst cases only, in wave mode, each repeated stressReps
// times: several stages hand a failure / a worker-side panic / their completion to the state
// machine at the same instant (the compare-and-swap on "completed" and the hand-over of the
// error together with the pending counter are only contended here). Unsystematic: which
// interleavings occur is up to the scheduler; the oracle holds for every interleaving.
const stressReps = 50

func TestConcurrentCompletionStress(t *testing.T) {
	rapid.Check(t, func(t *rapid.T) {
		spec := genBurst(t, true)
		for rep := 0; rep < stressReps; rep++ {
			if rep == 0 {
				runAndCheck(t, "TestConcurrentCompletionStress", spec)
				continue
			}
			res, herr := runCase(spec)
			if herr != nil {
				t.Fatalf("C19 violated: [stuck] %v (repetition %d)\n tree:   %s", herr, rep, spec.canon())
			}
			if vs := checkOracle(spec, res); len(vs) > 0 {
				t.Fatalf("C19 violated (repetition %d): [%s] %s%s\n tree:   %s\n events: %s\n callbacks=%d err=%v",
					rep, vs[0].Sig, vs[0].Text, contextText(spec, res), spec.canon(), strings.Join(res.Seq, " "), res.CbCount, res.CbErr)
			}
		}
	})
}

// TestPipelineCompletion: harness-owned completion order (one stage released at a time).
func TestPipelineCompletion(t *testing.T) {
	rapid.Check(t, func(t *rapid.T) {
		runAndCheck(t, "TestPipelineCompletion", genSpec(t, false))
	})
}

// TestPipelineConcurrentWaves: all stages parked on their gates are released at once, so
// sibling (and cousin) stages complete concurrently on the pool; same oracle. Meant to be run
// with -race in the thorough tier.
func TestPipelineConcurrentWaves(t *testing.T) {
	rapid.Check(t, func(t *rapid.T) {
		runAndCheck(t, "TestPipelineConcurrentWaves", genSpec(t, true))
	})
}
