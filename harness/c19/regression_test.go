package c19

import (
	"testing"

	"github.com/lindb/lindb/verifharness/sim/ev"
)

// Plain reproductions (no rapid) of the violations the generated search found on the unchanged
// tree. They go through the same runner and oracle as the property tests.

func tree(nodes ...nodeSpec) *caseSpec {
	s := &caseSpec{Nodes: nodes}
	for i := range s.Nodes {
		s.Nodes[i].ID = i
		s.Nodes[i].Children = nil
	}
	for i := range s.Nodes {
		if p := s.Nodes[i].Parent; p >= 0 {
			s.Nodes[p].Children = append(s.Nodes[p].Children, i)
		}
	}
	return s
}

// D4, minimal: a sync root succeeds, its only (sync) child fails. The child's error handler
// runs first, the root completes last with err == nil and completeStage forwards only the
// error of the stage that completes last: callback(nil).
// Production shape: PhysicalPlan -> TaskSend fails; MetadataSuggest -> ShardLookup fails.
func TestRegression_D4_SyncChildFailsParentCompletesLast(t *testing.T) {
	runAndCheck(t, "TestRegression", tree(
		nodeSpec{Parent: -1, Out: outOK},
		nodeSpec{Parent: 0, Out: outFail},
	))
}

// D4: a failed shard followed by a succeeding sibling (both inline), e.g. two ShardLookup stages.
func TestRegression_D4_FailedSiblingThenOkSibling(t *testing.T) {
	runAndCheck(t, "TestRegression", tree(
		nodeSpec{Parent: -1, Out: outOK},
		nodeSpec{Parent: 0, Out: outFail},
		nodeSpec{Parent: 0, Out: outOK},
	))
}

// D4 on the pool (leaf shape: MetadataLookup -> ShardScan x2): the failing shard completes
// first, the healthy one last.
func TestRegression_D4_AsyncFailingShardCompletesFirst(t *testing.T) {
	runAndCheck(t, "TestRegression", tree(
		nodeSpec{Parent: -1, Out: outOK},
		nodeSpec{Parent: 0, Async: true, Out: outFail, Prio: 0},
		nodeSpec{Parent: 0, Async: true, Out: outOK, Prio: 1},
	))
}

// D4 with a panic that the pool routes to the stage's error handler.
func TestRegression_D4_AsyncPanickingShardCompletesFirst(t *testing.T) {
	runAndCheck(t, "TestRegression", tree(
		nodeSpec{Parent: -1, Out: outOK},
		nodeSpec{Parent: 0, Async: true, Out: outPanic, PanicKind: 2, Prio: 0},
		nodeSpec{Parent: 0, Async: true, Out: outOK, Prio: 1},
	))
}

// Second finding: a stage that runs inline on a pool worker (sync child of an async parent)
// panics. The panic unwinds through pipeline.executeStage of the child (pending was already
// incremented for it) into the pool's recover, which completes only the *parent* with the
// error: pending never reaches zero and the completion callback never fires (the request gets
// no response at all). The same path is taken when Plan() of an async child panics on the
// parent's worker.
func TestRegression_SyncPanicUnderAsyncParentNeverCompletes(t *testing.T) {
	spec := tree(
		nodeSpec{Parent: -1, Async: true, Out: outOK},
		nodeSpec{Parent: 0, Out: outPanic},
	)
	if ev.Known(sigSyncPanicUnderAsync) {
		// listed as an unrepaired finding: report it when it still reproduces, do not fail
		res, herr := runCase(spec)
		if herr != nil {
			t.Fatalf("harness: %v", herr)
		}
		for _, v := range checkOracle(spec, res) {
			if v.Sig == "callback-never" {
				ev.KnownFinding("C19", sigSyncPanicUnderAsync+": a stage that panics while running inline on a pool worker "+
					"leaves the pipeline pending for ever, the completion callback never fires")
				return
			}
			t.Fatalf("C19 violated: [%s] %s", v.Sig, v.Text)
		}
		return
	}
	runAndCheck(t, "TestRegression", spec)
}

// The orderings that already work on the unchanged tree (kept so that a fix cannot trade one
// ordering for the other): failing stage completes last; panic on the caller's goroutine.
func TestRegression_FailingStageCompletesLast(t *testing.T) {
	runAndCheck(t, "TestRegression", tree(
		nodeSpec{Parent: -1, Out: outOK},
		nodeSpec{Parent: 0, Async: true, Out: outOK, Prio: 0},
		nodeSpec{Parent: 0, Async: true, Out: outFail, Prio: 1},
	))
}

func TestRegression_SyncPanicOnCallerWithParkedSibling(t *testing.T) {
	runAndCheck(t, "TestRegression", tree(
		nodeSpec{Parent: -1, Out: outOK},
		nodeSpec{Parent: 0, Async: true, Out: outOK},
		nodeSpec{Parent: 0, Out: outPanic, PanicKind: 1},
		nodeSpec{Parent: 1, Async: true, Out: outFail},
	))
}
