package c19

import (
	"context"
	"os"
	"os/exec"
	"strings"
	"testing"
	"time"

	"github.com/lindb/lindb/verifharness/sim/ev"
)

// Plain reproductions (no rapid) of the violations the generated search found on the unchanged
// tree. They go through the same runner and oracle as the property tests.

func tree(nodes ...nodeSpec) *caseSpec {
	s := &caseSpec{Nodes: nodes}
	for i := range s.Nodes {
		s.Nodes[i].ID = i
		s.Nodes[i].Children = nil
	}
	for i := range s.Nodes {
		if p := s.Nodes[i].Parent; p >= 0 {
			s.Nodes[p].Children = append(s.Nodes[p].Children, i)
		}
	}
	return s
}

// D4, minimal: a sync root succeeds, its only (sync) child fails. The child's error handler
// runs first, the root completes last with err == nil and completeStage forwards only the
// error of the stage that completes last: callback(nil).
// Production shape: PhysicalPlan -> TaskSend fails; MetadataSuggest -> ShardLookup fails.
func TestRegression_D4_SyncChildFailsParentCompletesLast(t *testing.T) {
	runAndCheck(t, "TestRegression", tree(
		nodeSpec{Parent: -1, Out: outOK},
		nodeSpec{Parent: 0, Out: outFail},
	))
}

// D4: a failed shard followed by a succeeding sibling (both inline), e.g. two ShardLookup stages.
func TestRegression_D4_FailedSiblingThenOkSibling(t *testing.T) {
	runAndCheck(t, "TestRegression", tree(
		nodeSpec{Parent: -1, Out: outOK},
		nodeSpec{Parent: 0, Out: outFail},
		nodeSpec{Parent: 0, Out: outOK},
	))
}

// D4 on the pool (leaf shape: MetadataLookup -> ShardScan x2): the failing shard completes
// first, the healthy one last.
func TestRegression_D4_AsyncFailingShardCompletesFirst(t *testing.T) {
	runAndCheck(t, "TestRegression", tree(
		nodeSpec{Parent: -1, Out: outOK},
		nodeSpec{Parent: 0, Async: true, Out: outFail, Prio: 0},
		nodeSpec{Parent: 0, Async: true, Out: outOK, Prio: 1},
	))
}

// D4 with a panic that the pool routes to the stage's error handler.
func TestRegression_D4_AsyncPanickingShardCompletesFirst(t *testing.T) {
	runAndCheck(t, "TestRegression", tree(
		nodeSpec{Parent: -1, Out: outOK},
		nodeSpec{Parent: 0, Async: true, Out: outPanic, PanicKind: 2, Prio: 0},
		nodeSpec{Parent: 0, Async: true, Out: outOK, Prio: 1},
	))
}

// Second finding: a stage that runs inline on a pool worker (sync child of an async parent)
// panics. The panic unwinds through pipeline.executeStage of the child (pending was already
// incremented for it) into the pool's recover, which completes only the *parent* with the
// error: pending never reaches zero and the completion callback never fires (the request gets
// no response at all). The same path is taken when Plan() of an async child panics on the
// parent's worker.
func TestRegression_SyncPanicUnderAsyncParentNeverCompletes(t *testing.T) {
	spec := tree(
		nodeSpec{Parent: -1, Async: true, Out: outOK},
		nodeSpec{Parent: 0, Out: outPanic},
	)
	if ev.Known(sigSyncPanicUnderAsync) {
		// listed as an unrepaired finding: report it when it still reproduces, do not fail
		res, herr := runCase(spec)
		if herr != nil {
			t.Fatalf("harness: %v", herr)
		}
		for _, v := range checkOracle(spec, res) {
			if v.Sig == "callback-never" {
				ev.KnownFinding("C19", sigSyncPanicUnderAsync+": a stage that panics while running inline on a pool worker "+
					"leaves the pipeline pending for ever, the completion callback never fires")
				return
			}
			t.Fatalf("C19 violated: [%s] %s", v.Sig, v.Text)
		}
		return
	}
	runAndCheck(t, "TestRegression", spec)
}

// Third finding: Stage.Complete() panics. completeStage calls it while it holds the state
// machine's mutex and nothing releases the mutex when it panics.
//
// Async stage (here the root; production: shardScanStage / groupingStage.Complete collect the
// group-by tag values): the panic reaches the pool's recover, which calls the stage's error
// handler -> completeStage -> Lock() of the mutex its own goroutine still holds: the worker is
// stuck for ever, pending never reaches zero, the completion callback never fires.
func TestRegression_CompletePanicsOfAsyncStageNeverCompletes(t *testing.T) {
	spec := tree(
		nodeSpec{Parent: -1, Async: true, Out: outOK, Fault: faultComplete},
	)
	if ev.Known(sigCompletePanics) {
		// listed as an unrepaired finding: report it when it still reproduces, do not fail
		res, _ := runCase(spec) // (the stuck worker keeps the pool from draining)
		if res == nil {
			t.Fatalf("harness: no result")
		}
		for _, v := range checkOracle(spec, res) {
			if v.Sig == "callback-never" {
				ev.KnownFinding("C19", sigCompletePanics+": a panic inside Stage.Complete() leaves the state machine's "+
					"mutex locked; the completion callback never fires and every other stage blocks in completeStage")
				return
			}
			t.Fatalf("C19 violated: [%s] %s", v.Sig, v.Text)
		}
		return
	}
	runAndCheck(t, "TestRegression", spec)
}

// Same finding, inline stage on the caller's goroutine: executeStage's recover completes the
// pipeline (once, with the error), but the mutex stays locked: the sibling that is still
// running on the pool blocks in completeStage for ever (its worker is never given back).
// Also when the stage failed: Complete() is then called from the error handler.
func TestRegression_CompletePanicsOfInlineStageWedgesRunningSibling(t *testing.T) {
	if ev.Known(sigCompletePanics) {
		t.Skip("known finding " + sigCompletePanics + " (reported by TestRegression_CompletePanicsOfAsyncStageNeverCompletes)")
	}
	for _, out := range []outKind{outOK, outFail} {
		runAndCheck(t, "TestRegression", tree(
			nodeSpec{Parent: -1, Out: outOK},
			nodeSpec{Parent: 0, Async: true, Out: outOK},
			nodeSpec{Parent: 0, Out: out, Fault: faultComplete, PanicKind: 2},
		))
	}
}

// Same finding, worst consequence: the operator of an async stage panics, the pool's recover
// calls the stage's error handler -> completeStage -> Complete(), which panics as well: this
// second panic is raised inside the deferred function of the worker pool, outside every
// recover: the whole process (storage node / broker) is killed. Also for a stage that runs
// inline on the worker of an async parent. The shape runs in a child process (the test binary
// itself) because on a tree with the defect it does not return.
func TestRegression_CompletePanicsInsidePoolPanicHandler(t *testing.T) {
	if ev.Known(sigCompletePanics) {
		t.Skip("known finding " + sigCompletePanics + " (reported by TestRegression_CompletePanicsOfAsyncStageNeverCompletes)")
	}
	ctx, cancel := context.WithTimeout(context.Background(), 2*time.Minute)
	defer cancel()
	cmd := exec.CommandContext(ctx, os.Args[0], "-test.run=^TestRegressionHelper_CompletePanicsInsidePoolPanicHandler$", "-test.count=1")
	for _, e := range os.Environ() {
		if !strings.HasPrefix(e, "VERIF_EV_OUT=") { // the child must not overwrite the evidence of this process
			cmd.Env = append(cmd.Env, e)
		}
	}
	cmd.Env = append(cmd.Env, "C19_HELPER=1")
	out, err := cmd.CombinedOutput()
	if err == nil {
		return
	}
	text := string(out)
	if len(text) > 3000 {
		text = text[:3000] + "\n..."
	}
	if strings.Contains(text, "C19 violated") {
		t.Fatalf("%s", text)
	}
	t.Fatalf("C19 violated: [process-killed] a stage's operator panics on the pool and its Complete() panics inside the pool's "+
		"panic handler: the process running the pipeline died (%v) instead of completing the pipeline once with an error\n%s", err, text)
}

func TestRegressionHelper_CompletePanicsInsidePoolPanicHandler(t *testing.T) {
	if os.Getenv("C19_HELPER") != "1" {
		t.Skip("child process of TestRegression_CompletePanicsInsidePoolPanicHandler")
	}
	completeFaultUnguarded = true
	// the stage's own operator panics
	runAndCheck(t, "TestRegression", tree(
		nodeSpec{Parent: -1, Out: outOK},
		nodeSpec{Parent: 0, Async: true, Out: outPanic, Fault: faultComplete, PanicKind: 1},
		nodeSpec{Parent: 0, Async: true, Out: outOK},
	))
	// an inline child panics on the stage's worker
	runAndCheck(t, "TestRegression", tree(
		nodeSpec{Parent: -1, Async: true, Out: outOK, Fault: faultComplete},
		nodeSpec{Parent: 0, Out: outPanic, PanicKind: 2},
	))
	// planning of an async child panics on the stage's worker
	runAndCheck(t, "TestRegression", tree(
		nodeSpec{Parent: -1, Out: outOK},
		nodeSpec{Parent: 0, Async: true, Out: outOK, Fault: faultComplete, PanicKind: 3},
		nodeSpec{Parent: 1, Async: true, Fault: faultPlan},
	))
}

// The orderings that already work on the unchanged tree (kept so that a fix cannot trade one
// ordering for the other): failing stage completes last; panic on the caller's goroutine.
func TestRegression_FailingStageCompletesLast(t *testing.T) {
	runAndCheck(t, "TestRegression", tree(
		nodeSpec{Parent: -1, Out: outOK},
		nodeSpec{Parent: 0, Async: true, Out: outOK, Prio: 0},
		nodeSpec{Parent: 0, Async: true, Out: outFail, Prio: 1},
	))
}

func TestRegression_SyncPanicOnCallerWithParkedSibling(t *testing.T) {
	runAndCheck(t, "TestRegression", tree(
		nodeSpec{Parent: -1, Out: outOK},
		nodeSpec{Parent: 0, Async: true, Out: outOK},
		nodeSpec{Parent: 0, Out: outPanic, PanicKind: 1},
		nodeSpec{Parent: 1, Async: true, Out: outFail},
	))
}
