// The "leaf class" of C19: real leaf pipelines of a storage node.
//
// The production request path of a storage node is run in the test process:
//
//	query.TaskHandler.Handle(stream)            (receive loop, task pool, error/panic answer)
//	  -> leafTaskProcessor.Process              (plan / target / database / payload validation)
//	    -> processDataSearch / processMetadataSuggest
//	      -> query.NewExecutePipeline + the production leaf stages
//	         (Metadata Lookup -> Shard Scan[n] -> Grouping -> Data Load, Metadata Suggest -> Shard Lookup)
//	      -> LeafExecuteContext.SendResponse -> rpc.TaskServerFactory.GetStream(receiver).Send
//
// over a real storage engine (sim/node) with a small fixed data set, a production
// rpc.TaskServerFactory and a harness stream (loop-back transport: Recv hands out the generated
// requests, Send records the responses per receiver). Failures are injected through views of
// tsdb.Engine / Database / Shard / DataFamily / index databases / result sets that embed the real
// objects and fail (error or panic) at ONE generated fault point of ONE request; besides the
// injected faults the generator produces the failures legal input reaches: undecodable plan, a plan
// that does not name this node, unknown database, undecodable payload, unknown metric / field /
// group-by key / where key, no data family in range, a shard the node does not have.
//
// Completion order is owned by the harness through the width of the executor pools: with one
// worker per pool the stages of a request run one after the other in plan order, so the position of
// the failing shard in the (generated) shard list decides whether the failing stage completes
// first, in the middle or last. With wide pools the stages really run concurrently.
//
// No wall clock decides anything: after the last request was handed to the handler the pools
// are stopped in pipeline order (task -> filtering -> grouping -> scanner); Pool.Stop joins the
// workers and runs what is still queued, so afterwards no goroutine is left that could send, and
// the response counts are final ("none" and "two" are both definitive).
//
// Oracle, per request: every receiver got exactly one response (a failure before the pipeline
// is answered once on the requesting stream), Completed, with the request id; the response
// carries an error iff the request failed (legal-input failure by an independent model of the
// fixture, or the injected fault fired); a successful data answer is a real answer (time range,
// interval, field specs, the groups and fields the model expects) and equals the answer of the same
// request run alone without faults.
package c19

import (
	"context"
	"encoding/hex"
	"errors"
	"fmt"
	"io"
	"os"
	"runtime"
	"sort"
	"strings"
	"sync"
	"sync/atomic"
	"testing"
	"time"

	"google.golang.org/grpc"
	"google.golang.org/grpc/metadata"
	"pgregory.net/rapid"

	"github.com/lindb/common/pkg/encoding"
	"github.com/lindb/common/pkg/ltoml"
	protoMetricsV1 "github.com/lindb/common/proto/gen/v1/linmetrics"
	"github.com/lindb/roaring"

	"github.com/lindb/lindb/config"
	"github.com/lindb/lindb/constants"
	"github.com/lindb/lindb/flow"
	"github.com/lindb/lindb/index"
	"github.com/lindb/lindb/internal/concurrent"
	"github.com/lindb/lindb/internal/linmetric"
	"github.com/lindb/lindb/metrics"
	"github.com/lindb/lindb/models"
	"github.com/lindb/lindb/pkg/option"
	"github.com/lindb/lindb/pkg/timeutil"
	protoCommonV1 "github.com/lindb/lindb/proto/gen/v1/common"
	"github.com/lindb/lindb/query"
	querycontext "github.com/lindb/lindb/query/context"
	"github.com/lindb/lindb/rpc"
	"github.com/lindb/lindb/series/field"
	"github.com/lindb/lindb/series/metric"
	"github.com/lindb/lindb/series/tag"
	"github.com/lindb/lindb/sql"
	"github.com/lindb/lindb/sql/stmt"
	"github.com/lindb/lindb/tsdb"
	"github.com/lindb/lindb/verifharness/sim/ev"
	"github.com/lindb/lindb/verifharness/sim/node"
)

const (
	leafDB        = "c19leaf"
	leafIndicator = "10.0.0.1:2891" // this storage node
	rootIndicator = "10.0.0.9:9000" // the requester (first receiver)
	peerIndicator = "10.0.0.8:9000" // a second receiver (intermediate compute node)
	unknownShard  = models.ShardID(7)
)

// ---- fixture --------------------------------------------------------------------------------

// point is one written data point of the fixture (the model of the data).
type point struct {
	shard  models.ShardID
	metric string
	tags   map[string]string
	ts     int64
}

type leafFixture struct {
	dir    string
	n      *node.Node
	opt    *option.DatabaseOption
	cfg    models.Database
	points []point
}

var leafBase = time.Date(2023, 5, 1, 10, 0, 0, 0, time.UTC).UnixMilli()

// schema of the fixture: metric -> tag keys / fields.
var (
	leafTagKeys = map[string][]string{"cpu": {"host", "dc"}, "solo": {"host"}}
	leafFields  = map[string][]string{"cpu": {"f", "g"}, "solo": {"f"}}
)

func mkPoint(name string, ts int64, tags map[string]string, fields []string, v float64) *protoMetricsV1.Metric {
	m := &protoMetricsV1.Metric{Name: name, Timestamp: ts}
	keys := make([]string, 0, len(tags))
	for k := range tags {
		keys = append(keys, k)
	}
	sort.Strings(keys)
	for _, k := range keys {
		m.Tags = append(m.Tags, &protoMetricsV1.KeyValue{Key: k, Value: tags[k]})
	}
	for _, f := range fields {
		tp := protoMetricsV1.SimpleFieldType_DELTA_SUM
		if f == "g" {
			tp = protoMetricsV1.SimpleFieldType_Max
		}
		m.SimpleFields = append(m.SimpleFields, &protoMetricsV1.SimpleField{Name: f, Type: tp, Value: v})
	}
	return m
}

// startLeafFixture opens an engine with database c19leaf (shards 0,1,2; 10s interval, one family
// per hour) and writes: metric cpu{host,dc}(f sum, g max): shard 0 hosts a,b; shard 1 hosts b,c;
// shard 2 hosts a,c (dc=x for a, y otherwise); metric solo{host}(f) on shard 0 only. Every series
// has a point in the first slots of hour 10 and hour 11 (flushed to files) and one in the next
// slot of both hours (left in memory), so every shard has two families, each with a file and a
// memory result set.
func startLeafFixture(t testing.TB) *leafFixture {
	if _, off := time.Now().Zone(); off != 0 {
		t.Fatalf("harness: run with TZ=UTC (the statements carry wall-clock times)")
	}
	dir, err := os.MkdirTemp("", "c19-leaf-")
	if err != nil {
		t.Fatal(err)
	}
	n, err := node.Start(dir)
	if err != nil {
		os.RemoveAll(dir)
		t.Fatal(err)
	}
	fx := &leafFixture{dir: dir, n: n, opt: node.DBOption(timeutil.Interval(10_000))}
	fx.cfg = models.Database{Name: leafDB, Option: fx.opt, NumOfShard: 3, ReplicaFactor: 1}
	fail := func(err error) {
		fx.close()
		t.Fatal(err)
	}
	if err := n.CreateDB(leafDB, fx.opt, 0, 1, 2); err != nil {
		fail(err)
	}
	hosts := map[models.ShardID][]string{0: {"a", "b"}, 1: {"b", "c"}, 2: {"a", "c"}}
	dcOf := map[string]string{"a": "x", "b": "y", "c": "y"}
	write := func(slot int64) {
		for shard := models.ShardID(0); shard < 3; shard++ {
			var ms []*protoMetricsV1.Metric
			for _, hour := range []int64{0, 1} {
				ts := leafBase + hour*3600_000 + slot*10_000
				for i, h := range hosts[shard] {
					tags := map[string]string{"host": h, "dc": dcOf[h]}
					ms = append(ms, mkPoint("cpu", ts, tags, leafFields["cpu"], float64(1+int(shard)*4+i)))
					fx.points = append(fx.points, point{shard: shard, metric: "cpu", tags: tags, ts: ts})
				}
				if shard == 0 {
					tags := map[string]string{"host": "a"}
					ms = append(ms, mkPoint("solo", ts, tags, leafFields["solo"], 3))
					fx.points = append(fx.points, point{shard: shard, metric: "solo", tags: tags, ts: ts})
				}
			}
			if err := n.Write(leafDB, shard, ms); err != nil {
				fail(err)
			}
		}
	}
	write(0)
	if err := n.FlushDB(leafDB); err != nil {
		fail(err)
	}
	write(1)
	return fx
}

func (fx *leafFixture) close() {
	fx.n.Close()
	os.RemoveAll(fx.dir)
}

// ---- request description ----------------------------------------------------------------------

type pred struct {
	Key, Val string
	Neg      bool
}

type whereSpec struct {
	Preds []pred
	Or    bool
}

func (w whereSpec) sql() string {
	var parts []string
	for _, p := range w.Preds {
		op := "="
		if p.Neg {
			op = "!="
		}
		parts = append(parts, fmt.Sprintf("%s%s'%s'", p.Key, op, p.Val))
	}
	if w.Or {
		return strings.Join(parts, " or ")
	}
	return strings.Join(parts, " and ")
}

// fault points (where the injected failure is raised).
const (
	fpNone          = ""
	fpGetDatabase   = "engine.GetDatabase"     // panic, before the pipeline exists (inside Process)
	fpGetMetricID   = "meta.GetMetricID"       // root stage
	fpGetSchema     = "meta.GetSchema"         // root stage
	fpFindTagValues = "meta.FindTagValues"     // root stage, where clause with a known key
	fpSuggest       = "meta.Suggest"           // metadata request: SuggestNamespace / SuggestMetrics / SuggestTagValues
	fpFamilies      = "shard.GetDataFamilies"  // panic inside shardScanStage.Plan(): inline, in the goroutine of the parent
	fpSeries        = "index.Series"           // first operator of a shard scan / shard lookup
	fpFilter        = "family.Filter"          // data family read, Nth family
	fpGroupingCtx   = "index.GroupingContext"  // group by: grouping context build (last but one operator of the scan)
	fpBuildGroup    = "grouping.BuildGroup"    // panic in the grouping stage
	fpRSLoad        = "resultset.Load"         // panic in the data load stage, Nth result set
	fpLoaderLoad    = "loader.Load"            // panic in the data load stage while reading
	fpCollectValues = "meta.CollectTagValues"  // grouping tag collection (runs inside Stage.Complete of the last grouping task)
	fpLimits        = "limits.MaxSeriesPerQuery" // legal: series limit 1 (outcome not modelled)
)

type faultSpec struct {
	Point string
	Panic bool
	// Cancel: nothing fails at the point; instead the context of the requesting stream (the parent of the
	// task context of every request of the stream: TaskHandler.process derives WithTimeout from it) is
	// cancelled there - the upstream went away / gave up while the stage was executing - and the storage
	// call goes on normally.
	Cancel bool
	Shard models.ShardID // shard level points
	Nth   int            // which call of the point fails (family / result set)
}

type leafReq struct {
	Meta      bool   // metadata suggest request
	Pre       string // failure before the pipeline: "", bad-plan, not-a-leaf, no-database, bad-payload
	Metric    string
	Select    []string // data
	Where     whereSpec
	GroupBy   []string
	Range     string // both | first | none
	MetaKind  string // namespaces | metrics | fields | tagkeys | tagvalues
	MetaKey   string
	Shards    []models.ShardID
	Receivers int
	Explain   bool
	Fault     faultSpec

	excludedKnown bool // the drawn shape was the one of sigCollectErrorAnswersEarly and was replaced
}

func (r *leafReq) timeRange() (int64, int64) {
	switch r.Range {
	case "first":
		return leafBase, leafBase + 30*60_000
	case "none":
		return leafBase + 48*3600_000, leafBase + 49*3600_000
	default:
		return leafBase, leafBase + 90*60_000
	}
}

func fmtTime(ms int64) string { return time.UnixMilli(ms).UTC().Format("2006-01-02 15:04:05") }

func (r *leafReq) sqlText() string {
	if r.Meta {
		switch r.MetaKind {
		case "namespaces":
			return "show namespaces"
		case "metrics":
			return "show metrics"
		case "fields":
			return "show fields from " + r.Metric
		case "tagkeys":
			return "show tag keys from " + r.Metric
		default:
			s := fmt.Sprintf("show tag values from %s with key=%s", r.Metric, r.MetaKey)
			if len(r.Where.Preds) > 0 {
				s += " where " + r.Where.sql()
			}
			return s
		}
	}
	var b strings.Builder
	if r.Explain {
		b.WriteString("explain ")
	}
	from, to := r.timeRange()
	fmt.Fprintf(&b, "select %s from %s where ", strings.Join(r.Select, ","), r.Metric)
	if len(r.Where.Preds) > 0 {
		fmt.Fprintf(&b, "(%s) and ", r.Where.sql())
	}
	fmt.Fprintf(&b, "time>='%s' and time<='%s'", fmtTime(from), fmtTime(to))
	if len(r.GroupBy) > 0 {
		fmt.Fprintf(&b, " group by %s", strings.Join(r.GroupBy, ","))
	}
	return b.String()
}

func (r *leafReq) canon() string {
	c := ""
	if r.Fault.Cancel {
		c = "/cancel"
	}
	return fmt.Sprintf("%s|pre=%s|sh=%v|rc=%d|f=%s/%v/%d/%d%s", r.sqlText(), r.Pre, r.Shards, r.Receivers,
		r.Fault.Point, r.Fault.Panic, r.Fault.Shard, r.Fault.Nth, c)
}

// refKey identifies the fault-free twin of a data request.
func (r *leafReq) refKey() string {
	sh := append([]models.ShardID(nil), r.Shards...)
	sort.Slice(sh, func(i, j int) bool { return sh[i] < sh[j] })
	q := *r
	q.Explain = false
	return fmt.Sprintf("%s|%v", q.sqlText(), sh)
}

func contains(list []string, s string) bool {
	for _, x := range list {
		if x == s {
			return true
		}
	}
	return false
}

// ---- model of the legal outcome ------------------------------------------------------------------

// legalOutcome: "error" - the request fails by itself; "ok" - it succeeds; "open" - not modelled.
func (r *leafReq) legalOutcome() string {
	if r.Pre != "" {
		return "error"
	}
	if r.Meta {
		// every failure legal input reaches in a metadata request is a not-found, which the leaf
		// answers as an empty suggestion.
		return "ok"
	}
	keys, ok := leafTagKeys[r.Metric]
	if !ok {
		return "error" // metric not found
	}
	for _, f := range r.Select {
		if !contains(leafFields[r.Metric], f) {
			return "error" // field not found
		}
	}
	for _, g := range r.GroupBy {
		if !contains(keys, g) {
			return "error" // group by key not found
		}
	}
	if len(r.Where.Preds) > 0 {
		known := 0
		for _, p := range r.Where.Preds {
			if contains(keys, p.Key) {
				known++
			}
		}
		if known == 0 {
			return "error" // no tag key of the where clause exists
		}
	}
	if r.Fault.Point == fpLimits {
		return "open"
	}
	return "ok"
}

func (r *leafReq) matches(p *point) bool {
	if p.metric != r.Metric {
		return false
	}
	found := false
	for _, s := range r.Shards {
		if s == p.shard {
			found = true
		}
	}
	if !found {
		return false
	}
	from, to := r.timeRange()
	if p.ts < from || p.ts > to {
		return false
	}
	if len(r.Where.Preds) == 0 {
		return true
	}
	res := !r.Where.Or
	for _, pr := range r.Where.Preds {
		v, known := p.tags[pr.Key]
		m := known && ((v == pr.Val) != pr.Neg)
		if r.Where.Or {
			res = res || m
		} else {
			res = res && m
		}
	}
	return res
}

// expectedGroups returns the tags strings of the series a successful answer must contain.
func (r *leafReq) expectedGroups(fx *leafFixture) []string {
	set := map[string]bool{}
	for i := range fx.points {
		p := &fx.points[i]
		if !r.matches(p) {
			continue
		}
		vals := make([]string, len(r.GroupBy))
		for j, g := range r.GroupBy {
			vals[j] = p.tags[g]
		}
		set[strings.Join(vals, ",")] = true
	}
	out := make([]string, 0, len(set))
	for k := range set {
		out = append(out, k)
	}
	sort.Strings(out)
	return out
}

// sigCollectErrorAnswersEarly: finding of the leaf class on the unchanged tree. When the collection of
// the group-by tag values fails (MetaDB.CollectTagValues returns an error), LeafGroupingContext answers
// the request itself - LeafExecuteContext.SendResponse(err), which also releases the request's shard
// contexts and closes their result sets - from inside Stage.Complete() of the last grouping task, while
// the data-load stages of that task are queued or running: they load from closed result sets and
// race with the release (flow.TimeSegmentContext.Release iterates the map the stages fill). No stage
// panicked, so the completion has to wait for every started stage. See
// TestRegression_LeafCollectErrorAnswersBeforeStagesFinished and
// proposed_fix_leaf_collect_error_answers_early.diff. While the finding is listed in
// known_findings.json - or reported and not yet listed / repaired (leafReportedNotListed) - exactly
// that shape is taken out of the generator: an injected failure of CollectTagValues is a panic (which
// the state machine turns into the pipeline's error), not a returned error. A non-empty
// C19_ASSERT_REPORTED lifts the exclusion (to validate a fix).
const sigCollectErrorAnswersEarly = "C19/leaf-collect-error-answers-before-stages-finished"

var leafReportedNotListed = map[string]bool{} // the defect is repaired in /repo (ca6ddd1): the shape is generated and asserted

func leafExcluded(sig string) bool {
	return ev.Known(sig) || (leafReportedNotListed[sig] && os.Getenv("C19_ASSERT_REPORTED") == "")
}

// ---- per-request run state, fault injection ---------------------------------------------------------

var errInjected = errors.New("c19: injected storage failure")

type reqState struct {
	idx   int
	req   *leafReq
	id    string
	run   *leafRun
	fired atomic.Int32
	calls sync.Map // point/shard -> *atomic.Int32

	// storage calls of the request's stages relative to its (first) response
	inflight  atomic.Int32
	responded atomic.Bool
	late      atomic.Int32 // calls that were running when the response was sent, or began afterwards
	lateWhat  atomic.Value // string: the first of them
}

// enter marks a storage call of a stage of the request; the returned func marks its end.
func (st *reqState) enter(what string) func() {
	st.inflight.Add(1)
	if st.responded.Load() {
		if st.late.Add(1) == 1 {
			st.lateWhat.Store(what + " began after the response")
		}
	}
	return func() { st.inflight.Add(-1) }
}

// answered is called when a response of the request is sent.
func (st *reqState) answered() {
	if st.responded.Swap(true) {
		return
	}
	if n := st.inflight.Load(); n > 0 {
		if st.late.Add(1) == 1 {
			st.lateWhat.Store(fmt.Sprintf("%d storage calls of the request's stages were running when the response was sent", n))
		}
	}
}

// hit is called by a view at a fault point; it raises the planned failure when this is the
// planned point (and shard, and call number). Points that cannot return an error always panic.
func (st *reqState) hit(point string, shard models.ShardID, canErr bool) error {
	f := st.req.Fault
	if f.Point != point {
		return nil
	}
	switch point {
	case fpFamilies, fpSeries, fpFilter, fpGroupingCtx, fpBuildGroup, fpRSLoad, fpLoaderLoad:
		if f.Shard != shard {
			return nil
		}
	}
	key := fmt.Sprintf("%s/%d", point, shard)
	c, _ := st.calls.LoadOrStore(key, new(atomic.Int32))
	n := int(c.(*atomic.Int32).Add(1)) - 1
	if n != f.Nth {
		return nil
	}
	st.fired.Add(1)
	if f.Cancel {
		// the task context becomes done while this stage executes (cancellation of a cancelCtx parent
		// reaches its children before cancel returns); the storage call itself succeeds
		st.run.cancelFired.Store(true)
		st.run.cancelStream()
		return nil
	}
	if f.Panic || !canErr {
		panic(fmt.Sprintf("c19: injected panic at %s (request %d)", point, st.idx))
	}
	return errInjected
}

type engineView struct {
	tsdb.Engine
	inner tsdb.Engine
	run   *leafRun
}

func (e *engineView) GetDatabase(name string) (tsdb.Database, bool) {
	i := strings.IndexByte(name, '#')
	if i < 0 {
		return e.inner.GetDatabase(name)
	}
	var idx int
	fmt.Sscanf(name[i+1:], "%d", &idx)
	st := e.run.states[idx]
	_ = st.hit(fpGetDatabase, 0, false)
	db, ok := e.inner.GetDatabase(name[:i])
	if !ok {
		return nil, false
	}
	return &dbView{Database: db, st: st}, true
}

type dbView struct {
	tsdb.Database
	st *reqState
}

func (d *dbView) ExecutorPool() *tsdb.ExecutorPool { return d.st.run.pools }
func (d *dbView) MetaDB() index.MetricMetaDatabase {
	return &metaView{MetricMetaDatabase: d.Database.MetaDB(), st: d.st}
}
func (d *dbView) GetShard(id models.ShardID) (tsdb.Shard, bool) {
	s, ok := d.Database.GetShard(id)
	if !ok {
		return nil, false
	}
	return &shardView{Shard: s, db: d, st: d.st}, true
}
func (d *dbView) GetLimits() *models.Limits {
	if d.st.req.Fault.Point == fpLimits {
		l := models.NewDefaultLimits()
		l.MaxSeriesPerQuery = 1
		return l
	}
	return d.Database.GetLimits()
}

type metaView struct {
	index.MetricMetaDatabase
	st *reqState
}

func (m *metaView) GetMetricID(ns, name string) (metric.ID, error) {
	defer m.st.enter("MetaDB.GetMetricID")()
	if err := m.st.hit(fpGetMetricID, 0, true); err != nil {
		return 0, err
	}
	return m.MetricMetaDatabase.GetMetricID(ns, name)
}
func (m *metaView) GetSchema(id metric.ID) (*metric.Schema, error) {
	defer m.st.enter("MetaDB.GetSchema")()
	if err := m.st.hit(fpGetSchema, 0, true); err != nil {
		return nil, err
	}
	return m.MetricMetaDatabase.GetSchema(id)
}
func (m *metaView) FindTagValueDsByExpr(id tag.KeyID, expr stmt.TagFilter) (*roaring.Bitmap, error) {
	defer m.st.enter("MetaDB.FindTagValueDsByExpr")()
	if err := m.st.hit(fpFindTagValues, 0, true); err != nil {
		return nil, err
	}
	return m.MetricMetaDatabase.FindTagValueDsByExpr(id, expr)
}
func (m *metaView) CollectTagValues(id tag.KeyID, ids *roaring.Bitmap, out map[uint32]string) error {
	defer m.st.enter("MetaDB.CollectTagValues")()
	if err := m.st.hit(fpCollectValues, 0, true); err != nil {
		return err
	}
	return m.MetricMetaDatabase.CollectTagValues(id, ids, out)
}
func (m *metaView) SuggestNamespace(prefix string, limit int) ([]string, error) {
	defer m.st.enter("MetaDB.SuggestNamespace")()
	if err := m.st.hit(fpSuggest, 0, true); err != nil {
		return nil, err
	}
	return m.MetricMetaDatabase.SuggestNamespace(prefix, limit)
}
func (m *metaView) SuggestMetrics(ns, prefix string, limit int) ([]string, error) {
	defer m.st.enter("MetaDB.SuggestMetrics")()
	if err := m.st.hit(fpSuggest, 0, true); err != nil {
		return nil, err
	}
	return m.MetricMetaDatabase.SuggestMetrics(ns, prefix, limit)
}
func (m *metaView) SuggestTagValues(id tag.KeyID, prefix string, limit int) ([]string, error) {
	defer m.st.enter("MetaDB.SuggestTagValues")()
	if err := m.st.hit(fpSuggest, 0, true); err != nil {
		return nil, err
	}
	return m.MetricMetaDatabase.SuggestTagValues(id, prefix, limit)
}

type shardView struct {
	tsdb.Shard
	db *dbView
	st *reqState
}

func (s *shardView) Database() tsdb.Database { return s.db }
func (s *shardView) IndexDB() index.MetricIndexDatabase {
	return &indexView{MetricIndexDatabase: s.Shard.IndexDB(), st: s.st, shard: s.Shard.ShardID()}
}
func (s *shardView) GetDataFamilies(tp timeutil.IntervalType, tr timeutil.TimeRange) []tsdb.DataFamily {
	defer s.st.enter("Shard.GetDataFamilies")()
	_ = s.st.hit(fpFamilies, s.Shard.ShardID(), false)
	fs := s.Shard.GetDataFamilies(tp, tr)
	// production order is the order of a map iteration; the call number of a family must not depend on it
	sort.Slice(fs, func(i, j int) bool { return fs[i].FamilyTime() < fs[j].FamilyTime() })
	out := make([]tsdb.DataFamily, len(fs))
	for i, f := range fs {
		out[i] = &familyView{DataFamily: f, st: s.st, shard: s.Shard.ShardID()}
	}
	return out
}

type indexView struct {
	index.MetricIndexDatabase
	st    *reqState
	shard models.ShardID
}

func (x *indexView) GetSeriesIDsByTagValueIDs(id tag.KeyID, ids *roaring.Bitmap) (*roaring.Bitmap, error) {
	defer x.st.enter("IndexDB.GetSeriesIDsByTagValueIDs")()
	if err := x.st.hit(fpSeries, x.shard, true); err != nil {
		return nil, err
	}
	return x.MetricIndexDatabase.GetSeriesIDsByTagValueIDs(id, ids)
}
func (x *indexView) GetSeriesIDsForTag(id tag.KeyID) (*roaring.Bitmap, error) {
	defer x.st.enter("IndexDB.GetSeriesIDsForTag")()
	if err := x.st.hit(fpSeries, x.shard, true); err != nil {
		return nil, err
	}
	return x.MetricIndexDatabase.GetSeriesIDsForTag(id)
}
func (x *indexView) GetSeriesIDsForMetric(id metric.ID) (*roaring.Bitmap, error) {
	defer x.st.enter("IndexDB.GetSeriesIDsForMetric")()
	if err := x.st.hit(fpSeries, x.shard, true); err != nil {
		return nil, err
	}
	return x.MetricIndexDatabase.GetSeriesIDsForMetric(id)
}
func (x *indexView) GetGroupingContext(ctx *flow.ShardExecuteContext) error {
	defer x.st.enter("IndexDB.GetGroupingContext")()
	if err := x.st.hit(fpGroupingCtx, x.shard, true); err != nil {
		return err
	}
	if err := x.MetricIndexDatabase.GetGroupingContext(ctx); err != nil {
		return err
	}
	if ctx.GroupingContext != nil {
		ctx.GroupingContext = &groupingView{GroupingContext: ctx.GroupingContext, st: x.st, shard: x.shard}
	}
	return nil
}

type groupingView struct {
	flow.GroupingContext
	st    *reqState
	shard models.ShardID
}

func (g *groupingView) BuildGroup(ctx *flow.DataLoadContext) {
	defer g.st.enter("GroupingContext.BuildGroup")()
	_ = g.st.hit(fpBuildGroup, g.shard, false)
	g.GroupingContext.BuildGroup(ctx)
}

type familyView struct {
	tsdb.DataFamily
	st    *reqState
	shard models.ShardID
}

func (f *familyView) Filter(ctx *flow.ShardExecuteContext) ([]flow.FilterResultSet, error) {
	defer f.st.enter("DataFamily.Filter")()
	if err := f.st.hit(fpFilter, f.shard, true); err != nil {
		return nil, err
	}
	rs, err := f.DataFamily.Filter(ctx)
	if err != nil {
		return rs, err
	}
	out := make([]flow.FilterResultSet, len(rs))
	for i := range rs {
		out[i] = &rsView{FilterResultSet: rs[i], st: f.st, shard: f.shard}
	}
	return out, nil
}

type rsView struct {
	flow.FilterResultSet
	st    *reqState
	shard models.ShardID
}

func (r *rsView) Load(ctx *flow.DataLoadContext) flow.DataLoader {
	defer r.st.enter("FilterResultSet.Load")()
	_ = r.st.hit(fpRSLoad, r.shard, false)
	l := r.FilterResultSet.Load(ctx)
	if l == nil {
		return nil
	}
	return &loaderView{DataLoader: l, st: r.st, shard: r.shard}
}

type loaderView struct {
	flow.DataLoader
	st    *reqState
	shard models.ShardID
}

func (l *loaderView) Load(ctx *flow.DataLoadContext) {
	defer l.st.enter("DataLoader.Load")()
	_ = l.st.hit(fpLoaderLoad, l.shard, false)
	l.DataLoader.Load(ctx)
}

// ---- loop-back transport ------------------------------------------------------------------------------

type leafStream struct {
	grpc.ServerStream
	ctx   context.Context
	name  string
	reqs  chan *protoCommonV1.TaskRequest
	run   *leafRun
}

func (s *leafStream) Context() context.Context { return s.ctx }

func (s *leafStream) Recv() (*protoCommonV1.TaskRequest, error) {
	s.run.mu.Lock()
	s.run.recvCalls++
	s.run.cond.Broadcast()
	s.run.mu.Unlock()
	r, ok := <-s.reqs
	if !ok {
		return nil, io.EOF
	}
	return r, nil
}

func (s *leafStream) Send(resp *protoCommonV1.TaskResponse) error {
	if st, ok := s.run.byID[resp.RequestID]; ok {
		st.answered()
	}
	s.run.mu.Lock()
	s.run.got[s.name] = append(s.run.got[s.name], resp)
	s.run.mu.Unlock()
	return nil
}

type leafCase struct {
	Reqs        []*leafReq
	Width       int // workers of each executor pool (1: stages run one after the other in plan order)
	TaskWorkers int // workers of the task pool of the handler
}

type leafRun struct {
	fx     *leafFixture
	c      *leafCase
	states []*reqState
	byID   map[string]*reqState
	pools  *tsdb.ExecutorPool

	cancelStream context.CancelFunc // cancels the context of the requesting stream
	cancelFired  atomic.Bool

	mu        sync.Mutex
	cond      *sync.Cond
	recvCalls int
	aborted   bool
	got       map[string][]*protoCommonV1.TaskResponse // receiver -> responses in arrival order
}

var leafCaseNo atomic.Int64

var (
	leafStatsMu  sync.Mutex
	leafStatsGen int
	leafStats    map[string]*metrics.ConcurrentStatistics
)

// leafPoolStats returns the statistics of one pool role. A pool limits its workers by the
// WorkersAlive gauge of its statistics, so every pool needs its own; they are reused between
// cases (all workers are joined at the end of a case) and replaced after a case that could not
// be drained.
func leafPoolStats(role string) *metrics.ConcurrentStatistics {
	leafStatsMu.Lock()
	defer leafStatsMu.Unlock()
	if leafStats == nil {
		leafStats = map[string]*metrics.ConcurrentStatistics{}
		leafStatsGen++
	}
	s, ok := leafStats[role]
	if !ok {
		s = metrics.NewConcurrentStatistics(fmt.Sprintf("c19-leaf-%s-%d", role, leafStatsGen), linmetric.StorageRegistry)
		leafStats[role] = s
	}
	return s
}

func abandonLeafStats() {
	leafStatsMu.Lock()
	leafStats = nil
	leafStatsMu.Unlock()
}

// Liveness guard of the leaf harness (a stage that never returns must not hang the run; never reached
// on a healthy tree). It is not a wall-clock deadline: the box may be so loaded (CPU, memory reclaim)
// that the test process is stalled for a minute. A heartbeat goroutine counts how often it was woken
// from a 10 ms sleep; a wait gives up only after leafLivenessTicks heartbeats, i.e. after the scheduler
// of this process has handed out that many turns while the awaited event did not happen (>= 30 s on an
// idle box, correspondingly longer on a starved one), and only if the event has still not happened.
const leafLivenessTicks = 3000

var (
	leafHeartbeat     atomic.Int64
	leafHeartbeatOnce sync.Once
)

func startLeafHeartbeat() {
	leafHeartbeatOnce.Do(func() {
		go func() {
			for {
				time.Sleep(10 * time.Millisecond)
				leafHeartbeat.Add(1)
			}
		}()
	})
}

func waitBounded(done <-chan struct{}) bool {
	startLeafHeartbeat()
	from := leafHeartbeat.Load()
	for {
		select {
		case <-done:
			return true
		case <-time.After(200 * time.Millisecond):
		}
		if leafHeartbeat.Load()-from >= leafLivenessTicks {
			select {
			case <-done:
				return true
			default:
				return false
			}
		}
	}
}

func stopBounded(p concurrent.Pool) bool {
	done := make(chan struct{})
	go func() {
		p.Stop()
		close(done)
	}()
	return waitBounded(done)
}

// stuckGoroutines renders the goroutines that are inside lindb code (diagnostics of a case that hangs).
func stuckGoroutines() string {
	buf := make([]byte, 1<<20)
	buf = buf[:runtime.Stack(buf, true)]
	var keep []string
	for _, g := range strings.Split(string(buf), "\n\n") {
		if (strings.Contains(g, "lindb/lindb/query") || strings.Contains(g, "lindb/lindb/internal/concurrent") || strings.Contains(g, "verifharness/c19")) &&
			!strings.Contains(g, "stuckGoroutines") && !strings.Contains(g, "tsdb.newDatabase") {
			if len(g) > 1500 {
				g = g[:1500] + " ..."
			}
			keep = append(keep, g)
		}
		if len(keep) >= 12 {
			break
		}
	}
	return strings.Join(keep, "\n\n")
}

// buildRequest encodes a request the way the root does (RootMetricContext.MakePlan /
// MetadataContext.MakePlan): physical plan JSON + statement JSON.
func (fx *leafFixture) buildRequest(st *reqState) (*protoCommonV1.TaskRequest, error) {
	r := st.req
	plan := &models.PhysicalPlan{Database: fmt.Sprintf("%s#%d", leafDB, st.idx)}
	switch r.Pre {
	case "no-database":
		plan.Database = fmt.Sprintf("nodb#%d", st.idx)
	}
	if r.Pre == "not-a-leaf" {
		plan.AddTarget(&models.Target{Indicator: "10.0.0.2:2891", ShardIDs: r.Shards})
	} else {
		plan.AddTarget(&models.Target{Indicator: "10.0.0.3:2891", ShardIDs: []models.ShardID{0}}) // another leaf of the same plan
		plan.AddTarget(&models.Target{Indicator: leafIndicator, ShardIDs: r.Shards})
	}
	plan.AddReceiver(rootIndicator)
	if r.Receivers == 2 {
		plan.AddReceiver(peerIndicator)
	}
	req := &protoCommonV1.TaskRequest{RequestID: st.id, PhysicalPlan: encoding.JSONMarshal(plan)}
	if r.Pre == "bad-plan" {
		req.PhysicalPlan = []byte(`{"database": 17`)
	}
	parsed, err := sql.Parse(r.sqlText())
	if err != nil {
		return nil, fmt.Errorf("harness: %q does not parse: %w", r.sqlText(), err)
	}
	if r.Meta {
		req.RequestType = protoCommonV1.RequestType_Metadata
		m, ok := parsed.(*stmt.MetricMetadata)
		if !ok {
			return nil, fmt.Errorf("harness: %q is a %T", r.sqlText(), parsed)
		}
		req.Payload, _ = m.MarshalJSON()
	} else {
		req.RequestType = protoCommonV1.RequestType_Data
		q, ok := parsed.(*stmt.Query)
		if !ok {
			return nil, fmt.Errorf("harness: %q is a %T", r.sqlText(), parsed)
		}
		querycontext.VerifCalcTimeRangeAndInterval(q, fx.cfg)
		req.Payload, _ = q.MarshalJSON()
	}
	if r.Pre == "bad-payload" {
		req.Payload = []byte(`{"metricName": [`)
	}
	return req, nil
}

type leafResult struct {
	got   map[string][]*protoCommonV1.TaskResponse
	fired []int
	ids   []string
	late  []string // per request: "" or what ran after / across the response

	cancelled bool // the context of the requesting stream was cancelled by a Cancel fault of the case
}

// runLeafCase runs the requests of the case through one handler stream and returns every
// response after the node is quiescent.
func runLeafCase(fx *leafFixture, c *leafCase) (*leafResult, error) {
	caseNo := leafCaseNo.Add(1)
	r := &leafRun{fx: fx, c: c, got: map[string][]*protoCommonV1.TaskResponse{}, byID: map[string]*reqState{}}
	r.cond = sync.NewCond(&r.mu)
	idle := time.Minute
	taskPool := concurrent.NewPool("c19-leaf-task", c.TaskWorkers, idle, leafPoolStats("task"))
	r.pools = &tsdb.ExecutorPool{
		Filtering: concurrent.NewPool("c19-leaf-filtering", c.Width, idle, leafPoolStats("filtering")),
		Grouping:  concurrent.NewPool("c19-leaf-grouping", c.Width, idle, leafPoolStats("grouping")),
		Scanner:   concurrent.NewPool("c19-leaf-scanner", c.Width, idle, leafPoolStats("scanner")),
	}
	var reqs []*protoCommonV1.TaskRequest
	for i, q := range c.Reqs {
		st := &reqState{idx: i, req: q, id: fmt.Sprintf("c19-leaf-%d-%d", caseNo, i), run: r}
		r.states = append(r.states, st)
		r.byID[st.id] = st
	}
	for _, st := range r.states {
		req, err := fx.buildRequest(st)
		if err != nil {
			return nil, err
		}
		reqs = append(reqs, req)
	}

	fct := rpc.NewTaskServerFactory()
	self := &models.StatelessNode{HostIP: "10.0.0.1", GRPCPort: 2891}
	proc := query.NewLeafTaskProcessor(self, &engineView{inner: fx.n.Engine, run: r}, fct)
	handler := query.NewTaskHandler(config.Query{Timeout: ltoml.Duration(10 * time.Minute)}, fct, proc, taskPool)

	mkCtx := func(name string) context.Context {
		return metadata.NewIncomingContext(context.Background(), metadata.Pairs(constants.RPCMetaKeyLogicNode, name))
	}
	rootCtx, cancelRoot := context.WithCancel(mkCtx(rootIndicator))
	defer cancelRoot()
	r.cancelStream = cancelRoot
	rootStream := &leafStream{ctx: rootCtx, name: rootIndicator, reqs: make(chan *protoCommonV1.TaskRequest), run: r}
	peerStream := &leafStream{ctx: mkCtx(peerIndicator), name: peerIndicator, run: r}
	peerEpoch := fct.Register(peerIndicator, peerStream) // a connected second receiver; it sends no requests
	handleDone := make(chan struct{})
	go func() {
		_ = handler.Handle(rootStream) // returns the EOF of the stream
		close(handleDone)
	}()

	var fail error
	// the handler has submitted request k once it asks for request k+1
	fed := make(chan struct{})
	feedAbort := make(chan struct{})
	go func() {
		defer close(fed)
		for _, req := range reqs {
			select {
			case rootStream.reqs <- req:
			case <-feedAbort:
				return
			}
		}
		r.mu.Lock()
		for r.recvCalls < len(reqs)+1 && !r.aborted {
			r.cond.Wait()
		}
		r.mu.Unlock()
	}()
	if !waitBounded(fed) {
		fail = fmt.Errorf("harness: the handler stopped receiving requests\n%s", stuckGoroutines())
		close(feedAbort)
		r.mu.Lock()
		r.aborted = true
		r.cond.Broadcast()
		r.mu.Unlock()
	}
	// quiesce in pipeline order; Stop joins the workers and runs what is still queued
	for _, p := range []concurrent.Pool{taskPool, r.pools.Filtering, r.pools.Grouping, r.pools.Scanner} {
		if !stopBounded(p) {
			abandonLeafStats()
			if fail == nil {
				fail = fmt.Errorf("a pool of the leaf does not drain: a stage never returns\n%s", stuckGoroutines())
			}
			break
		}
	}
	<-fed // the feeder is done or was aborted: nobody sends on the channel any more
	close(rootStream.reqs)
	if !waitBounded(handleDone) && fail == nil {
		fail = fmt.Errorf("harness: Handle does not return after the stream ended")
	}
	fct.Deregister(peerEpoch, peerIndicator)
	r.mu.Lock()
	res := &leafResult{got: map[string][]*protoCommonV1.TaskResponse{}, cancelled: r.cancelFired.Load()}
	for k, v := range r.got {
		res.got[k] = append([]*protoCommonV1.TaskResponse(nil), v...)
	}
	r.mu.Unlock()
	for _, st := range r.states {
		res.fired = append(res.fired, int(st.fired.Load()))
		res.ids = append(res.ids, st.id)
		what := ""
		if st.late.Load() > 0 {
			what, _ = st.lateWhat.Load().(string)
		}
		res.late = append(res.late, what)
	}
	for _, st := range r.states {
		query.GetPipelineManager().RemovePipeline(st.id) // a pipeline that never completed stays cached
	}
	return res, fail
}

// ---- oracle -------------------------------------------------------------------------------------------------

// canonSeries renders the series of the data payloads of a request (all receivers) canonically.
func canonSeries(payloads [][]byte) (string, []string, map[string][]string, *protoCommonV1.TimeSeriesList, error) {
	var lines []string
	var groups []string
	fieldsOf := map[string][]string{}
	var first *protoCommonV1.TimeSeriesList
	for _, p := range payloads {
		tsl := &protoCommonV1.TimeSeriesList{}
		if err := tsl.Unmarshal(p); err != nil {
			return "", nil, nil, nil, err
		}
		if first == nil {
			first = tsl
		}
		for _, ts := range tsl.TimeSeriesList {
			groups = append(groups, ts.Tags)
			names := make([]string, 0, len(ts.Fields))
			for n := range ts.Fields {
				names = append(names, n)
			}
			sort.Strings(names)
			fieldsOf[ts.Tags] = names
			var b strings.Builder
			fmt.Fprintf(&b, "[%s]", ts.Tags)
			for _, n := range names {
				fmt.Fprintf(&b, " %s=%s", n, hex.EncodeToString(ts.Fields[n]))
			}
			lines = append(lines, b.String())
		}
	}
	sort.Strings(lines)
	sort.Strings(groups)
	return strings.Join(lines, "\n"), groups, fieldsOf, first, nil
}

type leafRefs struct {
	mu sync.Mutex
	m  map[string]string
}

// reference returns the canonical answer of the fault-free twin of the request, run alone.
func (refs *leafRefs) reference(fx *leafFixture, r *leafReq) (string, error) {
	key := r.refKey()
	refs.mu.Lock()
	v, ok := refs.m[key]
	refs.mu.Unlock()
	if ok {
		return v, nil
	}
	twin := *r
	twin.Fault = faultSpec{}
	twin.Receivers = 1
	twin.Explain = false
	sort.Slice(twin.Shards, func(i, j int) bool { return twin.Shards[i] < twin.Shards[j] })
	twin.Shards = append([]models.ShardID(nil), twin.Shards...)
	res, err := runLeafCase(fx, &leafCase{Reqs: []*leafReq{&twin}, Width: 8, TaskWorkers: 1})
	if err != nil {
		return "", err
	}
	rs := res.got[rootIndicator]
	if len(rs) != 1 || rs[0].ErrMsg != "" {
		return "", fmt.Errorf("the fault-free twin of the request was answered with %d responses / error %q", len(rs), firstErrMsg(rs))
	}
	canon, _, _, _, err := canonSeries([][]byte{rs[0].Payload})
	if err != nil {
		return "", err
	}
	refs.mu.Lock()
	refs.m[key] = canon
	refs.mu.Unlock()
	return canon, nil
}

func firstErrMsg(rs []*protoCommonV1.TaskResponse) string {
	for _, r := range rs {
		if r.ErrMsg != "" {
			return r.ErrMsg
		}
	}
	return ""
}

// checkLeaf judges the responses of a case; it returns the violations and per request the outcome
// ("ok" | "error" | "?") for the class counters.
func checkLeaf(fx *leafFixture, refs *leafRefs, c *leafCase, res *leafResult, ids []string) ([]string, []string) {
	var bad []string
	outcomes := make([]string, len(c.Reqs))
	byReq := make([]map[string][]*protoCommonV1.TaskResponse, len(c.Reqs))
	index := map[string]int{}
	for i, id := range ids {
		index[id] = i
		byReq[i] = map[string][]*protoCommonV1.TaskResponse{}
	}
	for recv, list := range res.got {
		for _, resp := range list {
			i, ok := index[resp.RequestID]
			if !ok {
				bad = append(bad, fmt.Sprintf("receiver %s got a response with the unknown request id %q", recv, resp.RequestID))
				continue
			}
			byReq[i][recv] = append(byReq[i][recv], resp)
		}
	}
	for i, r := range c.Reqs {
		outcomes[i] = "?"
		reached := res.fired[i] > 0
		fired := reached && !r.Fault.Cancel // a failure was raised
		// who must be answered: a failure before the pipeline (Process returns an error or panics) is
		// answered by the handler on the requesting stream; metadata requests answer the requesting stream;
		// a data pipeline answers every receiver of the plan.
		prePipeline := r.Pre != "" || (fired && r.Fault.Point == fpGetDatabase)
		want := map[string]int{rootIndicator: 1, peerIndicator: 0}
		if !r.Meta && !prePipeline && r.Receivers == 2 {
			want[peerIndicator] = 1
		}
		var all []*protoCommonV1.TaskResponse
		for _, recv := range []string{rootIndicator, peerIndicator} {
			got := byReq[i][recv]
			all = append(all, got...)
			if res.cancelled && !(reached && r.Fault.Cancel) && recv == peerIndicator && len(got) == 0 &&
				len(byReq[i][rootIndicator]) == 1 && byReq[i][rootIndicator][0].ErrMsg != "" {
				// a neighbour's stage cancelled the stream: this request may have been refused by the task pool
				// with the context error before its pipeline existed (answered on the requesting stream only)
				continue
			}
			if len(got) != want[recv] {
				bad = append(bad, fmt.Sprintf("request %d (%s): receiver %s got %d responses, want exactly %d (errors: %q)",
					i, r.canon(), recv, len(got), want[recv], firstErrMsg(got)))
			}
		}
		// "when no stage panics, only after every started stage has finished": the answer is the completion
		// signal of the request
		if res.late[i] != "" && !(fired && r.Fault.Panic) && !res.cancelled {
			bad = append(bad, fmt.Sprintf("request %d (%s): answered before its stages had finished although no stage panicked: %s", i, r.canon(), res.late[i]))
		}
		if len(all) == 0 {
			outcomes[i] = "none"
			continue
		}
		nErr := 0
		for _, resp := range all {
			if !resp.Completed {
				bad = append(bad, fmt.Sprintf("request %d (%s): a response is not marked completed", i, r.canon()))
			}
			if resp.ErrMsg != "" {
				nErr++
			}
		}
		if nErr != 0 && nErr != len(all) {
			bad = append(bad, fmt.Sprintf("request %d (%s): %d of %d responses carry an error", i, r.canon(), nErr, len(all)))
		}
		isErr := nErr > 0
		if isErr {
			outcomes[i] = "error"
		} else {
			outcomes[i] = "ok"
		}
		legal := r.legalOutcome()
		switch {
		case fired || legal == "error":
			if !isErr {
				why := "the request is invalid / names something that does not exist"
				if fired {
					why = fmt.Sprintf("the injected failure at %s (shard %d, panic=%v) was raised", r.Fault.Point, r.Fault.Shard, r.Fault.Panic)
				}
				bad = append(bad, fmt.Sprintf("request %d (%s): answered as a success although %s", i, r.canon(), why))
			}
		case res.cancelled:
			// the task context of the request was done while it ran: it may report that or finish (a
			// successful answer is still checked for its content below)
		case legal == "ok":
			if isErr {
				bad = append(bad, fmt.Sprintf("request %d (%s): answered with the error %q although nothing failed", i, r.canon(), firstErrMsg(all)))
			}
		}
		if isErr || r.Meta || legal != "ok" || len(bad) > 0 {
			if !isErr && r.Meta && legal == "ok" {
				bad = append(bad, checkSuggest(fx, i, r, all[0])...)
			}
			continue
		}
		// a successful data answer must be a real answer
		var payloads [][]byte
		for _, resp := range all {
			payloads = append(payloads, resp.Payload)
		}
		canon, groups, fieldsOf, first, err := canonSeries(payloads)
		if err != nil {
			bad = append(bad, fmt.Sprintf("request %d (%s): payload does not decode: %v", i, r.canon(), err))
			continue
		}
		parsed, _ := sql.Parse(r.sqlText())
		q := parsed.(*stmt.Query)
		querycontext.VerifCalcTimeRangeAndInterval(q, fx.cfg)
		if first.Start != q.TimeRange.Start || first.End != q.TimeRange.End || first.Interval != q.Interval.Int64() {
			bad = append(bad, fmt.Sprintf("request %d (%s): successful answer describes [%d,%d] interval %d, the request asks for [%d,%d] interval %d",
				i, r.canon(), first.Start, first.End, first.Interval, q.TimeRange.Start, q.TimeRange.End, q.Interval.Int64()))
		}
		if len(first.FieldAggSpecs) != len(r.Select) {
			bad = append(bad, fmt.Sprintf("request %d (%s): successful answer has %d field specs, selected %d fields", i, r.canon(), len(first.FieldAggSpecs), len(r.Select)))
		}
		wantGroups := r.expectedGroups(fx)
		if strings.Join(groups, "|") != strings.Join(wantGroups, "|") {
			bad = append(bad, fmt.Sprintf("request %d (%s): successful answer has the series %q, the written data gives %q", i, r.canon(), groups, wantGroups))
		}
		wantFields := append([]string(nil), r.Select...)
		sort.Strings(wantFields)
		for g, names := range fieldsOf {
			if strings.Join(names, ",") != strings.Join(wantFields, ",") {
				bad = append(bad, fmt.Sprintf("request %d (%s): series %q has the fields %v, selected %v", i, r.canon(), g, names, wantFields))
			}
		}
		if len(bad) == 0 {
			ref, err := refs.reference(fx, r)
			if err != nil {
				bad = append(bad, fmt.Sprintf("request %d (%s): %v", i, r.canon(), err))
			} else if ref != canon {
				bad = append(bad, fmt.Sprintf("request %d (%s): successful answer differs from the answer of the same request run alone without faults:\n%s\n-- alone:\n%s", i, r.canon(), canon, ref))
			}
		}
	}
	return bad, outcomes
}

// checkSuggest checks the content of a successful metadata answer against the fixture.
func checkSuggest(fx *leafFixture, i int, r *leafReq, resp *protoCommonV1.TaskResponse) []string {
	var sr models.SuggestResult
	if err := encoding.JSONUnmarshal(resp.Payload, &sr); err != nil {
		return []string{fmt.Sprintf("request %d (%s): suggestion payload does not decode: %v", i, r.canon(), err)}
	}
	got := append([]string(nil), sr.Values...)
	var want []string
	_, known := leafTagKeys[r.Metric]
	switch r.MetaKind {
	case "namespaces":
		want = []string{"default-ns"}
	case "metrics":
		want = []string{"cpu", "solo"}
	case "tagkeys":
		if known {
			want = append(want, leafTagKeys[r.Metric]...)
		}
	case "fields":
		if known {
			var fs field.Metas
			if len(got) != 1 {
				return []string{fmt.Sprintf("request %d (%s): %d field lists, want 1", i, r.canon(), len(got))}
			}
			if err := encoding.JSONUnmarshal([]byte(got[0]), &fs); err != nil {
				return []string{fmt.Sprintf("request %d (%s): field list does not decode: %v", i, r.canon(), err)}
			}
			got = nil
			for _, f := range fs {
				got = append(got, string(f.Name))
			}
			want = append(want, leafFields[r.Metric]...)
		}
	case "tagvalues":
		if !known || !contains(leafTagKeys[r.Metric], r.MetaKey) {
			break
		}
		set := map[string]bool{}
		q := *r
		q.Range = "both"
		if len(r.Where.Preds) == 0 {
			q.Shards = []models.ShardID{0, 1, 2} // the dictionary of the database, not of the shards of the plan
		}
		for k := range fx.points {
			if q.matches(&fx.points[k]) {
				set[fx.points[k].tags[r.MetaKey]] = true
			}
		}
		for v := range set {
			want = append(want, v)
		}
	}
	// every shard contributes its values, the root removes the duplicates
	seen := map[string]bool{}
	uniq := got[:0:0]
	for _, g := range got {
		if !seen[g] {
			seen[g] = true
			uniq = append(uniq, g)
		}
	}
	got = uniq
	sort.Strings(got)
	sort.Strings(want)
	if strings.Join(got, ",") != strings.Join(want, ",") {
		return []string{fmt.Sprintf("request %d (%s): successful suggestion %q, the written data gives %q", i, r.canon(), got, want)}
	}
	return nil
}

// ---- generator -------------------------------------------------------------------------------------------------

// genWhere draws a where clause over the tag keys of the metric; unknownOnly makes every key unknown
// (the request fails: no tag key of the clause exists), otherwise an unknown key appears only next to a
// known one (legal: the unknown filter matches nothing).
func genWhere(t *rapid.T, label string, keys []string, unknownOnly bool) whereSpec {
	var w whereSpec
	n := rapid.SampledFrom([]int{0, 0, 1, 1, 2}).Draw(t, label+"_n")
	if unknownOnly && n == 0 {
		n = 1
	}
	for i := 0; i < n; i++ {
		key := "nokey"
		if !unknownOnly && (i == 0 || rapid.IntRange(0, 3).Draw(t, label+"_unknown_key") != 0) {
			key = rapid.SampledFrom(keys).Draw(t, label+"_key")
		}
		var val string
		switch key {
		case "host":
			val = rapid.SampledFrom([]string{"a", "b", "c", "a", "b", "c", "zz"}).Draw(t, label+"_val")
		case "dc":
			val = rapid.SampledFrom([]string{"x", "y", "y", "zz"}).Draw(t, label+"_val")
		default:
			val = "1"
		}
		w.Preds = append(w.Preds, pred{Key: key, Val: val, Neg: rapid.SampledFrom([]bool{false, false, false, true}).Draw(t, label+"_neg")})
	}
	if n == 2 {
		w.Or = rapid.Bool().Draw(t, label+"_or")
	}
	return w
}

func genShards(t *rapid.T) []models.ShardID {
	all := []models.ShardID{0, 1, 2}
	perm := rapid.Permutation(all).Draw(t, "shard_order")
	n := rapid.SampledFrom([]int{1, 2, 3, 3, 3}).Draw(t, "shard_n")
	out := append([]models.ShardID(nil), perm[:n]...)
	if rapid.SampledFrom([]bool{false, false, false, false, false, false, false, true}).Draw(t, "unknown_shard") {
		at := rapid.IntRange(0, len(out)).Draw(t, "unknown_shard_at")
		out = append(out[:at], append([]models.ShardID{unknownShard}, out[at:]...)...)
	}
	return out
}

func pick[T any](t *rapid.T, label string, weighted ...T) T {
	return rapid.SampledFrom(weighted).Draw(t, label)
}

func genLeafReq(t *rapid.T) *leafReq {
	r := &leafReq{Receivers: 1}
	r.Meta = pick(t, "meta", false, false, false, false, true)
	r.Shards = genShards(t)
	// how the request is invalid by itself, if at all
	invalid := pick(t, "invalid", "", "", "", "", "", "", "", "", "", "", "", "",
		"bad-plan", "not-a-leaf", "no-database", "bad-payload", "metric", "field", "group-key", "where-key")
	switch invalid {
	case "bad-plan", "not-a-leaf", "no-database", "bad-payload":
		r.Pre = invalid
	}
	r.Metric = pick(t, "metric", "cpu", "cpu", "cpu", "cpu", "solo")
	if invalid == "metric" {
		r.Metric = "nometric"
	}
	keys := leafTagKeys[r.Metric]
	if keys == nil {
		keys = []string{"host", "dc"}
	}
	var points []string
	if r.Meta {
		r.MetaKind = pick(t, "meta_kind", "namespaces", "metrics", "fields", "tagkeys", "tagvalues", "tagvalues")
		if r.MetaKind == "tagvalues" {
			r.MetaKey = rapid.SampledFrom(keys).Draw(t, "meta_key")
			if invalid == "group-key" {
				r.MetaKey = "nokey"
			}
			r.Where = genWhere(t, "mw", keys, invalid == "where-key")
		}
		switch r.MetaKind {
		case "namespaces", "metrics":
			points = []string{fpSuggest, fpSuggest, fpSuggest, fpGetDatabase}
		case "fields", "tagkeys":
			points = []string{fpGetMetricID, fpGetSchema, fpGetDatabase}
		default:
			if len(r.Where.Preds) == 0 {
				points = []string{fpSuggest, fpSuggest}
			} else {
				points = []string{fpSeries, fpSeries, fpFindTagValues, fpFindTagValues}
			}
			points = append(points, fpGetMetricID, fpGetSchema, fpGetDatabase)
		}
	} else {
		if r.Metric == "solo" {
			r.Select = []string{"f"}
		} else {
			r.Select = pick(t, "select", []string{"f"}, []string{"f"}, []string{"f", "g"}, []string{"g"})
		}
		if invalid == "field" {
			r.Select = pick(t, "select_bad", []string{"nofield"}, []string{"f", "nofield"})
		}
		r.Where = genWhere(t, "w", keys, invalid == "where-key")
		switch {
		case invalid == "group-key":
			r.GroupBy = pick(t, "group_by_bad", []string{"nokey"}, []string{"host", "nokey"})
		case r.Metric == "solo":
			r.GroupBy = pick(t, "group_by", nil, []string{"host"})
		default:
			r.GroupBy = pick(t, "group_by", nil, nil, nil, []string{"host"}, []string{"host"}, []string{"host", "dc"}, []string{"dc"})
		}
		r.Range = pick(t, "range", "both", "both", "both", "both", "both", "first", "first", "none")
		r.Receivers = pick(t, "receivers", 1, 1, 1, 1, 2)
		r.Explain = pick(t, "explain", false, false, false, false, false, false, false, true)
		if len(r.GroupBy) > 0 {
			points = append(points, fpCollectValues, fpCollectValues, fpBuildGroup, fpBuildGroup, fpGroupingCtx, fpGroupingCtx)
		}
		points = append(points, fpLoaderLoad, fpLoaderLoad, fpRSLoad, fpRSLoad, fpFilter, fpFilter, fpSeries, fpSeries, fpFamilies)
		if len(r.Where.Preds) > 0 {
			points = append(points, fpFindTagValues, fpFindTagValues)
		}
		points = append(points, fpGetSchema, fpGetMetricID, fpLimits, fpGetDatabase)
	}
	if pick(t, "fault", false, true, true) {
		r.Fault.Point = rapid.SampledFrom(points).Draw(t, "fault_point")
		switch r.Fault.Point {
		case fpGetDatabase, fpFamilies, fpBuildGroup, fpRSLoad, fpLoaderLoad:
			r.Fault.Panic = true // the interface has no error to return there
		default:
			r.Fault.Panic = rapid.Bool().Draw(t, "fault_panic")
		}
		if r.Fault.Point == fpCollectValues && !r.Fault.Panic && leafExcluded(sigCollectErrorAnswersEarly) {
			r.Fault.Panic = true
			r.excludedKnown = true
		}
		r.Fault.Shard = rapid.SampledFrom(r.Shards).Draw(t, "fault_shard")
		if r.Fault.Point != fpLimits && pick(t, "fault_cancel", false, false, true) {
			r.Fault.Cancel = true
			r.Fault.Panic = false
			r.excludedKnown = false
		}
		switch r.Fault.Point {
		case fpFilter, fpRSLoad, fpLoaderLoad:
			r.Fault.Nth = pick(t, "fault_nth", 0, 0, 1, 2)
		}
	}
	return r
}

func genLeafCase(t *rapid.T) *leafCase {
	c := &leafCase{}
	n := rapid.SampledFrom([]int{1, 1, 1, 2, 3}).Draw(t, "requests")
	for i := 0; i < n; i++ {
		c.Reqs = append(c.Reqs, genLeafReq(t))
	}
	c.Width = rapid.SampledFrom([]int{1, 1, 8}).Draw(t, "pool_width")
	c.TaskWorkers = rapid.SampledFrom([]int{1, 4}).Draw(t, "task_workers")
	return c
}

// ---- classes ---------------------------------------------------------------------------------------------------

func existingShards(r *leafReq) []models.ShardID {
	var out []models.ShardID
	for _, s := range r.Shards {
		if s != unknownShard {
			out = append(out, s)
		}
	}
	return out
}

func classifyLeaf(c *leafCase, res *leafResult, outcomes []string) (bool, []string) {
	var cl []string
	nt := false
	cl = append(cl, fmt.Sprintf("leaf:requests:%d", len(c.Reqs)), fmt.Sprintf("leaf:pool_width:%d", c.Width), fmt.Sprintf("leaf:task_workers:%d", c.TaskWorkers))
	for i, r := range c.Reqs {
		kind := "data"
		if r.Meta {
			kind = "meta:" + r.MetaKind
		}
		cl = append(cl, "leaf:kind:"+kind, "leaf:outcome:"+outcomes[i], "leaf:legal:"+r.legalOutcome())
		if r.Pre != "" {
			cl = append(cl, "leaf:pre:"+r.Pre)
		}
		fired := res != nil && res.fired[i] > 0
		if res != nil && res.cancelled && !(fired && r.Fault.Cancel) {
			cl = append(cl, "leaf:neighbour_cancelled_stream:outcome:"+outcomes[i])
		}
		if r.excludedKnown {
			cl = append(cl, "excluded_known:collect-error-answers-early")
		}
		if r.Fault.Point == fpLimits {
			cl = append(cl, "leaf:series_limit_1:"+outcomes[i])
		} else if r.Fault.Point != fpNone {
			how := "error"
			if r.Fault.Panic {
				how = "panic"
			}
			if r.Fault.Cancel {
				how = "cancel"
				if fired {
					cl = append(cl, "leaf:cancel_while_stage_runs:outcome:"+outcomes[i], fmt.Sprintf("leaf:cancel_while_stage_runs:receivers:%d", r.Receivers))
				}
			}
			st := "not_reached"
			if fired {
				st = "fired"
			}
			cl = append(cl, fmt.Sprintf("leaf:fault:%s:%s:%s", r.Fault.Point, how, st))
		}
		ex := existingShards(r)
		if len(ex) != len(r.Shards) {
			cl = append(cl, "leaf:unknown_shard_in_plan")
		}
		if !r.Meta {
			if r.Receivers == 2 {
				cl = append(cl, "leaf:two_receivers")
			}
			if len(r.GroupBy) > 0 {
				cl = append(cl, "leaf:group_by")
			}
			if len(r.Where.Preds) > 0 {
				cl = append(cl, "leaf:where")
			}
			if r.Range == "none" {
				cl = append(cl, "leaf:no_family_in_range")
			}
			if r.Explain {
				cl = append(cl, "leaf:explain")
			}
		}
		shardLevel := false
		switch r.Fault.Point {
		case fpFamilies, fpSeries, fpFilter, fpGroupingCtx, fpBuildGroup, fpRSLoad, fpLoaderLoad:
			shardLevel = true
		}
		if fired && shardLevel && len(ex) >= 2 {
			pos := "last"
			if r.Fault.Shard != ex[len(ex)-1] {
				pos = "not_last"
			}
			cl = append(cl, fmt.Sprintf("leaf:failing_shard_%s_in_plan:width_%d", pos, c.Width))
			if pos == "not_last" {
				nt = true
			}
		}
		// >= 2 async siblings ran: the root stage passed and the plan has >= 2 shards of the node
		if !r.Meta && r.Pre == "" && r.legalOutcome() != "error" && len(ex) >= 2 &&
			!(fired && (r.Fault.Point == fpGetDatabase || r.Fault.Point == fpGetMetricID || r.Fault.Point == fpGetSchema || r.Fault.Point == fpFindTagValues)) {
			cl = append(cl, "leaf:two_or_more_shard_scans")
			nt = true
		}
	}
	return nt, cl
}

// ---- tests -----------------------------------------------------------------------------------------------------

func runAndCheckLeaf(t interface {
	Fatalf(format string, args ...any)
}, group string, fx *leafFixture, refs *leafRefs, c *leafCase) {
	res, err := runLeafCase(fx, c)
	var bad, outcomes []string
	if res != nil {
		bad, outcomes = checkLeaf(fx, refs, c, res, res.ids)
	} else {
		outcomes = make([]string, len(c.Reqs))
		for i := range outcomes {
			outcomes[i] = "?"
		}
	}
	if err != nil {
		bad = append([]string{err.Error()}, bad...)
	}
	nt, classes := classifyLeaf(c, res, outcomes)
	var canon []string
	for _, r := range c.Reqs {
		canon = append(canon, r.canon())
	}
	key := fmt.Sprintf("w=%d t=%d %s", c.Width, c.TaskWorkers, strings.Join(canon, " ;; "))
	ev.Case(group, key, nt, classes, map[string]any{"requests": canon, "pool_width": c.Width, "task_workers": c.TaskWorkers, "outcomes": outcomes})
	if len(bad) > 0 {
		t.Fatalf("C19 leaf violation (pool width %d, task workers %d):\n  %s", c.Width, c.TaskWorkers, strings.Join(bad, "\n  "))
	}
}

// TestLeafResponses: generated requests x generated failure against the production leaf path.
func TestLeafResponses(t *testing.T) {
	fx := startLeafFixture(t)
	defer fx.close()
	refs := &leafRefs{m: map[string]string{}}
	rapid.Check(t, func(rt *rapid.T) {
		c := genLeafCase(rt)
		runAndCheckLeaf(rt, "TestLeafResponses", fx, refs, c)
	})
}
