package c19

import (
	"testing"

	"github.com/lindb/lindb/verifharness/sim/ev"
)

// Finding of the queued-cancellation class (sigRejectedTask), repaired in /repo by 74e6a91:
// workerPool.Submit returned without a word when the submitter's context was done or the pool was
// stopped (only a counter moved). pipeline.executeStage has registered the stage as pending before
// baseStage.Execute hands the task to the pool, nobody ever completed the stage: pending never
// reached zero, the completion callback never fired. On a storage node: the request (whose
// time-out fired while a stage was about to be submitted, or whose stream went away) was never
// answered, the pipeline and its StorageExecuteContext were never released. The fix
// (proposed_fix_pool_rejects_task_silently.diff): Submit reports a rejected task to the task's
// panic handler = the stage's error handler. The tests below are plain regressions; they go
// through the runner and the oracle of the property test.

func qTree(nodes ...qNode) *qSpec {
	s := &qSpec{Force: true}
	for i := range nodes {
		nodes[i].ID = i
		nodes[i].Children = nil
	}
	s.Nodes = nodes
	nq := 0
	for i := range s.Nodes {
		if p := s.Nodes[i].Parent; p >= 0 {
			s.Nodes[p].Children = append(s.Nodes[p].Children, i)
		} else {
			s.Roots = append(s.Roots, i)
			nq++
		}
	}
	for q := 0; q < nq; q++ {
		s.CtxKind = append(s.CtxKind, "cancel")
	}
	return s
}

func runQRegression(t *testing.T, spec *qSpec, what string) {
	if ev.Known(sigRejectedTask) {
		// listed as an unrepaired finding: report it when it still reproduces, do not fail
		res, herr := runQCase(spec)
		if herr != nil {
			t.Fatalf("harness: %v", herr)
		}
		for _, v := range checkQOracle(spec, res) {
			if v.Sig == "callback-never" {
				ev.KnownFinding("C19", sigRejectedTask+": "+what)
				return
			}
			t.Fatalf("C19 violated: [%s] %s", v.Sig, v.Text)
		}
		return
	}
	runAndCheckQ(t, "TestRegression", spec)
}

// The time-out of the request fires while Submit of the only pooled stage waits for room in a
// full queue (all workers busy): Submit gives up, the stage stays pending.
func TestRegression_StageRejectedByPoolNeverCompletes_ContextDoneInSubmit(t *testing.T) {
	spec := qTree(
		qNode{Parent: -1, Out: outOK},
		qNode{Parent: 0, Async: true, Out: outOK},
	)
	spec.CtxKind[0] = "deadline"
	spec.Width = []int{1}
	spec.Script = []qAction{{Kind: "fill", Arg: 0}, {Kind: "start", Arg: 0}, {Kind: "cancel", Arg: 0}}
	runQRegression(t, spec, "the context of a query becomes done while Pool.Submit of a stage waits for room in the queue: the task is dropped, the completion callback never fires")
}

// The pool is stopped (database closed) between the registration of the stage and its Submit.
func TestRegression_StageRejectedByPoolNeverCompletes_StoppedPool(t *testing.T) {
	spec := qTree(
		qNode{Parent: -1, Out: outOK},
		qNode{Parent: 0, Async: true, Out: outOK, PauseSubmit: true},
	)
	spec.Width = []int{1}
	spec.Script = []qAction{{Kind: "start", Arg: 0}, {Kind: "stop", Arg: 0}, {Kind: "rel", Pref: "submit"}}
	runQRegression(t, spec, "a stage is submitted to a stopped pool: the task is dropped, the completion callback never fires")
}

// A stage that waited in the queue while the context became done is executed (the pool runs what
// it accepted); the pooled stage it starts afterwards is submitted on the done context. Whether
// Submit takes it or drops it is decided by a select with two ready cases, so this shape only
// fails in some runs; it is reported when it does.
func TestRegression_StageRejectedByPoolNeverCompletes_ChildOfQueuedStage(t *testing.T) {
	spec := qTree(
		qNode{Parent: -1, Async: true, Out: outOK},
		qNode{Parent: 0, Async: true, Out: outOK},
	)
	spec.Width = []int{1}
	spec.Script = []qAction{{Kind: "start", Arg: 0}, {Kind: "cancel", Arg: 0}}
	if ev.Known(sigRejectedTask) {
		for rep := 0; rep < 20; rep++ {
			res, herr := runQCase(spec)
			if herr != nil {
				t.Fatalf("harness: %v", herr)
			}
			for _, v := range checkQOracle(spec, res) {
				if v.Sig != "callback-never" {
					t.Fatalf("C19 violated: [%s] %s", v.Sig, v.Text)
				}
				ev.KnownFinding("C19", sigRejectedTask+": a stage queued while the context became done runs, the pooled stage it starts is dropped by Submit, the completion callback never fires")
				return
			}
		}
		return
	}
	for rep := 0; rep < 20; rep++ {
		runAndCheckQ(t, "TestRegression", spec)
	}
}
