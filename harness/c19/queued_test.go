package c19

// Queued-cancellation class of C19: the pooled stages of 1-2 pipelines are submitted to real
// concurrent.Pools (1-3 pools of 1-3 workers) whose workers are ALL busy with tasks the harness
// owns ("blockers", parked on gates), so a submitted stage task waits in the pool's queue. While
// it waits - or right before it is handed to Submit, or while Submit itself is blocked on a full
// queue, or while the stage runs (parked inside its operator) - the context of the query is
// cancelled / its deadline expires / the context of the stream it was derived from is cancelled,
// or the pool is stopped; then the generator frees the workers again.
//
// Nothing in this file decides anything by the clock:
//
//   - a point at which the harness acts ("quiescent") is established by facts: every worker of
//     every pool is occupied by a task the harness knows to be parked (a blocker that arrived, a
//     stage operator waiting on its gate, a worker inside a Submit the harness holds back), and
//     every goroutine that runs pipeline code outside the pools (Pipeline.Execute) has returned or
//     is parked the same way. Whenever a worker could be free the harness submits a further
//     blocker and waits for ITS arrival (the pool is first-in first-out: when the blocker has a
//     worker, every task submitted before it has been taken from the queue);
//   - the end of a case is established by barriers: W tasks that all have to be inside the W
//     workers of a pool at the same time, repeated until no Submit was seen during a whole round.
//     Then the pools are idle, no pipeline code runs anywhere and the callback counters are final:
//     "never" is decided by this quiescence, not by a time-out.
//
// The guards (qStepGuard, qDrainGuard) are liveness bounds only: when the first expires the
// script of the case is abandoned and the case goes to its final barrier, whose verdict does not
// depend on what was abandoned; the second expires only if a worker never returns.
//
// The harness sees Submit through a wrapper pool (obsPool) that forwards to the real pool; the
// code that decides what happens to the task (workerPool.Submit / dispatch / execTask /
// Stop, baseStage.Execute, the pipeline and its state machine) is the production code.

import (
	"context"
	"errors"
	"fmt"
	"os"
	"runtime"
	"sort"
	"strings"
	"sync"
	"sync/atomic"
	"testing"
	"time"

	"pgregory.net/rapid"

	"github.com/lindb/lindb/constants"
	"github.com/lindb/lindb/flow"
	"github.com/lindb/lindb/internal/concurrent"
	"github.com/lindb/lindb/internal/linmetric"
	"github.com/lindb/lindb/metrics"
	"github.com/lindb/lindb/query"
	"github.com/lindb/lindb/query/stage"
	trackerpkg "github.com/lindb/lindb/query/tracker"
	"github.com/lindb/lindb/verifharness/sim/ev"
)

// sigRejectedTask is the signature of the finding of this class (see
// TestRegression_StageRejectedByPoolNeverCompletes_*): workerPool.Submit dropped a task without
// telling anybody when the submitter's context was done or the pool was stopped; the stage was
// registered as pending before, so the pipeline never completed. Repaired in /repo (74e6a91:
// Submit reports a rejected task to the task's panic handler = the stage's error handler), listed
// under "fixed". Should the signature ever be listed as an open finding again, the generator does
// not let a Submit of a stage happen on a done context / a stopped pool (everything else - done
// contexts while tasks wait in the queue or run - is still generated).
const sigRejectedTask = "C19/pool-rejects-stage-task-silently"

// qDebug prints the state of a case whose script was abandoned because a guard expired.
var qDebug = os.Getenv("C19Q_DEBUG") != ""

const (
	qStepGuard  = 3 * time.Second
	qDrainGuard = 60 * time.Second
	// what fits into a pool whose workers are all busy: tasksCapacity (8) in the channel plus
	// the one the dispatcher holds while it waits for a worker.
	qCapacity = 9
)

// ---- case description ---------------------------------------------------------------------

type qNode struct {
	ID, Parent int
	Q          int // pipeline
	Children   []int
	Async      bool
	Pool       int
	Out        outKind
	PanicKind  int
	Gate       bool // async: the operator parks on a gate (the stage keeps its worker busy)
	Prio       int
	// PauseSubmit (async): the harness holds the call of Pool.Submit back at its entry (an
	// interleaving point between "registered as pending" and "handed to the pool")
	PauseSubmit bool
}

type qAction struct {
	Kind string // start | cancel | stop | fill | rel
	Arg  int    // pipeline / pool / selector
	Pref string // rel: stage | submit | blk | any
}

func (a qAction) String() string {
	if a.Kind == "rel" {
		return fmt.Sprintf("rel:%s%d", a.Pref, a.Arg)
	}
	return fmt.Sprintf("%s%d", a.Kind, a.Arg)
}

type qSpec struct {
	Nodes   []qNode
	Roots   []int    // per pipeline
	CtxKind []string // per pipeline: cancel | deadline | parent
	Width   []int    // per pool
	Script  []qAction
	// Force (regression tests only): the script is executed as written even while the finding is listed
	Force bool
}

func (s *qSpec) canon() string {
	var sb strings.Builder
	var rec func(i int)
	rec = func(i int) {
		n := &s.Nodes[i]
		mode := "s"
		if n.Async {
			mode = fmt.Sprintf("a%d@%d", n.Prio, n.Pool)
			if n.Gate {
				mode += "g"
			}
			if n.PauseSubmit {
				mode += "p"
			}
		}
		fmt.Fprintf(&sb, "%d:%s:%s", i, mode, n.Out)
		if n.Out == outPanic {
			fmt.Fprintf(&sb, "%d", n.PanicKind)
		}
		if len(n.Children) > 0 {
			sb.WriteString("[")
			for k, c := range n.Children {
				if k > 0 {
					sb.WriteString(",")
				}
				rec(c)
			}
			sb.WriteString("]")
		}
	}
	for q, root := range s.Roots {
		fmt.Fprintf(&sb, "q%d(%s) ", q, s.CtxKind[q])
		rec(root)
		sb.WriteString(" ")
	}
	fmt.Fprintf(&sb, "widths=%v script=", s.Width)
	for i, a := range s.Script {
		if i > 0 {
			sb.WriteString(",")
		}
		sb.WriteString(a.String())
	}
	return sb.String()
}

// modelStarted: a stage is started iff every ancestor succeeded (exact when every submitted
// stage is executed and nothing panics).
func (s *qSpec) modelStarted() []bool {
	st := make([]bool, len(s.Nodes))
	for i := range s.Nodes { // a parent precedes its children
		n := &s.Nodes[i]
		if n.Parent < 0 {
			st[i] = true
		} else {
			st[i] = st[n.Parent] && s.Nodes[n.Parent].Out.succeeds()
		}
	}
	return st
}

// thread of stage c: the goroutine that calls Execute (hence Submit) of c is the one that
// handles the completion of c's nearest async ancestor (a worker of that ancestor's pool), or
// the goroutine of Pipeline.Execute. Returned: the ancestor's id, or -(q+1).
func (s *qSpec) threadOf(c int) int {
	for p := s.Nodes[c].Parent; p >= 0; p = s.Nodes[p].Parent {
		if s.Nodes[p].Async {
			return p
		}
	}
	return -(s.Nodes[c].Q + 1)
}

// ---- one execution ---------------------------------------------------------------------------

// ownedDeadline is a context whose deadline expires when the harness says so (Err() is
// context.DeadlineExceeded afterwards, as for context.WithTimeout), so that "the time-out of the
// request fires while the task is queued" is a step of the schedule and not a matter of timing.
type ownedDeadline struct {
	mu       sync.Mutex
	done     chan struct{}
	err      error
	deadline time.Time
}

func newOwnedDeadline() *ownedDeadline {
	return &ownedDeadline{done: make(chan struct{}), deadline: time.Now().Add(time.Hour)}
}
func (c *ownedDeadline) Deadline() (time.Time, bool) {
	c.mu.Lock()
	defer c.mu.Unlock()
	return c.deadline, true
}
func (c *ownedDeadline) Done() <-chan struct{} { return c.done }
func (c *ownedDeadline) Err() error {
	c.mu.Lock()
	defer c.mu.Unlock()
	return c.err
}
func (c *ownedDeadline) Value(any) any { return nil }
func (c *ownedDeadline) expire() {
	c.mu.Lock()
	defer c.mu.Unlock()
	if c.err == nil {
		c.err = context.DeadlineExceeded
		c.deadline = time.Now()
		close(c.done)
	}
}

type hTask struct {
	pool                               int
	kind                               string // blk | fill | bar
	gate                               chan struct{}
	submitted, arrived, released, done bool
	dropped                            bool // refused by a stopped pool (or possibly so)
}

type qPool struct {
	real     concurrent.Pool
	width    int
	stopInit bool // Stop() was called
	stopDone bool // Stop() returned
	tasks    []*hTask
}

type qResult struct {
	Started       []bool // per pipeline
	CbCount       []int
	CbErr         []error
	CtxDoneAtCb   []bool
	Planned       []int
	Began, Ended  []int
	HCalls        []int
	PlannedAtCb   [][]int // per pipeline: copies taken inside its first callback
	EndedAtCb     [][]int
	HandlerAtCb   [][]int
	Cancelled     []bool // per pipeline: its context was made done by the harness
	StopSeen      bool
	Classes       []string
	NonTrivial    bool
	GuardExpired  bool
	SkippedKnown  int
	QueuedThenRan int
	Seq           []string
}

type qRun struct {
	spec *qSpec

	mu   sync.Mutex
	cond *sync.Cond

	planned, began, ended []int
	arrived, released     []bool
	gates                 []chan struct{}

	submitEntered, submitPaused, inSubmit, submitBlocked, submitReturned, uncertain []bool
	submitSeq                                                                       int

	hCalls, hDepth []int
	hExpectErr     []bool

	pools []*qPool

	ctxs      []context.Context
	cancels   []func()
	cleanups  []func()
	cancelled []bool
	started   []bool
	execDone  []bool

	cbCount     []atomic.Int32
	cbErr       []error
	ctxDoneAtCb []bool
	plannedAtCb [][]int
	endedAtCb   [][]int
	handlerAtCb [][]int

	draining      bool
	stopSeen      bool
	queuedAtDone  []bool // stage was waiting in a queue when its context became done / its pool stopped
	classes       map[string]bool
	nonTrivial    bool
	guardExpired  bool
	skippedKnown  int
	queuedThenRan int
	seq           []string
}

func (r *qRun) event(f string, a ...any) { r.seq = append(r.seq, fmt.Sprintf(f, a...)) }

// ---- wrapper pool ----------------------------------------------------------------------------

// obsPool is the concurrent.Pool a harness stage is built with: it forwards to the real pool and
// tells the harness when Submit of its stage is entered and when it has returned.
type obsPool struct {
	r  *qRun
	id int
}

func (o *obsPool) Submit(ctx context.Context, task *concurrent.Task) { o.r.submit(o.id, ctx, task) }
func (o *obsPool) Stopped() bool {
	return o.r.pools[o.r.spec.Nodes[o.id].Pool].real.Stopped()
}
func (o *obsPool) Stop() {}

func (r *qRun) submit(id int, ctx context.Context, task *concurrent.Task) {
	n := &r.spec.Nodes[id]
	pl := r.pools[n.Pool]
	r.mu.Lock()
	r.submitEntered[id] = true
	r.submitSeq++
	host := -1
	if th := r.spec.threadOf(id); th >= 0 {
		host = r.spec.Nodes[th].Pool
	}
	if n.PauseSubmit && !r.draining && !(host >= 0 && r.pools[host].stopInit) {
		r.submitPaused[id] = true
		r.classes["submit-held-back-at-entry"] = true
		r.event("SP%d", id)
		r.cond.Broadcast()
		for r.submitPaused[id] {
			r.cond.Wait()
		}
	}
	r.submitBlocked[id] = !pl.stopInit && r.queued(n.Pool) >= qCapacity
	doneBefore := ctx.Err() != nil || pl.real.Stopped()
	r.inSubmit[id] = true
	if r.submitBlocked[id] {
		r.classes["submit-blocked-on-full-queue"] = true
		r.event("SB%d", id)
	} else {
		r.event("S%d", id)
	}
	r.cond.Broadcast()
	r.mu.Unlock()

	pl.real.Submit(ctx, task)

	r.mu.Lock()
	r.inSubmit[id] = false
	r.submitBlocked[id] = false
	r.submitReturned[id] = true
	r.submitSeq++
	if doneBefore || ctx.Err() != nil || pl.real.Stopped() {
		// accepted or rejected: only the pool knows (a done context and room in the queue are
		// both ready in Submit's select)
		r.uncertain[id] = true
	}
	r.cond.Broadcast()
	r.mu.Unlock()
}

// queued (r.mu held): tasks known to wait in the queue of pool p.
func (r *qRun) queued(p int) int {
	k := r.queuedWork(p)
	for _, h := range r.pools[p].tasks {
		if h.kind == "blk" && h.submitted && !h.arrived && !h.dropped {
			k++
		}
	}
	return k
}

// queuedWork (r.mu held): the same without the blockers that wait for a worker.
func (r *qRun) queuedWork(p int) int {
	k := 0
	for _, h := range r.pools[p].tasks {
		if h.kind != "blk" && h.submitted && !h.arrived && !h.dropped {
			k++
		}
	}
	for i := range r.spec.Nodes {
		n := &r.spec.Nodes[i]
		if n.Async && n.Pool == p && r.submitReturned[i] && !r.uncertain[i] && r.began[i] == 0 && r.hCalls[i] == 0 {
			k++
		}
	}
	return k
}

// blockedNow (r.mu held): the goroutine inside Submit of stage c cannot proceed: the queue holds
// qCapacity tasks the harness knows of (accepted, not yet begun). Exact whenever every worker is
// parked (nothing is on its way from the queue to a worker then), which is when the harness acts.
func (r *qRun) blockedNow(c int) bool {
	return r.inSubmit[c] && r.queued(r.spec.Nodes[c].Pool) >= qCapacity
}

// threadParked (r.mu held): the goroutine th (see threadOf) is held inside a Submit.
func (r *qRun) threadParked(th int) bool {
	for c := range r.spec.Nodes {
		if r.spec.Nodes[c].Async && r.spec.threadOf(c) == th && (r.submitPaused[c] || r.blockedNow(c)) {
			return true
		}
	}
	return false
}

// parked (r.mu held): workers of pool p that are occupied by something the harness knows to be
// parked.
func (r *qRun) parked(p int) int {
	k := 0
	for _, h := range r.pools[p].tasks {
		if h.kind != "fill" && h.arrived && !h.released {
			k++
		}
	}
	for i := range r.spec.Nodes {
		n := &r.spec.Nodes[i]
		if !n.Async {
			continue
		}
		if n.Pool == p && r.arrived[i] && !r.released[i] {
			k++
		}
		if th := r.spec.threadOf(i); th >= 0 && r.spec.Nodes[th].Pool == p {
			if r.submitPaused[i] || r.blockedNow(i) {
				k++
			}
		}
	}
	return k
}

// ---- stages ----------------------------------------------------------------------------------

type qStage struct {
	*stage.VerifStage
	r  *qRun
	id int
}

func (h *qStage) Execute(node stage.PlanNode, completeHandle func(), errHandle func(err error)) {
	h.VerifStage.Execute(node,
		func() { h.r.handler(h.id, completeHandle) },
		func(err error) { h.r.handler(h.id, func() { errHandle(err) }) })
}

func (r *qRun) handler(id int, fn func()) {
	r.mu.Lock()
	r.hCalls[id]++
	r.hDepth[id]++
	r.hExpectErr[id] = false
	r.mu.Unlock()
	returned := false
	defer func() {
		r.mu.Lock()
		r.hDepth[id]--
		if !returned && r.spec.Nodes[id].Async {
			// panicking through the task of this stage into the pool's recover, which calls the
			// stage's error handler
			r.hExpectErr[id] = true
		}
		r.cond.Broadcast()
		r.mu.Unlock()
	}()
	fn()
	returned = true
}

func (r *qRun) handlersDone(i int) bool {
	return r.hCalls[i] > 0 && r.hDepth[i] == 0 && !r.hExpectErr[i]
}

type qOp struct {
	r  *qRun
	id int
}

func (o *qOp) Identifier() string { return fmt.Sprintf("c19q-op-%d", o.id) }

func (o *qOp) Execute() error {
	r, id := o.r, o.id
	n := &r.spec.Nodes[id]
	r.mu.Lock()
	r.began[id]++
	park := false
	if n.Async {
		r.arrived[id] = true
		park = n.Gate && !r.released[id] && !r.draining && !r.pools[n.Pool].stopInit
		if !park {
			r.released[id] = true
		}
		if r.queuedAtDone[id] {
			r.queuedThenRan++
		}
	}
	r.event("X%d", id)
	r.cond.Broadcast()
	r.mu.Unlock()
	if park {
		<-r.gates[id]
	}
	defer func() {
		r.mu.Lock()
		r.ended[id]++
		r.event("E%d", id)
		r.cond.Broadcast()
		r.mu.Unlock()
	}()
	switch n.Out {
	case outFail:
		return fmt.Errorf("c19q-stage-%d failed", id)
	case outNotFound, outIgnored:
		return fmt.Errorf("c19q-stage-%d: %w", id, constants.ErrNotFound)
	case outPanic:
		raise(id, n.PanicKind)
	}
	return nil
}

func (r *qRun) callback(q int, err error) {
	first := r.cbCount[q].Add(1) == 1
	r.mu.Lock()
	if first {
		r.cbErr[q] = err
		r.ctxDoneAtCb[q] = r.cancelled[q]
		r.plannedAtCb[q] = append([]int(nil), r.planned...)
		r.endedAtCb[q] = append([]int(nil), r.ended...)
		r.handlerAtCb[q] = append([]int(nil), r.hCalls...)
	}
	r.event("CB%d", q)
	r.cond.Broadcast()
	r.mu.Unlock()
}

// ---- harness tasks ---------------------------------------------------------------------------

// waitGuard waits until pred (under r.mu) holds; false when the guard expired first.
func (r *qRun) waitGuard(guard time.Duration, pred func() bool) bool {
	r.mu.Lock()
	defer r.mu.Unlock()
	if pred() {
		return true
	}
	expired := false
	timer := time.AfterFunc(guard, func() {
		r.mu.Lock()
		expired = true
		r.cond.Broadcast()
		r.mu.Unlock()
	})
	defer timer.Stop()
	for !pred() {
		if expired {
			return false
		}
		r.cond.Wait()
	}
	return true
}

// submitH hands a harness task to pool p (from a goroutine of its own: Submit blocks while the
// queue is full) and waits until the pool has taken it.
func (r *qRun) submitH(p int, kind string, gate chan struct{}, guard time.Duration) *hTask {
	h := &hTask{pool: p, kind: kind, gate: gate}
	r.mu.Lock()
	r.pools[p].tasks = append(r.pools[p].tasks, h)
	r.mu.Unlock()
	task := concurrent.NewTask(func() {
		r.mu.Lock()
		h.arrived = true
		park := h.kind != "fill" && !h.released && !(h.kind == "blk" && r.draining)
		r.cond.Broadcast()
		r.mu.Unlock()
		if park {
			<-h.gate
		}
		r.mu.Lock()
		h.released = true
		h.done = true
		r.cond.Broadcast()
		r.mu.Unlock()
	}, func(error) {
		r.mu.Lock()
		h.dropped = true
		r.cond.Broadcast()
		r.mu.Unlock()
	})
	go func() {
		r.pools[p].real.Submit(context.Background(), task)
		r.mu.Lock()
		h.submitted = true
		if r.pools[p].real.Stopped() && !h.arrived {
			// a blocker on its way while the pool was stopped: accepted (Stop runs it) or
			// refused, the harness does not wait for it
			h.dropped = true
		}
		r.cond.Broadcast()
		r.mu.Unlock()
	}()
	// (a blocker is not waited for: it counts as on its way until it has a worker, also while
	// its Submit waits for room in a full queue)
	if kind != "blk" && !r.waitGuard(guard, func() bool { return h.submitted }) {
		return nil
	}
	return h
}

// releaseH (r.mu held) opens the gate of a harness task.
func (r *qRun) releaseH(h *hTask) {
	if !h.released {
		h.released = true
		if h.kind == "blk" {
			close(h.gate)
		}
	}
}

// stable (r.mu held): no goroutine the harness knows of is on its way: every Pipeline.Execute
// has returned or is held inside a Submit, every stage that got a worker is parked on its gate
// or has been handled completely by the pipeline (or its worker is held inside a Submit), every
// released harness task has ended.
func (r *qRun) stable() bool {
	for q := range r.spec.Roots {
		if r.started[q] && !r.execDone[q] && !r.threadParked(-(q + 1)) {
			return false
		}
	}
	for i := range r.spec.Nodes {
		n := &r.spec.Nodes[i]
		if !n.Async {
			continue
		}
		if r.inSubmit[i] && !r.blockedNow(i) {
			return false
		}
		if r.began[i] == 0 {
			continue
		}
		if r.arrived[i] && !r.released[i] {
			continue // on its gate
		}
		if !r.handlersDone(i) && !r.threadParked(i) {
			return false
		}
	}
	for _, pl := range r.pools {
		for _, h := range pl.tasks {
			if h.dropped {
				continue
			}
			if h.submitted && h.released && !h.done && h.kind != "bar" {
				return false
			}
			if h.kind == "fill" && h.arrived && !h.done {
				return false
			}
		}
		if pl.stopInit && !pl.stopDone {
			return false
		}
	}
	return true
}

// quiescent (r.mu held): stable, and every worker of every live pool is occupied by something
// parked.
func (r *qRun) quiescent() bool {
	if !r.stable() {
		return false
	}
	for p, pl := range r.pools {
		if !pl.stopInit && r.parked(p) < pl.width {
			return false
		}
	}
	return true
}

// settle brings the case to a quiescent point (see the file comment). False: a guard expired.
func (r *qRun) settle() bool {
	for {
		if !r.waitGuard(qStepGuard, r.stable) {
			return false
		}
		r.mu.Lock()
		var todo []int
		for p, pl := range r.pools {
			if pl.stopInit {
				continue
			}
			pending := 0
			for _, h := range pl.tasks {
				if h.kind == "blk" && !h.arrived {
					pending++
				}
			}
			for need := pl.width - r.parked(p) - pending; need > 0; need-- {
				todo = append(todo, p)
			}
		}
		r.mu.Unlock()
		if len(todo) == 0 {
			return r.waitGuard(qStepGuard, r.quiescent)
		}
		for _, p := range todo {
			if r.submitH(p, "blk", make(chan struct{}), qStepGuard) == nil {
				return false
			}
		}
	}
}

// barrier: W tasks that have to be inside the W workers of pool p at the same time. When they
// are, every task submitted to p before them has ended.
func (r *qRun) barrier(p int) bool {
	gate := make(chan struct{})
	var hs []*hTask
	for k := 0; k < r.pools[p].width; k++ {
		h := r.submitH(p, "bar", gate, qDrainGuard)
		if h == nil {
			return false
		}
		hs = append(hs, h)
	}
	ok := r.waitGuard(qDrainGuard, func() bool {
		for _, h := range hs {
			if !h.arrived {
				return false
			}
		}
		return true
	})
	close(gate)
	if !ok {
		return false
	}
	return r.waitGuard(qDrainGuard, func() bool {
		for _, h := range hs {
			if !h.done {
				return false
			}
		}
		return true
	})
}

// ---- statistics of the pools (shared by the cases of the process) ------------------------------

var (
	qStatsMu  sync.Mutex
	qStats    = map[int]*metrics.ConcurrentStatistics{}
	qStatsGen int
)

func qPoolStats(p int) *metrics.ConcurrentStatistics {
	qStatsMu.Lock()
	defer qStatsMu.Unlock()
	if qStats[p] == nil {
		qStatsGen++
		qStats[p] = metrics.NewConcurrentStatistics(fmt.Sprintf("c19q-%d-%d", qStatsGen, p), linmetric.StorageRegistry)
	}
	return qStats[p]
}

func qAbandonStats() {
	qStatsMu.Lock()
	qStats = map[int]*metrics.ConcurrentStatistics{}
	qStatsMu.Unlock()
}

// ---- runner ------------------------------------------------------------------------------------

// stageState (r.mu held) of stage i as the harness knows it.
func (r *qRun) stageState(i int) string {
	n := &r.spec.Nodes[i]
	switch {
	case r.planned[i] == 0:
		return "unregistered"
	case !n.Async:
		if r.hCalls[i] > 0 && r.hDepth[i] == 0 {
			return "finished"
		}
		return "inline"
	case r.submitPaused[i]:
		return "pre-submit"
	case r.inSubmit[i]:
		return "blocked-submit"
	case r.began[i] == 0 && r.hCalls[i] == 0:
		return "queued"
	case r.handlersDone(i):
		return "finished"
	case r.arrived[i] && !r.released[i]:
		return "running"
	default:
		return "handler-held"
	}
}

// knownForbidsDone (r.mu held): while the finding is listed, the context of pipeline q (pool < 0)
// or pool p must not become done / stopped as long as a Submit of one of its stages can still
// follow.
func (r *qRun) knownForbidsDone(q, pool int) bool {
	if r.spec.Force || !ev.Known(sigRejectedTask) {
		return false
	}
	model := r.spec.modelStarted()
	for i := range r.spec.Nodes {
		n := &r.spec.Nodes[i]
		if !n.Async || !model[i] || r.submitReturned[i] {
			continue
		}
		if (pool < 0 && n.Q == q) || (pool >= 0 && n.Pool == pool) {
			return true
		}
	}
	return false
}

func runQCase(spec *qSpec) (*qResult, error) {
	n := len(spec.Nodes)
	nq := len(spec.Roots)
	r := &qRun{
		spec:    spec,
		planned: make([]int, n), began: make([]int, n), ended: make([]int, n),
		arrived: make([]bool, n), released: make([]bool, n), gates: make([]chan struct{}, n),
		submitEntered: make([]bool, n), submitPaused: make([]bool, n), inSubmit: make([]bool, n),
		submitBlocked: make([]bool, n), submitReturned: make([]bool, n), uncertain: make([]bool, n),
		hCalls: make([]int, n), hDepth: make([]int, n), hExpectErr: make([]bool, n),
		ctxs: make([]context.Context, nq), cancels: make([]func(), nq),
		cancelled: make([]bool, nq), started: make([]bool, nq), execDone: make([]bool, nq),
		cbCount: make([]atomic.Int32, nq), cbErr: make([]error, nq), ctxDoneAtCb: make([]bool, nq),
		plannedAtCb: make([][]int, nq), endedAtCb: make([][]int, nq), handlerAtCb: make([][]int, nq),
		queuedAtDone: make([]bool, n), classes: map[string]bool{},
	}
	r.cond = sync.NewCond(&r.mu)
	for i := range r.gates {
		r.gates[i] = make(chan struct{})
	}
	for p, w := range spec.Width {
		stats := qPoolStats(p)
		if alive := stats.WorkersAlive.Get(); alive != 0 {
			return nil, fmt.Errorf("harness: %v workers of a previous case are still alive", alive)
		}
		r.pools = append(r.pools, &qPool{real: concurrent.NewPool(fmt.Sprintf("c19q-%d", p), w, time.Minute, stats), width: w})
	}
	for q, kind := range spec.CtxKind {
		switch kind {
		case "deadline":
			c := newOwnedDeadline()
			r.ctxs[q], r.cancels[q] = c, c.expire
		case "parent":
			// production: flow.NewTaskContextWithTimeout(stream.Context(), timeout); the stream goes away
			parent, pcancel := context.WithCancel(context.Background())
			c, ccancel := context.WithTimeout(parent, time.Hour)
			r.ctxs[q], r.cancels[q] = c, pcancel
			r.cleanups = append(r.cleanups, ccancel)
		default:
			c, cancel := context.WithCancel(context.Background())
			r.ctxs[q], r.cancels[q] = c, cancel
		}
	}
	defer func() {
		for q := range r.cancels {
			r.cancels[q]()
		}
		for _, f := range r.cleanups {
			f()
		}
	}()

	stages := make([]*stage.VerifStage, n)
	for i := range spec.Nodes {
		id := i
		nd := &spec.Nodes[i]
		if nd.Async {
			stages[i] = stage.NewVerifStage(r.ctxs[nd.Q], &obsPool{r: r, id: id}, fmt.Sprintf("c19q-stage-%d", id))
		} else {
			stages[i] = stage.NewVerifStage(nil, nil, fmt.Sprintf("c19q-stage-%d", id))
		}
		stages[i].PlanFn = func() stage.PlanNode {
			r.mu.Lock()
			r.planned[id]++
			r.mu.Unlock()
			op := &qOp{r: r, id: id}
			if spec.Nodes[id].Out == outIgnored {
				return stage.NewPlanNodeWithIgnore(op)
			}
			return stage.NewPlanNode(op)
		}
		stages[i].NextFn = func() []stage.Stage {
			var next []stage.Stage
			for _, c := range spec.Nodes[id].Children {
				next = append(next, &qStage{VerifStage: stages[c], r: r, id: c})
			}
			return next
		}
	}

	var herr error
	noteDone := func(q, pool int) {
		// (r.mu held) evidence: in which states the stages concerned are at this moment
		for i := range spec.Nodes {
			nd := &spec.Nodes[i]
			if (pool < 0 && nd.Q != q) || (pool >= 0 && (!nd.Async || nd.Pool != pool)) {
				continue
			}
			if r.cbCount[nd.Q].Load() > 0 {
				continue
			}
			st := r.stageState(i)
			what := "cancel"
			if pool >= 0 {
				what = "stop"
			}
			r.classes[what+"@"+st] = true
			switch st {
			case "queued":
				r.queuedAtDone[i] = true
				r.nonTrivial = true
			case "pre-submit", "blocked-submit":
				r.nonTrivial = true
			}
		}
	}

	act := func(a qAction) bool { // false: a guard expired
		switch a.Kind {
		case "start":
			q := a.Arg
			r.mu.Lock()
			r.started[q] = true
			r.event("start%d", q)
			r.mu.Unlock()
			tracker := trackerpkg.NewStageTracker(&flow.TaskContext{Ctx: r.ctxs[q], Cancel: func() {}, Start: time.Now()})
			pipeline := query.NewExecutePipeline(tracker, func(err error) { r.callback(q, err) })
			go func() {
				pipeline.Execute(&qStage{VerifStage: stages[spec.Roots[q]], r: r, id: spec.Roots[q]})
				r.mu.Lock()
				r.execDone[q] = true
				r.cond.Broadcast()
				r.mu.Unlock()
			}()
		case "cancel":
			q := a.Arg
			r.mu.Lock()
			if r.cancelled[q] {
				r.mu.Unlock()
				return true
			}
			if r.knownForbidsDone(q, -1) {
				r.skippedKnown++
				r.classes["cancel:skipped-while-finding-listed"] = true
				r.mu.Unlock()
				return true
			}
			switch {
			case !r.started[q]:
				r.classes["cancel@before-start"] = true
			case r.cbCount[q].Load() > 0:
				r.classes["cancel@after-callback"] = true
			}
			noteDone(q, -1)
			r.cancelled[q] = true
			r.event("cancel%d", q)
			var blocked []int
			for i := range spec.Nodes {
				if spec.Nodes[i].Q == q && r.inSubmit[i] {
					blocked = append(blocked, i)
				}
			}
			r.mu.Unlock()
			r.cancels[q]()
			// a Submit that waits for room in a full queue returns now (nothing else is ready)
			if !r.waitGuard(qStepGuard, func() bool {
				for _, i := range blocked {
					if r.inSubmit[i] {
						return false
					}
				}
				return true
			}) {
				return false
			}
		case "stop":
			p := a.Arg
			r.mu.Lock()
			pl := r.pools[p]
			applicable := !pl.stopInit
			for i := range spec.Nodes {
				nd := &spec.Nodes[i]
				if !nd.Async {
					continue
				}
				if th := spec.threadOf(i); th >= 0 && spec.Nodes[th].Pool == p && (r.submitPaused[i] || r.inSubmit[i]) {
					applicable = false // a worker of p is held inside a Submit
				}
				if nd.Pool == p && r.inSubmit[i] {
					applicable = false
				}
			}
			if applicable && r.knownForbidsDone(-1, p) {
				r.skippedKnown++
				r.classes["stop:skipped-while-finding-listed"] = true
				applicable = false
			}
			if !applicable {
				r.mu.Unlock()
				return true
			}
			noteDone(-1, p)
			r.stopSeen = true
			r.event("stop%d", p)
			r.mu.Unlock()
			go func() {
				pl.real.Stop()
				r.mu.Lock()
				pl.stopDone = true
				r.cond.Broadcast()
				r.mu.Unlock()
			}()
			for !pl.real.Stopped() { // (set by the first instruction of Stop)
				runtime.Gosched()
			}
			// Stop joins the workers and runs what is queued: free everything that is parked on p
			r.mu.Lock()
			pl.stopInit = true
			for _, h := range pl.tasks {
				r.releaseH(h)
			}
			for i := range spec.Nodes {
				if spec.Nodes[i].Async && spec.Nodes[i].Pool == p && !r.released[i] {
					r.released[i] = true
					close(r.gates[i])
				}
			}
			r.cond.Broadcast()
			r.mu.Unlock()
		case "fill":
			p := a.Arg
			r.mu.Lock()
			pl := r.pools[p]
			// (not a pool whose workers submit into it: they would wait for room they have to make themselves)
			applicable := !pl.stopInit && r.parked(p) >= pl.width && !spec.selfFeeding(p)
			for i := range spec.Nodes {
				if spec.Nodes[i].Async && spec.Nodes[i].Pool == p && r.uncertain[i] {
					applicable = false
				}
			}
			k := qCapacity - r.queued(p)
			r.mu.Unlock()
			if !applicable || k <= 0 {
				return true
			}
			for ; k > 0; k-- {
				if r.submitH(p, "fill", nil, qStepGuard) == nil {
					return false
				}
			}
			r.mu.Lock()
			r.classes["queue-filled"] = true
			r.event("fill%d", p)
			r.mu.Unlock()
		case "rel":
			r.mu.Lock()
			var stagesP, submits []int
			var blks []*hTask
			for i := range spec.Nodes {
				if !spec.Nodes[i].Async {
					continue
				}
				if r.arrived[i] && !r.released[i] {
					stagesP = append(stagesP, i)
				}
				if r.submitPaused[i] {
					submits = append(submits, i)
				}
			}
			sort.Slice(stagesP, func(a, b int) bool { return spec.Nodes[stagesP[a]].Prio < spec.Nodes[stagesP[b]].Prio })
			for p, pl := range r.pools {
				// a blocker is worth releasing only if something waits behind it
				waiting := r.queuedWork(p) > 0
				for i := range spec.Nodes {
					if spec.Nodes[i].Async && spec.Nodes[i].Pool == p && (r.inSubmit[i] || (r.uncertain[i] && r.began[i] == 0)) {
						waiting = true
					}
				}
				if !waiting || pl.stopInit {
					continue
				}
				for _, h := range pl.tasks {
					if h.kind == "blk" && h.arrived && !h.released {
						blks = append(blks, h)
					}
				}
			}
			pick := func(kind string) bool {
				switch kind {
				case "stage":
					if len(stagesP) == 0 {
						return false
					}
					i := stagesP[a.Arg%len(stagesP)]
					r.released[i] = true
					close(r.gates[i])
					r.event("R%d", i)
				case "submit":
					if len(submits) == 0 {
						return false
					}
					i := submits[a.Arg%len(submits)]
					r.submitPaused[i] = false
					r.event("RS%d", i)
				case "blk":
					if len(blks) == 0 {
						return false
					}
					h := blks[a.Arg%len(blks)]
					r.releaseH(h)
					r.event("RB%d", h.pool)
				}
				return true
			}
			order := []string{"stage", "submit", "blk"}
			switch a.Pref {
			case "submit":
				order = []string{"submit", "blk", "stage"}
			case "blk":
				order = []string{"blk", "stage", "submit"}
			case "any":
				order = [][]string{{"stage", "submit", "blk"}, {"submit", "blk", "stage"}, {"blk", "stage", "submit"}}[a.Arg%3]
			}
			for _, k := range order {
				if pick(k) {
					break
				}
			}
			r.cond.Broadcast()
			r.mu.Unlock()
		}
		return true
	}

	// all workers busy before anything starts
	ok := r.settle()
	for _, a := range spec.Script {
		if !ok {
			break
		}
		if ok = act(a); ok {
			ok = r.settle()
		}
		if ok {
			r.mu.Lock()
			for i := range spec.Nodes {
				if r.blockedNow(i) {
					r.classes["submit-blocked-on-full-queue"] = true
				}
			}
			r.mu.Unlock()
		}
	}
	if !ok {
		r.guardExpired = true
		if qDebug {
			r.mu.Lock()
			fmt.Printf("GUARD EXPIRED case=%s\n events=%s\n", spec.canon(), strings.Join(r.seq, " "))
			for p, pl := range r.pools {
				fmt.Printf("  pool %d width %d parked %d queued %d stopInit %v stopDone %v\n", p, pl.width, r.parked(p), r.queued(p), pl.stopInit, pl.stopDone)
				for _, h := range pl.tasks {
					fmt.Printf("    %s sub=%v arr=%v rel=%v done=%v\n", h.kind, h.submitted, h.arrived, h.released, h.done)
				}
			}
			for i := range spec.Nodes {
				fmt.Printf("  stage %d state=%s inSubmit=%v blocked=%v paused=%v hCalls=%d hDepth=%d expectErr=%v arrived=%v released=%v\n", i, r.stageState(i), r.inSubmit[i], r.submitBlocked[i], r.submitPaused[i], r.hCalls[i], r.hDepth[i], r.hExpectErr[i], r.arrived[i], r.released[i])
			}
			fmt.Printf("  started=%v execDone=%v stable=%v\n", r.started, r.execDone, r.stable())
			r.mu.Unlock()
		}
	}

	// ---- end of the script: free everything, then barriers until nothing moves ----
	r.mu.Lock()
	r.draining = true
	for i := range spec.Nodes {
		if !r.released[i] {
			r.released[i] = true
			close(r.gates[i])
		}
		r.submitPaused[i] = false
	}
	for _, pl := range r.pools {
		for _, h := range pl.tasks {
			r.releaseH(h)
		}
	}
	for q := range spec.Roots {
		if !r.started[q] {
			r.classes["pipeline-not-started"] = true
		}
	}
	r.cond.Broadcast()
	r.mu.Unlock()

	for round := 0; herr == nil; round++ {
		r.mu.Lock()
		before := r.submitSeq
		r.mu.Unlock()
		for p, pl := range r.pools {
			r.mu.Lock()
			stopped := pl.stopInit
			r.mu.Unlock()
			if stopped {
				if !r.waitGuard(qDrainGuard, func() bool { return pl.stopDone }) {
					herr = fmt.Errorf("Stop of pool %d did not return", p)
				}
			} else if !r.barrier(p) {
				herr = fmt.Errorf("pool %d does not drain: a worker never returns", p)
			}
			if herr != nil {
				break
			}
		}
		if herr != nil {
			break
		}
		if !r.waitGuard(qDrainGuard, func() bool {
			for q := range spec.Roots {
				if r.started[q] && !r.execDone[q] {
					return false
				}
			}
			return r.stable()
		}) {
			herr = errors.New("Pipeline.Execute or a handler of a stage that ran never returned")
			break
		}
		r.mu.Lock()
		same := r.submitSeq == before
		r.mu.Unlock()
		if same {
			break
		}
		if round > 200 {
			herr = errors.New("harness: the pools never become idle")
		}
	}
	// the pools are idle (or the case has failed): stop them
	for _, pl := range r.pools {
		pl := pl
		r.mu.Lock()
		already := pl.stopInit
		pl.stopInit = true
		r.mu.Unlock()
		if already {
			continue
		}
		done := make(chan struct{})
		go func() { pl.real.Stop(); close(done) }()
		select {
		case <-done:
		case <-time.After(qDrainGuard):
			if herr == nil {
				herr = errors.New("worker pool did not stop")
			}
		}
	}
	if herr != nil {
		qAbandonStats()
	}

	r.mu.Lock()
	defer r.mu.Unlock()
	res := &qResult{
		Started: append([]bool(nil), r.started...), CbErr: append([]error(nil), r.cbErr...),
		CtxDoneAtCb: append([]bool(nil), r.ctxDoneAtCb...),
		Planned:     append([]int(nil), r.planned...), Began: append([]int(nil), r.began...), Ended: append([]int(nil), r.ended...),
		HCalls:      append([]int(nil), r.hCalls...),
		PlannedAtCb: r.plannedAtCb, EndedAtCb: r.endedAtCb, HandlerAtCb: r.handlerAtCb,
		Cancelled: append([]bool(nil), r.cancelled...), StopSeen: r.stopSeen,
		NonTrivial: r.nonTrivial, GuardExpired: r.guardExpired, SkippedKnown: r.skippedKnown, QueuedThenRan: r.queuedThenRan,
		Seq: append([]string(nil), r.seq...),
	}
	for q := range spec.Roots {
		res.CbCount = append(res.CbCount, int(r.cbCount[q].Load()))
	}
	for c := range r.classes {
		res.Classes = append(res.Classes, c)
	}
	sort.Strings(res.Classes)
	return res, herr
}

// ---- oracle ----------------------------------------------------------------------------------

func checkQOracle(spec *qSpec, res *qResult) []violation {
	var vs []violation
	model := spec.modelStarted()
	for q := range spec.Roots {
		if !res.Started[q] {
			continue
		}
		add := func(sig, f string, a ...any) {
			vs = append(vs, violation{sig, fmt.Sprintf("pipeline %d: ", q) + fmt.Sprintf(f, a...)})
		}
		failed, panicked, rejected := -1, -1, -1
		for i := range spec.Nodes {
			if spec.Nodes[i].Q != q {
				continue
			}
			if res.Planned[i] > 0 && res.Began[i] == 0 && rejected < 0 {
				rejected = i // registered with the pipeline, never executed
			}
			if res.Began[i] == 0 {
				continue
			}
			switch spec.Nodes[i].Out {
			case outFail, outNotFound:
				if failed < 0 {
					failed = i
				}
			case outPanic:
				if panicked < 0 {
					panicked = i
				}
			}
		}
		// (1) exactly once, never silent
		switch {
		case res.CbCount[q] == 0 && rejected >= 0:
			add("callback-never", "completion callback never fired: stage %d was registered as pending, never executed and never completed (pools idle)", rejected)
		case res.CbCount[q] == 0:
			add("callback-never", "completion callback never fired (pools idle)")
		case res.CbCount[q] > 1:
			add("callback-multiple", "completion callback fired %d times", res.CbCount[q])
		}
		// (2) an error whenever a stage failed, panicked or was not executed
		if res.CbCount[q] >= 1 {
			switch {
			case res.CbErr[q] == nil && (failed >= 0 || panicked >= 0):
				f := failed
				if f < 0 {
					f = panicked
				}
				add("error-lost", "stage %d (%s) was executed and did not succeed, but the pipeline completed with err == nil", f, spec.Nodes[f].Out)
			case res.CbErr[q] == nil && rejected >= 0:
				add("error-lost", "stage %d was started and never executed, but the pipeline completed with err == nil", rejected)
			case res.CbErr[q] == nil:
				for i := range spec.Nodes {
					if spec.Nodes[i].Q == q && model[i] && res.Began[i] == 0 {
						add("silent-partial", "stage %d (all ancestors succeeded) never ran, but the pipeline completed with err == nil", i)
						break
					}
				}
			case failed < 0 && panicked < 0 && rejected < 0 && !res.CtxDoneAtCb[q] && !res.StopSeen:
				// (a pipeline may report a done context as an error even if every stage ran)
				add("spurious-error", "no stage failed and its context was alive, but the pipeline completed with %v", res.CbErr[q])
			}
		}
		// (3) what ran
		for i := range spec.Nodes {
			if spec.Nodes[i].Q != q {
				continue
			}
			if res.Planned[i] > 1 || res.Began[i] > 1 {
				add("stage-twice", "stage %d was planned %d times and executed %d times", i, res.Planned[i], res.Began[i])
			}
			if res.Planned[i] > 0 && !model[i] {
				add("child-of-failed-stage-started", "stage %d was started although an ancestor did not succeed", i)
			}
			if res.Began[i] != res.Ended[i] {
				add("harness", "stage %d: began %d ended %d", i, res.Began[i], res.Ended[i])
			}
		}
		if panicked < 0 {
			if !res.Cancelled[q] && !res.StopSeen && rejected < 0 {
				for i := range spec.Nodes {
					if spec.Nodes[i].Q == q && model[i] && (res.Planned[i] != 1 || res.Began[i] != 1) {
						add("stage-not-run", "stage %d should have run once: planned %d, executed %d", i, res.Planned[i], res.Began[i])
					}
				}
			}
			if res.CbCount[q] >= 1 {
				for i := range spec.Nodes {
					if spec.Nodes[i].Q != q {
						continue
					}
					switch {
					case res.PlannedAtCb[q][i] != res.Planned[i]:
						add("early-callback", "stage %d was started after the completion callback", i)
					case res.Planned[i] > 0 && res.Began[i] > 0 && res.EndedAtCb[q][i] != res.Began[i]:
						add("early-callback", "completion callback fired while started stage %d had not finished", i)
					case res.Planned[i] > 0 && res.HandlerAtCb[q][i] == 0:
						add("early-callback", "completion callback fired before the pipeline was told that started stage %d is finished", i)
					}
				}
			}
		}
	}
	return vs
}

// ---- generator ---------------------------------------------------------------------------------

const (
	qMaxNodes        = 9 // per pipeline
	qMaxAsyncPerPool = 6
)

// selfFeeding: a worker of pool p submits stages into pool p (a stage of p has a pooled child or
// a pooled descendant below inline stages in p).
func (s *qSpec) selfFeeding(p int) bool {
	for c := range s.Nodes {
		if !s.Nodes[c].Async || s.Nodes[c].Pool != p {
			continue
		}
		if th := s.threadOf(c); th >= 0 && s.Nodes[th].Pool == p {
			return true
		}
	}
	return false
}

func genQSpec(t *rapid.T) *qSpec {
	s := &qSpec{}
	nPools := rapid.SampledFrom([]int{1, 1, 2, 2, 3}).Draw(t, "pools")
	for p := 0; p < nPools; p++ {
		s.Width = append(s.Width, rapid.SampledFrom([]int{1, 1, 1, 2, 2, 3}).Draw(t, "width"))
	}
	poolOfLevel := make([]int, 4)
	for l := range poolOfLevel {
		poolOfLevel[l] = rapid.SampledFrom(percent[:nPools]).Draw(t, "poolOfLevel")
	}
	nq := rapid.SampledFrom([]int{1, 1, 1, 2}).Draw(t, "pipelines")
	for q := 0; q < nq; q++ {
		s.CtxKind = append(s.CtxKind, rapid.SampledFrom([]string{"cancel", "cancel", "deadline", "parent"}).Draw(t, "ctxKind"))
		// 0 free mix; 1 production leaf shape (sync root, async below); 2 async stages with
		// inline stages below (nothing is submitted once the first async layer is queued); 3 all async
		shape := rapid.SampledFrom([]int{0, 0, 1, 1, 1, 1, 2, 2, 2, 3}).Draw(t, "shape")
		depth := rapid.SampledFrom([]int{1, 2, 2, 2, 3, 3}).Draw(t, "depth")
		allowPanic := rapid.SampledFrom([]bool{false, false, true}).Draw(t, "allowPanic")
		first := len(s.Nodes)
		var build func(parent, level int) int
		build = func(parent, level int) int {
			id := len(s.Nodes)
			s.Nodes = append(s.Nodes, qNode{ID: id, Parent: parent, Q: q})
			var async bool
			switch shape {
			case 1:
				async = parent >= 0
			case 2:
				async = level == 1 && depth == 1 || level == 2
			case 3:
				async = true
			default:
				async = rapid.Bool().Draw(t, "async")
			}
			n := &s.Nodes[id]
			n.Async = async
			if async {
				n.Pool = poolOfLevel[level-1]
				n.Gate = rapid.SampledFrom(percent[:10]).Draw(t, "gate") < 4
				n.PauseSubmit = rapid.SampledFrom(percent[:10]).Draw(t, "pauseSubmit") == 0
			}
			fan := 0
			if level < depth {
				if level == 1 {
					fan = rapid.SampledFrom([]int{1, 2, 2, 3}).Draw(t, "fanout")
				} else {
					fan = rapid.SampledFrom([]int{0, 1, 2, 2}).Draw(t, "fanout")
				}
			}
			w := rapid.SampledFrom(percent).Draw(t, "outcome")
			var out outKind
			switch {
			case fan > 0 && w < 82, fan == 0 && w < 55:
				out = outOK
			case fan > 0 && w < 86, fan == 0 && w < 60:
				out = outIgnored
			case fan > 0 && w < 93, fan == 0 && w < 80:
				out = outFail
			case fan > 0 && w < 95, fan == 0 && w < 85:
				out = outNotFound
			default:
				out = outPanic
			}
			if out == outPanic {
				if allowPanic {
					s.Nodes[id].PanicKind = rapid.SampledFrom(percent[:4]).Draw(t, "panicKind")
				} else {
					out = outFail
				}
			}
			s.Nodes[id].Out = out
			for k := 0; k < fan && len(s.Nodes)-first < qMaxNodes; k++ {
				c := build(id, level+1)
				s.Nodes[id].Children = append(s.Nodes[id].Children, c)
			}
			return id
		}
		s.Roots = append(s.Roots, build(-1, 1))
	}
	// At most qMaxAsyncPerPool pooled stages per pool: together with the blockers that wait for a
	// worker (<= width) the queue of a pool (qCapacity) never fills up by itself, so no worker
	// is ever blocked inside a Submit into its own pool (a dead-lock of the pool that has
	// nothing to do with the property). A queue is full only where the script fills it.
	perPool := map[int]int{}
	var asyncIDs []int
	for i := range s.Nodes {
		n := &s.Nodes[i]
		if n.Async {
			if perPool[n.Pool]++; perPool[n.Pool] > qMaxAsyncPerPool {
				n.Async, n.Gate, n.PauseSubmit, n.Pool = false, false, false, 0
				continue
			}
			asyncIDs = append(asyncIDs, i)
		}
	}
	if len(asyncIDs) > 1 {
		for prio, id := range rapid.Permutation(asyncIDs).Draw(t, "releaseOrder") {
			s.Nodes[id].Prio = prio
		}
	}

	// script: the pipelines are started, a number of releases follows; the moments at which a
	// context becomes done, a pool is stopped or a queue is filled up are positions in between.
	var script []qAction
	for q := 0; q < nq; q++ {
		script = append(script, qAction{Kind: "start", Arg: q})
	}
	nRel := rapid.SampledFrom([]int{0, 1, 2, 3, 4, 6, 8, 10}).Draw(t, "releases")
	for k := 0; k < nRel; k++ {
		script = append(script, qAction{Kind: "rel",
			Pref: rapid.SampledFrom([]string{"blk", "blk", "blk", "stage", "stage", "submit", "any", "any"}).Draw(t, "relPref"),
			Arg:  rapid.SampledFrom(percent[:12]).Draw(t, "relArg")})
	}
	// (mostly close to the start of the pipelines: that is where tasks wait in the queues)
	insert := func(a qAction, from int) {
		span := len(script) - from + 1
		if span > 4 && rapid.SampledFrom(percent[:3]).Draw(t, "early") > 0 {
			span = 4
		}
		pos := from + rapid.SampledFrom(percent[:span]).Draw(t, "position")
		script = append(script[:pos], append([]qAction{a}, script[pos:]...)...)
	}
	extra := rapid.SampledFrom([]string{"", "", "", "", "stop", "fill", "fill"}).Draw(t, "extra")
	switch extra {
	case "stop":
		insert(qAction{Kind: "stop", Arg: rapid.SampledFrom(percent[:nPools]).Draw(t, "stopPool")}, 0)
	case "fill":
		// a queue is worth filling where a Submit follows: a pool that has stages, before (or
		// right after) the pipelines start
		var used []int
		for p := 0; p < nPools; p++ {
			if perPool[p] > 0 {
				used = append(used, p)
			}
		}
		if len(used) > 0 {
			a := qAction{Kind: "fill", Arg: rapid.SampledFrom(used).Draw(t, "fillPool")}
			pos := rapid.SampledFrom(percent[:nq+2]).Draw(t, "fillPosition")
			if pos > len(script) {
				pos = len(script)
			}
			script = append(script[:pos], append([]qAction{a}, script[pos:]...)...)
		}
	}
	for q := 0; q < nq; q++ {
		// most contexts become done; mostly after the pipeline was started
		switch w := rapid.SampledFrom(percent[:10]).Draw(t, "cancelWhen"); {
		case w == 0:
		case w == 1:
			insert(qAction{Kind: "cancel", Arg: q}, 0)
		case w <= 4:
			// right after the pipeline was started: its first pooled stages wait in the queue, are
			// held back at Submit or wait for room in a full queue
			for pos := range script {
				if script[pos].Kind == "start" && script[pos].Arg == q {
					script = append(script[:pos+1], append([]qAction{{Kind: "cancel", Arg: q}}, script[pos+1:]...)...)
					break
				}
			}
		default:
			insert(qAction{Kind: "cancel", Arg: q}, nq)
		}
	}
	s.Script = script
	return s
}

// ---- evidence ----------------------------------------------------------------------------------

func classifyQ(spec *qSpec, res *qResult) (bool, []string) {
	cl := append([]string(nil), res.Classes...)
	cl = append(cl, fmt.Sprintf("pools=%d", len(spec.Width)), fmt.Sprintf("pipelines=%d", len(spec.Roots)))
	wide := false
	for _, w := range spec.Width {
		if w > 1 {
			wide = true
		}
	}
	if wide {
		cl = append(cl, "some-pool-wider-than-1")
	} else {
		cl = append(cl, "all-pools-one-worker")
	}
	anyCancel := false
	for q := range spec.Roots {
		if res.Cancelled[q] {
			anyCancel = true
			cl = append(cl, "ctx-done:"+spec.CtxKind[q])
		}
		switch {
		case !res.Started[q]:
		case res.CbCount[q] == 0:
			cl = append(cl, "cb:none")
		case res.CbErr[q] != nil:
			cl = append(cl, "cb:error")
			if res.Cancelled[q] {
				cl = append(cl, "cb:error:ctx-done")
			}
		default:
			cl = append(cl, "cb:nil")
			if res.Cancelled[q] {
				cl = append(cl, "cb:nil:ctx-done-every-stage-ran")
			}
		}
	}
	if len(spec.Roots) == 2 && res.Cancelled[0] != res.Cancelled[1] {
		cl = append(cl, "one-of-two-pipelines-cancelled")
	}
	if !anyCancel {
		cl = append(cl, "ctx-done:never")
	}
	if res.StopSeen {
		cl = append(cl, "pool-stopped")
	}
	if res.QueuedThenRan > 0 {
		cl = append(cl, "queued-at-done-then-executed")
	}
	if res.GuardExpired {
		cl = append(cl, "guard-expired")
	}
	anyFail, anyPanic, anyRejected := false, false, false
	for i := range spec.Nodes {
		if res.Planned[i] > 0 && res.Began[i] == 0 {
			anyRejected = true
		}
		if res.Began[i] == 0 {
			continue
		}
		switch spec.Nodes[i].Out {
		case outFail, outNotFound:
			anyFail = true
		case outPanic:
			anyPanic = true
		}
	}
	if anyFail {
		cl = append(cl, "some-stage-failed")
	}
	if anyPanic {
		cl = append(cl, "some-stage-panicked")
	}
	if anyRejected {
		cl = append(cl, "some-stage-rejected")
	}
	if !anyFail && !anyPanic && !anyRejected {
		cl = append(cl, "all-ok")
	}
	return res.NonTrivial, cl
}

func qSample(spec *qSpec, res *qResult) any {
	return map[string]any{
		"case":      spec.canon(),
		"events":    strings.Join(res.Seq, " "),
		"callbacks": fmt.Sprint(res.CbCount),
		"err":       fmt.Sprint(res.CbErr),
	}
}

// ---- property ----------------------------------------------------------------------------------

func runAndCheckQ(t interface {
	Fatalf(format string, args ...any)
}, group string, spec *qSpec) {
	res, herr := runQCase(spec)
	if res != nil {
		nt, cl := classifyQ(spec, res)
		ev.Case(group, spec.canon(), nt, cl, qSample(spec, res))
	}
	var sb strings.Builder
	if herr != nil {
		fmt.Fprintf(&sb, "\n  [stuck] %v (liveness bound %v)", herr, qDrainGuard)
	}
	if res != nil {
		for _, v := range checkQOracle(spec, res) {
			fmt.Fprintf(&sb, "\n  [%s] %s", v.Sig, v.Text)
		}
	}
	if sb.Len() > 0 {
		events := ""
		if res != nil {
			events = strings.Join(res.Seq, " ")
		}
		t.Fatalf("C19 violated:%s\n case:   %s\n events: %s", sb.String(), spec.canon(), events)
	}
}

// TestPipelineQueuedCancellation: see the file comment.
func TestPipelineQueuedCancellation(t *testing.T) {
	rapid.Check(t, func(t *rapid.T) {
		runAndCheckQ(t, "TestPipelineQueuedCancellation", genQSpec(t))
	})
}
