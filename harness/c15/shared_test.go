package c15

// Shared use of one table reader.
//
// kv/table/cache.go hands the SAME table.Reader object to every caller: the snapshots of all
// queries, the compaction job and the rollup job of a family read one file through one reader, at
// the same time. "yields each key's exact bytes on lookup, reports absent keys as absent, iterates
// in ascending key order" therefore has to hold for every ORDER of lookups / iterator steps on one
// reader, and for every interleaving of several users of it: Reader.Get, Reader.Iterator and the
// iterators must be read-only with respect to anything the reader shares between its users, and what
// they return must stay valid while the reader is retained (callers keep the returned slices).
//
// The round-trip tests look every key up once, ascending, from one goroutine, then iterate once.
// This file adds two things on top of the same builder / sorted-map model:
//
//   - TestReaderOrderClasses (deterministic, shrinkable): 1-3 LOGICAL users of one reader, each
//     with a generated list of steps, interleaved step by step on one goroutine by a generated
//     schedule (an owned schedule in the sense of DESIGN.md 3.2). The step lists are built from
//     order classes that expose per-reader state even without concurrency: alternating lookups
//     between far-apart roaring containers, runs inside one container, sweeps up / down over the
//     containers, absent keys (same container; same low bits in a container without keys, between
//     two present containers) between present keys, repeated lookups, the extremes, with two
//     iterators per user opened / advanced / abandoned / drained in between, merged scans over all
//     files (what the compaction job does), re-acquiring the reader from the cache (a new
//     snapshot), and re-checking the bytes returned by earlier lookups.
//   - TestSharedReaderGoroutines: the same users on 2-8 real goroutines released by one spin
//     barrier, each repeating a generated pattern (so that tens of thousands of lookups per
//     goroutine overlap), on a reader that is either warm or first used after the barrier.
//
// Both obtain the reader the way production does: from table.NewCache(...).GetReader (one retained
// reference per user) or through kv.Family snapshots (one snapshot per user: FindReaders + Get,
// Snapshot.Load, Snapshot.GetReader(...).Iterator()). Every single answer is compared with the
// sorted-map model of the file, so the oracle does not depend on the interleaving: the files are
// immutable while a case runs.

import (
	"bytes"
	"errors"
	"fmt"
	"math"
	"os"
	"path/filepath"
	"runtime"
	"runtime/debug"
	"sort"
	"strings"
	"sync"
	"sync/atomic"
	"testing"
	"time"

	"pgregory.net/rapid"

	"github.com/lindb/lindb/kv"
	"github.com/lindb/lindb/kv/table"
	"github.com/lindb/lindb/kv/version"
	"github.com/lindb/lindb/verifharness/sim/ev"
)

// ---- the files under test and their model ---------------------------------------------------------------

type sharedWorld struct {
	mode    string // "cache": table.Cache over a directory of tables; "family": kv store + family snapshots
	files   []*tableModel
	union   []uint32 // distinct keys of all files, ascending
	has     map[uint32]struct{}
	highs   []uint16 // containers (key >> 16) holding at least one key, ascending
	highSet map[uint16]int
	byHigh  [][]uint32 // union keys per container, same index as highs

	// merged view of all files: keys ascending with multiplicity, and the sorted values per key
	mergedKeys []uint32
	valsOf     map[uint32][][]byte

	// cache mode
	dir   string
	cache table.Cache
	names []string
	// family mode
	storeName string
	famOpt    kv.FamilyOption
	family    kv.Family
	numbers   []table.FileNumber
}

// sharedValue: mostly 4..16 bytes that depend on (key, file), so that the bytes of another key or
// of another file are recognised; 1 of 16 values is empty.
func sharedValue(seed uint64, key, tag uint32) []byte {
	h := mix(seed^uint64(tag+1)<<33, key)
	if h%16 == 0 {
		return []byte{}
	}
	return fill(seed, key, tag, 4+int((h>>8)%13))
}

func (w *sharedWorld) index() {
	w.has = map[uint32]struct{}{}
	w.valsOf = map[uint32][][]byte{}
	for _, m := range w.files {
		for _, k := range m.keys {
			w.has[k] = struct{}{}
			w.valsOf[k] = append(w.valsOf[k], m.vals[k])
		}
	}
	w.union = w.union[:0]
	for k := range w.has {
		w.union = append(w.union, k)
	}
	sort.Slice(w.union, func(i, j int) bool { return w.union[i] < w.union[j] })
	w.highSet = map[uint16]int{}
	for _, k := range w.union {
		h := uint16(k >> 16)
		if _, ok := w.highSet[h]; !ok {
			w.highSet[h] = len(w.highs)
			w.highs = append(w.highs, h)
			w.byHigh = append(w.byHigh, nil)
		}
		i := w.highSet[h]
		w.byHigh[i] = append(w.byHigh[i], k)
		sortValues(w.valsOf[k])
		for range w.valsOf[k] {
			w.mergedKeys = append(w.mergedKeys, k)
		}
	}
}

// want returns the sorted values of k over all files.
func (w *sharedWorld) want(k uint32) [][]byte { return w.valsOf[k] }

// ownerOf names the key (and file) whose stored bytes equal b: for failure messages only.
func (w *sharedWorld) ownerOf(b []byte, notKey uint32) string {
	if len(b) == 0 {
		return ""
	}
	for f, m := range w.files {
		for _, k := range m.keys {
			if k != notKey && bytes.Equal(m.vals[k], b) {
				return fmt.Sprintf(" - these are the bytes stored for key %d (container %d) in file %d", k, k>>16, f)
			}
		}
	}
	return ""
}

func buildSharedWorld(t failer, mode string, fileKeys [][]uint32, seed uint64) *sharedWorld {
	w := &sharedWorld{mode: mode}
	dir, err := os.MkdirTemp("", "c15-shared-")
	if err != nil {
		t.Fatalf("harness: %v", err)
	}
	w.dir = dir
	built := false
	defer func() { // Fatalf of a rapid.T panics: do not leave the store open / the directory behind
		if !built {
			w.close()
		}
	}()
	valuesOf := func(i int, ks []uint32) []op {
		ops := make([]op, 0, len(ks))
		total := 0
		for _, k := range ks {
			v := sharedValue(seed, k, uint32(i))
			total += len(v)
			ops = append(ops, op{key: k, val: v})
		}
		if total == 0 { // a flush without one value byte never becomes a file (see the assumptions)
			ops[0].val = fill(seed, ops[0].key, uint32(i), 5)
		}
		return ops
	}
	if mode == "cache" {
		for i, ks := range fileKeys {
			name := fmt.Sprintf("%06d.sst", i+1)
			w.files = append(w.files, buildTable(t, dir, name, valuesOf(i, ks), true, 0))
			w.names = append(w.names, name)
		}
		w.cache = table.NewCache(dir, time.Hour)
		w.index()
		built = true
		return w
	}
	registerMerger()
	w.storeName = filepath.Join(dir, "store")
	w.famOpt = kv.FamilyOption{Merger: string(mergerName), CompactThreshold: 1 << 20}
	store, err := kv.GetStoreManager().CreateStore(w.storeName, kv.DefaultStoreOption())
	if err != nil {
		t.Fatalf("harness: CreateStore: %v", err)
	}
	w.family, err = store.CreateFamily("f", w.famOpt)
	if err != nil {
		t.Fatalf("harness: CreateFamily: %v", err)
	}
	seen := map[table.FileNumber]bool{}
	for i, ks := range fileKeys {
		m := newTableModel()
		func() {
			flusher := w.family.NewFlusher()
			defer flusher.Release()
			for _, o := range valuesOf(i, ks) {
				m.add(o.key, o.val)
				if err := flusher.Add(o.key, o.val); err != nil {
					t.Fatalf("flusher.Add(%d) failed: %v", o.key, err)
				}
			}
			if err := flusher.Commit(); err != nil {
				t.Fatalf("flusher.Commit() of flush %d failed: %v", i, err)
			}
		}()
		w.files = append(w.files, m)
		snapshot := w.family.GetSnapshot()
		found := false
		for _, fm := range snapshot.GetCurrent().GetAllFiles() {
			if !seen[fm.GetFileNumber()] {
				seen[fm.GetFileNumber()] = true
				w.numbers = append(w.numbers, fm.GetFileNumber())
				found = true
			}
		}
		snapshot.Close()
		if !found || len(w.numbers) != i+1 {
			t.Fatalf("after flush %d the version lists %d new file(s); one file per committed flush expected", i, len(w.numbers)-i)
		}
	}
	w.index()
	built = true
	return w
}

// reopen closes and reopens the store: every table reader of the next round is new.
func (w *sharedWorld) reopen(t failer) {
	if err := kv.GetStoreManager().CloseStore(w.storeName); err != nil {
		t.Fatalf("CloseStore failed: %v", err)
	}
	store, err := kv.GetStoreManager().CreateStore(w.storeName, kv.DefaultStoreOption())
	if err != nil {
		t.Fatalf("reopening the store failed: %v", err)
	}
	w.family, err = store.CreateFamily("f", w.famOpt)
	if err != nil {
		t.Fatalf("reopening the family failed: %v", err)
	}
}

func (w *sharedWorld) close() {
	if w.cache != nil {
		_ = w.cache.Close()
	}
	if w.storeName != "" {
		_ = kv.GetStoreManager().CloseStore(w.storeName)
	}
	_ = os.RemoveAll(w.dir)
}

// ---- key sets with many / far-apart containers ---------------------------------------------------------------

// genSharedKeys draws the key pool of a case. Compared with genKeys it is biased to pools that span
// several containers, to containers that are far apart, and to "twins": the same low 16 bits stored
// in several containers, so that a lookup that lands in the wrong container finds something.
func genSharedKeys(t *rapid.T) (keys []uint32, shape string) {
	s := keySet{}
	switch rapid.IntRange(0, 7).Draw(t, "keyShape") {
	case 0, 1, 2: // nC containers spread over the whole range, 1-3 keys each
		nC := rapid.SampledFrom([]int{2, 3, 5, 16, 64, 300, 1200, 3000}).Draw(t, "spreadContainers")
		per := rapid.IntRange(1, 3).Draw(t, "spreadPer")
		twins := rapid.Bool().Draw(t, "spreadTwins")
		seed := rapid.Uint64().Draw(t, "spreadSeed")
		stride := uint64(65536 / nC)
		for i := 0; i < nC; i++ {
			high := uint64(i)*stride + mix(seed, uint32(i))%stride
			for j := 0; j < per; j++ {
				low := mix(seed^0xABCD, uint32(i*4+j)) % chunk
				if twins {
					low = mix(seed^0xABCD, uint32(j)) % chunk
				}
				s.add(high*chunk + low)
			}
		}
		shape = "spread"
	case 3, 4: // a few far-apart containers of different kinds (array / run / bitmap)
		cands := []uint64{0, 1, 2, 32767, 32768, 65534, 65535, uint64(rapid.IntRange(3, 65533).Draw(t, "farAny"))}
		mask := rapid.IntRange(1, 255).Draw(t, "farMask")
		lowStart := uint64(rapid.SampledFrom([]int{0, 1, 100, 30000, 60000}).Draw(t, "farLow"))
		n := 0
		for i, h := range cands {
			if mask&(1<<i) == 0 {
				continue
			}
			n++
			cnt := uint64(rapid.SampledFrom([]int{1, 2, 7, 200, 4500}).Draw(t, "farCount"))
			stride := uint64(rapid.SampledFrom([]int{1, 1, 3}).Draw(t, "farStride"))
			for j := uint64(0); j < cnt; j++ {
				if low := lowStart + j*stride; low < chunk {
					s.add(h*chunk + low)
				}
			}
		}
		if n < 2 {
			s.add(65535*chunk + lowStart)
			s.add(lowStart)
		}
		shape = "far-apart"
	case 5: // two or three neighbouring containers with keys on both sides of the boundaries
		h := uint64(rapid.IntRange(0, 65533).Draw(t, "nbHigh"))
		nb := rapid.IntRange(2, 3).Draw(t, "nbCount")
		seed := rapid.Uint64().Draw(t, "nbSeed")
		per := rapid.IntRange(1, 40).Draw(t, "nbPer")
		for c := 0; c < nb; c++ {
			base := (h + uint64(c)) * chunk
			for j := 0; j < per; j++ {
				s.add(base + mix(seed, uint32(j))%chunk) // twins in every container
			}
			if rapid.Bool().Draw(t, "nbEdges") {
				s.add(base)
				s.add(base + chunk - 1)
			}
		}
		shape = "neighbours"
	default: // the general generator of the round-trip test
		for _, k := range genKeys(t, "g", 6000) {
			s.add(uint64(k))
		}
		shape = "general"
	}
	return s.sorted(), shape
}

// genSharedFiles cuts the pool into 1-3 files; the first one mostly holds the whole pool.
func genSharedFiles(t *rapid.T, pool []uint32) [][]uint32 {
	n := rapid.SampledFrom([]int{1, 1, 2, 3}).Draw(t, "files")
	sub := genSubsets(t, pool, n)
	if rapid.IntRange(0, 3).Draw(t, "firstFileWhole") > 0 {
		sub[0] = append([]uint32(nil), pool...)
	}
	return sub
}

// ---- steps of one user of the reader ---------------------------------------------------------------------------

const (
	opGet       = iota // Reader.Get(key) on the reader of one file
	opLoad             // Snapshot.Load(key): the values of all files (cache mode: Get on every reader)
	opFind             // Snapshot.FindReaders(key) + Get on each (cache mode: as opLoad)
	opIterOpen         // (re)open iterator slot on a file, abandoning what the slot held
	opIterNext         // advance iterator slot by up to n entries (n < 0: to the end), open it if needed
	opMerged           // table.NewMergedIterator over new iterators of all files, first n entries (n < 0: all)
	opRecheck          // the bytes returned by earlier lookups are still the stored bytes
	opReacquire        // release the reader(s) / snapshot and obtain them again
)

type sstep struct {
	kind    int
	file    int
	slot    int
	n       int
	key     uint32
	present bool     // opGet: the file holds the key
	val     []byte   // opGet: its bytes
	want    [][]byte // opLoad / opFind: sorted values over all files
	class   string
}

func (s sstep) String() string {
	switch s.kind {
	case opGet:
		return fmt.Sprintf("get(f%d,%d|c%d,%s)", s.file, s.key, s.key>>16, s.class)
	case opLoad:
		return fmt.Sprintf("load(%d|c%d,%d values)", s.key, s.key>>16, len(s.want))
	case opFind:
		return fmt.Sprintf("find(%d|c%d,%d values)", s.key, s.key>>16, len(s.want))
	case opIterOpen:
		return fmt.Sprintf("iterOpen(slot%d,f%d)", s.slot, s.file)
	case opIterNext:
		return fmt.Sprintf("iterNext(slot%d,f%d,%d)", s.slot, s.file, s.n)
	case opMerged:
		return fmt.Sprintf("merged(%d)", s.n)
	case opRecheck:
		return "recheck"
	}
	return "reacquire"
}

func stepsString(steps []sstep) string {
	var sb strings.Builder
	for i, s := range steps {
		if i > 0 {
			sb.WriteByte(' ')
		}
		sb.WriteString(s.String())
	}
	return sb.String()
}

type stepGen struct {
	t *rapid.T
	w *sharedWorld
}

// containerIdx draws an index into w.highs, biased to the first, the last and the middle container.
func (g *stepGen) containerIdx(label string) int {
	n := len(g.w.highs)
	switch rapid.IntRange(0, 4).Draw(g.t, label+"CAt") {
	case 0:
		return 0
	case 1:
		return n - 1
	case 2:
		return n / 2
	default:
		return rapid.IntRange(0, n-1).Draw(g.t, label+"C")
	}
}

func (g *stepGen) presentKey(label string, ci int) uint32 {
	ks := g.w.byHigh[ci]
	switch rapid.IntRange(0, 3).Draw(g.t, label+"KAt") {
	case 0:
		return ks[0]
	case 1:
		return ks[len(ks)-1]
	default:
		return ks[rapid.IntRange(0, len(ks)-1).Draw(g.t, label+"K")]
	}
}

func (g *stepGen) isAbsent(k uint64) bool {
	if k > math.MaxUint32 {
		return false
	}
	_, ok := g.w.has[uint32(k)]
	return !ok
}

// absentIn: a key of container ci that no file holds (next to a present key, at the container's
// ends, anywhere).
func (g *stepGen) absentIn(label string, ci int) (uint32, bool) {
	base := uint64(g.w.highs[ci]) * chunk
	p := uint64(g.presentKey(label+"Near", ci))
	cands := []uint64{p + 1, p - 1, base, base + chunk - 1, base + uint64(rapid.IntRange(0, chunk-1).Draw(g.t, label+"AbsLow")), p + 2, p + 7}
	rot := rapid.IntRange(0, len(cands)-1).Draw(g.t, label+"AbsRot")
	for i := range cands {
		c := cands[(i+rot)%len(cands)]
		if c >= base && c < base+chunk && g.isAbsent(c) {
			return uint32(c), true
		}
	}
	return 0, false
}

// absentTwin: the low 16 bits of a present key of container ci, in a container WITHOUT keys: right
// after / before ci, half way to the next present container, at the ends of the key space.
func (g *stepGen) absentTwin(label string, ci int) (uint32, bool) {
	p := g.presentKey(label+"Of", ci)
	low := uint64(p) & (chunk - 1)
	h := int(g.w.highs[ci])
	next := 65536
	if ci+1 < len(g.w.highs) {
		next = int(g.w.highs[ci+1])
	}
	cands := []int{h + 1, h - 1, (h + next) / 2, next - 1, 0, 65535, rapid.IntRange(0, 65535).Draw(g.t, label+"TwinAny")}
	rot := rapid.IntRange(0, len(cands)-1).Draw(g.t, label+"TwinRot")
	for i := range cands {
		c := cands[(i+rot)%len(cands)]
		if c < 0 || c > 65535 {
			continue
		}
		if _, ok := g.w.highSet[uint16(c)]; !ok {
			return uint32(uint64(c)*chunk + low), true
		}
	}
	return 0, false
}

// lookup builds one lookup step. via: 0 Get on the reader of file, 1 Load, 2 FindReaders+Get.
func (g *stepGen) lookup(via, file int, key uint32) sstep {
	w := g.w
	class := "present"
	if _, ok := w.has[key]; !ok {
		if _, ok := w.highSet[uint16(key>>16)]; ok {
			class = "absent,container-has-keys"
		} else {
			class = "absent,container-without-keys"
		}
	}
	switch via {
	case 1:
		return sstep{kind: opLoad, key: key, want: w.want(key), class: class}
	case 2:
		return sstep{kind: opFind, key: key, want: w.want(key), class: class}
	}
	v, ok := w.files[file].vals[key]
	if !ok && class == "present" {
		class = "absent,other-file-has-it"
	}
	return sstep{kind: opGet, file: file, key: key, present: ok, val: v, class: class}
}

var templateNames = []string{"alternate-two-containers", "inside-one-container", "sweep-up", "sweep-down",
	"present-absent-present", "repeat-one-key", "mix", "extremes"}

// template draws one order class as a list of at most maxLen lookups.
func (g *stepGen) template(label string, maxLen int) ([]sstep, string) {
	t, w := g.t, g.w
	kind := rapid.IntRange(0, len(templateNames)-1).Draw(t, label+"Template")
	via := rapid.SampledFrom([]int{0, 0, 0, 0, 0, 0, 1, 2}).Draw(t, label+"Via")
	file := rapid.IntRange(0, len(w.files)-1).Draw(t, label+"File")
	if rapid.IntRange(0, 3).Draw(t, label+"FileBias") > 0 {
		file = 0
	}
	L := rapid.IntRange(2, maxLen).Draw(t, label+"Len")
	var out []sstep
	add := func(k uint32) { out = append(out, g.lookup(via, file, k)) }
	nC := len(w.highs)
	switch kind {
	case 0: // A, B, A, B ... between two containers (far apart, neighbours, or any two)
		a, b := 0, nC-1
		switch rapid.IntRange(0, 2).Draw(t, label+"Pair") {
		case 1:
			a = rapid.IntRange(0, nC-1).Draw(t, label+"PairA")
			b = a + 1
			if b >= nC {
				b = 0
			}
		case 2:
			a, b = g.containerIdx(label+"PA"), g.containerIdx(label+"PB")
		}
		same := rapid.Bool().Draw(t, label+"SameKeys")
		ka, kb := g.presentKey(label+"A", a), g.presentKey(label+"B", b)
		for i := 0; i < L; i++ {
			if !same && i >= 2 {
				ka, kb = g.presentKey(label+"A", a), g.presentKey(label+"B", b)
			}
			if i%2 == 0 {
				add(ka)
			} else {
				add(kb)
			}
		}
	case 1: // several keys of one container, absent ones of the same container in between
		ci := g.containerIdx(label + "In")
		for i := 0; i < L; i++ {
			if rapid.IntRange(0, 3).Draw(t, label+"InAbs") == 0 {
				if k, ok := g.absentIn(label+"In", ci); ok {
					add(k)
					continue
				}
			}
			add(g.presentKey(label+"In", ci))
		}
	case 2, 3: // one key per container, ascending / descending over neighbouring containers
		ci := g.containerIdx(label + "Sweep")
		for i := 0; i < L; i++ {
			add(g.presentKey(label+"Sw", ci))
			if kind == 2 {
				ci = (ci + 1) % nC
			} else {
				ci = (ci + nC - 1) % nC
			}
		}
	case 4: // present key of A, absent key between A and B, present key of B
		a := g.containerIdx(label + "PapA")
		b := (a + 1) % nC
		if rapid.Bool().Draw(t, label+"PapFar") {
			b = g.containerIdx(label + "PapB")
		}
		for len(out) < L {
			add(g.presentKey(label+"Pa", a))
			if k, ok := g.absentTwin(label+"Pt", a); ok {
				add(k)
			} else if k, ok := g.absentIn(label+"Pt", a); ok {
				add(k)
			}
			add(g.presentKey(label+"Pb", b))
			a, b = b, a
		}
	case 5: // the same key again and again
		ci := g.containerIdx(label + "Rep")
		k := g.presentKey(label+"Rep", ci)
		if rapid.IntRange(0, 3).Draw(t, label+"RepAbs") == 0 {
			if a, ok := g.absentTwin(label+"Rep", ci); ok {
				k = a
			}
		}
		for i := 0; i < L; i++ {
			add(k)
		}
	case 6: // anything after anything
		for i := 0; i < L; i++ {
			ci := g.containerIdx(label + "Mix")
			switch rapid.IntRange(0, 5).Draw(t, label+"MixKind") {
			case 0:
				if k, ok := g.absentIn(label+"Mix", ci); ok {
					add(k)
					continue
				}
			case 1:
				if k, ok := g.absentTwin(label+"Mix", ci); ok {
					add(k)
					continue
				}
			case 2:
				if len(out) > 0 {
					add(out[rapid.IntRange(0, len(out)-1).Draw(t, label+"MixAgain")].key)
					continue
				}
			}
			add(g.presentKey(label+"Mix", ci))
		}
	default: // the ends of the key space and of the stored range
		first, last := w.union[0], w.union[len(w.union)-1]
		cands := []uint32{0, math.MaxUint32, first, last, first - 1, last + 1, first + 1, last - 1}
		for i := 0; i < L; i++ {
			add(cands[rapid.IntRange(0, len(cands)-1).Draw(t, label+"Ext")])
		}
	}
	return out, templateNames[kind]
}

// ---- executing steps ---------------------------------------------------------------------------------------------------

type iterState struct {
	it        table.Iterator
	file, pos int
}

type retained struct {
	key  uint32
	file int
	got  []byte
}

// user is one holder of the shared reader(s): a query / compaction / rollup in production.
type user struct {
	w       *sharedWorld
	readers []table.Reader   // one per file, nil until needed
	snap    version.Snapshot // family mode
	its     [2]iterState
	ring    [6]retained
	ringN   int

	gets, absentGets, loads, iterEntries, iterFull, iterAbandoned, mergedEntries, reacquired, rechecked int
}

func newUser(w *sharedWorld) *user {
	return &user{w: w, readers: make([]table.Reader, len(w.files))}
}

func (u *user) acquire() string {
	if u.w.mode == "cache" {
		for f, name := range u.w.names {
			r, err := u.w.cache.GetReader("", name)
			if err != nil {
				return fmt.Sprintf("cache.GetReader(%s) failed: %v", name, err)
			}
			u.readers[f] = r
		}
		return ""
	}
	u.snap = u.w.family.GetSnapshot()
	return ""
}

func (u *user) release() {
	u.its = [2]iterState{}
	u.ringN = 0
	if u.w.mode == "cache" {
		var held []table.Reader
		for f, r := range u.readers {
			if r != nil {
				held = append(held, r)
				u.readers[f] = nil
			}
		}
		u.w.cache.ReleaseReaders(held)
		return
	}
	if u.snap != nil {
		u.snap.Close()
		u.snap = nil
	}
	for f := range u.readers {
		u.readers[f] = nil
	}
}

func (u *user) reader(f int) (table.Reader, string) {
	if r := u.readers[f]; r != nil {
		return r, ""
	}
	r, err := u.snap.GetReader(u.w.numbers[f])
	if err != nil || r == nil {
		return nil, fmt.Sprintf("snapshot.GetReader(file %d) failed: %v", u.w.numbers[f], err)
	}
	u.readers[f] = r
	return r, ""
}

func (u *user) keep(key uint32, file int, got []byte) {
	u.ring[u.ringN%len(u.ring)] = retained{key, file, got}
	u.ringN++
}

func (u *user) recheck() string {
	n := u.ringN
	if n > len(u.ring) {
		n = len(u.ring)
	}
	for _, r := range u.ring[:n] {
		u.rechecked++
		if want := u.w.files[r.file].vals[r.key]; !bytes.Equal(r.got, want) {
			return fmt.Sprintf("the bytes an earlier lookup of key %d (file %d) returned have changed while the reader is still held: now %s, stored %s%s",
				r.key, r.file, short(r.got), short(want), u.w.ownerOf(r.got, r.key))
		}
	}
	return ""
}

// getAll looks the key up in every file through the user's readers (cache mode stand-in for Load).
func (u *user) getAll(key uint32) ([][]byte, string) {
	var out [][]byte
	for f := range u.w.files {
		r, msg := u.reader(f)
		if msg != "" {
			return nil, msg
		}
		v, err := r.Get(key)
		if errors.Is(err, table.ErrKeyNotExist) {
			if v != nil {
				return nil, fmt.Sprintf("Get(%d) on file %d returned bytes together with ErrKeyNotExist", key, f)
			}
			continue
		}
		if err != nil {
			return nil, fmt.Sprintf("Get(%d) on file %d failed: %v", key, f, err)
		}
		out = append(out, v)
	}
	return out, ""
}

func (u *user) checkMulti(what string, key uint32, got, want [][]byte) string {
	sortValues(got)
	ok := len(got) == len(want)
	for i := 0; ok && i < len(want); i++ {
		ok = bytes.Equal(got[i], want[i])
	}
	if ok {
		return ""
	}
	owner := ""
	for _, g := range got {
		if owner = u.w.ownerOf(g, key); owner != "" {
			break
		}
	}
	return fmt.Sprintf("%s(%d) [container %d] yields %d value(s) %s; the files hold %d value(s) %s for the key%s",
		what, key, key>>16, len(got), shortList(got), len(want), shortList(want), owner)
}

func (u *user) exec(s *sstep) string {
	w := u.w
	switch s.kind {
	case opGet:
		r, msg := u.reader(s.file)
		if msg != "" {
			return msg
		}
		got, err := r.Get(s.key)
		u.gets++
		if s.present {
			if err != nil {
				return fmt.Sprintf("Get(%d) [container %d, file %d] failed: %v; the key was added with %s", s.key, s.key>>16, s.file, err, short(s.val))
			}
			if !bytes.Equal(got, s.val) {
				return fmt.Sprintf("Get(%d) [container %d, file %d] = %s, added %s%s", s.key, s.key>>16, s.file, short(got), short(s.val), w.ownerOf(got, s.key))
			}
			u.keep(s.key, s.file, got)
			return ""
		}
		u.absentGets++
		if !errors.Is(err, table.ErrKeyNotExist) {
			return fmt.Sprintf("Get(%d) [container %d, file %d] of a key never added to the file = %s, err %v; want ErrKeyNotExist%s",
				s.key, s.key>>16, s.file, short(got), err, w.ownerOf(got, s.key))
		}
		if got != nil {
			return fmt.Sprintf("Get(%d) of an absent key returned bytes %s with ErrKeyNotExist", s.key, short(got))
		}
		return ""
	case opLoad, opFind:
		u.loads++
		var got [][]byte
		what := "Get on every reader"
		switch {
		case w.mode == "cache":
			var msg string
			if got, msg = u.getAll(s.key); msg != "" {
				return msg
			}
		case s.kind == opLoad:
			what = "snapshot.Load"
			if err := u.snap.Load(s.key, func(v []byte) error { got = append(got, v); return nil }); err != nil {
				return fmt.Sprintf("snapshot.Load(%d) failed: %v", s.key, err)
			}
		default:
			what = "snapshot.FindReaders+Get"
			readers, err := u.snap.FindReaders(s.key)
			if err != nil {
				return fmt.Sprintf("snapshot.FindReaders(%d) failed: %v", s.key, err)
			}
			for _, r := range readers {
				v, err := r.Get(s.key)
				if errors.Is(err, table.ErrKeyNotExist) {
					if v != nil {
						return fmt.Sprintf("reader %s Get(%d) returned bytes with ErrKeyNotExist", r.FileName(), s.key)
					}
					continue
				}
				if err != nil {
					return fmt.Sprintf("reader %s Get(%d) failed: %v", r.FileName(), s.key, err)
				}
				got = append(got, v)
			}
		}
		return u.checkMulti(what, s.key, got, s.want)
	case opIterOpen:
		r, msg := u.reader(s.file)
		if msg != "" {
			return msg
		}
		if u.its[s.slot].it != nil {
			u.iterAbandoned++
		}
		u.its[s.slot] = iterState{it: r.Iterator(), file: s.file}
		return ""
	case opIterNext:
		st := &u.its[s.slot]
		if st.it == nil {
			r, msg := u.reader(s.file)
			if msg != "" {
				return msg
			}
			*st = iterState{it: r.Iterator(), file: s.file}
		}
		m := w.files[st.file]
		for i := 0; s.n < 0 || i < s.n; i++ {
			if !st.it.HasNext() {
				if st.pos != len(m.keys) {
					return fmt.Sprintf("iterator over file %d stopped after %d of %d entries", st.file, st.pos, len(m.keys))
				}
				u.iterFull++
				*st = iterState{}
				return ""
			}
			k := st.it.Key()
			v := st.it.Value()
			if st.pos >= len(m.keys) {
				return fmt.Sprintf("iterator over file %d yields more than the %d entries added (extra key %d)", st.file, len(m.keys), k)
			}
			if k != m.keys[st.pos] {
				return fmt.Sprintf("iterator over file %d: entry %d has key %d, want %d (ascending order of the added keys)", st.file, st.pos, k, m.keys[st.pos])
			}
			if want := m.vals[k]; !bytes.Equal(v, want) {
				return fmt.Sprintf("iterator over file %d: entry %d, key %d [container %d] has value %s, added %s%s", st.file, st.pos, k, k>>16, short(v), short(want), w.ownerOf(v, k))
			}
			if i == 0 {
				u.keep(k, st.file, v)
			}
			st.pos++
			u.iterEntries++
		}
		return ""
	case opMerged:
		its := make([]table.Iterator, 0, len(w.files))
		for f := range w.files {
			r, msg := u.reader(f)
			if msg != "" {
				return msg
			}
			its = append(its, r.Iterator())
		}
		it := table.NewMergedIterator(its)
		var group [][]byte
		flush := func(key uint32, complete bool) string {
			want := w.valsOf[key]
			if complete {
				return u.checkMulti("merged iterator: entries of key", key, group, want)
			}
			// a prefix of the key's entries: every value must be one of the stored ones, each at most once
			used := make([]bool, len(want))
		next:
			for _, g := range group {
				for i := range want {
					if !used[i] && bytes.Equal(want[i], g) {
						used[i] = true
						continue next
					}
				}
				return fmt.Sprintf("merged iterator: value %s for key %d is not among the stored %s%s", short(g), key, shortList(want), w.ownerOf(g, key))
			}
			return ""
		}
		i := 0
		for ; s.n < 0 || i < s.n; i++ {
			if !it.HasNext() {
				if i != len(w.mergedKeys) {
					return fmt.Sprintf("merged iterator over %d file(s) stopped after %d of %d entries", len(w.files), i, len(w.mergedKeys))
				}
				break
			}
			k := it.Key()
			v := it.Value()
			if i >= len(w.mergedKeys) {
				return fmt.Sprintf("merged iterator yields more than the %d entries of its inputs (extra key %d)", len(w.mergedKeys), k)
			}
			if k != w.mergedKeys[i] {
				return fmt.Sprintf("merged iterator: entry %d has key %d, want %d", i, k, w.mergedKeys[i])
			}
			if i > 0 && w.mergedKeys[i-1] != k {
				if msg := flush(w.mergedKeys[i-1], true); msg != "" {
					return msg
				}
				group = group[:0]
			}
			group = append(group, v)
			u.mergedEntries++
		}
		if i > 0 {
			last := w.mergedKeys[i-1]
			return flush(last, i == len(w.mergedKeys) || w.mergedKeys[i] != last)
		}
		return ""
	case opRecheck:
		return u.recheck()
	default: // opReacquire
		if msg := u.recheck(); msg != "" {
			return msg
		}
		u.release()
		u.reacquired++
		return u.acquire()
	}
}

// finish drains nothing: it re-checks what the user still holds and releases it.
func (u *user) finish() string {
	msg := u.recheck()
	u.release()
	return msg
}

// ---- generated users ---------------------------------------------------------------------------------------------------

// extras inserts iterator / merged / recheck / reacquire steps after a block of lookups.
func (g *stepGen) extras(label string, allowReacquire bool) []sstep {
	t, w := g.t, g.w
	var out []sstep
	n := rapid.IntRange(0, 2).Draw(t, label+"Extras")
	for i := 0; i < n; i++ {
		file := rapid.IntRange(0, len(w.files)-1).Draw(t, label+"XFile")
		slot := rapid.IntRange(0, 1).Draw(t, label+"XSlot")
		switch rapid.IntRange(0, 9).Draw(t, label+"XKind") {
		case 0:
			out = append(out, sstep{kind: opIterOpen, slot: slot, file: file})
		case 1, 2, 3, 4:
			out = append(out, sstep{kind: opIterNext, slot: slot, file: file, n: rapid.SampledFrom([]int{1, 1, 2, 3, 7, 40}).Draw(t, label+"XN")})
		case 5:
			out = append(out, sstep{kind: opIterNext, slot: slot, file: file, n: -1})
		case 6:
			out = append(out, sstep{kind: opMerged, n: rapid.SampledFrom([]int{1, 5, 50, -1}).Draw(t, label+"XM")})
		case 7, 8:
			out = append(out, sstep{kind: opRecheck})
		default:
			if allowReacquire {
				out = append(out, sstep{kind: opReacquire})
			}
		}
	}
	return out
}

type stepStats struct {
	templates  map[string]bool
	classes    map[string]bool
	containers map[uint16]bool // containers the lookups of the user address
	lookups    int
	iter       bool
	merged     bool
}

func statsOf(steps []sstep, templates []string) stepStats {
	st := stepStats{templates: map[string]bool{}, classes: map[string]bool{}, containers: map[uint16]bool{}}
	for _, n := range templates {
		st.templates[n] = true
	}
	for _, s := range steps {
		switch s.kind {
		case opGet, opLoad, opFind:
			st.lookups++
			st.classes[s.class] = true
			st.containers[uint16(s.key>>16)] = true
		case opIterOpen, opIterNext:
			st.iter = true
		case opMerged:
			st.merged = true
		}
	}
	return st
}

func containerBucket(n int) string { return bucket(n, 1, 2, 4, 16, 100, 1000) }

func setupWorld(t *rapid.T) (*sharedWorld, string) {
	mode := rapid.SampledFrom([]string{"cache", "cache", "family"}).Draw(t, "access")
	pool, shape := genSharedKeys(t)
	files := genSharedFiles(t, pool)
	seed := rapid.Uint64().Draw(t, "valueSeed")
	return buildSharedWorld(t, mode, files, seed), shape
}

// ---- (a) order classes on one goroutine --------------------------------------------------------------------------------

func TestReaderOrderClasses(t *testing.T) {
	rapid.Check(t, func(t *rapid.T) {
		w, shape := setupWorld(t)
		defer w.close()
		g := &stepGen{t: t, w: w}

		nUsers := rapid.SampledFrom([]int{1, 1, 2, 2, 3}).Draw(t, "users")
		plans := make([][]sstep, nUsers)
		var allTemplates []string
		for u := range plans {
			blocks := rapid.IntRange(1, 4).Draw(t, "blocks")
			l := fmt.Sprintf("u%d", u)
			plans[u] = append(plans[u], g.extras(l+"pre", false)...)
			for b := 0; b < blocks; b++ {
				steps, name := g.template(l, 12)
				allTemplates = append(allTemplates, name)
				plans[u] = append(plans[u], steps...)
				plans[u] = append(plans[u], g.extras(l, true)...)
			}
		}

		users := make([]*user, nUsers)
		for i := range users {
			users[i] = newUser(w)
		}
		defer func() {
			for _, u := range users {
				u.release()
			}
		}()
		for i, u := range users {
			if msg := u.acquire(); msg != "" {
				t.Fatalf("user %d: %s", i, msg)
			}
		}

		// owned schedule: which user takes its next step
		next := make([]int, nUsers)
		var trace []string
		lastHigh := map[int]int{} // file -> container of the previous direct Get on its reader
		switches, interleavedIterSteps, executed := 0, 0, 0
		for {
			var live []int
			for i := range plans {
				if next[i] < len(plans[i]) {
					live = append(live, i)
				}
			}
			if len(live) == 0 {
				break
			}
			ui := live[0]
			if len(live) > 1 {
				ui = live[rapid.IntRange(0, len(live)-1).Draw(t, "turn")]
			}
			burst := 1
			if len(live) > 1 {
				burst = rapid.SampledFrom([]int{1, 1, 1, 2, 5}).Draw(t, "burst")
			} else {
				burst = len(plans[ui])
			}
			for b := 0; b < burst && next[ui] < len(plans[ui]); b++ {
				s := &plans[ui][next[ui]]
				next[ui]++
				executed++
				if len(trace) < 400 {
					trace = append(trace, fmt.Sprintf("u%d:%s", ui, s))
				}
				if s.kind == opGet {
					if h, ok := lastHigh[s.file]; ok && h != int(s.key>>16) {
						switches++
					}
					lastHigh[s.file] = int(s.key >> 16)
				}
				if s.kind == opIterNext || s.kind == opIterOpen {
					open := 0
					for _, u := range users {
						for _, st := range u.its {
							if st.it != nil && st.pos > 0 {
								open++
							}
						}
					}
					if open >= 2 || (open == 1 && users[ui].its[s.slot].it == nil) {
						interleavedIterSteps++
					}
				}
				if msg := users[ui].exec(s); msg != "" {
					t.Fatalf("%s access, %d file(s), %d container(s) %v..: step %d (user %d of %d, its step %d) %s: %s\nsteps so far: %s",
						w.mode, len(w.files), len(w.highs), headHighs(w.highs), executed, ui, nUsers, next[ui], s, msg, strings.Join(trace, " "))
				}
			}
		}
		for i, u := range users {
			if msg := u.finish(); msg != "" {
				t.Fatalf("%s access, user %d at the end of its steps: %s\nsteps: %s", w.mode, i, msg, strings.Join(trace, " "))
			}
		}

		var all []sstep
		for _, p := range plans {
			all = append(all, p...)
		}
		st := statsOf(all, allTemplates)
		var gets, absent, iterEntries, iterFull, abandoned, mergedEntries, reacq, rechecked int
		for _, u := range users {
			gets += u.gets + u.loads
			absent += u.absentGets
			iterEntries += u.iterEntries
			iterFull += u.iterFull
			abandoned += u.iterAbandoned
			mergedEntries += u.mergedEntries
			reacq += u.reacquired
			rechecked += u.rechecked
		}
		classes := []string{"access=" + w.mode, "keys=" + shape, fmt.Sprintf("files=%d", len(w.files)), fmt.Sprintf("users=%d", nUsers),
			"containers-of-the-files" + containerBucket(len(w.highs)), "containers-looked-up" + containerBucket(len(st.containers)),
			"container-switches-between-consecutive-gets" + bucket(switches, 0, 1, 10, 50), "lookups" + bucket(st.lookups, 10, 50, 100)}
		for n := range st.templates {
			classes = append(classes, "order:"+n)
		}
		for c := range st.classes {
			classes = append(classes, "lookup:"+c)
		}
		if interleavedIterSteps > 0 {
			classes = append(classes, "iterator-step-while-another-iterator-is-under-way")
		}
		if iterFull > 0 {
			classes = append(classes, "iteration-to-the-end")
		}
		if abandoned > 0 {
			classes = append(classes, "iterator-abandoned-half-way")
		}
		if mergedEntries > 0 {
			classes = append(classes, "merged-scan")
		}
		if reacq > 0 {
			classes = append(classes, "reader-reacquired")
		}
		if rechecked > 0 {
			classes = append(classes, "earlier-results-rechecked")
		}
		sort.Strings(classes)
		// non-trivial: the files span >= 2 containers and either consecutive lookups on one reader
		// changed the container or two iterators of one reader were under way at the same time
		nt := len(w.highs) >= 2 && (switches > 0 || interleavedIterSteps > 0)
		ev.Case("TestReaderOrderClasses", fmt.Sprintf("%s/%v/%d/%s", w.mode, headKeys(w.union, 6), len(w.union), strings.Join(trace, " ")), nt, classes,
			map[string]any{"access": w.mode, "keyShape": shape, "files": len(w.files), "keys": len(w.union), "containers": len(w.highs), "users": nUsers,
				"steps": executed, "containerSwitches": switches, "firstSteps": trace[:minInt(len(trace), 40)]})
		ev.Class("TestReaderOrderClasses", "total-lookups", gets)
		ev.Class("TestReaderOrderClasses", "total-absent-gets", absent)
		ev.Class("TestReaderOrderClasses", "total-iterator-entries", iterEntries+mergedEntries)
	})
}

func headHighs(h []uint16) []uint16 {
	if len(h) > 6 {
		return h[:6]
	}
	return h
}

// ---- (b) the same users on real goroutines -----------------------------------------------------------------------------

// spinBarrier releases all goroutines within a few nanoseconds of each other (a closed channel
// wakes them one after the other, microseconds apart: too coarse for the first use of a new reader).
type spinBarrier struct {
	arrived atomic.Int32
	open    atomic.Bool
}

func (b *spinBarrier) wait() {
	b.arrived.Add(1)
	for i := 0; !b.open.Load(); i++ {
		if i&31 == 31 {
			runtime.Gosched()
		}
	}
}

func (b *spinBarrier) release(n int) {
	for int(b.arrived.Load()) < n {
		runtime.Gosched()
	}
	b.open.Store(true)
}

var failuresLogged atomic.Int32

type program struct {
	role    string
	pattern []sstep
	repeat  int
	names   []string
}

// lookupBudget is the number of lookups one goroutine performs in a case. Sized so that a racy
// piece of per-reader state in Get is overwritten between its update and its use many times per
// case even when the goroutines get little CPU; the cost of one Get grows with the number of
// containers (Rank walks them), hence the cap on lookups x containers.
func lookupBudget(t *rapid.T, containers int, label string) int {
	n := rapid.SampledFrom([]int{6000, 20000, 20000, 60000}).Draw(t, label)
	if thorough() {
		n *= 2
	}
	if max := 48_000_000 / (containers + 40); n > max {
		n = max
	}
	if n < 2000 {
		n = 2000
	}
	return n
}

func TestSharedReaderGoroutines(t *testing.T) {
	// the interleavings need real parallelism: never run with fewer than 4 Ps
	if runtime.GOMAXPROCS(0) < 4 {
		prev := runtime.GOMAXPROCS(4)
		defer runtime.GOMAXPROCS(prev)
	}
	rapid.Check(t, func(t *rapid.T) {
		w, shape := setupWorld(t)
		defer w.close()
		g := &stepGen{t: t, w: w}

		nG := rapid.IntRange(2, 8).Draw(t, "goroutines")
		progs := make([]program, nG)
		for i := range progs {
			p := &progs[i]
			l := fmt.Sprintf("g%d", i)
			role := rapid.IntRange(0, 9).Draw(t, l+"Role")
			if i < 2 && role >= 7 {
				role = i // the first two goroutines always look keys up
			}
			file := rapid.IntRange(0, len(w.files)-1).Draw(t, l+"IterFile")
			switch {
			case role <= 3: // lookups only
				p.role = "lookups"
				p.pattern, p.names = g.lookups(l, 1+role%2)
			case role <= 5: // lookups, and an iterator advanced a little on every pass
				p.role = "lookups+iterator"
				p.pattern, p.names = g.lookups(l, 1)
				p.pattern = append(p.pattern, sstep{kind: opIterNext, slot: 0, file: file, n: rapid.SampledFrom([]int{1, 3, 16}).Draw(t, l+"IterN")})
			case role == 6: // two iterators of the reader advanced alternately between lookups, re-checks
				p.role = "lookups+two-iterators"
				a, names := g.lookups(l, 1)
				p.names = names
				half := len(a) / 2
				p.pattern = append(p.pattern, a[:half]...)
				p.pattern = append(p.pattern, sstep{kind: opIterNext, slot: 0, file: file, n: 2})
				p.pattern = append(p.pattern, a[half:]...)
				p.pattern = append(p.pattern, sstep{kind: opIterNext, slot: 1, file: file, n: 5}, sstep{kind: opRecheck})
			case role == 7: // full scans, one after the other (rollup / compaction input of one file)
				p.role = "scanner"
				p.pattern = []sstep{{kind: opIterNext, slot: 0, file: file, n: 64}}
				if rapid.Bool().Draw(t, l+"Partial") { // every now and then a scan is abandoned half way
					p.pattern = append(p.pattern, p.pattern[0], p.pattern[0], sstep{kind: opIterOpen, slot: 0, file: file})
				}
			case role == 8: // merged scans over all files (compaction job)
				p.role = "merged-scanner"
				p.pattern = []sstep{{kind: opMerged, n: rapid.SampledFrom([]int{20, 200, -1}).Draw(t, l+"MergedN")}}
			default: // a user that keeps re-acquiring the reader (short queries)
				p.role = "lookups+reacquire"
				p.pattern, p.names = g.lookups(l, 1)
				p.pattern = append(p.pattern, sstep{kind: opReacquire})
			}
			st := statsOf(p.pattern, nil)
			budget := lookupBudget(t, len(w.highs), l+"Lookups")
			switch {
			case st.lookups > 0:
				p.repeat = budget / st.lookups
				if p.role == "lookups+reacquire" {
					p.repeat /= 8 // every pass takes the cache mutex twice
				}
			case p.role == "scanner":
				p.repeat = budget / 16
			default:
				entries := p.pattern[0].n
				if entries < 0 || entries > len(w.mergedKeys) {
					entries = len(w.mergedKeys)
				}
				p.repeat = budget / (4 * (entries + 8))
			}
			if p.repeat < 2 {
				p.repeat = 2
			}
		}
		// many rounds = many first uses of a new reader (every round of such a case starts cold); the
		// lookups of a goroutine are spread over the rounds
		rounds := rapid.SampledFrom([]int{1, 1, 2, 3, 10, 24}).Draw(t, "rounds")
		cold := make([]bool, rounds) // the reader(s) are new when the goroutines are released
		late := make([]bool, rounds) // cold rounds only: the reader is even OBTAINED after the release (the cache creates it under the race)
		for r := range cold {
			cold[r] = rounds >= 10 || rapid.Bool().Draw(t, "cold")
			late[r] = cold[r] && rapid.IntRange(0, 2).Draw(t, "obtainAfterRelease") == 0
		}

		var firstFailure string
		var totals user
		for r := 0; r < rounds && firstFailure == ""; r++ {
			var warm *user
			if cold[r] {
				if r > 0 { // forget the readers of the previous round
					if w.mode == "cache" {
						for _, name := range w.names {
							w.cache.Evict(name)
						}
					} else {
						w.reopen(t)
					}
				}
			} else {
				// one sequential pass over every file, by a user that stays around during the round
				warm = newUser(w)
				if msg := warm.acquire(); msg != "" {
					t.Fatalf("harness: %s", msg)
				}
				for f := range w.files {
					s := sstep{kind: opIterNext, slot: 0, file: f, n: -1}
					if msg := warm.exec(&s); msg != "" {
						warm.release()
						t.Fatalf("%s access, sequential pass before the goroutines start: %s", w.mode, msg)
					}
				}
			}

			users := make([]*user, nG)
			var bar spinBarrier
			var failed atomic.Bool
			var failMu sync.Mutex
			var done sync.WaitGroup
			for gi := range progs {
				users[gi] = newUser(w)
				done.Add(1)
				go func(gi int) {
					defer done.Done()
					u, p := users[gi], progs[gi]
					fail := func(pass, si int, msg string) {
						failMu.Lock()
						if firstFailure == "" {
							firstFailure = fmt.Sprintf("round %d (%s reader), goroutine %d of %d (%s), pass %d of %d over its pattern, step %d %s: %s\npattern of the goroutine: %s",
								r, map[bool]string{true: "new", false: "warm"}[cold[r]], gi, nG, p.role, pass, p.repeat/rounds, si, p.pattern[si], msg, stepsString(p.pattern))
						}
						failMu.Unlock()
						failed.Store(true)
					}
					step, arrived := -1, false
					defer u.release()
					defer func() { // never leave the others (and the test) waiting at the barrier
						if !arrived {
							bar.arrived.Add(1)
						}
					}()
					defer func() { // a panic of the code under test on this goroutine would kill the process
						if rec := recover(); rec != nil {
							at := 0
							if step >= 0 {
								at = step
							}
							fail(-1, at, fmt.Sprintf("panic: %v\n%s", rec, debug.Stack()))
						}
					}()
					// everybody holds the reader(s) before the start, so that the FIRST USE of a new
					// reader (first Get / first iterator) happens on all goroutines at once
					if !late[r] {
						msg := u.acquire()
						for f := 0; msg == "" && f < len(w.files); f++ {
							_, msg = u.reader(f)
						}
						if msg != "" {
							fail(0, 0, msg)
						}
					}
					arrived = true
					bar.wait()
					if late[r] {
						if msg := u.acquire(); msg != "" {
							fail(0, 0, msg)
							return
						}
					}
					if failed.Load() {
						return
					}
					passes := p.repeat / rounds
					if passes < 1 {
						passes = 1
					}
					for pass := 0; pass < passes; pass++ {
						if pass&15 == 0 && failed.Load() {
							return
						}
						for si := range p.pattern {
							step = si
							if msg := u.exec(&p.pattern[si]); msg != "" {
								fail(pass, si, msg)
								return
							}
						}
					}
					if msg := u.recheck(); msg != "" {
						fail(passes, 0, msg)
					}
				}(gi)
			}
			bar.release(nG)
			done.Wait()
			if warm != nil {
				if msg := warm.finish(); msg != "" && firstFailure == "" {
					firstFailure = "user that read the files before the goroutines started: " + msg
				}
			}
			for _, u := range users {
				totals.gets += u.gets
				totals.absentGets += u.absentGets
				totals.loads += u.loads
				totals.iterEntries += u.iterEntries
				totals.iterFull += u.iterFull
				totals.iterAbandoned += u.iterAbandoned
				totals.mergedEntries += u.mergedEntries
				totals.reacquired += u.reacquired
			}
		}

		// evidence first, so that a failing case is counted as well
		roles := map[string]int{}
		lookers := 0
		allContainers := map[uint16]bool{}
		maxPerG := 0
		var progDesc []string
		tmpl := map[string]bool{}
		lclasses := map[string]bool{}
		for _, p := range progs {
			roles[p.role]++
			st := statsOf(p.pattern, p.names)
			if st.lookups > 0 {
				lookers++
			}
			for c := range st.containers {
				allContainers[c] = true
			}
			if len(st.containers) > maxPerG {
				maxPerG = len(st.containers)
			}
			for n := range st.templates {
				tmpl[n] = true
			}
			for c := range st.classes {
				lclasses[c] = true
			}
			progDesc = append(progDesc, fmt.Sprintf("%s x%d: %s", p.role, p.repeat, stepsString(p.pattern)))
		}
		nLookups := totals.gets + totals.loads
		classes := []string{"access=" + w.mode, "keys=" + shape, fmt.Sprintf("files=%d", len(w.files)), fmt.Sprintf("goroutines=%d", nG),
			"rounds" + bucket(rounds, 1, 3, 10, 24), "containers-of-the-files" + containerBucket(len(w.highs)),
			"containers-looked-up-by-all-goroutines" + containerBucket(len(allContainers)),
			"containers-looked-up-by-one-goroutine(max)" + containerBucket(maxPerG),
			"concurrent-lookups-in-the-case" + bucket(nLookups, 10000, 50000, 200000, 1000000)}
		for role := range roles {
			classes = append(classes, "role:"+role)
		}
		for n := range tmpl {
			classes = append(classes, "order:"+n)
		}
		for c := range lclasses {
			classes = append(classes, "lookup:"+c)
		}
		anyCold, anyWarm := false, false
		for _, c := range cold {
			anyCold = anyCold || c
			anyWarm = anyWarm || !c
		}
		if anyCold {
			classes = append(classes, "reader-first-used-after-the-barrier")
		}
		for _, l := range late {
			if l {
				classes = append(classes, "reader-obtained-from-the-cache-after-the-barrier")
				break
			}
		}
		if anyWarm {
			classes = append(classes, "reader-warm-and-held-by-a-sequential-user")
		}
		if totals.iterFull > 0 {
			classes = append(classes, "iteration-to-the-end-next-to-lookups")
		}
		if totals.mergedEntries > 0 {
			classes = append(classes, "merged-scan-next-to-lookups")
		}
		sort.Strings(classes)
		// non-trivial: >= 2 goroutines look keys up, in >= 2 different containers of the shared files
		nt := lookers >= 2 && len(allContainers) >= 2 && len(w.highs) >= 2
		ev.Case("TestSharedReaderGoroutines", fmt.Sprintf("%s/%v/%d/%v/%v", w.mode, headKeys(w.union, 6), len(w.union), cold, progDesc), nt, classes,
			map[string]any{"access": w.mode, "keyShape": shape, "files": len(w.files), "keys": len(w.union), "containers": len(w.highs),
				"goroutines": nG, "rounds": rounds, "newReader": cold, "programs": progDesc, "lookups": nLookups})
		ev.Class("TestSharedReaderGoroutines", "total-concurrent-lookups", nLookups)
		ev.Class("TestSharedReaderGoroutines", "total-concurrent-absent-gets", totals.absentGets)
		ev.Class("TestSharedReaderGoroutines", "total-concurrent-iterator-entries", totals.iterEntries+totals.mergedEntries)
		ev.Class("TestSharedReaderGoroutines", "total-goroutines", nG*rounds)

		if firstFailure != "" {
			msg := fmt.Sprintf("%s access, %d file(s) with %d keys in %d container(s) %v.., %d goroutines sharing the reader(s): %s",
				w.mode, len(w.files), len(w.union), len(w.highs), headHighs(w.highs), nG, firstFailure)
			// the failure depends on the scheduler: rapid's re-run may not reproduce it ("flaky test"), so
			// the first occurrences are written to the log as they happen
			if failuresLogged.Add(1) <= 3 {
				fmt.Fprintf(os.Stderr, "TestSharedReaderGoroutines: failure as first observed: %s\nall programs: %s\n", msg, strings.Join(progDesc, " | "))
			}
			t.Fatalf("%s", msg)
		}
	})
}

// lookups draws the lookup part of a goroutine's pattern: 1-2 order classes of at most 8 lookups.
func (g *stepGen) lookups(label string, blocks int) ([]sstep, []string) {
	var out []sstep
	var names []string
	for b := 0; b < blocks; b++ {
		steps, name := g.template(fmt.Sprintf("%sb%d", label, b), 8)
		out = append(out, steps...)
		names = append(names, name)
	}
	return out, names
}
