package c15

// TestHeldLookups: lookup results of one snapshot that are HELD while further lookups run.
//
// The other tests of this package consume the result of Snapshot.FindReaders at once. Production
// callers may keep it (tsdb/data_family.go hands the readers of a metric to the scan that runs later;
// the index databases collect readers of several keys) - the readers of a result belong to the snapshot
// and stay valid until the snapshot is closed. A case builds a family version of 2-7 flushed files with
// generated overlap (optionally compacted in between: files above level 0, split outputs), opens one
// snapshot (sometimes a second one next to it) and runs a generated step list on it:
//
//   find   FindReaders(k), the returned slice itself is kept (up to 5 results are held at a time)
//   read   a held result is read: Get(k) on every reader of the kept slice -> must be ALL values of k
//          held by the files of the snapshot's version (multiset), again after more lookups
//   other lookups that run between find and read: FindReaders of another / the same key (read at once
//   or held as well), Snapshot.Load, Snapshot.GetReader+Get, the same on a second goroutine (handed
//   over and awaited: the snapshot still has one user at a time), lookups on the second snapshot.
//
// Before a snapshot is closed every result still held is read once more, and the bytes returned by
// earlier reads are compared with the stored bytes again.
// Reference: the per-file content of the version (scan of every file, itself compared with the model of
// everything flushed: each (key, atom) exactly once) - the expected values of k are the values of the
// files that hold k.

import (
	"errors"
	"fmt"
	"hash/fnv"
	"os"
	"path/filepath"
	"sort"
	"strings"
	"testing"

	"pgregory.net/rapid"

	"github.com/lindb/lindb/kv"
	"github.com/lindb/lindb/kv/table"
	"github.com/lindb/lindb/kv/version"
	"github.com/lindb/lindb/verifharness/sim/ev"
	"github.com/lindb/lindb/verifharness/sim/kvsim"
)

// heldResult is a FindReaders result that its user keeps.
type heldResult struct {
	snap      int
	key       uint32
	res       []table.Reader // the returned slice itself
	names     []string       // file names of its readers when it was returned
	after     map[string]int // lookups that ran on the same snapshot since it was returned (by kind)
	otherSnap int            // lookups on the other snapshot since
	reads     int
	viaThread bool // obtained on the second goroutine
}

type keptBytes struct {
	key  uint32
	file string
	got  []byte // as returned (zero copy)
	want []byte
}

type heldSnap struct {
	snap  version.Snapshot
	files []*fileInfo
}

func heldLookupsCase(t *rapid.T) {
	kvsim.Register()
	var trace []string
	ft := traceFailer{t: t, trace: &trace}

	pool := genKeys(t, "hPool", rapid.SampledFrom([]int{8, 24, 60}).Draw(t, "hPoolBudget"))
	if len(pool) > maxPoolKeys {
		step := (len(pool) + maxPoolKeys - 1) / maxPoolKeys
		var thin []uint32
		for i := 0; i < len(pool); i += step {
			thin = append(thin, pool[i])
		}
		pool = thin
	}
	nFlush := rapid.IntRange(2, 7).Draw(t, "flushes")
	subsets := genSubsets(t, pool, nFlush)
	famOpt := kv.FamilyOption{
		Merger:           kvsim.MergerName,
		CompactThreshold: rapid.SampledFrom([]int{0, 2}).Draw(t, "compactThreshold"),
		MaxFileSize:      rapid.SampledFrom([]uint32{0, 0, 16, 64}).Draw(t, "maxFileSize"),
	}
	compactMask := 0
	if rapid.IntRange(0, 9).Draw(t, "compactions") >= 5 {
		compactMask = rapid.IntRange(1, 1<<uint(nFlush-1)-1).Draw(t, "compactAfter") // bit i: compact after flush i (never after the last)
	}
	probeSeed := rapid.Uint64().Draw(t, "probeSeed")
	storeOpt := kv.DefaultStoreOption()

	dir, err := os.MkdirTemp("", "c15-held-")
	if err != nil {
		t.Fatalf("harness: %v", err)
	}
	defer os.RemoveAll(dir)
	storeName := filepath.Join(dir, "store")
	store, err := kv.GetStoreManager().CreateStore(storeName, storeOpt)
	if err != nil {
		t.Fatalf("harness: CreateStore: %v", err)
	}
	defer func() { _ = kv.GetStoreManager().CloseStore(storeName) }()
	family, err := store.CreateFamily("f", famOpt)
	if err != nil {
		t.Fatalf("harness: CreateFamily: %v", err)
	}

	// ---- the version under test ----
	model := kvsim.Content{}
	canon := fnv.New64a()
	compactions := 0
	for i, ks := range subsets {
		nAtoms := rapid.IntRange(1, 2).Draw(t, "valuesPerKey")
		func() {
			flusher := family.NewFlusher()
			defer flusher.Release()
			for _, k := range ks {
				set := map[uint32]bool{}
				for j := 0; j < nAtoms; j++ {
					a := uint32(i*atomsPerFlush + j)
					set[a] = true
					model.AddAtom(k, a)
				}
				if err := flusher.Add(k, kvsim.Encode(set)); err != nil {
					ft.Fatalf("flusher.Add(%d) failed: %v", k, err)
				}
			}
			if err := flusher.Commit(); err != nil {
				ft.Fatalf("flusher.Commit() of flush %d failed: %v", i, err)
			}
		}()
		fmt.Fprintf(canon, "F%d:%d..%d/%d/%d|", i, ks[0], ks[len(ks)-1], len(ks), nAtoms)
		if compactMask&(1<<uint(i)) != 0 {
			ran, err := kv.VerifCompactSync(family, true)
			if err != nil {
				ft.Fatalf("level-0 compaction after flush %d failed: %v", i, err)
			}
			if ran {
				compactions++
				if rapid.Bool().Draw(t, "obsoletePass") {
					kv.VerifDeleteObsoleteFiles(family)
				}
			}
			fmt.Fprintf(canon, "C%v|", ran)
		}
	}
	st := &levelStats{}
	files := checkLevels(ft, "the version before the lookups", family, storeOpt.Levels, model, probeSeed, st)
	layout := describeFiles(files)
	trace = append(trace, "files "+layout)

	wantOf := func(fs []*fileInfo, k uint32) (want [][]byte, candidates int) {
		for _, f := range fs {
			if f.covers(k) {
				candidates++
			}
			if v, ok := f.vals[k]; ok {
				want = append(want, v)
			}
		}
		return want, candidates
	}
	// key classes
	var multi, single, absentIn, absentOut []uint32
	union := newTableModel()
	stored := make([]uint32, 0, len(model))
	for k := range model {
		stored = append(stored, k)
	}
	sort.Slice(stored, func(i, j int) bool { return stored[i] < stored[j] })
	for _, k := range stored {
		union.add(k, nil)
		if w, _ := wantOf(files, k); len(w) >= 2 {
			multi = append(multi, k)
		} else {
			single = append(single, k)
		}
	}
	for _, k := range absentProbes(union, probeSeed) {
		if _, c := wantOf(files, k); c > 0 {
			absentIn = append(absentIn, k)
		} else {
			absentOut = append(absentOut, k)
		}
	}
	genKey := func(label string) uint32 {
		for {
			var from []uint32
			switch rapid.IntRange(0, 9).Draw(t, label+"Class") {
			case 0, 1, 2, 3, 4:
				from = multi
			case 5, 6:
				from = single
			case 7, 8:
				from = absentIn
			default:
				from = absentOut
			}
			if len(from) == 0 {
				from = stored
			}
			return from[rapid.IntRange(0, len(from)-1).Draw(t, label)]
		}
	}

	// ---- snapshots ----
	snaps := []*heldSnap{{snap: family.GetSnapshot(), files: files}}
	if rapid.IntRange(0, 2).Draw(t, "secondSnapshot") == 0 {
		snaps = append(snaps, &heldSnap{snap: family.GetSnapshot(), files: files})
	}
	closedSnaps := make([]bool, len(snaps))
	defer func() {
		for i, s := range snaps {
			if !closedSnaps[i] {
				s.snap.Close()
			}
		}
	}()

	var held []*heldResult
	var kept []keptBytes
	classes := map[string]bool{}
	ntReads, heldReads, maxHeld, maxBetween := 0, 0, 0, 0

	noteLookup := func(si int, kind string) {
		for _, h := range held {
			if h.snap == si {
				h.after[kind]++
			} else {
				h.otherSnap++
			}
		}
	}
	values := func(what string, rs []table.Reader, k uint32, keep bool) [][]byte {
		var got [][]byte
		for i, r := range rs {
			if r == nil {
				ft.Fatalf("%s: reader %d of the result is nil (files %s)", what, i, layout)
			}
			v, err := r.Get(k)
			if errors.Is(err, table.ErrKeyNotExist) {
				if v != nil {
					ft.Fatalf("%s: reader %s Get(%d) returned bytes with ErrKeyNotExist", what, r.FileName(), k)
				}
				continue
			}
			if err != nil {
				ft.Fatalf("%s: reader %s Get(%d) failed: %v (files %s)", what, r.FileName(), k, err, layout)
			}
			got = append(got, append([]byte(nil), v...))
			if keep && len(kept) < 12 {
				kept = append(kept, keptBytes{key: k, file: r.FileName(), got: v, want: append([]byte(nil), v...)})
			}
		}
		return got
	}
	namesOf := func(rs []table.Reader) []string {
		out := make([]string, len(rs))
		for i, r := range rs {
			if r != nil {
				out[i] = r.FileName()
			}
		}
		return out
	}
	find := func(si int, k uint32, where string) []table.Reader {
		rs, err := snaps[si].snap.FindReaders(k)
		if err != nil {
			ft.Fatalf("snapshot %d: FindReaders(%d) %s failed: %v (files %s)", si, k, where, err, layout)
		}
		return rs
	}
	readHeld := func(h *heldResult, when string) {
		want, _ := wantOf(snaps[h.snap].files, h.key)
		between := 0
		var kinds []string
		for kind, n := range h.after {
			between += n
			kinds = append(kinds, fmt.Sprintf("%s x%d", kind, n))
		}
		sort.Strings(kinds)
		what := fmt.Sprintf("snapshot %d: result of FindReaders(%d) read %s, after %d more lookup(s) on the snapshot [%s] and %d on the other snapshot",
			h.snap, h.key, when, between, strings.Join(kinds, ", "), h.otherSnap)
		now := namesOf(h.res)
		got := values(what, h.res, h.key, true)
		if !sameValues(got, want) {
			ft.Fatalf("%s: yields %d value(s) %s; the key lives in %d file(s) of the version with %s. The result held readers of %v when it was returned, now %v (files %s)",
				what, len(got), shortList(got), len(want), shortList(want), h.names, now, layout)
		}
		if strings.Join(now, ",") != strings.Join(h.names, ",") {
			ft.Fatalf("%s: the held result changed: readers of %v when it was returned, now %v (files %s)", what, h.names, now, layout)
		}
		h.reads++
		heldReads++
		if between > maxBetween {
			maxBetween = between
		}
		if between > 0 {
			classes["held-result-read-after-other-lookups"] = true
			for kind := range h.after {
				classes["held-result-read-after:"+kind] = true
			}
			switch {
			case len(want) >= 2:
				classes["held-key-in->=2-files-read-after-other-lookups"] = true
				ntReads++
			case len(want) == 1:
				classes["held-key-in-1-file-read-after-other-lookups"] = true
			default:
				classes["held-absent-key-read-after-other-lookups"] = true
			}
		}
		if h.otherSnap > 0 {
			classes["held-result-read-after-lookups-on-the-other-snapshot"] = true
		}
		if h.reads >= 2 {
			classes["held-result-read-twice"] = true
		}
		if h.viaThread {
			classes["held-result-obtained-on-second-goroutine"] = true
		}
	}
	// a lookup that is consumed at once; kind 0 FindReaders+Get, 1 Load, 2 GetReader+Get
	immediate := func(si, kind int, k uint32, where string) string {
		s := snaps[si]
		want, _ := wantOf(s.files, k)
		switch kind {
		case 0:
			rs := find(si, k, where)
			what := fmt.Sprintf("snapshot %d: FindReaders(%d)+Get %s", si, k, where)
			if got := values(what, rs, k, false); !sameValues(got, want) {
				ft.Fatalf("%s yields %d value(s) %s from %v; the key lives in %d file(s) with %s (files %s)", what, len(got), shortList(got), namesOf(rs), len(want), shortList(want), layout)
			}
			return "FindReaders"
		case 1:
			var loaded [][]byte
			if err := s.snap.Load(k, func(v []byte) error {
				loaded = append(loaded, append([]byte(nil), v...))
				return nil
			}); err != nil {
				ft.Fatalf("snapshot %d: Load(%d) %s failed: %v", si, k, where, err)
			}
			if !sameValues(loaded, want) {
				ft.Fatalf("snapshot %d: Load(%d) %s yields %d value(s) %s; the key lives in %d file(s) with %s (files %s)", si, k, where, len(loaded), shortList(loaded), len(want), shortList(want), layout)
			}
			return "Load"
		default:
			f := s.files[int(mix(probeSeed, k)%uint64(len(s.files)))]
			r, err := s.snap.GetReader(table.FileNumber(f.number))
			if err != nil || r == nil {
				ft.Fatalf("snapshot %d: GetReader(file %d) %s failed: reader=%v err=%v", si, f.number, where, r, err)
			}
			v, err := r.Get(k)
			if w, ok := f.vals[k]; ok {
				if err != nil || string(v) != string(w) {
					ft.Fatalf("snapshot %d: GetReader(file %d)+Get(%d) %s = %s, err %v; the file holds %s", si, f.number, k, where, short(v), err, short(w))
				}
			} else if !errors.Is(err, table.ErrKeyNotExist) {
				ft.Fatalf("snapshot %d: GetReader(file %d)+Get(%d) %s = %s, err %v; the file does not hold the key", si, f.number, k, where, short(v), err)
			}
			return "GetReader"
		}
	}
	// onThread runs fn on a second goroutine and waits for it: the snapshot keeps one user at a time
	onThread := func(fn func()) {
		done := make(chan any, 1)
		go func() {
			defer func() { done <- recover() }()
			fn()
		}()
		if p := <-done; p != nil {
			panic(p)
		}
	}
	hold := func(si int, k uint32, thread bool) {
		var rs []table.Reader
		if thread {
			onThread(func() { rs = find(si, k, "on the second goroutine") })
		} else {
			rs = find(si, k, "")
		}
		kind := "FindReaders"
		if thread {
			kind = "FindReaders-on-second-goroutine"
		}
		noteLookup(si, kind)
		held = append(held, &heldResult{snap: si, key: k, res: rs, names: namesOf(rs), after: map[string]int{}, viaThread: thread})
		if len(held) > maxHeld {
			maxHeld = len(held)
		}
		trace = append(trace, fmt.Sprintf("s%d hold FindReaders(%d)=%v thread=%v", si, k, namesOf(rs), thread))
	}
	drop := func(i int) { held = append(held[:i], held[i+1:]...) }

	nSteps := rapid.IntRange(4, 24).Draw(t, "steps")
	for i := 0; i < nSteps; i++ {
		si := 0
		if len(snaps) > 1 && rapid.IntRange(0, 3).Draw(t, "onSecondSnapshot") == 0 {
			si = 1
		}
		a := rapid.IntRange(0, 11).Draw(t, "step")
		fmt.Fprintf(canon, "S%d/%d|", si, a)
		switch {
		case a <= 3: // find and hold
			if len(held) >= 5 {
				readHeld(held[0], "before it is dropped")
				drop(0)
			}
			// sometimes the key of a result that is held already
			k := genKey("holdKey")
			if len(held) > 0 && rapid.IntRange(0, 5).Draw(t, "sameKeyAgain") == 0 {
				k = held[rapid.IntRange(0, len(held)-1).Draw(t, "sameKeyOf")].key
			}
			hold(si, k, a == 3 && rapid.Bool().Draw(t, "holdOnThread"))
		case a <= 6: // read a held result
			if len(held) == 0 {
				continue
			}
			j := rapid.IntRange(0, len(held)-1).Draw(t, "readIdx")
			readHeld(held[j], "while the snapshot is open")
			trace = append(trace, fmt.Sprintf("read held #%d (key %d)", j, held[j].key))
			if rapid.IntRange(0, 2).Draw(t, "dropAfterRead") == 0 {
				drop(j)
			}
		default: // a lookup that is consumed at once
			kind := rapid.IntRange(0, 2).Draw(t, "immediateKind")
			k := genKey("immKey")
			thread := a == 11
			var name string
			if thread {
				onThread(func() { name = immediate(si, kind, k, "on the second goroutine") })
				name += "-on-second-goroutine"
			} else {
				name = immediate(si, kind, k, "")
			}
			noteLookup(si, name)
			trace = append(trace, fmt.Sprintf("s%d %s(%d)", si, name, k))
		}
	}
	// before the snapshots are closed: every result still held is read, returned bytes are unchanged
	for _, h := range held {
		readHeld(h, "right before the snapshot is closed")
	}
	for _, kb := range kept {
		if string(kb.got) != string(kb.want) {
			ft.Fatalf("bytes returned for key %d by the reader of %s changed while the snapshot was open: %s, were %s", kb.key, kb.file, short(kb.got), short(kb.want))
		}
	}
	for i, s := range snaps {
		s.snap.Close()
		closedSnaps[i] = true
	}

	// ---- evidence ----
	cl := []string{fmt.Sprintf("files=%d", len(files)), "keys-in->=2-files" + bucket(len(multi), 0, 1, 10),
		fmt.Sprintf("snapshots=%d", len(snaps)), fmt.Sprintf("max-held=%d", maxHeld),
		"held-reads" + bucket(heldReads, 0, 1, 4, 10), "max-lookups-between-find-and-read" + bucket(maxBetween, 0, 1, 3, 8)}
	level1 := 0
	for _, f := range files {
		if f.level >= 1 {
			level1++
		}
	}
	if level1 > 0 {
		cl = append(cl, "has-file-above-level-0")
	}
	if level1 > 0 && level1 < len(files) {
		cl = append(cl, "files-in-level-0-and-above")
	}
	for c := range classes {
		cl = append(cl, c)
	}
	ev.Case("TestHeldLookups", fmt.Sprintf("%016x", canon.Sum64()), ntReads > 0, cl, map[string]any{
		"files": layout, "poolKeys": len(pool), "keysInSeveralFiles": len(multi), "compactions": compactions,
		"heldReads": heldReads, "heldReadsOfMultiFileKeysAfterOtherLookups": ntReads, "steps": headStrings(trace, 40),
	})
}

func TestHeldLookups(t *testing.T) {
	rapid.Check(t, heldLookupsCase)
}
