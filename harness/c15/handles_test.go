package c15

// Two input / operation classes of C15 that the general generators reach too rarely:
//
//   - TestOffsetWidthLimits   tables whose value START OFFSETS land on / around the limits of the
//     1/2/3/4 byte slots of the offsets block (2^8, 2^16, 2^24, -2..+2), as the largest offset of the
//     table or as an offset in the middle of a table that goes on; built cheaply from one shared
//     pattern buffer (a 16 MiB value costs no generation time), written by Add / StreamWriter in
//     pieces, read back by Get, absent probes, iterator and a merged scan with a second table that
//     shares the key at the limit.
//   - TestStreamHandles       ONE builder, several StreamWriter handles of it: handles requested at
//     any point (before Prepare, between Prepare / Write / Commit of ANOTHER handle's open entry,
//     after a Commit), kept and used alternately, Add between entries, injected out-of-order keys.
//     Only one entry is open at a time (two open entries would interleave their bytes in the file,
//     no caller does that); requesting a writer is not a write.
//
// The model of both: every committed pair present with exactly its bytes, nothing else, count /
// min / max right.

import (
	"fmt"
	"hash/crc32"
	"hash/fnv"
	"math"
	"os"
	"path/filepath"
	"sync"
	"testing"
	"time"

	"pgregory.net/rapid"

	"github.com/lindb/lindb/kv/table"
	"github.com/lindb/lindb/verifharness/sim/ev"
)

// ---- shared pattern bytes --------------------------------------------------------------------------

const patternSlack = 1 << 16

var (
	patternOnce sync.Once
	patternBuf  []byte
)

// pattern returns n pseudo-random bytes starting at position shift of one shared, constant buffer
// (never modified; the model and the writes share it, so a 16 MiB value is not copied).
func pattern(shift, n int) []byte {
	patternOnce.Do(func() { patternBuf = fill(0x5eedc15, 15, 15, 1<<24+2*patternSlack) })
	return patternBuf[shift : shift+n : shift+n]
}

// ---- (a) offsets at the slot width limits -----------------------------------------------------------

// splitTotal cuts total into n sizes (some empty, some tiny, one or two that carry the rest).
func splitTotal(t *rapid.T, label string, total, n int) []int {
	marks := make([]int, 0, n+1)
	marks = append(marks, 0)
	for i := 0; i < n-1; i++ {
		var c int
		switch rapid.IntRange(0, 5).Draw(t, label+"CutKind") {
		case 0:
			c = 0
		case 1:
			c = total
		case 2:
			c = minInt(total, rapid.IntRange(0, 300).Draw(t, label+"CutLow"))
		case 3:
			c = total - minInt(total, rapid.IntRange(0, 300).Draw(t, label+"CutHigh"))
		default:
			c = rapid.IntRange(0, total).Draw(t, label+"Cut")
		}
		marks = append(marks, c)
	}
	marks = append(marks, total)
	sortInts(marks)
	out := make([]int, n)
	for i := range out {
		out[i] = marks[i+1] - marks[i]
	}
	return out
}

func sortInts(a []int) {
	for i := 1; i < len(a); i++ {
		for j := i; j > 0 && a[j-1] > a[j]; j-- {
			a[j-1], a[j] = a[j], a[j-1]
		}
	}
}

// genPieces: split points of one streamed value: none, a few anywhere, or regular blocks (the
// flushers write a value in many pieces).
func genPieces(t *rapid.T, label string, n int) []int {
	switch rapid.IntRange(0, 3).Draw(t, label+"PieceKind") {
	case 0:
		return nil
	case 1:
		if n > 0 {
			blk := rapid.SampledFrom([]int{1, 255, 256, 4096, 65536, 1 << 20}).Draw(t, label+"Block")
			if n/blk <= 64 {
				var cuts []int
				for c := blk; c < n; c += blk {
					cuts = append(cuts, c)
				}
				return cuts
			}
		}
	}
	return genCuts(t, label, n)
}

// genAscending draws n ascending keys (neighbours, container steps, far apart).
func genAscending(t *rapid.T, label string, n int) []uint32 {
	k := uint64(rapid.SampledFrom([]uint32{0, 1, 65534, 65535, 65536, 1 << 24, 1<<31 - 1}).Draw(t, label+"First"))
	if rapid.Bool().Draw(t, label+"FirstAny") {
		k = uint64(rapid.Uint32Range(0, 1<<31).Draw(t, label+"FirstKey"))
	}
	keys := make([]uint32, 0, n)
	for i := 0; i < n; i++ {
		keys = append(keys, uint32(k))
		switch rapid.IntRange(0, 4).Draw(t, label+"GapKind") {
		case 0, 1:
			k++
		case 2:
			k += 65536
		case 3:
			k = (k/65536 + 1) * 65536 // first key of the next container
		default:
			k += uint64(rapid.IntRange(2, 1<<20).Draw(t, label+"Gap"))
		}
	}
	return keys
}

var widthLimits = []int{1 << 8, 1 << 16, 1 << 24}

func TestOffsetWidthLimits(t *testing.T) {
	rapid.Check(t, func(t *rapid.T) {
		limIdx := rapid.SampledFrom([]int{0, 1, 2, 2, 2}).Draw(t, "limit")
		limit := widthLimits[limIdx]
		delta := rapid.SampledFrom([]int{-2, -1, 0, 0, 0, 1, 2}).Draw(t, "delta")
		target := limit + delta
		place := rapid.SampledFrom([]string{"largest-offset", "largest-offset", "inner-offset"}).Draw(t, "place")
		maxBefore := 4
		if limIdx < 2 {
			maxBefore = 9
		}
		nBefore := rapid.IntRange(1, maxBefore).Draw(t, "keysBefore")
		nAfter := 0
		if place == "inner-offset" {
			nAfter = rapid.IntRange(1, 3).Draw(t, "keysAfter")
		}
		sizes := splitTotal(t, "before", target, nBefore)
		// the value that starts at the target, and the ones behind it
		for i := 0; i <= nAfter; i++ {
			var n int
			switch rapid.IntRange(0, 4).Draw(t, "tailSizeKind") {
			case 0:
				n = 0
			case 1:
				n = 1
			case 2, 3:
				n = rapid.IntRange(2, 300).Draw(t, "tailSize")
			default:
				n = rapid.IntRange(301, patternSlack).Draw(t, "tailSizeBig")
			}
			if i < nAfter && n == 0 && rapid.Bool().Draw(t, "tailNonEmpty") {
				n = 1 // an empty value does not move the offsets behind it
			}
			sizes = append(sizes, n)
		}
		keys := genAscending(t, "k", len(sizes))
		mode := rapid.IntRange(0, 2).Draw(t, "mode")
		ops := make([]op, len(sizes))
		for i, n := range sizes {
			o := op{key: keys[i], val: pattern(rapid.IntRange(0, patternSlack-1).Draw(t, "shift"), n)}
			o.stream = mode == 1 || (mode == 2 && rapid.Bool().Draw(t, "stream"))
			if o.stream {
				o.cuts = genPieces(t, "v", n)
			}
			ops[i] = o
		}
		sharedSW := rapid.Bool().Draw(t, "sharedStreamWriter")

		dir, err := os.MkdirTemp("", "c15-width-")
		if err != nil {
			t.Fatalf("harness: %v", err)
		}
		defer os.RemoveAll(dir)

		m := buildTable(t, dir, tableFile, ops, sharedSW, 1)
		atKey := keys[nBefore]
		starts := map[uint32]int{}
		off := 0
		for _, k := range m.keys {
			starts[k] = off
			off += len(m.vals[k])
		}
		if starts[atKey] != target {
			t.Fatalf("harness: key %d starts at %d, generator aimed at %d", atKey, starts[atKey], target)
		}

		cache := table.NewCache(dir, time.Hour)
		defer cache.Close()
		r, err := cache.GetReader("", tableFile)
		if err != nil {
			t.Fatalf("opening a table written by the builder failed: %v (largest value offset %d)", err, maxStartOffset(m))
		}
		what := fmt.Sprintf("table with the value of key %d at offset %d (%s)", atKey, target, place)
		nAbsent := checkReader(t, what, r, m, uint64(target))

		// merged scan with a second table that shares the key at the limit (and optionally others)
		var ops2 []op
		for i, k := range keys {
			if k == atKey || rapid.IntRange(0, 2).Draw(t, "alsoInSecond") == 0 {
				ops2 = append(ops2, op{key: k, val: pattern(rapid.IntRange(0, patternSlack-1).Draw(t, "shift2"), rapid.IntRange(0, 40).Draw(t, "size2"))})
			} else if i%2 == 0 && k < math.MaxUint32 && (i+1 == len(keys) || keys[i+1] > k+1) {
				ops2 = append(ops2, op{key: k + 1, val: pattern(7, 3)})
			}
		}
		const second = "000008.sst"
		m2 := buildTable(t, dir, second, ops2, true, 0)
		r2, err := cache.GetReader("", second)
		if err != nil {
			t.Fatalf("opening the second table failed: %v", err)
		}
		var want []kvPair
		for _, mm := range []*tableModel{m, m2} {
			for _, k := range mm.keys {
				want = append(want, kvPair{k, mm.vals[k]})
			}
		}
		its := []table.Iterator{r.Iterator(), r2.Iterator()}
		if rapid.Bool().Draw(t, "secondFirst") {
			its[0], its[1] = its[1], its[0]
		}
		checkMerged(t, what+" merged with a second table", table.NewMergedIterator(its), want)
		// lookups after the scans: repeatable
		checkReader(t, what+" (2nd pass)", r, m, uint64(target)+1)
		cache.ReleaseReaders([]table.Reader{r, r2})

		nStream := 0
		for _, o := range ops {
			if o.stream {
				nStream++
			}
		}
		classes := []string{
			fmt.Sprintf("limit=2^%d", []int{8, 16, 24}[limIdx]), fmt.Sprintf("delta=%+d", delta), "place=" + place,
			fmt.Sprintf("limit=2^%d/delta=%+d/%s", []int{8, 16, 24}[limIdx], delta, place),
			fmt.Sprintf("offsetWidth=%d", offsetWidth(m)), "keys" + bucket(len(keys), 2, 4, 8),
			"mode=" + modeName(mode), "valueAtLimit" + bucket(len(m.vals[atKey]), 0, 1, 300),
		}
		if nStream > 0 {
			classes = append(classes, "has-streamed-value")
		}
		for _, n := range sizes[:nBefore] {
			if n == 0 {
				classes = append(classes, "empty-value-before-limit")
				break
			}
		}
		ev.Case("TestOffsetWidthLimits", fmt.Sprintf("%d/%s/%s", target, place, digest(ops)), delta >= -1 && delta <= 1,
			classes, map[string]any{"target": target, "place": place, "sizes": sizes, "keys": keys, "absentProbes": nAbsent,
				"offsetWidth": offsetWidth(m), "secondTableKeys": len(m2.keys)})
	})
}

// ---- (b) several stream writer handles of one builder --------------------------------------------------


func TestStreamHandles(t *testing.T) {
	rapid.Check(t, func(t *rapid.T) {
		nSlots := rapid.IntRange(2, 4).Draw(t, "handles")
		nEntries := rapid.IntRange(2, 14).Draw(t, "entries")
		keys := genAscending(t, "k", nEntries)
		acquireRate := rapid.SampledFrom([]int{1, 2, 4}).Draw(t, "acquireRate") // 1 of acquireRate+1 points
		badRate := rapid.SampledFrom([]int{0, 3, 8}).Draw(t, "badRate")
		prof := profile{name: rapid.SampledFrom([]string{"mixed", "mixed", "many-tiny"}).Draw(t, "profile")}
		valueSeed := rapid.Uint64().Draw(t, "valueSeed")

		dir, err := os.MkdirTemp("", "c15-handles-")
		if err != nil {
			t.Fatalf("harness: %v", err)
		}
		defer os.RemoveAll(dir)
		path := filepath.Join(dir, tableFile)
		b, err := table.NewStoreBuilder(table.FileNumber(7), path)
		if err != nil {
			t.Fatalf("harness: NewStoreBuilder: %v", err)
		}
		closed := false
		defer func() {
			if !closed {
				_ = b.Abandon()
			}
		}()

		m := newTableModel()
		slots := make([]table.StreamWriter, nSlots)
		committed := make([]bool, nSlots) // slot finished an entry and was not prepared since
		var trace []string
		canon := fnv.New64a()
		note := func(f string, a ...any) {
			s := fmt.Sprintf(f, a...)
			trace = append(trace, s)
			_, _ = canon.Write([]byte(s + ";"))
		}
		fail := func(f string, a ...any) {
			tail := trace
			if len(tail) > 40 {
				tail = tail[len(tail)-40:]
			}
			t.Fatalf("%s\n  steps (last %d): %v", fmt.Sprintf(f, a...), len(tail), tail)
		}
		ff := failerFunc(fail)

		acquiredWhileOpen, acquiredBetweenWrites, addBetween, handlesUsed := 0, 0, 0, map[int]bool{}
		rejected, recommits, alternations := 0, 0, 0
		lastSlot := -1
		// point: a place where another component may ask the builder for its writer.
		// open = slot whose entry is open (-1: none); its handle is never replaced while open.
		point := func(where string, open int) {
			for rapid.IntRange(0, acquireRate).Draw(t, "acquireAt:"+where) == 0 {
				j := rapid.IntRange(0, nSlots).Draw(t, "acquireSlot") // nSlots = requested and dropped
				if j == open {
					j = nSlots
				}
				sw := b.StreamWriter()
				if sw == nil {
					fail("builder.StreamWriter() returned nil")
				}
				if j < nSlots {
					slots[j] = sw
					committed[j] = false
				}
				note("acquire(slot %d)@%s", j, where)
				if open >= 0 {
					acquiredWhileOpen++
					if where == "between-writes" {
						acquiredBetweenWrites++
					}
				}
				if rapid.Bool().Draw(t, "acquireOnce") {
					break
				}
			}
			// a finished handle may be committed again (documented no-op: "preventing committing twice")
			if rapid.IntRange(0, 9).Draw(t, "recommit") == 0 {
				for j := range slots {
					if j != open && committed[j] {
						if err := slots[j].Commit(); err != nil {
							fail("second Commit of the finished handle %d failed: %v", j, err)
						}
						note("recommit(slot %d)", j)
						recommits++
						break
					}
				}
			}
		}
		checkMeta := func(when string) {
			if b.Count() != uint64(len(m.keys)) {
				fail("%s: builder.Count() = %d, %d pairs were committed", when, b.Count(), len(m.keys))
			}
			if len(m.keys) > 0 && (b.MinKey() != m.keys[0] || b.MaxKey() != m.keys[len(m.keys)-1]) {
				fail("%s: builder min/max key = %d/%d, committed %d/%d", when, b.MinKey(), b.MaxKey(), m.keys[0], m.keys[len(m.keys)-1])
			}
		}
		writeEntry := func(o op) {
			accepted := m.add(o.key, o.val)
			if !accepted {
				rejected++
			}
			if !o.stream {
				if err := b.Add(o.key, o.val); err != nil {
					fail("Add(%d, %d bytes) failed: %v", o.key, len(o.val), err)
				}
				note("add(%d,%dB,ok=%v)", o.key, len(o.val), accepted)
				if lastSlot >= 0 {
					addBetween++
				}
				return
			}
			s := rapid.IntRange(0, nSlots-1).Draw(t, "useSlot")
			if slots[s] == nil {
				slots[s] = b.StreamWriter()
				note("acquire(slot %d)@first-use", s)
			}
			if lastSlot >= 0 && lastSlot != s {
				alternations++
			}
			lastSlot = s
			handlesUsed[s] = true
			sw := slots[s]
			sw.Prepare(o.key)
			committed[s] = false
			note("prepare(slot %d,key %d,ok=%v)", s, o.key, accepted)
			point("after-prepare", s)
			prev, written := 0, 0
			ends := append(append([]int{}, o.cuts...), len(o.val))
			for i, c := range ends {
				part := o.val[prev:c]
				n, err := sw.Write(part)
				if err != nil {
					fail("handle %d: Write(key %d, %d bytes) failed: %v", s, o.key, len(part), err)
				}
				if accepted && n != len(part) {
					fail("handle %d: Write(key %d) wrote %d of %d bytes without error (entry prepared on this handle, not committed yet)", s, o.key, n, len(part))
				}
				written += len(part)
				prev = c
				note("write(slot %d,%dB)", s, len(part))
				if i < len(ends)-1 {
					point("between-writes", s)
				}
			}
			point("before-commit", s)
			if accepted {
				if int(sw.Size()) != written {
					fail("handle %d: Size() = %d after writing %d bytes for key %d", s, sw.Size(), written, o.key)
				}
				if want := crc32.ChecksumIEEE(o.val); sw.CRC32CheckSum() != want {
					fail("handle %d: CRC32CheckSum() = %08x, IEEE checksum of the written bytes is %08x (key %d)", s, sw.CRC32CheckSum(), want, o.key)
				}
			}
			if err := sw.Commit(); err != nil {
				fail("handle %d: Commit(key %d) failed: %v", s, o.key, err)
			}
			committed[s] = true
			note("commit(slot %d)", s)
		}

		nBad := 0
		for i, k := range keys {
			point("between-entries", -1)
			o := op{key: k, stream: rapid.IntRange(0, 3).Draw(t, "entryStream") != 0}
			o.val = fill(valueSeed, k, 0, genSize(t, prof, "size"))
			if o.stream {
				o.cuts = genCuts(t, "v", len(o.val))
			}
			writeEntry(o)
			checkMeta(fmt.Sprintf("after entry %d (key %d)", i, k))
			if badRate > 0 && nBad < 6 && rapid.IntRange(0, badRate-1).Draw(t, "inject") == 0 {
				nBad++
				bo := op{bad: true, stream: rapid.IntRange(0, 3).Draw(t, "badStream") != 0}
				switch rapid.IntRange(0, 2).Draw(t, "badKind") {
				case 0:
					bo.key = k
				case 1:
					bo.key = keys[rapid.IntRange(0, i).Draw(t, "badIdx")]
				default:
					bo.key = rapid.Uint32Range(0, k).Draw(t, "badAny")
				}
				bo.val = fill(valueSeed, bo.key, 1000, genSize(t, profile{name: "mixed"}, "badSize"))
				if bo.stream {
					bo.cuts = genCuts(t, "bv", len(bo.val))
				}
				point("between-entries", -1)
				writeEntry(bo)
				checkMeta(fmt.Sprintf("after the rejected key %d behind entry %d", bo.key, i))
			}
		}
		point("before-close", -1)
		if err := b.Close(); err != nil {
			fail("builder.Close() failed: %v", err)
		}
		closed = true
		checkMeta("after Close")
		st, err := os.Stat(path)
		if err != nil {
			t.Fatalf("harness: stat table: %v", err)
		}
		if int64(b.Size()) != st.Size() {
			fail("builder.Size() = %d after Close, file has %d bytes", b.Size(), st.Size())
		}

		cache := table.NewCache(dir, time.Hour)
		defer cache.Close()
		r, err := cache.GetReader("", tableFile)
		if err != nil {
			fail("opening the table failed: %v", err)
		}
		checkReader(ff, "table written through several stream writer handles", r, m, valueSeed)
		cache.ReleaseReaders([]table.Reader{r})

		classes := []string{
			fmt.Sprintf("handleSlots=%d", nSlots), fmt.Sprintf("handlesUsed=%d", len(handlesUsed)),
			"entries" + bucket(len(m.keys), 2, 4, 8), "acquiredWhileOpen" + bucket(acquiredWhileOpen, 0, 1, 4),
			"alternations" + bucket(alternations, 0, 1, 4),
		}
		if acquiredBetweenWrites > 0 {
			classes = append(classes, "acquired-between-writes-of-an-open-entry")
		}
		if addBetween > 0 {
			classes = append(classes, "add-between-stream-entries")
		}
		if rejected > 0 {
			classes = append(classes, "has-rejected-keys")
		}
		if recommits > 0 {
			classes = append(classes, "finished-handle-committed-again")
		}
		ev.Case("TestStreamHandles", fmt.Sprintf("%016x", canon.Sum64()), acquiredWhileOpen > 0 && len(handlesUsed) >= 2, classes,
			map[string]any{"slots": nSlots, "committed": len(m.keys), "rejected": rejected, "acquiredWhileOpen": acquiredWhileOpen,
				"steps": headStrings(trace, 24)})
	})
}

type failerFunc func(format string, args ...any)

func (f failerFunc) Fatalf(format string, args ...any) { f(format, args...) }
