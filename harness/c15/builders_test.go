package c15

// TestBuilderHistories: histories of table builders with failed ends.
//
// A case is a HISTORY of 2..8 table.StoreBuilders in one directory, not one table: up to three builders
// are open at the same time and are written in a generated interleaved order (micro-steps: Add, or
// Prepare / Write part / Commit of a StreamWriter, so that steps of another builder also fall between
// the Prepare and the Commit of one value), and every builder ends the way one of its production
// owners ends it (kv/flusher.go Commit, kv/compact_job.go finishCompactionOutputFile / cleanupCompaction):
//
//   - Close succeeds;
//   - Close on a builder without a committed key (nothing written, or bytes streamed without Commit):
//     it fails (ErrEmptyKeys); the flusher leaves it at that, the compaction job then calls Abandon;
//   - Close fails on an injected I/O fault (the write of the offsets, of the key bitmap or of the footer
//     fails, or closing the file fails; table.VerifSetFSHookWithFaults), then Abandon or not;
//   - a value write fails inside Add / StreamWriter.Write (injected), the owner gives up: Abandon;
//   - Abandon of a builder with data (a merge that failed half way) or without (flusher with Size()==0).
//
// Oracle: every builder whose Close returned nil produced a table that satisfies the whole C15 oracle
// (each key's exact bytes, absent keys absent, ascending complete iteration; Count/MinKey/MaxKey/Size
// of the builder) whatever happened to the builders before it and next to it; while building, Count /
// MinKey / MaxKey / Size of EVERY open builder equal its own model after every step of any builder
// (legal ascending keys are never rejected, injected out-of-order keys always are).
// The second part of a case's oracle is checked twice: right after the Close (others still open) and
// at the end of the history.

import (
	"errors"
	"fmt"
	"hash/crc32"
	"hash/fnv"
	"os"
	"path/filepath"
	"strings"
	"syscall"
	"testing"
	"time"

	"pgregory.net/rapid"

	"github.com/lindb/lindb/kv/table"
	"github.com/lindb/lindb/verifharness/sim/ev"
)

type bEnd int

const (
	endCloseOK         bEnd = iota
	endCloseEmpty           // no key committed: Close fails
	endCloseWriteFault      // a write of Close fails
	endCloseCloseFault      // closing the file fails inside Close
	endAbandonData          // owner gives up after a prefix of its operations
	endAddFault             // a value write fails, owner gives up
	endAbandonEmpty         // nothing was written, owner abandons
)

var bEndNames = []string{"close-ok", "close-without-keys", "close-write-fault", "close-close-fault", "abandon-with-data", "value-write-fault-then-abandon", "abandon-empty"}

// traceFailer appends the history so far to every failure message.
type traceFailer struct {
	t     failer
	trace *[]string
}

func (f traceFailer) Fatalf(format string, args ...any) {
	tr := *f.trace
	if len(tr) > 60 {
		tr = append([]string{fmt.Sprintf("(%d earlier steps)", len(tr)-60)}, tr[len(tr)-60:]...)
	}
	f.t.Fatalf(format+"\n    history: %s", append(args, strings.Join(tr, "; "))...)
}

type faultState struct {
	writeCountdown int // -1 none; the tableWrite that finds 0 here fails
	failClose      bool
	fired          bool
}

type bPlan struct {
	idx              int
	name, path       string
	ops              []op
	applyOps         int // how many of ops are applied before the end
	end              bEnd
	faultWrite       int  // endCloseWriteFault: which write of Close fails
	abandonAfter     bool // after a failed Close the owner abandons the builder (compaction job)
	uncommittedBytes int  // endCloseEmpty: bytes streamed (Prepare+Write) without Commit
	sharedSW         bool
	verifyAtOnce     bool

	// state
	b        table.Builder
	m        *tableModel
	bytes    int // value bytes handed to the file so far
	sw       table.StreamWriter
	curSW    table.StreamWriter
	next     int // next operation
	phase    int // inside a stream operation: 0 Prepare, 1..parts Write, parts+1 Commit
	accepted bool
	written  int
	done     bool
	complete bool // Close returned nil
	steps    int  // micro steps executed
	// labels
	openedAfterFailedEnd        bool // a builder ended with a failed Close (or Abandon) before this one was opened
	openedAfterFailedCloseAband bool // ... with a failed Close followed by Abandon
	overlapped                  bool // another builder was open while this one was
	interleaved                 bool // steps of another builder ran between two steps of this one
	streamInterleaved           bool // ... between the Prepare and the Commit of one value
	lastStepSeq                 int
}

func (p *bPlan) parts(o op) int { return len(o.cuts) + 1 }

var errInjectedIO = &os.PathError{Op: "write", Path: "(injected)", Err: syscall.ENOSPC}

func builderHistoryCase(t *rapid.T) {
	var trace []string
	ft := traceFailer{t: t, trace: &trace}

	nBuilders := rapid.IntRange(2, 8).Draw(t, "builders")
	maxOpen := rapid.SampledFrom([]int{1, 2, 2, 2, 3, 3}).Draw(t, "maxOpen")
	pool := genKeys(t, "pool", rapid.SampledFrom([]int{8, 40, 40, 200, 1500}).Draw(t, "poolBudget"))
	subsets := genSubsets(t, pool, nBuilders)
	valueSeed := rapid.Uint64().Draw(t, "valueSeed")
	checkAll := rapid.SampledFrom([]int{1, 1, 3, 0}).Draw(t, "checkOpenBuildersEvery")

	dir, err := os.MkdirTemp("", "c15-builders-")
	if err != nil {
		t.Fatalf("harness: %v", err)
	}
	defer os.RemoveAll(dir)

	plans := make([]*bPlan, nBuilders)
	anyFault := false
	for i := range plans {
		l := fmt.Sprintf("b%d", i)
		p := &bPlan{idx: i, name: fmt.Sprintf("%06d.sst", i+1)}
		p.path = filepath.Join(dir, p.name)
		// half of the builders end well; the rest is spread over the failing ends
		switch k := rapid.IntRange(0, 15).Draw(t, l+"End"); {
		case k < 8:
			p.end = endCloseOK
		case k < 10:
			p.end = endCloseEmpty
		case k < 12:
			p.end = endCloseWriteFault
		case k == 12:
			p.end = endCloseCloseFault
		case k == 13:
			p.end = endAbandonData
		case k == 14:
			p.end = endAddFault
		default:
			p.end = endAbandonEmpty
		}
		if p.end != endCloseEmpty && p.end != endAbandonEmpty {
			prof := profile{name: rapid.SampledFrom([]string{"many-tiny", "many-tiny", "mixed"}).Draw(t, l+"Profile")}
			c := opsCfg{prof: prof, mode: rapid.IntRange(0, 2).Draw(t, l+"Mode"), valueSeed: valueSeed, tag: uint32(i),
				badRate: rapid.SampledFrom([]int{0, 0, 5, 20}).Draw(t, l+"BadRate"), maxBad: 6, offsetTarget: genOffsetTarget(t, l, false)}
			p.ops = genOps(t, l, subsets[i], c)
			p.applyOps = len(p.ops)
			p.sharedSW = rapid.Bool().Draw(t, l+"SharedSW")
		}
		switch p.end {
		case endCloseOK:
			p.verifyAtOnce = rapid.Bool().Draw(t, l+"VerifyAtOnce")
		case endCloseEmpty:
			if rapid.Bool().Draw(t, l+"Uncommitted") {
				p.uncommittedBytes = rapid.IntRange(1, 40).Draw(t, l+"UncommittedBytes")
			}
			p.abandonAfter = rapid.IntRange(0, 3).Draw(t, l+"AbandonAfter") > 0
		case endCloseWriteFault:
			p.faultWrite = rapid.IntRange(0, 2).Draw(t, l+"FaultWrite")
			p.abandonAfter = rapid.IntRange(0, 3).Draw(t, l+"AbandonAfter") > 0
			anyFault = true
		case endCloseCloseFault:
			p.abandonAfter = rapid.IntRange(0, 3).Draw(t, l+"AbandonAfter") > 0
			anyFault = true
		case endAbandonData:
			p.applyOps = rapid.IntRange(1, len(p.ops)).Draw(t, l+"Prefix")
		case endAddFault:
			// the failing value write belongs to an accepted key
			var good []int
			for j, o := range p.ops {
				if !o.bad {
					good = append(good, j)
				}
			}
			p.applyOps = good[rapid.IntRange(0, len(good)-1).Draw(t, l+"FaultOp")] // ops before it are applied
			anyFault = true
		}
		plans[i] = p
	}

	// I/O faults: installed only when the history has one (otherwise the production writer is used)
	faults := map[string]*faultState{}
	if anyFault {
		table.VerifSetFSHookWithFaults(func(string, string, bool) {}, func(op, path string) error {
			fs := faults[path]
			if fs == nil {
				return nil
			}
			switch op {
			case "tableWrite":
				if fs.writeCountdown == 0 {
					fs.writeCountdown = -1
					fs.fired = true
					return errInjectedIO
				}
				if fs.writeCountdown > 0 {
					fs.writeCountdown--
				}
			case "tableClose":
				if fs.failClose {
					fs.failClose = false
					fs.fired = true
					return errInjectedIO
				}
			}
			return nil
		})
		defer table.VerifSetFSHook(nil)
	}
	arm := func(p *bPlan, countdown int, failClose bool) *faultState {
		fs := &faultState{writeCountdown: countdown, failClose: failClose}
		faults[p.path] = fs
		return fs
	}

	cache := table.NewCache(dir, time.Hour)
	defer cache.Close()
	var open []*bPlan
	defer func() { // a failing case (Fatalf / panic inside lindb) must not leave files open
		for _, p := range open {
			func() {
				defer func() { _ = recover() }()
				_ = p.b.Abandon()
			}()
		}
	}()

	checkMeta := func(p *bPlan, when string) {
		if got := p.b.Count(); got != uint64(len(p.m.keys)) {
			ft.Fatalf("%s: builder #%d: Count() = %d, %d legal ascending keys were added to it", when, p.idx, got, len(p.m.keys))
		}
		if n := len(p.m.keys); n > 0 && (p.b.MinKey() != p.m.keys[0] || p.b.MaxKey() != p.m.keys[n-1]) {
			ft.Fatalf("%s: builder #%d: min/max key = %d/%d, its own keys span %d/%d", when, p.idx, p.b.MinKey(), p.b.MaxKey(), p.m.keys[0], p.m.keys[n-1])
		}
		if !p.complete && int(p.b.Size()) != p.bytes {
			ft.Fatalf("%s: builder #%d: Size() = %d, %d value bytes were written to it", when, p.idx, p.b.Size(), p.bytes)
		}
	}
	checkOpen := func(when string) {
		for _, q := range open {
			checkMeta(q, when)
		}
	}

	verified := 0
	verify := func(p *bPlan, when string) {
		what := fmt.Sprintf("%s: table of builder #%d (%d keys, Close returned nil)", when, p.idx, len(p.m.keys))
		r, err := cache.GetReader("", p.name)
		if err != nil {
			ft.Fatalf("%s: opening the table failed: %v", what, err)
		}
		checkReader(ft, what, r, p.m, valueSeed+uint64(verified))
		cache.ReleaseReaders([]table.Reader{r})
		verified++
	}

	seq := 0
	failedEnds, failedCloseAbandoned := 0, 0
	endClasses := map[string]bool{}
	closeErrClasses := map[string]bool{}
	var completed []*bPlan

	finish := func(p *bPlan) {
		p.done = true
		for i, q := range open {
			if q == p {
				open = append(open[:i], open[i+1:]...)
				break
			}
		}
	}
	abandon := func(p *bPlan, why string) {
		err := p.b.Abandon()
		trace = append(trace, fmt.Sprintf("#%d Abandon (%s) -> %v", p.idx, why, err))
	}
	failedClose := func(p *bPlan, err error) {
		failedEnds++
		switch {
		case errors.Is(err, table.ErrEmptyKeys):
			closeErrClasses["close-error=ErrEmptyKeys"] = true
		case errors.Is(err, syscall.ENOSPC):
			closeErrClasses["close-error=injected-io-fault"] = true
		default:
			closeErrClasses["close-error=other"] = true
		}
		if p.abandonAfter {
			abandon(p, "after the failed Close")
			failedCloseAbandoned++
			endClasses["failed-close-then-abandon"] = true
		} else {
			endClasses["failed-close-left-alone"] = true
		}
		finish(p)
	}
	closed := func(p *bPlan) { // Close returned nil
		p.complete = true
		checkMeta(p, "after Close")
		st, err := os.Stat(p.path)
		if err != nil {
			ft.Fatalf("harness: stat table: %v", err)
		}
		if int64(p.b.Size()) != st.Size() {
			ft.Fatalf("builder #%d: Size() = %d after Close, the file has %d bytes", p.idx, p.b.Size(), st.Size())
		}
		finish(p)
		completed = append(completed, p)
		if p.verifyAtOnce {
			verify(p, fmt.Sprintf("right after its Close (%d builder(s) still open)", len(open)))
		}
	}

	end := func(p *bPlan) {
		endClasses["end:"+bEndNames[p.end]] = true
		switch p.end {
		case endCloseOK:
			err := p.b.Close()
			trace = append(trace, fmt.Sprintf("#%d Close -> %v", p.idx, err))
			if err != nil {
				ft.Fatalf("builder #%d: Close() failed without any fault: %v (%d legal ascending keys)", p.idx, err, len(p.m.keys))
			}
			closed(p)
		case endCloseEmpty:
			if p.uncommittedBytes > 0 {
				sw := p.b.StreamWriter()
				k := pool[int(mix(valueSeed, uint32(p.idx))%uint64(len(pool)))]
				sw.Prepare(k)
				if _, err := sw.Write(fill(valueSeed, k, uint32(p.idx), p.uncommittedBytes)); err != nil {
					ft.Fatalf("builder #%d: StreamWriter.Write failed without any fault: %v", p.idx, err)
				}
				p.bytes += p.uncommittedBytes
				checkMeta(p, "after streaming a value that is not committed")
			}
			err := p.b.Close()
			trace = append(trace, fmt.Sprintf("#%d Close without a committed key (%d uncommitted bytes) -> %v", p.idx, p.uncommittedBytes, err))
			if err == nil { // nothing to read back: no key was added
				closeErrClasses["close-without-keys-returned-nil"] = true
				finish(p)
				return
			}
			failedClose(p, err)
		case endCloseWriteFault, endCloseCloseFault:
			var fs *faultState
			if p.end == endCloseWriteFault {
				fs = arm(p, p.faultWrite, false)
			} else {
				fs = arm(p, -1, true)
			}
			err := p.b.Close()
			delete(faults, p.path)
			trace = append(trace, fmt.Sprintf("#%d Close with injected fault (%s, write %d; fired=%v) -> %v", p.idx, bEndNames[p.end], p.faultWrite, fs.fired, err))
			if err == nil {
				if fs.fired {
					ft.Fatalf("builder #%d: Close() returned nil although %s failed (write %d of Close): the owner would install this table", p.idx,
						map[bool]string{true: "closing the file", false: "a write"}[p.end == endCloseCloseFault], p.faultWrite)
				}
				closed(p) // the fault found nothing to hit: an ordinary table
				return
			}
			failedClose(p, err)
		case endAbandonData, endAbandonEmpty:
			abandon(p, bEndNames[p.end])
			failedEnds++
			finish(p)
		}
	}

	// one micro step of builder p (its end is a step too)
	step := func(p *bPlan) {
		when := func() string { return fmt.Sprintf("builder #%d op %d", p.idx, p.next) }
		if p.next >= p.applyOps && p.end != endAddFault {
			end(p)
			return
		}
		if p.next >= p.applyOps && p.end == endAddFault {
			// the value write of this (accepted) operation fails; the owner gives up
			o := p.ops[p.next]
			endClasses["end:"+bEndNames[p.end]] = true
			var err error
			fs := (*faultState)(nil)
			if o.stream {
				sw := p.b.StreamWriter()
				sw.Prepare(o.key)
				fs = arm(p, 0, false)
				_, err = sw.Write(o.val)
			} else {
				fs = arm(p, 0, false)
				err = p.b.Add(o.key, o.val)
			}
			delete(faults, p.path)
			trace = append(trace, fmt.Sprintf("#%d value write of key %d fails (stream=%v, fired=%v) -> %v", p.idx, o.key, o.stream, fs.fired, err))
			if err == nil && fs.fired {
				ft.Fatalf("%s: writing the value of key %d reported success although the write failed", when(), o.key)
			}
			abandon(p, "after the failed value write")
			failedEnds++
			finish(p)
			return
		}
		o := p.ops[p.next]
		if p.phase == 0 {
			// accepted iff greater than every key accepted before; a streamed key counts from its Commit on
			p.accepted = len(p.m.keys) == 0 || o.key > p.m.keys[len(p.m.keys)-1]
			if p.accepted == o.bad {
				ft.Fatalf("harness: %s key %d bad=%v accepted=%v", when(), o.key, o.bad, p.accepted)
			}
		}
		if !o.stream {
			p.m.add(o.key, o.val)
			if err := p.b.Add(o.key, o.val); err != nil {
				ft.Fatalf("%s: Add(%d, %d bytes) failed: %v (bad=%v)", when(), o.key, len(o.val), err, o.bad)
			}
			if p.accepted {
				p.bytes += len(o.val)
			}
			p.next++
			return
		}
		nParts := p.parts(o)
		switch {
		case p.phase == 0:
			if p.sharedSW {
				if p.sw == nil {
					p.sw = p.b.StreamWriter()
				}
				p.curSW = p.sw
			} else {
				p.curSW = p.b.StreamWriter()
			}
			p.curSW.Prepare(o.key)
			p.written = 0
			p.phase = 1
		case p.phase <= nParts:
			from := 0
			if p.phase > 1 {
				from = o.cuts[p.phase-2]
			}
			to := len(o.val)
			if p.phase <= len(o.cuts) {
				to = o.cuts[p.phase-1]
			}
			part := o.val[from:to]
			n, err := p.curSW.Write(part)
			if err != nil {
				ft.Fatalf("%s: StreamWriter.Write(key %d, %d bytes) failed: %v", when(), o.key, len(part), err)
			}
			if p.accepted {
				if n != len(part) {
					ft.Fatalf("%s: StreamWriter.Write(key %d) wrote %d of %d bytes without error", when(), o.key, n, len(part))
				}
				p.written += len(part)
				p.bytes += len(part)
				if int(p.curSW.Size()) != p.written {
					ft.Fatalf("%s: StreamWriter.Size() = %d after %d bytes of key %d", when(), p.curSW.Size(), p.written, o.key)
				}
			}
			p.phase++
		default:
			if p.accepted {
				if want := crc32.ChecksumIEEE(o.val); p.curSW.CRC32CheckSum() != want {
					ft.Fatalf("%s: StreamWriter.CRC32CheckSum() = %08x, the bytes written for key %d have %08x", when(), p.curSW.CRC32CheckSum(), o.key, want)
				}
			}
			if err := p.curSW.Commit(); err != nil {
				ft.Fatalf("%s: StreamWriter.Commit(key %d) failed: %v", when(), o.key, err)
			}
			p.m.add(o.key, o.val)
			p.phase = 0
			p.next++
		}
	}

	nextPlan := 0
	maxOpenSeen := 0
	canon := fnv.New64a()
	for nextPlan < len(plans) || len(open) > 0 {
		openNew := false
		switch {
		case len(open) == 0:
			openNew = true
		case nextPlan < len(plans) && len(open) < maxOpen:
			openNew = rapid.IntRange(0, 1).Draw(t, "openAnother") == 0
		}
		if openNew && nextPlan < len(plans) {
			p := plans[nextPlan]
			nextPlan++
			b, err := table.NewStoreBuilder(table.FileNumber(p.idx+1), p.path)
			if err != nil {
				ft.Fatalf("harness: NewStoreBuilder: %v", err)
			}
			p.b, p.m = b, newTableModel()
			p.openedAfterFailedEnd = failedEnds > 0
			p.openedAfterFailedCloseAband = failedCloseAbandoned > 0
			if len(open) > 0 {
				p.overlapped = true
				for _, q := range open {
					q.overlapped = true
				}
			}
			open = append(open, p)
			if len(open) > maxOpenSeen {
				maxOpenSeen = len(open)
			}
			p.lastStepSeq = seq
			trace = append(trace, fmt.Sprintf("#%d open (%s, %d ops, %d other open)", p.idx, bEndNames[p.end], len(p.ops), len(open)-1))
			fmt.Fprintf(canon, "O%d|", p.idx)
			checkMeta(p, "right after NewStoreBuilder")
			continue
		}
		p := open[0]
		if len(open) > 1 {
			p = open[rapid.IntRange(0, len(open)-1).Draw(t, "turn")]
		}
		n := rapid.IntRange(1, 6).Draw(t, "stepsInTurn")
		if len(open) == 1 {
			n *= 4
		}
		fmt.Fprintf(canon, "T%d/%d|", p.idx, n)
		startNext := p.next
		for i := 0; i < n && !p.done; i++ {
			if p.steps > 0 && p.lastStepSeq != seq {
				p.interleaved = true
				if p.phase > 0 {
					p.streamInterleaved = true
				}
			}
			seq++
			p.lastStepSeq = seq
			p.steps++
			step(p)
			if checkAll > 0 && seq%checkAll == 0 {
				checkOpen(fmt.Sprintf("after a step of builder #%d", p.idx))
			}
		}
		if !p.done {
			trace = append(trace, fmt.Sprintf("#%d ops %d..%d(phase %d)", p.idx, startNext, p.next, p.phase))
		}
	}
	// the end of the history: every table whose Close returned nil reads back exactly
	for _, p := range completed {
		verify(p, "at the end of the history")
	}

	// ---- evidence ----
	afterFailed, afterFailedCloseAbandon, overlapped, interleaved, streamInter, multiContainer := 0, 0, 0, 0, 0, 0
	c15kShape := 0 // completed, opened after a failed Close + Abandon, overlapping another builder
	for _, p := range completed {
		if p.openedAfterFailedEnd {
			afterFailed++
		}
		if p.openedAfterFailedCloseAband {
			afterFailedCloseAbandon++
			if p.overlapped {
				c15kShape++
			}
		}
		if p.overlapped {
			overlapped++
		}
		if p.interleaved {
			interleaved++
		}
		if p.streamInterleaved {
			streamInter++
		}
		if cs := classify(p.m.keys); cs.containers >= 2 || cs.run > 0 {
			multiContainer++
		}
	}
	for _, p := range plans {
		fmt.Fprintf(canon, "%d:%s:%d:%s|", p.idx, bEndNames[p.end], p.applyOps, digest(p.ops))
	}
	classes := []string{fmt.Sprintf("builders=%d", nBuilders), fmt.Sprintf("max-open=%d", maxOpenSeen),
		"completed-tables" + bucket(len(completed), 0, 1, 2, 4),
		"completed-tables-opened-after-a-failed-end" + bucket(afterFailed, 0, 1, 2),
		"completed-tables-opened-after-failed-close+abandon" + bucket(afterFailedCloseAbandon, 0, 1, 2),
		"completed-tables-overlapping-another-builder" + bucket(overlapped, 0, 1, 2),
		"completed-tables-interleaved-with-another-builder" + bucket(interleaved, 0, 1, 2),
		"poolKeys" + bucket(len(pool), 10, 100, 1000)}
	add := func(c bool, name string) {
		if c {
			classes = append(classes, name)
		}
	}
	add(c15kShape > 0, "completed-table-overlapping-another-builder-after-failed-close+abandon")
	add(streamInter > 0, "completed-table-with-foreign-steps-between-Prepare-and-Commit")
	add(multiContainer > 0, "completed-table-with->=2-containers-or-run-container")
	add(anyFault, "writer=fault-hook")
	add(!anyFault, "writer=production")
	for c := range endClasses {
		classes = append(classes, c)
	}
	for c := range closeErrClasses {
		classes = append(classes, c)
	}
	nt := len(completed) > 0 && (afterFailed > 0 || interleaved > 0)
	ev.Case("TestBuilderHistories", fmt.Sprintf("%016x", canon.Sum64()), nt, classes, map[string]any{
		"builders": nBuilders, "maxOpen": maxOpenSeen, "completed": len(completed), "failedEnds": failedEnds,
		"failedCloseThenAbandon": failedCloseAbandoned, "completedAfterFailedEnd": afterFailed, "completedInterleaved": interleaved,
		"poolKeys": len(pool), "firstPoolKeys": headKeys(pool, 6), "history": headStrings(trace, 40),
	})
}

func headStrings(s []string, n int) []string {
	if len(s) <= n {
		return s
	}
	return append(append([]string{}, s[:n]...), fmt.Sprintf("... %d more", len(s)-n))
}

func TestBuilderHistories(t *testing.T) {
	rapid.Check(t, builderHistoryCase)
}
