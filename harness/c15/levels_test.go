package c15

// Lookups over multi-level versions.
//
// TestStoreMultiFile only ever saw versions whose files all sit in level 0 (one file per flush).
// The statement "lookups of a key that lives in several files of a version return all of its
// values" and "reports absent keys as absent" quantify over every version a family can have, and
// the versions of a running store are produced by histories of flushes AND level-0 compactions:
//
//   - a merge compaction writes level-1 files through the compaction flusher (split by MaxFileSize),
//   - a single level-0 file without overlap is moved to level 1 unchanged (trivial move),
//   - level-1 inputs are picked per level-0 FILE range, so a compaction of two far-apart level-0
//     files leaves the level-1 files between them alone and produces an output whose [min,max]
//     range spans them: level-1 files are key-disjoint but NOT range-disjoint,
//   - after a reopen the version is rebuilt from the manifest.
//
// levelsCase generates such histories (keys drawn from one pool that is cut into bands, so that
// files are narrow and land on both sides of older files) and checks every version it visits:
// the ground truth is (a) the model of all added (key, atom) pairs and (b) a scan of every file of
// the version through its own reader; Snapshot.Load and Snapshot.FindReaders+Get must return, for
// every stored key, exactly the values that the files of the version hold for it, and nothing for
// absent keys. The file order inside a level is the iteration order of a Go map, so every lookup
// that has more than one candidate file is repeated (lookupRepeats) - the assertion itself does
// not depend on the order.

import (
	"bytes"
	"errors"
	"fmt"
	"hash/fnv"
	"os"
	"path/filepath"
	"sort"
	"strings"
	"testing"

	"pgregory.net/rapid"

	"github.com/lindb/lindb/kv"
	"github.com/lindb/lindb/kv/table"
	"github.com/lindb/lindb/kv/version"
	"github.com/lindb/lindb/verifharness/sim/ev"
	"github.com/lindb/lindb/verifharness/sim/kvsim"
)

const (
	// a lookup with >= 2 candidate files (by key range) is repeated: the order in which a level
	// hands out its files is a map iteration order (for the 2..8 files of a small map a given
	// relative order of two files comes up with probability 1/8..7/8 per call).
	lookupRepeats = 24
	maxPoolKeys   = 72
	atomsPerFlush = 8 // atom = flush index * atomsPerFlush + j: every atom is written exactly once
)

// fileInfo is what the harness observed about one file of a version.
type fileInfo struct {
	number   int64
	level    int
	min, max uint32
	keys     []uint32
	vals     map[uint32][]byte
}

func (f *fileInfo) covers(k uint32) bool { return k >= f.min && k <= f.max }

// levelStats accumulates the shapes a case has visited (evidence classes only).
type levelStats struct {
	checks, compactionsRan, mergeCompactions, trivialMoves, splitOutputs, reopens int
	untouchedLevel1                                                               bool // a level-1 file survived a merge compaction
	maxLevel1Files                                                                int
	level1RangesOverlap                                                           bool // two level-1 files with intersecting [min,max]
	storedKeyIn2Level1Ranges                                                      int  // looked-up stored keys covered by >= 2 level-1 ranges
	absentKeyIn2Level1Ranges                                                      int
	keyInLevel0AndLevel1                                                          int // stored key with values in level 0 and level 1
	keyCoveredBy2Files                                                            int // stored key with >= 2 candidate files, one of them above level 0
	lookups                                                                       int
}

// scanVersion reads every file of the snapshot's version through its own reader.
func scanVersion(t failer, what string, snapshot version.Snapshot, levels int) []*fileInfo {
	var files []*fileInfo
	v := snapshot.GetCurrent()
	seen := map[int64]int{}
	for lvl := 0; lvl < levels; lvl++ {
		for _, fm := range v.GetFiles(lvl) {
			fi := &fileInfo{number: fm.GetFileNumber().Int64(), level: lvl, min: fm.GetMinKey(), max: fm.GetMaxKey(), vals: map[uint32][]byte{}}
			if other, dup := seen[fi.number]; dup {
				t.Fatalf("%s: file %d is listed in level %d and in level %d of one version", what, fi.number, other, lvl)
			}
			seen[fi.number] = lvl
			r, err := snapshot.GetReader(fm.GetFileNumber())
			if err != nil || r == nil {
				t.Fatalf("%s: snapshot.GetReader(file %d of level %d) failed: reader=%v err=%v", what, fi.number, lvl, r, err)
			}
			it := r.Iterator()
			for it.HasNext() {
				k := it.Key()
				if n := len(fi.keys); n > 0 && k <= fi.keys[n-1] {
					t.Fatalf("%s: file %d iterates key %d after key %d", what, fi.number, k, fi.keys[n-1])
				}
				fi.keys = append(fi.keys, k)
				fi.vals[k] = append([]byte(nil), it.Value()...)
			}
			if len(fi.keys) == 0 {
				t.Fatalf("%s: file %d of level %d holds no entry", what, fi.number, lvl)
			}
			// "carries the right min/max key": the file meta of the version is what lookups select by
			if fi.min != fi.keys[0] || fi.max != fi.keys[len(fi.keys)-1] {
				t.Fatalf("%s: file %d of level %d is recorded with min/max %d/%d, its entries span %d/%d",
					what, fi.number, lvl, fi.min, fi.max, fi.keys[0], fi.keys[len(fi.keys)-1])
			}
			files = append(files, fi)
		}
	}
	if all := v.GetAllFiles(); len(all) != len(files) {
		t.Fatalf("%s: GetAllFiles lists %d files, the %d levels hold %d", what, len(all), levels, len(files))
	}
	sort.Slice(files, func(i, j int) bool { return files[i].number < files[j].number })
	return files
}

func describeFiles(files []*fileInfo) string {
	var sb strings.Builder
	for i, f := range files {
		if i > 0 {
			sb.WriteString(" ")
		}
		fmt.Fprintf(&sb, "L%d#%d[%d..%d]x%d", f.level, f.number, f.min, f.max, len(f.keys))
	}
	return sb.String()
}

// checkLevels compares one version of the family with the model of everything added so far.
func checkLevels(t failer, what string, family kv.Family, levels int, model kvsim.Content, probeSeed uint64, st *levelStats) []*fileInfo {
	snapshot := family.GetSnapshot()
	defer snapshot.Close()
	st.checks++

	files := scanVersion(t, what, snapshot, levels)
	layout := describeFiles(files)

	// (1) the files of the version hold every added (key, atom) exactly once
	have := kvsim.Content{}
	for _, f := range files {
		for _, k := range f.keys {
			atoms, err := kvsim.Decode(f.vals[k])
			if err != nil {
				t.Fatalf("%s: file %d key %d: %v (files %s)", what, f.number, k, err, layout)
			}
			for _, a := range atoms {
				if have[k][a] {
					t.Fatalf("%s: value %d of key %d is stored twice in the version (again in file %d; files %s)", what, a, k, f.number, layout)
				}
				have.AddAtom(k, a)
			}
		}
	}
	if !have.Equal(model) {
		t.Fatalf("%s: the files of the version do not hold exactly what was added:%s (files %s)", what, kvsim.Diff(model, have), layout)
	}

	// level shape (labels only)
	var level1 []*fileInfo
	for _, f := range files {
		if f.level >= 1 {
			level1 = append(level1, f)
		}
	}
	if len(level1) > st.maxLevel1Files {
		st.maxLevel1Files = len(level1)
	}
	for i := range level1 {
		for j := i + 1; j < len(level1); j++ {
			if level1[i].min <= level1[j].max && level1[j].min <= level1[i].max {
				st.level1RangesOverlap = true
			}
		}
	}

	// (2) lookups: every stored key, and absent keys around them
	union := newTableModel()
	stored := make([]uint32, 0, len(model))
	for k := range model {
		stored = append(stored, k)
	}
	sort.Slice(stored, func(i, j int) bool { return stored[i] < stored[j] })
	for _, k := range stored {
		union.add(k, nil)
	}
	probes := append(append([]uint32{}, stored...), absentProbes(union, probeSeed)...)
	for _, k := range probes {
		var want [][]byte
		candidates, inLevel1Ranges, inL0, inL1 := 0, 0, false, false
		aboveL0 := false
		for _, f := range files {
			if f.covers(k) {
				candidates++
				if f.level >= 1 {
					inLevel1Ranges++
					aboveL0 = true
				}
			}
			if v, ok := f.vals[k]; ok {
				want = append(want, v)
				if f.level == 0 {
					inL0 = true
				} else {
					inL1 = true
				}
			}
		}
		_, isStored := model[k]
		if isStored != (len(want) > 0) {
			t.Fatalf("harness: key %d stored=%v but %d files hold it", k, isStored, len(want))
		}
		if inLevel1Ranges >= 2 {
			if isStored {
				st.storedKeyIn2Level1Ranges++
			} else {
				st.absentKeyIn2Level1Ranges++
			}
		}
		if inL0 && inL1 {
			st.keyInLevel0AndLevel1++
		}
		if isStored && candidates >= 2 && aboveL0 {
			st.keyCoveredBy2Files++
		}
		repeats := 2
		if candidates >= 2 {
			repeats = lookupRepeats
		}
		// The order in which a level hands out its files differs from call to call, so a broken file
		// selection shows up in some of the repeated lookups only: every repetition is evaluated and
		// the first deviation is reported from one place (one failure site whatever path deviates).
		deviation := ""
		note := func(format string, args ...any) {
			if deviation == "" {
				deviation = fmt.Sprintf(format, args...)
			}
		}
		for rep := 0; rep < repeats && deviation == ""; rep++ {
			st.lookups++
			var loaded [][]byte
			if err := snapshot.Load(k, func(value []byte) error {
				loaded = append(loaded, append([]byte(nil), value...))
				return nil
			}); err != nil {
				note("snapshot.Load(%d) failed: %v", k, err)
			} else if !sameValues(loaded, want) {
				note("snapshot.Load(%d) yields %d value(s) %s (lookup %d of %d), the key lives in %d file(s) of the version with %s",
					k, len(loaded), shortList(loaded), rep+1, repeats, len(want), shortList(want))
			}
			readers, err := snapshot.FindReaders(k)
			if err != nil {
				note("snapshot.FindReaders(%d) failed: %v", k, err)
				continue
			}
			var viaGet [][]byte
			for _, r := range readers {
				v, err := r.Get(k)
				if errors.Is(err, table.ErrKeyNotExist) {
					continue
				}
				if err != nil {
					note("reader %s Get(%d) failed: %v", r.FileName(), k, err)
					continue
				}
				viaGet = append(viaGet, append([]byte(nil), v...))
			}
			if !sameValues(viaGet, want) {
				note("FindReaders(%d)+Get yields %d value(s) %s from %d reader(s) (lookup %d of %d), the key lives in %d file(s) of the version with %s",
					k, len(viaGet), shortList(viaGet), len(readers), rep+1, repeats, len(want), shortList(want))
			}
		}
		if deviation != "" {
			t.Fatalf("%s: %s (files %s)", what, deviation, layout)
		}
		// the values found for a stored key are, taken together, exactly what was added for it
		if isStored {
			got := map[uint32]bool{}
			for _, v := range want {
				atoms, _ := kvsim.Decode(v)
				for _, a := range atoms {
					got[a] = true
				}
			}
			if len(got) != len(model[k]) {
				t.Fatalf("%s: key %d: files hold %d values, %d were added", what, k, len(got), len(model[k]))
			}
		}
	}
	return files
}

// genBands cuts the pool into 2..6 contiguous bands (index ranges).
func genBands(t *rapid.T, n int) [][2]int {
	nb := rapid.IntRange(2, 6).Draw(t, "bands")
	if nb > n {
		nb = n
	}
	cuts := map[int]bool{}
	for len(cuts) < nb-1 {
		cuts[rapid.IntRange(1, n-1).Draw(t, "bandCut")] = true
	}
	var cs []int
	for c := range cuts {
		cs = append(cs, c)
	}
	sort.Ints(cs)
	var bands [][2]int
	from := 0
	for _, c := range cs {
		bands = append(bands, [2]int{from, c - 1})
		from = c
	}
	return append(bands, [2]int{from, n - 1})
}

// genFlushKeys draws the keys of one flush: mostly a narrow file inside one band, sometimes a
// file that spans several bands, a single key, or the two ends of the pool.
func genFlushKeys(t *rapid.T, pool []uint32, bands [][2]int, banded bool) (keys []uint32, shape string) {
	// bands: the bands this flush may choose from (all bands, or the one or two bands of the round)
	kind := rapid.IntRange(0, 9).Draw(t, "flushShape")
	if !banded && kind < 6 {
		kind = 6 + kind%4
	} else if banded && kind >= 7 && rapid.IntRange(0, 2).Draw(t, "wideFlush") > 0 {
		kind -= 7 // wide files merge everything below them: keep them the exception
	}
	switch {
	case kind <= 3: // a whole band
		b := bands[rapid.IntRange(0, len(bands)-1).Draw(t, "band")]
		return append([]uint32{}, pool[b[0]:b[1]+1]...), "band"
	case kind <= 5: // a slice inside one band
		b := bands[rapid.IntRange(0, len(bands)-1).Draw(t, "band")]
		from := rapid.IntRange(b[0], b[1]).Draw(t, "from")
		to := rapid.IntRange(from, b[1]).Draw(t, "to")
		return append([]uint32{}, pool[from:to+1]...), "in-band"
	case kind == 6: // a single key
		return []uint32{pool[rapid.IntRange(0, len(pool)-1).Draw(t, "one")]}, "single"
	case kind == 7: // any contiguous slice of the pool
		from := rapid.IntRange(0, len(pool)-1).Draw(t, "from")
		to := rapid.IntRange(from, len(pool)-1).Draw(t, "to")
		return append([]uint32{}, pool[from:to+1]...), "slice"
	case kind == 8: // a thinned selection over the whole pool: wide range, holes
		seed := rapid.Uint64().Draw(t, "thinSeed")
		den := uint64(rapid.SampledFrom([]int{2, 3, 5}).Draw(t, "thinDen"))
		for _, k := range pool {
			if mix(seed, k)%den == 0 {
				keys = append(keys, k)
			}
		}
		if len(keys) == 0 {
			keys = append(keys, pool[0])
		}
		return keys, "thinned"
	default: // first and last key of the pool only: the widest range with the fewest keys
		keys = append(keys, pool[0])
		if len(pool) > 1 {
			keys = append(keys, pool[len(pool)-1])
		}
		return keys, "ends"
	}
}

// genRelativeKeys places the keys of one flush relative to the key range [min,max] of an existing
// file: a short slice of the pool entirely below it, entirely above it, inside it, or across one of
// its ends. ok=false when the pool has no key in the drawn position.
func genRelativeKeys(t *rapid.T, pool []uint32, min, max uint32, side int) (keys []uint32, shape string, ok bool) {
	// side: 0 draw the relation, 1 below, 2 above
	lo := sort.Search(len(pool), func(i int) bool { return pool[i] >= min }) // pool[:lo] below the file
	hi := sort.Search(len(pool), func(i int) bool { return pool[i] > max })  // pool[hi:] above the file
	slice := func(from, to int) []uint32 {                                   // a short contiguous run inside pool[from:to]
		n := rapid.IntRange(1, minInt(6, to-from)).Draw(t, "relLen")
		at := rapid.IntRange(from, to-n).Draw(t, "relAt")
		return append([]uint32{}, pool[at:at+n]...)
	}
	r := []int{-1, 0, 8}[side]
	if side == 0 {
		r = rapid.IntRange(0, 19).Draw(t, "relation")
	}
	switch {
	case r < 8:
		if lo == 0 {
			return nil, "", false
		}
		return slice(0, lo), "below-file", true
	case r < 16:
		if hi == len(pool) {
			return nil, "", false
		}
		return slice(hi, len(pool)), "above-file", true
	case r < 18:
		if hi == lo {
			return nil, "", false
		}
		return slice(lo, hi), "inside-file-range", true
	default: // across the lower or the upper end of the file's range
		if rapid.Bool().Draw(t, "lowerEnd") {
			if lo == 0 || lo == len(pool) {
				return nil, "", false
			}
			return append([]uint32{}, pool[lo-1:lo+1]...), "across-file-end", true
		}
		if hi == 0 || hi == len(pool) {
			return nil, "", false
		}
		return append([]uint32{}, pool[hi-1:hi+1]...), "across-file-end", true
	}
}

// levelsCase is one generated history of flushes, level-0 compactions and reopens on one family.
// heldSnapshot is a snapshot a reader keeps open while the history goes on ("a version" of the
// statement is whatever a snapshot pins, not only the current one): what it returned when it was
// taken is what it has to return until it is closed, whatever flushes, compactions, obsolete-file
// passes and reader-cache clean-ups ran in between.
type heldSnapshot struct {
	snap    version.Snapshot
	files   []*fileInfo // scan of the version at the time the snapshot was taken (copied bytes)
	when    string
	changes int // flush commits and compactions since it was taken
	checks  int
}

// checkHeld reads the whole version through the held snapshot again and compares it with the scan
// made when the snapshot was taken; then every key of it (and absent keys around) is looked up
// through Snapshot.Load and Snapshot.FindReaders+Get.
func checkHeld(t failer, what string, h *heldSnapshot, levels int, probeSeed uint64) (lookups int) {
	now := scanVersion(t, what, h.snap, levels)
	if len(now) != len(h.files) {
		t.Fatalf("%s: the snapshot listed %s when it was taken, now %s", what, describeFiles(h.files), describeFiles(now))
	}
	union := newTableModel()
	all := keySet{}
	for i, f := range h.files {
		g := now[i]
		if f.number != g.number || f.level != g.level || len(f.keys) != len(g.keys) {
			t.Fatalf("%s: the snapshot listed %s when it was taken, now %s", what, describeFiles(h.files), describeFiles(now))
		}
		for j, k := range f.keys {
			if g.keys[j] != k || !bytes.Equal(g.vals[k], f.vals[k]) {
				t.Fatalf("%s: file %d read through the snapshot: entry %d was (%d, %s) when the snapshot was taken, now (%d, %s)",
					what, f.number, j, k, short(f.vals[k]), g.keys[j], short(g.vals[g.keys[j]]))
			}
			all.add(uint64(k))
		}
	}
	for _, k := range all.sorted() {
		union.add(k, nil)
	}
	probes := append(append([]uint32{}, union.keys...), absentProbes(union, probeSeed)...)
	for _, k := range probes {
		var want [][]byte
		for _, f := range h.files {
			if v, ok := f.vals[k]; ok {
				want = append(want, v)
			}
		}
		lookups++
		var loaded [][]byte
		if err := h.snap.Load(k, func(v []byte) error { loaded = append(loaded, append([]byte(nil), v...)); return nil }); err != nil {
			t.Fatalf("%s: snapshot.Load(%d) failed: %v (files of the snapshot: %s)", what, k, err, describeFiles(h.files))
		}
		if !sameValues(loaded, want) {
			t.Fatalf("%s: snapshot.Load(%d) yields %s, the files of the snapshot hold %s", what, k, shortList(loaded), shortList(want))
		}
		readers, err := h.snap.FindReaders(k)
		if err != nil {
			t.Fatalf("%s: snapshot.FindReaders(%d) failed: %v (files of the snapshot: %s)", what, k, err, describeFiles(h.files))
		}
		var viaGet [][]byte
		for _, r := range readers {
			v, err := r.Get(k)
			if errors.Is(err, table.ErrKeyNotExist) {
				continue
			}
			if err != nil {
				t.Fatalf("%s: reader %s Get(%d) failed: %v", what, r.FileName(), k, err)
			}
			viaGet = append(viaGet, append([]byte(nil), v...))
		}
		if !sameValues(viaGet, want) {
			t.Fatalf("%s: FindReaders(%d)+Get yields %s, the files of the snapshot hold %s", what, k, shortList(viaGet), shortList(want))
		}
	}
	h.checks++
	return lookups
}

func levelsCase(t *rapid.T, group string) {
	kvsim.Register()
	pool := genKeys(t, "lvPool", rapid.SampledFrom([]int{12, 30, 60}).Draw(t, "lvPoolBudget"))
	if len(pool) > maxPoolKeys { // keep every maxPoolKeys-th part, first and last key included
		step := (len(pool) + maxPoolKeys - 1) / maxPoolKeys
		var thin []uint32
		for i := 0; i < len(pool); i += step {
			thin = append(thin, pool[i])
		}
		if thin[len(thin)-1] != pool[len(pool)-1] {
			thin = append(thin, pool[len(pool)-1])
		}
		pool = thin
	}
	banded := len(pool) >= 3 && rapid.IntRange(0, 9).Draw(t, "layout") < 7
	var bands [][2]int
	if banded {
		bands = genBands(t, len(pool))
	}
	famOpt := kv.FamilyOption{
		Merger:           kvsim.MergerName,
		CompactThreshold: rapid.SampledFrom([]int{0, 0, 1, 2, 2, 3}).Draw(t, "compactThreshold"),
		MaxFileSize:      rapid.SampledFrom([]uint32{0, 0, 0, 1, 16, 24, 40, 64, 128, 256, 1 << 20}).Draw(t, "maxFileSize"),
	}
	storeOpt := kv.DefaultStoreOption()
	probeSeed := rapid.Uint64().Draw(t, "probeSeed")

	dir, err := os.MkdirTemp("", "c15-levels-")
	if err != nil {
		t.Fatalf("harness: %v", err)
	}
	defer os.RemoveAll(dir)
	storeName := filepath.Join(dir, "store")
	store, err := kv.GetStoreManager().CreateStore(storeName, storeOpt)
	if err != nil {
		t.Fatalf("harness: CreateStore: %v", err)
	}
	defer func() { _ = kv.GetStoreManager().CloseStore(storeName) }()
	family, err := store.CreateFamily("f", famOpt)
	if err != nil {
		t.Fatalf("harness: CreateFamily: %v", err)
	}

	model := kvsim.Content{}
	st := &levelStats{}
	canon := fnv.New64a()
	fmt.Fprintf(canon, "thr=%d max=%d|", famOpt.CompactThreshold, famOpt.MaxFileSize)
	var trace []string
	flushes := 0
	shapes := map[string]bool{}
	var lastFiles []*fileInfo
	checked := false // the current version has been checked

	check := func(when string) {
		lastFiles = checkLevels(t, when, family, storeOpt.Levels, model, probeSeed, st)
		checked = true
	}

	// snapshots kept open over the following steps
	var held []*heldSnapshot
	heldTaken, heldChecks, heldMaxChanges, heldOutlived, heldAcrossCompaction := 0, 0, 0, 0, 0
	defer func() { // before the store is closed, also on a failing case
		for _, h := range held {
			h.snap.Close()
		}
	}()
	hold := func() {
		h := &heldSnapshot{snap: family.GetSnapshot(), when: fmt.Sprintf("after %d flushes", flushes)}
		held = append(held, h) // first: closed by the deferred function if the scan fails
		h.files = scanVersion(t, "snapshot to be held, taken "+h.when, h.snap, storeOpt.Levels)
		heldTaken++
		canon.Write([]byte("H|"))
		trace = append(trace, fmt.Sprintf("hold snapshot#%d of %s", heldTaken, describeFiles(h.files)))
	}
	verifyHeld := func(i int, closeIt bool) {
		h := held[i]
		// which of its files does the current version no longer list?
		cur := family.GetSnapshot()
		live := map[int64]bool{}
		for _, fm := range cur.GetCurrent().GetAllFiles() {
			live[fm.GetFileNumber().Int64()] = true
		}
		cur.Close()
		gone := 0
		for _, f := range h.files {
			if !live[f.number] {
				gone++
			}
		}
		what := fmt.Sprintf("snapshot taken %s and still open after %d more commit(s)/compaction(s); %d of its %d file(s) are no longer part of the current version",
			h.when, h.changes, gone, len(h.files))
		st.lookups += checkHeld(t, what, h, storeOpt.Levels, probeSeed)
		heldChecks++
		if gone > 0 {
			heldOutlived++
		}
		if h.changes > heldMaxChanges {
			heldMaxChanges = h.changes
		}
		fmt.Fprintf(canon, "V%d/%v|", i, closeIt)
		trace = append(trace, fmt.Sprintf("check held snapshot (%s, %d changes later, %d file(s) gone from the current version, close=%v)", h.when, h.changes, gone, closeIt))
		if closeIt {
			h.snap.Close()
			held = append(held[:i], held[i+1:]...)
		}
	}
	closeAllHeld := func() { // a store is only closed after its readers are done
		for len(held) > 0 {
			verifyHeld(0, true)
		}
	}
	versionChanged := func(compaction bool) {
		for _, h := range held {
			h.changes++
			if compaction {
				heldAcrossCompaction++
			}
		}
	}
	// heldStep runs between two steps of the history
	heldStep := func() {
		switch a := rapid.IntRange(0, 9).Draw(t, "heldStep"); {
		case a < 3:
			if len(held) < 3 && flushes > 0 {
				hold()
			}
		case a < 5:
			if len(held) > 0 {
				verifyHeld(rapid.IntRange(0, len(held)-1).Draw(t, "heldIdx"), false)
			}
		case a < 7:
			if len(held) > 0 {
				verifyHeld(rapid.IntRange(0, len(held)-1).Draw(t, "heldIdx"), true)
			}
		}
	}

	roundBands := bands     // the bands the flushes of the current round choose from
	var relTarget *fileInfo // or: the file above level 0 the flushes of the round are placed around
	relSide := 0            // 0: relation drawn per flush; 1/2: below/above, alternating within the round
	flush := func() {
		var keys []uint32
		var shape string
		placed := false
		if relTarget != nil {
			keys, shape, placed = genRelativeKeys(t, pool, relTarget.min, relTarget.max, relSide)
			if relSide != 0 {
				relSide = 3 - relSide // the next file of the round goes to the other side
			}
		}
		if !placed {
			keys, shape = genFlushKeys(t, pool, roundBands, banded)
		}
		shapes[shape] = true
		stream := rapid.IntRange(0, 2).Draw(t, "flushMode") // 0 Add, 1 StreamWriter, 2 per key
		nAtoms := rapid.IntRange(1, 3).Draw(t, "valuesPerKey")
		flusher := family.NewFlusher()
		released := false
		release := func() {
			if !released {
				released = true
				flusher.Release()
			}
		}
		defer release()
		for _, k := range keys {
			set := map[uint32]bool{}
			for j := 0; j < nAtoms; j++ {
				a := uint32(flushes*atomsPerFlush + j)
				set[a] = true
				model.AddAtom(k, a)
			}
			val := kvsim.Encode(set)
			if stream == 1 || (stream == 2 && mix(probeSeed, k)&1 == 1) {
				sw, err := flusher.StreamWriter()
				if err != nil {
					t.Fatalf("flusher.StreamWriter() failed: %v", err)
				}
				sw.Prepare(k)
				if _, err := sw.Write(val); err != nil {
					t.Fatalf("StreamWriter.Write(key %d) failed: %v", k, err)
				}
				if err := sw.Commit(); err != nil {
					t.Fatalf("StreamWriter.Commit(key %d) failed: %v", k, err)
				}
			} else if err := flusher.Add(k, val); err != nil {
				t.Fatalf("flusher.Add(%d) failed: %v", k, err)
			}
		}
		if err := flusher.Commit(); err != nil {
			t.Fatalf("flusher.Commit() of flush %d failed: %v", flushes, err)
		}
		release()
		fmt.Fprintf(canon, "F%d:%d..%d/%d/%d/%d|", flushes, keys[0], keys[len(keys)-1], len(keys), nAtoms, stream)
		trace = append(trace, fmt.Sprintf("flush#%d %s %d keys [%d..%d]", flushes, shape, len(keys), keys[0], keys[len(keys)-1]))
		flushes++
		checked = false
		versionChanged(false)
	}

	compact := func(force bool) {
		// the version before, to label what the compaction did
		snap := family.GetSnapshot()
		before := scanVersion(t, "before compaction", snap, storeOpt.Levels)
		snap.Close()
		ran, err := kv.VerifCompactSync(family, force)
		if err != nil {
			t.Fatalf("level-0 compaction failed: %v (files before %s)", err, describeFiles(before))
		}
		fmt.Fprintf(canon, "C%v|", force)
		if !ran {
			trace = append(trace, fmt.Sprintf("compact(force=%v) guard said no", force))
			return
		}
		snap = family.GetSnapshot()
		after := scanVersion(t, "after compaction", snap, storeOpt.Levels)
		snap.Close()
		beforeLevel := map[int64]int{}
		for _, f := range before {
			beforeLevel[f.number] = f.level
		}
		afterSet := map[int64]bool{}
		newOutputs, moved := 0, 0
		for _, f := range after {
			afterSet[f.number] = true
			if f.level >= 1 {
				if lvl, ok := beforeLevel[f.number]; !ok {
					newOutputs++
				} else if lvl == 0 {
					moved++
				}
			}
		}
		changed := newOutputs > 0 || moved > 0 || len(after) != len(before)
		if changed {
			st.compactionsRan++
			checked = false
			versionChanged(true)
		}
		// the compaction job ends with an obsolete-file pass while it still pins the version it read;
		// the periodic passes that follow are what removes its inputs - and must leave alone what an
		// open snapshot pins
		if rapid.IntRange(0, 2).Draw(t, "cleanupAfterCompact") > 0 {
			kv.VerifDeleteObsoleteFiles(family)
			if rapid.Bool().Draw(t, "cacheCleanup") {
				kv.VerifCacheCleanup(store)
			}
			trace = append(trace, "obsolete-file pass")
		}
		if moved > 0 {
			st.trivialMoves++
		}
		if newOutputs > 0 {
			st.mergeCompactions++
			if newOutputs >= 2 {
				st.splitOutputs++
			}
			for _, f := range before {
				if f.level >= 1 && afterSet[f.number] {
					st.untouchedLevel1 = true
				}
			}
		}
		trace = append(trace, fmt.Sprintf("compact(force=%v): %s -> %s", force, describeFiles(before), describeFiles(after)))
	}

	reopen := func() {
		closeAllHeld()
		if err := kv.GetStoreManager().CloseStore(storeName); err != nil {
			t.Fatalf("CloseStore failed: %v", err)
		}
		store, err = kv.GetStoreManager().CreateStore(storeName, storeOpt)
		if err != nil {
			t.Fatalf("reopening the store failed: %v", err)
		}
		family, err = store.CreateFamily("f", famOpt)
		if err != nil {
			t.Fatalf("reopening the family failed: %v", err)
		}
		st.reopens++
		canon.Write([]byte("R|"))
		trace = append(trace, "reopen")
		checked = false
	}

	level0Files := func() int {
		snap := family.GetSnapshot()
		defer snap.Close()
		return snap.GetCurrent().NumberOfFilesInLevel(0)
	}
	upperFiles := func() (upper []*fileInfo) { // the files above level 0 of the current version, by file number
		snap := family.GetSnapshot()
		defer snap.Close()
		for _, f := range scanVersion(t, "current version", snap, storeOpt.Levels) {
			if f.level >= 1 {
				upper = append(upper, f)
			}
		}
		return upper
	}
	rounds := rapid.IntRange(0, 9).Draw(t, "historyShape") < 7
	steps := 0
	if rounds {
		// the production rhythm: a few flushes, then the level-0 compaction, version after version
		nRounds := rapid.IntRange(1, 8).Draw(t, "rounds")
		for r := 0; r < nRounds; r++ {
			// new data of one round usually sits in one or two places of the key space
			roundBands, relTarget, relSide = bands, nil, 0
			upper := upperFiles()
			place := rapid.IntRange(0, 9).Draw(t, "roundPlacement")
			if len(upper) == 0 && place >= 3 {
				place = 3 // nothing above level 0 yet: mostly start with a narrow file
			}
			switch {
			case place < 2: // anywhere
			case place < 4: // one or two bands
				if banded {
					first := rapid.IntRange(0, len(bands)-1).Draw(t, "roundBand")
					roundBands = [][2]int{bands[first]}
					if len(upper) > 0 && len(bands) > 1 && rapid.Bool().Draw(t, "twoBands") {
						second := rapid.IntRange(0, len(bands)-2).Draw(t, "roundBand2")
						if second >= first {
							second++
						}
						roundBands = append(roundBands, bands[second])
					}
				}
			case place < 5: // new keys: bands outside the key ranges of the files above level 0
				if banded {
					var free [][2]int
					for _, b := range bands {
						hit := false
						for _, f := range upper {
							if f.min <= pool[b[1]] && pool[b[0]] <= f.max {
								hit = true
							}
						}
						if !hit {
							free = append(free, b)
						}
					}
					if len(free) > 0 {
						roundBands = free
					}
				}
			default: // narrow files below / above / inside / across the ends of one file above level 0
				if len(upper) > 0 {
					relTarget = upper[rapid.IntRange(0, len(upper)-1).Draw(t, "aroundFile")]
					if relTarget.min <= pool[0] || relTarget.max >= pool[len(pool)-1] { // no room on one side: one more draw
						relTarget = upper[rapid.IntRange(0, len(upper)-1).Draw(t, "aroundFile2")]
					}
					// half of these rounds put their files alternately below and above the chosen file
					relSide = rapid.IntRange(0, 3).Draw(t, "bothSides")
					if relSide == 3 {
						relSide = 1
					}
				}
			}
			for n := rapid.SampledFrom([]int{1, 2, 2, 2, 3, 3, 4}).Draw(t, "flushesInRound"); n > 0; n-- {
				flush()
				steps++
				heldStep()
			}
			if !checked && rapid.IntRange(0, 4).Draw(t, "checkBeforeCompact") == 0 {
				check(fmt.Sprintf("round %d before compaction", r+1))
			}
			switch a := rapid.IntRange(0, 9).Draw(t, "roundEnd"); {
			case a < 7:
				// Family.Compact guard; a single level-0 file only passes the periodic guard
				compact(level0Files() > 1 || famOpt.CompactThreshold != 1)
			case a < 8:
				compact(false)
			case a < 9:
				reopen()
				compact(true)
			}
			steps++
			heldStep()
			if !checked && rapid.IntRange(0, 3).Draw(t, "checkAfterRound") > 0 {
				check(fmt.Sprintf("after round %d", r+1))
			}
		}
	} else {
		flush()
		steps = rapid.IntRange(2, 14).Draw(t, "steps")
		for i := 0; i < steps; i++ {
			switch s := rapid.IntRange(0, 19).Draw(t, "step"); {
			case s < 9:
				flush()
			case s < 14:
				compact(true)
				if !checked && rapid.IntRange(0, 2).Draw(t, "checkAfterCompact") > 0 {
					check(fmt.Sprintf("after step %d (compaction)", i+1))
				}
			case s < 16:
				compact(false)
			case s < 17:
				reopen()
			default:
				if !checked {
					check(fmt.Sprintf("after step %d", i+1))
				}
			}
			heldStep()
		}
	}
	closeAllHeld()
	if !checked {
		check(fmt.Sprintf("after all %d steps", steps))
	}
	// Nothing pins an older version any more (every snapshot of the case is closed, no flusher, no
	// compaction, no rollup is under way): one obsolete-file pass has to leave exactly the table
	// files of the current version in the family directory - "obsolete" files are deleted, files the
	// version lists are not. (The other direction of what the held snapshots check above.)
	kv.VerifDeleteObsoleteFiles(family)
	{
		cur := family.GetSnapshot()
		want := map[string]bool{}
		for _, fm := range cur.GetCurrent().GetAllFiles() {
			want[version.Table(fm.GetFileNumber())] = true
		}
		cur.Close()
		entries, err := os.ReadDir(filepath.Join(storeName, "f"))
		if err != nil {
			t.Fatalf("harness: reading the family directory: %v", err)
		}
		var extra, missing []string
		for _, e := range entries {
			if strings.HasSuffix(e.Name(), ".sst") {
				if !want[e.Name()] {
					extra = append(extra, e.Name())
				}
				delete(want, e.Name())
			}
		}
		for n := range want {
			missing = append(missing, n)
		}
		sort.Strings(missing)
		if len(missing) > 0 {
			t.Fatalf("after the history (%d snapshots were held and closed) an obsolete-file pass left the family directory without %v, which the current version %s lists\nhistory: %s",
				heldTaken, missing, describeFiles(lastFiles), strings.Join(trace, "; "))
		}
		if len(extra) > 0 {
			t.Fatalf("after the history (%d snapshots were held and closed; none is open) an obsolete-file pass leaves %v in the family directory; the current version lists only %s: some closed snapshot still pins an old version\nhistory: %s",
				heldTaken, extra, describeFiles(lastFiles), strings.Join(trace, "; "))
		}
	}

	nt := st.keyCoveredBy2Files > 0
	classes := []string{"history=levels", "flushes" + bucket(flushes, 1, 2, 4, 8), "versionsChecked" + bucket(st.checks, 1, 2, 4),
		"level1Files" + bucket(st.maxLevel1Files, 0, 1, 2, 4, 16), fmt.Sprintf("banded=%v", banded), fmt.Sprintf("rounds=%v", rounds),
		fmt.Sprintf("compactThreshold=%d", famOpt.CompactThreshold), "maxFileSize" + bucket(int(famOpt.MaxFileSize), 0, 1, 64)}
	add := func(cond bool, c string) {
		if cond {
			classes = append(classes, c)
		}
	}
	add(st.compactionsRan == 0, "no-compaction-ran")
	add(st.compactionsRan >= 2, "repeated-compaction")
	add(st.mergeCompactions > 0, "merge-compaction")
	add(st.trivialMoves > 0, "trivial-move")
	add(st.splitOutputs > 0, "split-output")
	add(st.untouchedLevel1, "level1-file-left-alone-by-merge-compaction")
	add(st.level1RangesOverlap, "level1-ranges-overlap")
	add(st.storedKeyIn2Level1Ranges > 0, "stored-key-inside->=2-level1-ranges")
	add(st.absentKeyIn2Level1Ranges > 0, "absent-key-inside->=2-level1-ranges")
	add(st.keyInLevel0AndLevel1 > 0, "key-with-values-in-level0-and-level1")
	add(st.keyCoveredBy2Files > 0, "stored-key-with->=2-candidate-files-one-above-level0")
	add(st.reopens > 0, "reopen")
	add(heldTaken > 0, "snapshot-held-over-later-steps")
	add(heldAcrossCompaction > 0, "snapshot-held-across-a-compaction")
	add(heldOutlived > 0, "held-snapshot-checked-after-its-files-left-the-current-version")
	if heldTaken > 0 {
		classes = append(classes, "held-snapshots"+bucket(heldTaken, 1, 2, 4), "held-snapshot-checks"+bucket(heldChecks, 1, 2, 4, 8),
			"commits/compactions-a-held-snapshot-survived(max)"+bucket(heldMaxChanges, 0, 1, 2, 4, 8))
	}
	ev.Case(group, fmt.Sprintf("levels/%016x", canon.Sum64()), nt, classes, map[string]any{
		"history": "levels", "poolKeys": len(pool), "bands": len(bands), "compactThreshold": famOpt.CompactThreshold,
		"maxFileSize": famOpt.MaxFileSize, "trace": trace, "finalFiles": describeFiles(lastFiles), "lookups": st.lookups,
	})
}

// TestStoreLevels runs only the multi-level histories (TestStoreMultiFile mixes them with the
// level-0-only cases).
func TestStoreLevels(t *testing.T) {
	rapid.Check(t, func(t *rapid.T) { levelsCase(t, "TestStoreLevels") })
}
