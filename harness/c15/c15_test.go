// Package c15 checks property C15: table files and merged iteration return exactly what was added.
//
//   - TestTableRoundTrip   builder (Add / StreamWriter / mixed, injected out-of-order and duplicate
//     keys) + mmap reader (Get, Iterator) + builder MinKey/MaxKey/Count/Size against a sorted-map model.
//   - TestMergedIterator   table.NewMergedIterator over 1..8 real table readers with generated
//     overlap: key ordered permutation of the multiset union of the inputs.
//   - TestStoreMultiFile   several flushes into one kv family (no compaction), then
//     Snapshot.Load / FindReaders+Get / merged iteration over all files of the version; 4 of 10 cases
//     are histories of flushes, level-0 compactions and reopens (levels_test.go): lookups over
//     versions with files above level 0 (TestStoreLevels runs only those).
//   - TestReaderOrderClasses / TestSharedReaderGoroutines (shared_test.go)   one cached reader used
//     by several users: generated step orders interleaved on one goroutine, and 2-8 real goroutines.
//   - TestBuilderHistories (builders_test.go) / TestOwnerHistories (owners_test.go)   histories of
//     builders with failed ends (failed Close, Abandon, injected I/O faults) and several builders open
//     at once, at the builder API and through the kv flusher / compaction job.
//   - TestHeldLookups (held_test.go)   FindReaders results of one snapshot held over later lookups.
//   - TestOffsetWidthLimits / TestStreamHandles (handles_test.go)   tables whose value offsets land on
//     / around 2^8, 2^16, 2^24 (slot widths of the offsets block), and several StreamWriter handles of
//     one builder requested and used in generated interleavings.
//   - FuzzTableReader      native fuzz target (thorough tier): a valid table must read back exactly;
//     mutated / arbitrary files are informational only (the property says nothing about corrupt files).
package c15

import (
	"bytes"
	"encoding/binary"
	"errors"
	"fmt"
	"hash/crc32"
	"hash/fnv"
	"math"
	"os"
	"path/filepath"
	"sort"
	"sync"
	"testing"
	"time"

	"github.com/lindb/common/pkg/logger"
	"github.com/lindb/roaring"
	"go.uber.org/zap/zapcore"
	"pgregory.net/rapid"

	"github.com/lindb/lindb/kv"
	"github.com/lindb/lindb/kv/table"
	"github.com/lindb/lindb/kv/version"
	"github.com/lindb/lindb/verifharness/sim/ev"
)

func TestMain(m *testing.M) { ev.Main(m) }

func init() {
	// the kv package logs every flush at INFO and every rejected key at WARN; keep errors only.
	logger.RunningAtomicLevel.SetLevel(zapcore.ErrorLevel)
}

const chunk = 65536 // one roaring container covers 65536 consecutive keys

// thorough reports whether the driver runs the thorough tier (allows a few 4 MiB values).
func thorough() bool { return os.Getenv("VERIF_TIER") == "thorough" }

// ---- deterministic value bytes ---------------------------------------------------------------

// fill expands (seed, key, tag) to n bytes with splitmix64; the seed is a rapid draw, so a case
// stays a pure function of -rapid.seed. Drawing megabytes byte by byte from rapid is too slow.
func fill(seed uint64, key, tag uint32, n int) []byte {
	b := make([]byte, n)
	x := seed ^ (uint64(key)+1)*0x9E3779B97F4A7C15 ^ uint64(tag)<<40 ^ uint64(n)<<20
	var tmp [8]byte
	for i := 0; i < n; i += 8 {
		x += 0x9E3779B97F4A7C15
		z := x
		z = (z ^ (z >> 30)) * 0xBF58476D1CE4E5B9
		z = (z ^ (z >> 27)) * 0x94D049BB133111EB
		z ^= z >> 31
		binary.LittleEndian.PutUint64(tmp[:], z)
		copy(b[i:], tmp[:])
	}
	return b
}

func mix(seed uint64, key uint32) uint64 {
	z := seed + (uint64(key)+1)*0x9E3779B97F4A7C15
	z = (z ^ (z >> 30)) * 0xBF58476D1CE4E5B9
	z = (z ^ (z >> 27)) * 0x94D049BB133111EB
	return z ^ (z >> 31)
}

// ---- key set generators ------------------------------------------------------------------------

type keySet map[uint32]struct{}

func (s keySet) add(k uint64) {
	if k <= math.MaxUint32 {
		s[uint32(k)] = struct{}{}
	}
}

func (s keySet) sorted() []uint32 {
	out := make([]uint32, 0, len(s))
	for k := range s {
		out = append(out, k)
	}
	sort.Slice(out, func(i, j int) bool { return out[i] < out[j] })
	return out
}

// genAnchor draws a position biased to 0, the 65536*k boundaries and MaxUint32.
func genAnchor(t *rapid.T, label string) uint64 {
	switch rapid.IntRange(0, 5).Draw(t, label+"Anchor") {
	case 0:
		return 0
	case 1:
		return uint64(rapid.IntRange(1, 4).Draw(t, label+"LowChunk")) * chunk
	case 2:
		return uint64(rapid.IntRange(1, 65535).Draw(t, label+"Chunk")) * chunk
	case 3:
		return math.MaxUint32
	case 4:
		return uint64(rapid.IntRange(65530, 65535).Draw(t, label+"TopChunk")) * chunk
	default:
		return uint64(rapid.Uint32().Draw(t, label+"Any"))
	}
}

// genStart places the start of a structure of the given length around an anchor so that it
// ends before, straddles, or starts at the anchor.
func genStart(t *rapid.T, label string, length uint64) uint64 {
	a := genAnchor(t, label)
	var back uint64
	switch rapid.IntRange(0, 3).Draw(t, label+"Place") {
	case 0: // starts at the anchor
		back = 0
	case 1: // ends exactly one before the anchor
		back = length
	case 2: // straddles
		back = uint64(rapid.Uint64Range(0, length).Draw(t, label+"Back"))
	default: // small offset
		back = uint64(rapid.IntRange(0, 3).Draw(t, label+"Off"))
	}
	if back > a {
		return 0
	}
	return a - back
}

// genKeys draws a sorted duplicate-free key set of at most about budget keys.
func genKeys(t *rapid.T, label string, budget int) []uint32 {
	s := keySet{}
	parts := rapid.IntRange(1, 3).Draw(t, label+"Parts")
	per := budget / parts
	if per < 1 {
		per = 1
	}
	for p := 0; p < parts; p++ {
		l := fmt.Sprintf("%s%d", label, p)
		kind := rapid.IntRange(0, 7).Draw(t, l+"Kind")
		if kind >= 6 && budget < 6000 {
			kind -= 6 // the large structures need the key budget of the many-tiny profile
		}
		switch kind {
		case 6: // > 4096 irregular keys inside one chunk: bitmap container; may spill into the next chunk
			seed := rapid.Uint64().Draw(t, l+"DenseSeed")
			window := uint64(rapid.IntRange(8400, 12000).Draw(t, l+"Window"))
			base := genAnchor(t, l) / chunk * chunk
			off := uint64(rapid.SampledFrom([]int{0, 1, 30000, chunk - 9000, chunk - 4000}).Draw(t, l+"DenseOff"))
			for i := uint64(0); i < window; i++ {
				if mix(seed, uint32(i))&1 == 0 {
					s.add(base + off + i)
				}
			}
		case 7: // long run(s) with holes: run containers with several runs, crossing chunk boundaries
			n := uint64(rapid.IntRange(1000, 6000).Draw(t, l+"LongRun"))
			st := genStart(t, l, n)
			holeEvery := uint64(rapid.SampledFrom([]int{0, 7, 100, 1000}).Draw(t, l+"HoleEvery"))
			for i := uint64(0); i < n; i++ {
				if holeEvery == 0 || i%holeEvery != holeEvery-1 {
					s.add(st + i)
				}
			}
		case 0: // dense run (run container once long enough)
			n := uint64(rapid.IntRange(1, per).Draw(t, l+"RunLen"))
			st := genStart(t, l, n)
			for i := uint64(0); i < n; i++ {
				s.add(st + i)
			}
		case 1: // strided: array container, or bitmap container beyond 4096 keys in one chunk
			stride := uint64(rapid.IntRange(2, 9).Draw(t, l+"Stride"))
			n := uint64(rapid.IntRange(1, per).Draw(t, l+"StrideN"))
			st := genStart(t, l, n*stride)
			for i := uint64(0); i < n; i++ {
				s.add(st + i*stride)
			}
		case 2: // sparse over the whole range
			n := rapid.IntRange(1, minInt(per, 200)).Draw(t, l+"SparseN")
			for i := 0; i < n; i++ {
				s.add(uint64(rapid.Uint32().Draw(t, l+"Sparse")))
			}
		case 3: // clustered: a few chunks, random low bits
			nc := rapid.IntRange(1, 4).Draw(t, l+"NChunks")
			n := rapid.IntRange(1, minInt(per, 200)).Draw(t, l+"ClusterN")
			seed := rapid.Uint64().Draw(t, l+"ClusterSeed")
			highs := make([]uint64, nc)
			for i := range highs {
				highs[i] = genAnchor(t, l+"H") / chunk
			}
			for i := 0; i < n; i++ {
				h := mix(seed, uint32(i))
				s.add(highs[h%uint64(nc)]*chunk + (h>>20)%chunk)
			}
		case 4: // immediately around chunk boundaries
			nb := rapid.IntRange(1, minInt(per, 6)).Draw(t, l+"NBound")
			for i := 0; i < nb; i++ {
				a := genAnchor(t, l+"B")
				mask := rapid.IntRange(1, 31).Draw(t, l+"BMask")
				for d := 0; d < 5; d++ {
					if mask&(1<<d) != 0 && a+uint64(d) >= 2 {
						s.add(a + uint64(d) - 2)
					}
				}
			}
		default: // the extremes
			mask := rapid.IntRange(1, 63).Draw(t, l+"XMask")
			for i, k := range []uint64{0, 1, chunk - 1, chunk, math.MaxUint32 - 1, math.MaxUint32} {
				if mask&(1<<i) != 0 {
					s.add(k)
				}
			}
		}
	}
	if len(s) == 0 {
		s.add(uint64(rapid.Uint32().Draw(t, label+"Fallback")))
	}
	return s.sorted()
}

func minInt(a, b int) int {
	if a < b {
		return a
	}
	return b
}

// ---- value size profiles -------------------------------------------------------------------------

type profile struct {
	name      string
	keyBudget int
}

var profiles = []profile{
	{"many-tiny", 6000}, // up to 6000 keys, values 0..8 B
	{"mixed", 300},      // values 0..4 KiB, mostly small
	{"mixed", 300},
	{"big", 12}, // a few values of 64 KiB..1 MiB (thorough: sometimes 4 MiB)
}

func genSize(t *rapid.T, p profile, label string) int {
	switch p.name {
	case "many-tiny":
		return rapid.IntRange(0, 8).Draw(t, label)
	case "mixed":
		switch rapid.IntRange(0, 9).Draw(t, label+"Class") {
		case 0, 1:
			return 0
		case 2, 3, 4, 5:
			return rapid.IntRange(1, 64).Draw(t, label)
		case 6, 7:
			return rapid.IntRange(65, 1024).Draw(t, label)
		case 8:
			return rapid.IntRange(250, 260).Draw(t, label) // offsets around the 1 byte width limit
		default:
			return rapid.IntRange(1025, 4096).Draw(t, label)
		}
	default: // big
		switch rapid.IntRange(0, 7).Draw(t, label+"Class") {
		case 0:
			return 0
		case 1, 2:
			return rapid.IntRange(1, 300).Draw(t, label)
		case 3:
			return rapid.IntRange(65530, 65540).Draw(t, label) // around the 2 byte offset width limit
		case 4, 5:
			return rapid.IntRange(64<<10, 1<<20).Draw(t, label)
		case 6:
			return 1 << 20
		default:
			if thorough() && rapid.IntRange(0, 3).Draw(t, label+"Huge") == 0 {
				return 4 << 20
			}
			return rapid.IntRange(256<<10, 1<<20).Draw(t, label)
		}
	}
}

// ---- model ---------------------------------------------------------------------------------------------

// tableModel is the reference: "a table built from an ascending sequence ... an out-of-order key is
// rejected without disturbing the others". A key is accepted iff it is greater than every key
// accepted before.
type tableModel struct {
	keys []uint32
	vals map[uint32][]byte
}

func newTableModel() *tableModel { return &tableModel{vals: map[uint32][]byte{}} }

func (m *tableModel) add(k uint32, v []byte) bool {
	if n := len(m.keys); n > 0 && k <= m.keys[n-1] {
		return false
	}
	m.keys = append(m.keys, k)
	m.vals[k] = v
	return true
}

func (m *tableModel) has(k uint32) bool { _, ok := m.vals[k]; return ok }

type containerStats struct {
	containers, run, array, bitmap int
}

// classify uses an independent roaring bitmap only to label the case (never as an oracle).
func classify(keys []uint32) containerStats {
	bm := roaring.BitmapOf(keys...)
	bm.RunOptimize()
	st := bm.Stats()
	return containerStats{int(st.Containers), int(st.RunContainers), int(st.ArrayContainers), int(st.BitmapContainers)}
}

func offsetWidth(m *tableModel) int {
	off := maxStartOffset(m)
	switch {
	case off < 1<<8:
		return 1
	case off < 1<<16:
		return 2
	case off < 1<<24:
		return 3
	}
	return 4
}

// ---- write operations -----------------------------------------------------------------------------------

type op struct {
	key    uint32
	val    []byte
	stream bool
	cuts   []int // split points of the value for StreamWriter.Write calls
	bad    bool  // injected by the generator as out-of-order / duplicate
	badHow string
}

type opsCfg struct {
	prof      profile
	mode      int // 0 Add only, 1 StreamWriter only, 2 mixed
	badRate   int // 0 none, else one injected key per about badRate good keys
	maxBad    int
	valueSeed uint64
	tag       uint32
	// offsetTarget > 0: resize the first value so that the largest start offset (sum of all value
	// sizes but the last) hits this number exactly: the limits of the 1/2/3 byte offset widths.
	offsetTarget int
}

var offsetTargets = []int{255, 256, 257, 65535, 65536, 65537}

func genOpsCfg(t *rapid.T, label string) opsCfg {
	c := opsCfg{}
	c.prof = rapid.SampledFrom(profiles).Draw(t, label+"Profile")
	c.mode = rapid.IntRange(0, 2).Draw(t, label+"Mode")
	c.badRate = rapid.SampledFrom([]int{0, 0, 3, 10, 40}).Draw(t, label+"BadRate")
	c.maxBad = 24
	c.valueSeed = rapid.Uint64().Draw(t, label+"ValueSeed")
	c.offsetTarget = genOffsetTarget(t, label, true)
	return c
}

// genOffsetTarget: often = 3 of 10 cases aim at a width limit, otherwise 1 of 10.
func genOffsetTarget(t *rapid.T, label string, often bool) int {
	k := rapid.IntRange(0, 9).Draw(t, label+"OffsetTargetKind")
	if !often && (k == 1 || k == 2) {
		k = 9
	}
	switch k {
	case 0, 1, 2:
		return rapid.SampledFrom(offsetTargets).Draw(t, label+"OffsetTarget")
	case 3:
		if thorough() && rapid.IntRange(0, 9).Draw(t, label+"OffsetTarget16M") == 0 {
			return rapid.SampledFrom([]int{1<<24 - 1, 1 << 24}).Draw(t, label+"OffsetTargetBig")
		}
	}
	return 0
}

// maxStartOffset is the start offset of the last accepted value.
func maxStartOffset(m *tableModel) int {
	off := 0
	for i, k := range m.keys {
		if i == len(m.keys)-1 {
			break
		}
		off += len(m.vals[k])
	}
	return off
}

func genCuts(t *rapid.T, label string, n int) []int {
	nc := rapid.IntRange(0, 3).Draw(t, label+"NCuts")
	cuts := make([]int, 0, nc)
	for i := 0; i < nc; i++ {
		cuts = append(cuts, rapid.IntRange(0, n).Draw(t, label+"Cut"))
	}
	sort.Ints(cuts)
	return cuts
}

// genOps turns an ascending key list into write operations and injects keys that are not greater
// than the last accepted key (duplicate of the last, last-1, an earlier accepted key, 0, anything smaller).
func genOps(t *rapid.T, label string, keys []uint32, c opsCfg) []op {
	var ops []op
	nBad := 0
	pickMode := func(l string) bool {
		switch c.mode {
		case 0:
			return false
		case 1:
			return true
		}
		return rapid.Bool().Draw(t, l+"Stream")
	}
	for i, k := range keys {
		l := label + "Op"
		o := op{key: k, stream: pickMode(l)}
		o.val = fill(c.valueSeed, k, c.tag, genSize(t, c.prof, l+"Size"))
		if o.stream {
			o.cuts = genCuts(t, l, len(o.val))
		}
		ops = append(ops, o)
		if c.badRate > 0 && nBad < c.maxBad && rapid.IntRange(0, c.badRate-1).Draw(t, l+"Inject") == 0 {
			nBad++
			b := op{bad: true, stream: pickMode(l + "Bad")}
			switch rapid.IntRange(0, 4).Draw(t, l+"BadKind") {
			case 0:
				b.key, b.badHow = k, "dup-last"
			case 1:
				if k > 0 {
					b.key, b.badHow = k-1, "last-1"
				} else {
					b.key, b.badHow = k, "dup-last"
				}
			case 2:
				b.key, b.badHow = keys[rapid.IntRange(0, i).Draw(t, l+"BadIdx")], "earlier-key"
			case 3:
				b.key, b.badHow = 0, "zero"
			default:
				b.key, b.badHow = rapid.Uint32Range(0, k).Draw(t, l+"BadAny"), "smaller"
			}
			// its own bytes (different tag), so that a wrongly stored value is visible
			b.val = fill(c.valueSeed, b.key, c.tag+1000, genSize(t, profile{name: "mixed"}, l+"BadSize"))
			if b.stream {
				b.cuts = genCuts(t, l+"Bad", len(b.val))
			}
			ops = append(ops, b)
		}
	}
	if c.offsetTarget > 0 && len(keys) >= 2 {
		others := 0 // sizes of the accepted values except the first and the last
		first, last := -1, -1
		for i := range ops {
			if ops[i].bad {
				continue
			}
			if first < 0 {
				first = i
			}
			last = i
		}
		for i := range ops {
			if !ops[i].bad && i != first && i != last {
				others += len(ops[i].val)
			}
		}
		if need := c.offsetTarget - others; need >= 0 {
			ops[first].val = fill(c.valueSeed, ops[first].key, c.tag, need)
			if ops[first].stream {
				ops[first].cuts = genCuts(t, label+"OpResized", need)
			}
		}
	}
	return ops
}

type failer interface {
	Fatalf(format string, args ...any)
}

// tableWriter is what table.Builder and kv.Flusher have in common for this property.
type tableWriter interface {
	Add(key uint32, value []byte) error
}

// applyOp writes one operation. getSW returns the StreamWriter to use (shared or fresh).
// For accepted stream writes it also checks the documented Size / CRC32CheckSum of the writer,
// which the metric data flusher relies on.
func applyOp(t failer, w tableWriter, getSW func() table.StreamWriter, o op, accepted bool) {
	if !o.stream {
		if err := w.Add(o.key, o.val); err != nil {
			t.Fatalf("Add(%d, %d bytes) failed: %v", o.key, len(o.val), err)
		}
		return
	}
	sw := getSW()
	sw.Prepare(o.key)
	prev := 0
	written := 0
	for _, c := range append(append([]int{}, o.cuts...), len(o.val)) {
		part := o.val[prev:c]
		n, err := sw.Write(part)
		if err != nil {
			t.Fatalf("StreamWriter.Write(key %d, %d bytes) failed: %v", o.key, len(part), err)
		}
		if accepted && n != len(part) {
			t.Fatalf("StreamWriter.Write(key %d) wrote %d of %d bytes without error", o.key, n, len(part))
		}
		written += len(part)
		prev = c
	}
	if accepted {
		if int(sw.Size()) != written {
			t.Fatalf("StreamWriter.Size() = %d after writing %d bytes for key %d", sw.Size(), written, o.key)
		}
		if want := crc32.ChecksumIEEE(o.val); sw.CRC32CheckSum() != want {
			t.Fatalf("StreamWriter.CRC32CheckSum() = %08x, IEEE checksum of the written bytes is %08x (key %d)", sw.CRC32CheckSum(), want, o.key)
		}
	}
	if err := sw.Commit(); err != nil {
		t.Fatalf("StreamWriter.Commit(key %d) failed: %v", o.key, err)
	}
}

// ---- reading back -----------------------------------------------------------------------------------------

// absentProbes lists keys that are not in the model: neighbours of present keys, chunk
// boundaries next to present keys, the extremes and a few seeded random ones.
func absentProbes(m *tableModel, seed uint64) []uint32 {
	s := keySet{}
	step := 1
	if len(m.keys) > 400 {
		step = len(m.keys) / 400
	}
	for i := 0; i < len(m.keys); i += step {
		k := uint64(m.keys[i])
		if k > 0 {
			s.add(k - 1)
		}
		s.add(k + 1)
		base := k / chunk * chunk
		s.add(base)
		s.add(base + chunk - 1)
		s.add(base + chunk)
		if base > 0 {
			s.add(base - 1)
		}
		s.add(k ^ chunk) // same low bits, neighbouring container
	}
	if n := len(m.keys); n > 0 {
		s.add(uint64(m.keys[n-1]) + 1)
		if m.keys[0] > 0 {
			s.add(uint64(m.keys[0]) - 1)
		}
	}
	s.add(0)
	s.add(math.MaxUint32)
	for i := 0; i < 16; i++ {
		s.add(mix(seed, uint32(i)) & math.MaxUint32)
	}
	var out []uint32
	for _, k := range s.sorted() {
		if !m.has(k) {
			out = append(out, k)
		}
	}
	return out
}

func short(b []byte) string {
	if len(b) <= 12 {
		return fmt.Sprintf("%x", b)
	}
	return fmt.Sprintf("%x..(%d bytes)", b[:12], len(b))
}

// checkReader compares a reader with the model: Get on every key, absent keys, full iteration.
func checkReader(t failer, what string, r table.Reader, m *tableModel, seed uint64) (absent int) {
	for _, k := range m.keys {
		got, err := r.Get(k)
		if err != nil {
			t.Fatalf("%s: Get(%d) failed: %v (key was added)", what, k, err)
		}
		if !bytes.Equal(got, m.vals[k]) {
			t.Fatalf("%s: Get(%d) = %s, added %s", what, k, short(got), short(m.vals[k]))
		}
	}
	probes := absentProbes(m, seed)
	for _, k := range probes {
		got, err := r.Get(k)
		if !errors.Is(err, table.ErrKeyNotExist) {
			t.Fatalf("%s: Get(%d) of a key never added = %s, err %v; want ErrKeyNotExist", what, k, short(got), err)
		}
		if got != nil {
			t.Fatalf("%s: Get(%d) of an absent key returned bytes %s with ErrKeyNotExist", what, k, short(got))
		}
	}
	it := r.Iterator()
	i := 0
	for it.HasNext() {
		k := it.Key()
		v := it.Value()
		if i >= len(m.keys) {
			t.Fatalf("%s: iterator yields more than the %d entries added (extra key %d)", what, len(m.keys), k)
		}
		if k != m.keys[i] {
			t.Fatalf("%s: iterator entry %d has key %d, want %d (ascending order of the added keys)", what, i, k, m.keys[i])
		}
		if !bytes.Equal(v, m.vals[k]) {
			t.Fatalf("%s: iterator value of key %d = %s, added %s", what, k, short(v), short(m.vals[k]))
		}
		i++
	}
	if i != len(m.keys) {
		t.Fatalf("%s: iterator stopped after %d of %d entries", what, i, len(m.keys))
	}
	return len(probes)
}

func digest(ops []op) string {
	h := fnv.New64a()
	var b [13]byte
	for _, o := range ops {
		binary.LittleEndian.PutUint32(b[0:], o.key)
		binary.LittleEndian.PutUint32(b[4:], uint32(len(o.val)))
		binary.LittleEndian.PutUint32(b[8:], uint32(len(o.cuts)))
		b[12] = 0
		if o.stream {
			b[12] |= 1
		}
		if o.bad {
			b[12] |= 2
		}
		_, _ = h.Write(b[:])
		if len(o.val) > 0 {
			_, _ = h.Write(o.val[:minInt(8, len(o.val))])
		}
	}
	return fmt.Sprintf("%016x", h.Sum64())
}

func modeName(m int) string { return []string{"add", "stream", "mixed"}[m] }

func bucket(n int, limits ...int) string {
	for _, l := range limits {
		if n <= l {
			return fmt.Sprintf("<=%d", l)
		}
	}
	return fmt.Sprintf(">%d", limits[len(limits)-1])
}

const tableFile = "000007.sst"

// buildTable writes ops through table.NewStoreBuilder into dir/tableFile and returns the model.
// checkEvery > 0 compares Count/MinKey/MaxKey with the model every that many operations.
func buildTable(t failer, dir, name string, ops []op, sharedSW bool, checkEvery int) *tableModel {
	path := filepath.Join(dir, name)
	b, err := table.NewStoreBuilder(table.FileNumber(7), path)
	if err != nil {
		t.Fatalf("harness: NewStoreBuilder: %v", err)
	}
	m := newTableModel()
	var shared table.StreamWriter
	getSW := func() table.StreamWriter {
		if !sharedSW {
			return b.StreamWriter()
		}
		if shared == nil {
			shared = b.StreamWriter()
		}
		return shared
	}
	checkMeta := func(when string) {
		if len(m.keys) == 0 {
			return
		}
		if b.Count() != uint64(len(m.keys)) {
			t.Fatalf("%s: builder.Count() = %d, %d keys were accepted", when, b.Count(), len(m.keys))
		}
		if b.MinKey() != m.keys[0] || b.MaxKey() != m.keys[len(m.keys)-1] {
			t.Fatalf("%s: builder min/max key = %d/%d, model %d/%d", when, b.MinKey(), b.MaxKey(), m.keys[0], m.keys[len(m.keys)-1])
		}
	}
	for i, o := range ops {
		accepted := m.add(o.key, o.val)
		if accepted == o.bad {
			t.Fatalf("harness: op %d key %d bad=%v but model accepted=%v", i, o.key, o.bad, accepted)
		}
		applyOp(t, b, getSW, o, accepted)
		if checkEvery > 0 && i%checkEvery == 0 {
			checkMeta(fmt.Sprintf("after op %d (key %d, bad=%v)", i, o.key, o.bad))
		}
	}
	checkMeta("before Close")
	if err := b.Close(); err != nil {
		t.Fatalf("builder.Close() failed: %v", err)
	}
	checkMeta("after Close")
	st, err := os.Stat(path)
	if err != nil {
		t.Fatalf("harness: stat table: %v", err)
	}
	if int64(b.Size()) != st.Size() {
		t.Fatalf("builder.Size() = %d after Close, file has %d bytes", b.Size(), st.Size())
	}
	return m
}

func tableClasses(c opsCfg, ops []op, m *tableModel, cs containerStats) []string {
	nBad, nStream, maxVal, empty := 0, 0, 0, 0
	hows := map[string]bool{}
	for _, o := range ops {
		if o.bad {
			nBad++
			hows[o.badHow] = true
			continue
		}
		if o.stream {
			nStream++
		}
		if len(o.val) > maxVal {
			maxVal = len(o.val)
		}
		if len(o.val) == 0 {
			empty++
		}
	}
	cl := []string{
		"profile=" + c.prof.name, "mode=" + modeName(c.mode),
		"keys" + bucket(len(m.keys), 1, 10, 100, 1000, 4096),
		"containers" + bucket(cs.containers, 1, 2, 4, 16),
		fmt.Sprintf("offsetWidth=%d", offsetWidth(m)),
		"maxValue" + bucket(maxVal, 0, 64, 4096, 65536, 1<<20),
	}
	switch off := maxStartOffset(m); off {
	case 255, 256, 257, 65535, 65536, 65537, 1<<24 - 1, 1 << 24:
		cl = append(cl, fmt.Sprintf("maxStartOffset=%d", off))
	}
	if cs.run > 0 {
		cl = append(cl, "has-run-container")
	}
	if cs.array > 0 {
		cl = append(cl, "has-array-container")
	}
	if cs.bitmap > 0 {
		cl = append(cl, "has-bitmap-container")
	}
	if nBad > 0 {
		cl = append(cl, "has-rejected-keys")
		for h := range hows {
			cl = append(cl, "rejected:"+h)
		}
	}
	if empty > 0 {
		cl = append(cl, "has-empty-value")
	}
	if empty == len(m.keys) {
		cl = append(cl, "all-values-empty")
	}
	if m.keys[0] == 0 {
		cl = append(cl, "key-0")
	}
	if m.keys[len(m.keys)-1] == math.MaxUint32 {
		cl = append(cl, "key-MaxUint32")
	}
	for i := 1; i < len(m.keys); i++ {
		if m.keys[i-1]+1 == m.keys[i] && m.keys[i]%chunk == 0 {
			cl = append(cl, "consecutive-keys-across-chunk-boundary")
			break
		}
	}
	return cl
}

func headKeys(keys []uint32, n int) []uint32 {
	if len(keys) <= n {
		return keys
	}
	return keys[:n]
}

// ---- (1) builder + reader ------------------------------------------------------------------------------------

func TestTableRoundTrip(t *testing.T) {
	rapid.Check(t, func(t *rapid.T) {
		c := genOpsCfg(t, "")
		keys := genKeys(t, "k", c.prof.keyBudget)
		ops := genOps(t, "", keys, c)
		sharedSW := rapid.Bool().Draw(t, "sharedStreamWriter")
		checkEvery := rapid.SampledFrom([]int{0, 1, 7}).Draw(t, "checkEvery")

		dir, err := os.MkdirTemp("", "c15-table-")
		if err != nil {
			t.Fatalf("harness: %v", err)
		}
		defer os.RemoveAll(dir)

		m := buildTable(t, dir, tableFile, ops, sharedSW, checkEvery)

		cache := table.NewCache(dir, time.Hour)
		defer cache.Close()
		r, err := cache.GetReader("", tableFile)
		if err != nil {
			t.Fatalf("opening a table written by the builder failed: %v", err)
		}
		nAbsent := checkReader(t, "table", r, m, c.valueSeed)
		// a second reader pass: reads are repeatable
		checkReader(t, "table (2nd pass)", r, m, c.valueSeed+1)
		cache.ReleaseReaders([]table.Reader{r})

		cs := classify(m.keys)
		nt := cs.containers >= 2 || cs.run > 0
		ev.Case("TestTableRoundTrip", digest(ops), nt, tableClasses(c, ops, m, cs), map[string]any{
			"profile": c.prof.name, "mode": modeName(c.mode), "ops": len(ops), "acceptedKeys": len(m.keys),
			"firstKeys": headKeys(m.keys, 8), "lastKey": m.keys[len(m.keys)-1],
			"containers": cs.containers, "runContainers": cs.run, "absentProbes": nAbsent, "offsetWidth": offsetWidth(m),
		})
	})
}

// ---- (2) merged iterator ----------------------------------------------------------------------------------------

// genSubsets draws n key lists out of one pool with generated overlap.
func genSubsets(t *rapid.T, pool []uint32, n int) [][]uint32 {
	out := make([][]uint32, n)
	for i := range out {
		l := fmt.Sprintf("t%d", i)
		seed := rapid.Uint64().Draw(t, l+"SubsetSeed")
		var ks []uint32
		switch rapid.IntRange(0, 5).Draw(t, l+"SubsetKind") {
		case 0: // everything: full overlap
			ks = append(ks, pool...)
		case 1, 2: // a fraction
			den := uint64(rapid.SampledFrom([]int{2, 3, 8}).Draw(t, l+"Den"))
			for _, k := range pool {
				if mix(seed, k)%den == 0 {
					ks = append(ks, k)
				}
			}
		case 3: // a contiguous slice of the pool (ranges that touch or nest)
			a := rapid.IntRange(0, len(pool)-1).Draw(t, l+"From")
			b := rapid.IntRange(a, len(pool)-1).Draw(t, l+"To")
			ks = append(ks, pool[a:b+1]...)
		case 4: // a single key
			ks = append(ks, pool[rapid.IntRange(0, len(pool)-1).Draw(t, l+"One")])
		default: // first and last only
			ks = append(ks, pool[0])
			if len(pool) > 1 {
				ks = append(ks, pool[len(pool)-1])
			}
		}
		if len(ks) == 0 {
			ks = append(ks, pool[rapid.IntRange(0, len(pool)-1).Draw(t, l+"NonEmpty")])
		}
		out[i] = ks
	}
	return out
}

type kvPair struct {
	key uint32
	val []byte
}

// sortPairs orders by key, then by value bytes: the canonical form of a multiset of entries.
func sortPairs(p []kvPair) {
	sort.Slice(p, func(i, j int) bool {
		if p[i].key != p[j].key {
			return p[i].key < p[j].key
		}
		return bytes.Compare(p[i].val, p[j].val) < 0
	})
}

// checkMerged drains a merged iterator with the protocol of the compaction job
// (HasNext, Key, Value once per entry) and compares with the multiset union.
func checkMerged(t failer, what string, it table.Iterator, want []kvPair) {
	var got []kvPair
	var prev uint32
	for it.HasNext() {
		k := it.Key()
		v := it.Value()
		if len(got) > 0 && k < prev {
			t.Fatalf("%s: merged iterator goes back from key %d to key %d at entry %d", what, prev, k, len(got))
		}
		prev = k
		got = append(got, kvPair{k, append([]byte(nil), v...)})
		if len(got) > len(want) {
			t.Fatalf("%s: merged iterator yields more than the %d entries of its inputs (entry key %d)", what, len(want), k)
		}
	}
	if len(got) != len(want) {
		t.Fatalf("%s: merged iterator yields %d entries, inputs hold %d", what, len(got), len(want))
	}
	sortPairs(got)
	sortPairs(want)
	for i := range want {
		if got[i].key != want[i].key || !bytes.Equal(got[i].val, want[i].val) {
			t.Fatalf("%s: merged output is not a permutation of the inputs: sorted entry %d is (%d, %s), want (%d, %s)",
				what, i, got[i].key, short(got[i].val), want[i].key, short(want[i].val))
		}
	}
}

func TestMergedIterator(t *testing.T) {
	rapid.Check(t, func(t *rapid.T) {
		n := rapid.IntRange(1, 8).Draw(t, "tables")
		pool := genKeys(t, "pool", rapid.SampledFrom([]int{8, 60, 400}).Draw(t, "poolBudget"))
		subsets := genSubsets(t, pool, n)
		valueSeed := rapid.Uint64().Draw(t, "valueSeed")
		prof := profile{name: rapid.SampledFrom([]string{"many-tiny", "mixed"}).Draw(t, "profile")}

		dir, err := os.MkdirTemp("", "c15-merge-")
		if err != nil {
			t.Fatalf("harness: %v", err)
		}
		defer os.RemoveAll(dir)
		cache := table.NewCache(dir, time.Hour)
		defer cache.Close()

		var want []kvPair
		seen := map[uint32]int{}
		its := make([]table.Iterator, n)
		canon := fnv.New64a()
		for i, ks := range subsets {
			c := opsCfg{prof: prof, mode: rapid.IntRange(0, 2).Draw(t, "mode"), valueSeed: valueSeed, tag: uint32(i),
				offsetTarget: genOffsetTarget(t, "", false)}
			ops := genOps(t, fmt.Sprintf("t%d", i), ks, c)
			name := fmt.Sprintf("%06d.sst", i+1)
			m := buildTable(t, dir, name, ops, true, 0)
			for _, k := range m.keys {
				want = append(want, kvPair{k, m.vals[k]})
				seen[k]++
			}
			r, err := cache.GetReader("", name)
			if err != nil {
				t.Fatalf("opening input table %d failed: %v", i, err)
			}
			its[i] = r.Iterator()
			_, _ = canon.Write([]byte(digest(ops)))
		}
		// order in which the inputs are handed over
		rot := rapid.IntRange(0, n-1).Draw(t, "rotate")
		ordered := append(append([]table.Iterator{}, its[rot:]...), its[:rot]...)
		if rapid.Bool().Draw(t, "reverse") {
			for a, b := 0, len(ordered)-1; a < b; a, b = a+1, b-1 {
				ordered[a], ordered[b] = ordered[b], ordered[a]
			}
		}
		total := len(want)
		checkMerged(t, fmt.Sprintf("%d tables", n), table.NewMergedIterator(ordered), want)

		shared, maxDup := 0, 0
		for _, c := range seen {
			if c >= 2 {
				shared++
			}
			if c > maxDup {
				maxDup = c
			}
		}
		nt := n >= 2 && shared > 0
		classes := []string{fmt.Sprintf("tables=%d", n), "sharedKeys" + bucket(shared, 0, 1, 10, 100),
			fmt.Sprintf("maxCopiesOfOneKey=%d", maxDup), "entries" + bucket(total, 1, 10, 100, 1000)}
		ev.Case("TestMergedIterator", fmt.Sprintf("%016x/%d/%d", canon.Sum64(), n, rot), nt, classes, map[string]any{
			"tables": n, "poolKeys": len(pool), "entries": total, "keysInSeveralTables": shared, "maxCopies": maxDup,
			"firstPoolKeys": headKeys(pool, 8),
		})
	})
}

// ---- (3) several files of one family version ------------------------------------------------------------------

const mergerName = kv.MergerType("c15_unused_merger")

var registerOnce sync.Once

type noopMerger struct{}

func (noopMerger) Init(map[string]interface{})  {}
func (noopMerger) Merge(uint32, [][]byte) error { return errors.New("c15: merger must never run") }

func registerMerger() {
	registerOnce.Do(func() {
		kv.RegisterMerger(mergerName, func(kv.Flusher) (kv.Merger, error) { return noopMerger{}, nil })
	})
}

type flusherWriter struct{ f kv.Flusher }

func (w flusherWriter) Add(k uint32, v []byte) error { return w.f.Add(k, v) }

// sortValues orders a multiset of values.
func sortValues(v [][]byte) {
	sort.Slice(v, func(i, j int) bool { return bytes.Compare(v[i], v[j]) < 0 })
}

func sameValues(a, b [][]byte) bool {
	if len(a) != len(b) {
		return false
	}
	sortValues(a)
	sortValues(b)
	for i := range a {
		if !bytes.Equal(a[i], b[i]) {
			return false
		}
	}
	return true
}

func shortList(v [][]byte) string {
	s := "["
	for i, b := range v {
		if i > 0 {
			s += " "
		}
		s += short(b)
	}
	return s + "]"
}

// checkFamily compares what a snapshot of the family returns with the per-file models.
func checkFamily(t failer, what string, family kv.Family, files []*tableModel, probeSeed uint64) (multi, absentInRange int) {
	snapshot := family.GetSnapshot()
	defer snapshot.Close()

	// file metadata of the version: one file per flush, min/max as written
	metas := snapshot.GetCurrent().GetAllFiles()
	sort.Slice(metas, func(i, j int) bool { return metas[i].GetFileNumber() < metas[j].GetFileNumber() })
	if len(metas) != len(files) {
		t.Fatalf("%s: version lists %d files, %d flushes were committed", what, len(metas), len(files))
	}
	for i, fm := range metas { // file numbers are handed out in flush order
		m := files[i]
		if fm.GetMinKey() != m.keys[0] || fm.GetMaxKey() != m.keys[len(m.keys)-1] {
			t.Fatalf("%s: file %d of flush %d has min/max %d/%d, written keys span %d/%d",
				what, fm.GetFileNumber(), i, fm.GetMinKey(), fm.GetMaxKey(), m.keys[0], m.keys[len(m.keys)-1])
		}
	}

	union := newTableModel() // only used for the list of absent probes
	all := keySet{}
	for _, m := range files {
		for _, k := range m.keys {
			all.add(uint64(k))
		}
	}
	for _, k := range all.sorted() {
		union.add(k, nil)
	}
	probes := append(append([]uint32{}, union.keys...), absentProbes(union, probeSeed)...)

	for _, k := range probes {
		var want [][]byte
		inRange := false
		for _, m := range files {
			if v, ok := m.vals[k]; ok {
				want = append(want, v)
			}
			if k >= m.keys[0] && k <= m.keys[len(m.keys)-1] {
				inRange = true
			}
		}
		if len(want) >= 2 {
			multi++
		}
		if len(want) == 0 && inRange {
			absentInRange++
		}
		var loaded [][]byte
		if err := snapshot.Load(k, func(value []byte) error {
			loaded = append(loaded, append([]byte(nil), value...))
			return nil
		}); err != nil {
			t.Fatalf("%s: snapshot.Load(%d) failed: %v", what, k, err)
		}
		if !sameValues(loaded, want) {
			t.Fatalf("%s: snapshot.Load(%d) yields %d value(s) %s, the key lives in %d file(s) with %s",
				what, k, len(loaded), shortList(loaded), len(want), shortList(want))
		}
		readers, err := snapshot.FindReaders(k)
		if err != nil {
			t.Fatalf("%s: snapshot.FindReaders(%d) failed: %v", what, k, err)
		}
		var viaGet [][]byte
		for _, r := range readers {
			v, err := r.Get(k)
			if errors.Is(err, table.ErrKeyNotExist) {
				if v != nil {
					t.Fatalf("%s: reader %s Get(%d) returned bytes with ErrKeyNotExist", what, r.FileName(), k)
				}
				continue
			}
			if err != nil {
				t.Fatalf("%s: reader %s Get(%d) failed: %v", what, r.FileName(), k, err)
			}
			viaGet = append(viaGet, append([]byte(nil), v...))
		}
		if !sameValues(viaGet, want) {
			t.Fatalf("%s: FindReaders(%d)+Get yields %d value(s) %s, the key lives in %d file(s) with %s",
				what, k, len(viaGet), shortList(viaGet), len(want), shortList(want))
		}
	}

	// the input of a compaction: merged iteration over every file of the version
	var its []table.Iterator
	var wantAll []kvPair
	for i, fm := range metas {
		r, err := snapshot.GetReader(fm.GetFileNumber())
		if err != nil {
			t.Fatalf("%s: snapshot.GetReader(file %d) failed: %v", what, fm.GetFileNumber(), err)
		}
		// each file on its own reads back exactly what its flush accepted
		checkReader(t, fmt.Sprintf("%s: file %d", what, fm.GetFileNumber()), r, files[i], probeSeed)
		its = append(its, r.Iterator())
		for _, k := range files[i].keys {
			wantAll = append(wantAll, kvPair{k, files[i].vals[k]})
		}
	}
	checkMerged(t, what+": all files of the version", table.NewMergedIterator(its), wantAll)
	return multi, absentInRange
}

func TestStoreMultiFile(t *testing.T) {
	registerMerger()
	rapid.Check(t, func(t *rapid.T) {
		// 4 of 10 cases are histories with level-0 compactions (files above level 0, see levels_test.go)
		if rapid.IntRange(0, 9).Draw(t, "history") >= 6 {
			levelsCase(t, "TestStoreMultiFile")
			return
		}
		nFiles := rapid.IntRange(1, 8).Draw(t, "files")
		pool := genKeys(t, "pool", rapid.SampledFrom([]int{8, 60, 300}).Draw(t, "poolBudget"))
		subsets := genSubsets(t, pool, nFiles)
		valueSeed := rapid.Uint64().Draw(t, "valueSeed")
		prof := profile{name: rapid.SampledFrom([]string{"many-tiny", "mixed", "mixed"}).Draw(t, "profile")}
		reopen := rapid.IntRange(0, 2).Draw(t, "reopen") == 0

		dir, err := os.MkdirTemp("", "c15-store-")
		if err != nil {
			t.Fatalf("harness: %v", err)
		}
		defer os.RemoveAll(dir)
		storeName := filepath.Join(dir, "store") // the store manager uses the name as the path
		famOpt := kv.FamilyOption{Merger: string(mergerName), CompactThreshold: 1 << 20}
		store, err := kv.GetStoreManager().CreateStore(storeName, kv.DefaultStoreOption())
		if err != nil {
			t.Fatalf("harness: CreateStore: %v", err)
		}
		defer func() {
			if err := kv.GetStoreManager().CloseStore(storeName); err != nil {
				t.Fatalf("CloseStore failed: %v", err)
			}
		}()
		family, err := store.CreateFamily("f", famOpt)
		if err != nil {
			t.Fatalf("harness: CreateFamily: %v", err)
		}

		var files []*tableModel
		canon := fnv.New64a()
		rejected := 0
		for i, ks := range subsets {
			c := opsCfg{prof: prof, mode: rapid.IntRange(0, 2).Draw(t, "mode"), valueSeed: valueSeed, tag: uint32(i),
				badRate: rapid.SampledFrom([]int{0, 0, 5}).Draw(t, "badRate"), maxBad: 6, offsetTarget: genOffsetTarget(t, "", false)}
			ops := genOps(t, fmt.Sprintf("f%d", i), ks, c)
			// Soundness: storeFlusher.Commit abandons a builder whose Size() is 0, i.e. a flush whose
			// values are all empty never becomes a file. No production flusher writes empty values
			// (every index / metric block has a header), so each generated flush carries >= 1 byte.
			total := 0
			for _, o := range ops {
				if !o.bad {
					total += len(o.val)
				}
			}
			if total == 0 {
				ops[0].val = fill(valueSeed, ops[0].key, uint32(i), 1+int(mix(valueSeed, uint32(i))%5))
				if ops[0].stream {
					ops[0].cuts = nil
				}
			}
			m := newTableModel()
			flusher := family.NewFlusher()
			released := false
			release := func() { // also on a failing case: CloseStore waits for every flusher
				if !released {
					released = true
					flusher.Release()
				}
			}
			defer release()
			var sw table.StreamWriter
			getSW := func() table.StreamWriter {
				if sw == nil {
					w, err := flusher.StreamWriter()
					if err != nil {
						t.Fatalf("flusher.StreamWriter() failed: %v", err)
					}
					sw = w
				}
				return sw
			}
			for j, o := range ops {
				accepted := m.add(o.key, o.val)
				if accepted == o.bad {
					t.Fatalf("harness: flush %d op %d key %d bad=%v accepted=%v", i, j, o.key, o.bad, accepted)
				}
				if o.bad {
					rejected++
				}
				applyOp(t, flusherWriter{flusher}, getSW, o, accepted)
			}
			if err := flusher.Commit(); err != nil {
				t.Fatalf("flusher.Commit() of flush %d failed: %v", i, err)
			}
			release()
			files = append(files, m)
			_, _ = canon.Write([]byte(digest(ops)))

			// a snapshot taken between flushes sees exactly the files committed so far
			if i < len(subsets)-1 && rapid.IntRange(0, 3).Draw(t, "checkBetween") == 0 {
				checkFamily(t, fmt.Sprintf("after flush %d of %d", i+1, nFiles), family, files, valueSeed)
			}
		}
		multi, absentInRange := checkFamily(t, fmt.Sprintf("after %d flushes", nFiles), family, files, valueSeed)

		if reopen {
			if err := kv.GetStoreManager().CloseStore(storeName); err != nil {
				t.Fatalf("CloseStore failed: %v", err)
			}
			store, err = kv.GetStoreManager().CreateStore(storeName, kv.DefaultStoreOption())
			if err != nil {
				t.Fatalf("reopening the store failed: %v", err)
			}
			family, err = store.CreateFamily("f", famOpt)
			if err != nil {
				t.Fatalf("reopening the family failed: %v", err)
			}
			checkFamily(t, "after reopen", family, files, valueSeed)
		}

		nt := nFiles >= 2 && multi > 0
		classes := []string{"history=level0-only", fmt.Sprintf("files=%d", nFiles), "keysInSeveralFiles" + bucket(multi, 0, 1, 10, 100),
			"absentKeysInsideAFileRange" + bucket(absentInRange, 0, 1, 10, 100), fmt.Sprintf("reopen=%v", reopen)}
		if rejected > 0 {
			classes = append(classes, "has-rejected-keys")
		}
		ev.Case("TestStoreMultiFile", fmt.Sprintf("%016x/%d/%v", canon.Sum64(), nFiles, reopen), nt, classes, map[string]any{
			"files": nFiles, "poolKeys": len(pool), "keysInSeveralFiles": multi, "absentInRange": absentInRange,
			"reopen": reopen, "rejected": rejected, "firstPoolKeys": headKeys(pool, 8),
		})
	})
}

var _ = version.Table // keep the import explicit: file names of a family are version.Table(number)
