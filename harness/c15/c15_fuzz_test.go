package c15

import (
	"bytes"
	"encoding/binary"
	"fmt"
	"math"
	"os"
	"path/filepath"
	"runtime/debug"
	"testing"
	"time"

	"pgregory.net/rapid"

	"github.com/lindb/lindb/kv/table"
	"github.com/lindb/lindb/verifharness/sim/ev"
)

// C15 says nothing about corrupt or foreign files, so everything below that reads a damaged
// file is informational: outcomes are counted / logged, never failed. What does fail is a *valid*
// table (built by the production builder from the fuzz input) that does not read back exactly.

// opsFromRecipe decodes fuzz bytes into builder operations (4 bytes per operation: key delta,
// flags, value size). Flags: 1,2 = scale the delta, 4 = scale the size, 8 = StreamWriter,
// 16 = follow with a duplicate of the key, 32 = follow with key-1.
func opsFromRecipe(recipe []byte) []op {
	var ops []op
	var key uint64
	for i := 0; i+4 <= len(recipe) && len(ops) < 400; i += 4 {
		d := uint64(recipe[i]) | uint64(recipe[i+1])<<8
		fl := recipe[i+2]
		if fl&1 != 0 {
			d <<= 8
		}
		if fl&2 != 0 {
			d <<= 16
		}
		size := int(recipe[i+3])
		if fl&4 != 0 {
			size *= 67
		}
		if len(ops) == 0 {
			key = d
		} else {
			key += d + 1
		}
		if key > math.MaxUint32 {
			break
		}
		k := uint32(key)
		o := op{key: k, val: fill(0xC15, k, 0, size), stream: fl&8 != 0}
		if o.stream && size > 1 {
			o.cuts = []int{size / 2}
		}
		ops = append(ops, o)
		if fl&16 != 0 {
			ops = append(ops, op{key: k, val: fill(0xC15, k, 1000, 5), bad: true, stream: fl&8 == 0, badHow: "dup-last"})
		}
		if fl&32 != 0 && k > 0 {
			ops = append(ops, op{key: k - 1, val: fill(0xC15, k-1, 1000, 3), bad: true, stream: fl&8 != 0, badHow: "last-1"})
		}
	}
	return ops
}

// mutate cuts mut[0]%40 bytes off the end and then applies (posLo, posHi, xor) triples, the
// position counted backwards from the end (footer and index blocks live at the end of a table).
func mutate(valid, mut []byte) []byte {
	data := append([]byte(nil), valid...)
	if len(mut) == 0 {
		return data
	}
	cut := int(mut[0]) % 40
	if cut > len(data) {
		cut = len(data)
	}
	data = data[:len(data)-cut]
	for i := 1; i+3 <= len(mut) && len(data) > 0; i += 3 {
		pos := (int(mut[i]) | int(mut[i+1])<<8) % len(data)
		x := mut[i+2]
		if x == 0 {
			x = 0xFF
		}
		data[len(data)-1-pos] ^= x
	}
	return data
}

// readInformational opens a possibly damaged file and classifies what the reader does.
func readInformational(dir, name string, orig *tableModel) (outcome string) {
	defer func() {
		if r := recover(); r != nil {
			outcome = fmt.Sprintf("panic: %v", r)
			if os.Getenv("C15_FUZZ_STRICT") == "1" {
				outcome += "\n" + string(debug.Stack())
			}
		}
	}()
	cache := table.NewCache(dir, time.Hour)
	defer cache.Close()
	r, err := cache.GetReader("", name)
	if err != nil {
		return "rejected"
	}
	it := r.Iterator()
	n := 0
	same := orig != nil
	consistent := true
	var prev uint32
	for it.HasNext() {
		k := it.Key()
		v := it.Value()
		if n > 0 && k <= prev {
			consistent = false
		}
		prev = k
		g, err := r.Get(k)
		if err != nil || !bytes.Equal(g, v) {
			consistent = false
		}
		if same && (n >= len(orig.keys) || orig.keys[n] != k || !bytes.Equal(orig.vals[k], v)) {
			same = false
		}
		n++
		if n > 1<<22 {
			return "read-unbounded"
		}
	}
	if same && n == len(orig.keys) {
		return "read-identical"
	}
	if consistent {
		return "read-consistent-but-different"
	}
	return "read-inconsistent"
}

func FuzzTableReader(f *testing.F) {
	f.Add([]byte{1, 0, 0, 3, 2, 0, 0, 0, 0xff, 0xff, 1, 9}, []byte{})
	f.Add([]byte{0, 0, 0, 0, 0xff, 0xff, 3, 200, 0, 0, 8, 10}, []byte{0, 0, 0, 1})
	f.Add([]byte{0xfe, 0xff, 0, 1, 0, 0, 16, 1, 0, 0, 32 | 8, 1, 1, 0, 4, 255}, []byte{3})
	f.Add([]byte{}, []byte("not a table at all, but long enough for a footer ........"))
	f.Add([]byte{5, 0, 0, 1}, []byte{0, 16, 0, 1, 12, 0, 1})
	// a dense run over a chunk boundary
	var run []byte
	run = append(run, 0xf0, 0xff, 0, 2)
	for i := 0; i < 40; i++ {
		run = append(run, 0, 0, 0, byte(i))
	}
	f.Add(run, []byte{0, 20, 0, 0x80})
	f.Fuzz(func(t *testing.T, recipe, mut []byte) {
		dir := t.TempDir()
		ops := opsFromRecipe(recipe)
		var valid []byte
		var m *tableModel
		if len(ops) > 0 {
			m = buildTable(t, dir, tableFile, ops, true, 0)
			cache := table.NewCache(dir, time.Hour)
			r, err := cache.GetReader("", tableFile)
			if err != nil {
				t.Fatalf("opening a table written by the builder failed: %v", err)
			}
			checkReader(t, "valid table", r, m, 1)
			_ = cache.Close()
			valid, err = os.ReadFile(filepath.Join(dir, tableFile))
			if err != nil {
				t.Fatalf("harness: %v", err)
			}
		}
		if len(mut) == 0 {
			return
		}
		var damaged []byte
		if valid != nil {
			damaged = mutate(valid, mut)
		} else {
			damaged = mut // arbitrary bytes as a table file
		}
		if err := os.WriteFile(filepath.Join(dir, "000099.sst"), damaged, 0o600); err != nil {
			t.Fatalf("harness: %v", err)
		}
		// informational only; C15_FUZZ_STRICT=1 (manual exploration) turns a reader panic into a failure
		outcome := readInformational(dir, "000099.sst", m)
		t.Logf("damaged file (%d bytes): %s", len(damaged), outcome)
		if os.Getenv("C15_FUZZ_STRICT") == "1" && len(outcome) > 6 && outcome[:6] == "panic:" {
			t.Fatalf("reader panicked on a damaged file: %s", outcome)
		}
	})
}

// TestCorruptReaderInfo damages one region of a valid table per case and records what the reader
// does. It never fails on the damaged file; it fails only if the undamaged table misreads.
func TestCorruptReaderInfo(t *testing.T) {
	rapid.Check(t, func(t *rapid.T) {
		c := opsCfg{prof: profile{name: "mixed"}, mode: rapid.IntRange(0, 2).Draw(t, "mode"), valueSeed: rapid.Uint64().Draw(t, "valueSeed")}
		keys := genKeys(t, "k", 60)
		ops := genOps(t, "", keys, c)
		dir, err := os.MkdirTemp("", "c15-corrupt-")
		if err != nil {
			t.Fatalf("harness: %v", err)
		}
		defer os.RemoveAll(dir)
		m := buildTable(t, dir, tableFile, ops, true, 0)
		valid, err := os.ReadFile(filepath.Join(dir, tableFile))
		if err != nil || len(valid) < 17 {
			t.Fatalf("harness: read table: %v (%d bytes)", err, len(valid))
		}
		if got := readInformational(dir, tableFile, m); got != "read-identical" {
			t.Fatalf("undamaged table: %s", got)
		}
		footer := len(valid) - 17
		posOffsets := int(binary.LittleEndian.Uint32(valid[footer:]))
		posKeys := int(binary.LittleEndian.Uint32(valid[footer+4:]))
		data := append([]byte(nil), valid...)
		region := rapid.SampledFrom([]string{"footer", "keys", "offsets", "values", "truncate", "append"}).Draw(t, "region")
		flip := func(lo, hi int) bool {
			if hi <= lo {
				return false
			}
			n := rapid.IntRange(1, 3).Draw(t, "flips")
			for i := 0; i < n; i++ {
				p := rapid.IntRange(lo, hi-1).Draw(t, "pos")
				data[p] ^= byte(rapid.IntRange(1, 255).Draw(t, "xor"))
			}
			return true
		}
		ok := true
		switch region {
		case "footer":
			ok = flip(footer, len(valid))
		case "keys":
			ok = flip(posKeys, footer)
		case "offsets":
			ok = flip(posOffsets, posKeys)
		case "values":
			ok = flip(0, posOffsets)
		case "truncate":
			data = data[:len(data)-rapid.IntRange(1, minInt(len(data), 64)).Draw(t, "cut")]
		default:
			data = append(data, fill(c.valueSeed, 0, 7, rapid.IntRange(1, 40).Draw(t, "extra"))...)
		}
		if !ok {
			region = "values(empty)"
		}
		if err := os.WriteFile(filepath.Join(dir, "000099.sst"), data, 0o600); err != nil {
			t.Fatalf("harness: %v", err)
		}
		outcome := readInformational(dir, "000099.sst", m)
		if len(outcome) > 6 && outcome[:6] == "panic:" {
			ev.Note("corrupt-reader-panic-example", fmt.Sprintf("region=%s: %s", region, outcome))
			outcome = "panic"
		}
		ev.Case("TestCorruptReaderInfo", digest(ops)+"/"+region, false, []string{"region=" + region, "outcome=" + outcome, region + "->" + outcome}, nil)
	})
}
