package c15

// TestOwnerHistories: the builder histories of TestBuilderHistories, produced by the real owners of the
// builders: kv flushers and the level-0 compaction job of 1-2 families of one store (union merger,
// small MaxFileSize: a compaction has several outputs).
//
//   - flushes that fail: an injected fault (table.VerifSetFSHookWithFaults) on a write of
//     builder.Close or on closing the file inside flusher.Commit (the flusher leaves the builder alone),
//     or on a value write inside flusher.Add (the caller releases the flusher without Commit);
//   - compactions that fail: a fault on the n-th table write / the k-th table close of the job: a
//     value write (merger error -> cleanupCompaction: Abandon) or a write/close inside
//     finishCompactionOutputFile (failed Close -> cleanupCompaction: Abandon of the same builder);
//   - builders that are open at the same time and written in an interleaved order: a flusher stays open
//     over later steps (flushes of the other family, compactions), and while a compaction job writes its
//     output tables the open flushers add keys INSIDE its table writes (harness-owned interleaving
//     point: the table write seam of the compaction outputs; the job holds no lock there).
//
// Oracle (checkLevels, after generated steps and at the end, for every family): the files of the
// version hold every (key, value atom) of the COMMITTED flushes exactly once - nothing of a failed
// flush, nothing lost by a failed compaction -, every file scans in ascending order with the recorded
// min/max, Load / FindReaders+Get return exactly the values of the files holding the key, absent keys
// are absent. A flush / compaction may only fail when a fault was injected into it.

import (
	"fmt"
	"hash/fnv"
	"os"
	"path/filepath"
	"strings"
	"syscall"
	"testing"

	"pgregory.net/rapid"

	"github.com/lindb/lindb/kv"
	"github.com/lindb/lindb/kv/table"
	"github.com/lindb/lindb/verifharness/sim/ev"
	"github.com/lindb/lindb/verifharness/sim/kvsim"
)

// ownerCtx is the production call the harness is inside of (nil between calls).
type ownerCtx struct {
	kind           string // "flush" or "compaction"
	writeCountdown int    // -1 none; the table write that finds 0 fails
	closeCountdown int    // -1 none; the table close that finds 0 fails
	fired          bool
	firedOn        string
	tablesCreated  int
	nestedAdds     int
}

type openFlush struct {
	fam      int
	id       int
	flusher  kv.Flusher
	keys     []uint32
	next     int
	nAtoms   int
	stream   int // 0 Add, 1 StreamWriter, 2 per key
	fault    int // 0 none, 1 write inside Close, 2 close of the file, 3 a value write
	faultAt  int // fault 1: which write of Close; fault 3: which key
	released bool
	failed   bool // a value write failed: the flusher is released without Commit
	// labels
	acrossCompaction bool
	nestedAdds       int
}

func ownerHistoryCase(t *rapid.T) {
	kvsim.Register()
	var trace []string
	ft := traceFailer{t: t, trace: &trace}

	pool := genKeys(t, "oPool", rapid.SampledFrom([]int{8, 24, 60}).Draw(t, "oPoolBudget"))
	if len(pool) > maxPoolKeys {
		step := (len(pool) + maxPoolKeys - 1) / maxPoolKeys
		var thin []uint32
		for i := 0; i < len(pool); i += step {
			thin = append(thin, pool[i])
		}
		pool = thin
	}
	nFam := rapid.IntRange(1, 2).Draw(t, "families")
	famOpt := kv.FamilyOption{
		Merger:           kvsim.MergerName,
		CompactThreshold: rapid.SampledFrom([]int{0, 2}).Draw(t, "compactThreshold"),
		MaxFileSize:      rapid.SampledFrom([]uint32{0, 16, 16, 40, 128}).Draw(t, "maxFileSize"),
	}
	probeSeed := rapid.Uint64().Draw(t, "probeSeed")
	storeOpt := kv.DefaultStoreOption()

	dir, err := os.MkdirTemp("", "c15-owners-")
	if err != nil {
		t.Fatalf("harness: %v", err)
	}
	defer os.RemoveAll(dir)
	storeName := filepath.Join(dir, "store")
	store, err := kv.GetStoreManager().CreateStore(storeName, storeOpt)
	if err != nil {
		t.Fatalf("harness: CreateStore: %v", err)
	}
	defer func() { _ = kv.GetStoreManager().CloseStore(storeName) }()
	families := make([]kv.Family, nFam)
	models := make([]kvsim.Content, nFam)
	for i := range families {
		families[i], err = store.CreateFamily(fmt.Sprintf("f%d", i), famOpt)
		if err != nil {
			t.Fatalf("harness: CreateFamily: %v", err)
		}
		models[i] = kvsim.Content{}
	}

	var cur *ownerCtx
	var open []*openFlush
	defer func() { // CloseStore waits for every flusher
		for _, of := range open {
			if !of.released {
				of.released = true
				of.flusher.Release()
			}
		}
	}()
	inNested := false
	var addKey func(of *openFlush) bool

	table.VerifSetFSHookWithFaults(func(op, path string, before bool) {
		c := cur
		if c == nil || !before {
			return
		}
		if op == "tableCreate" {
			c.tablesCreated++
		}
		// a compaction job is writing one of its output tables: open flushers may add keys here
		if op == "tableWrite" && c.kind == "compaction" && !inNested && len(open) > 0 {
			if rapid.IntRange(0, 2).Draw(t, "addInsideCompactionWrite") != 0 {
				return
			}
			var ready []*openFlush
			for _, of := range open {
				if !of.failed && of.next < len(of.keys) && !(of.fault == 3 && of.next == of.faultAt) {
					ready = append(ready, of)
				}
			}
			if len(ready) == 0 {
				return
			}
			of := ready[rapid.IntRange(0, len(ready)-1).Draw(t, "nestedFlusher")]
			inNested = true
			cur = &ownerCtx{kind: "flush", writeCountdown: -1, closeCountdown: -1}
			addKey(of)
			cur = c
			inNested = false
			of.nestedAdds++
			c.nestedAdds++
		}
	}, func(op, path string) error {
		c := cur
		if c == nil {
			return nil
		}
		switch op {
		case "tableWrite":
			if c.writeCountdown == 0 {
				c.writeCountdown, c.fired, c.firedOn = -1, true, "write"
				return &os.PathError{Op: "write", Path: path, Err: syscall.ENOSPC}
			}
			if c.writeCountdown > 0 {
				c.writeCountdown--
			}
		case "tableClose":
			if c.closeCountdown == 0 {
				c.closeCountdown, c.fired, c.firedOn = -1, true, "close"
				return &os.PathError{Op: "close", Path: path, Err: syscall.EIO}
			}
			if c.closeCountdown > 0 {
				c.closeCountdown--
			}
		}
		return nil
	})
	defer table.VerifSetFSHook(nil)

	flushID := 0
	canon := fnv.New64a()
	stats := map[string]int{}
	cls := map[string]bool{}
	failedEnds := 0
	goodAfterFailure := 0 // committed flushes / completed compactions after a failed end
	checksAfterFailure := 0

	// addKey writes the next key of an open flusher (under the context that is set); false = it failed
	addKey = func(of *openFlush) bool {
		k := of.keys[of.next]
		set := map[uint32]bool{}
		for j := 0; j < of.nAtoms; j++ {
			set[uint32(of.id*atomsPerFlush+j)] = true
		}
		val := kvsim.Encode(set)
		var err error
		if of.stream == 1 || (of.stream == 2 && mix(probeSeed, k)&1 == 1) {
			var sw table.StreamWriter
			sw, err = of.flusher.StreamWriter()
			if err == nil {
				sw.Prepare(k)
				half := len(val) / 2
				if _, err = sw.Write(val[:half]); err == nil {
					if _, err = sw.Write(val[half:]); err == nil {
						err = sw.Commit()
					}
				}
			}
		} else {
			err = of.flusher.Add(k, val)
		}
		of.next++
		if err != nil {
			of.failed = true
			if cur == nil || !cur.fired {
				ft.Fatalf("flush #%d of family %d: writing key %d failed without any fault: %v", of.id, of.fam, k, err)
			}
			return false
		}
		return true
	}
	// advance adds up to n keys at the top level; the value-write fault of the flusher is armed for its key
	advance := func(of *openFlush, n int) {
		for ; n > 0 && !of.failed && of.next < len(of.keys); n-- {
			c := &ownerCtx{kind: "flush", writeCountdown: -1, closeCountdown: -1}
			if of.fault == 3 && of.next == of.faultAt {
				c.writeCountdown = 0
			}
			cur = c
			ok := addKey(of)
			cur = nil
			if !ok {
				trace = append(trace, fmt.Sprintf("flush#%d: value write of key %d fails", of.id, of.keys[of.next-1]))
			} else if c.fired {
				ft.Fatalf("flush #%d of family %d: writing key %d reported success although the write of its value failed", of.id, of.fam, of.keys[of.next-1])
			}
		}
	}
	remove := func(of *openFlush) {
		for i, q := range open {
			if q == of {
				open = append(open[:i], open[i+1:]...)
			}
		}
	}
	finish := func(of *openFlush) {
		advance(of, len(of.keys))
		defer func() {
			of.released = true
			of.flusher.Release()
			remove(of)
		}()
		if of.failed { // the caller of a flusher returns the error of Add, the flusher is released
			failedEnds++
			cls["flush-failed:value-write"] = true
			return
		}
		c := &ownerCtx{kind: "flush", writeCountdown: -1, closeCountdown: -1}
		switch of.fault {
		case 1:
			c.writeCountdown = of.faultAt
		case 2:
			c.closeCountdown = 0
		}
		cur = c
		err := of.flusher.Commit()
		cur = nil
		trace = append(trace, fmt.Sprintf("flush#%d fam%d commit (%d keys [%d..%d], fault %d/%d fired=%v, %d keys added inside compaction writes) -> %v",
			of.id, of.fam, len(of.keys), of.keys[0], of.keys[len(of.keys)-1], of.fault, of.faultAt, c.fired, of.nestedAdds, err))
		if err != nil {
			if !c.fired {
				ft.Fatalf("flush #%d of family %d: Commit failed without any fault: %v", of.id, of.fam, err)
			}
			failedEnds++
			cls["flush-failed:"+map[int]string{1: "write-inside-Close", 2: "close-of-the-file"}[of.fault]] = true
			return
		}
		// committed: from now on the version has to hold its values
		for _, k := range of.keys {
			for j := 0; j < of.nAtoms; j++ {
				models[of.fam].AddAtom(k, uint32(of.id*atomsPerFlush+j))
			}
		}
		stats["committed"]++
		if failedEnds > 0 {
			goodAfterFailure++
		}
		if of.acrossCompaction {
			cls["flusher-open-across-a-compaction"] = true
		}
		if of.nestedAdds > 0 {
			cls["committed-flush-with-keys-added-inside-compaction-writes"] = true
		}
	}
	compact := func(fam int) {
		c := &ownerCtx{kind: "compaction", writeCountdown: -1, closeCountdown: -1}
		switch rapid.IntRange(0, 5).Draw(t, "compactionFault") {
		case 0:
			c.writeCountdown = rapid.IntRange(0, 3*len(pool)).Draw(t, "compactionFaultWrite")
			if rapid.Bool().Draw(t, "earlyFault") {
				c.writeCountdown %= 8
			}
		case 1:
			c.closeCountdown = rapid.IntRange(0, 3).Draw(t, "compactionFaultClose")
		}
		armed := c.writeCountdown >= 0 || c.closeCountdown >= 0
		for _, of := range open {
			of.acrossCompaction = true
		}
		cur = c
		ran, err := kv.VerifCompactSync(families[fam], true)
		cur = nil
		trace = append(trace, fmt.Sprintf("compact fam%d (armed=%v fired=%v on %s, %d tables created, %d flusher keys added inside its writes, %d flusher(s) open) ran=%v -> %v",
			fam, armed, c.fired, c.firedOn, c.tablesCreated, c.nestedAdds, len(open), ran, err))
		fmt.Fprintf(canon, "C%d/%v/%v|", fam, c.fired, err != nil)
		if err != nil && !c.fired {
			ft.Fatalf("level-0 compaction of family %d failed without any fault: %v", fam, err)
		}
		if !ran {
			cls["compaction-guard-said-no"] = true
			return
		}
		switch {
		case err != nil && strings.Contains(err.Error(), "close table builder"):
			cls["compaction-failed:output-Close-failed-then-abandoned"] = true
			failedEnds++
		case err != nil:
			cls["compaction-failed:value-write-then-abandoned"] = true
			failedEnds++
		case c.fired:
			cls["compaction-fault-swallowed(no error)"] = true
		default:
			stats["compactions"]++
			if failedEnds > 0 {
				goodAfterFailure++
			}
			if c.tablesCreated >= 2 {
				cls["compaction-with->=2-outputs"] = true
			}
			if c.nestedAdds > 0 {
				cls["completed-compaction-with-flusher-keys-added-inside-its-writes"] = true
			}
			if c.tablesCreated >= 2 && len(open) > 0 {
				cls["compaction-with->=2-outputs-next-to-an-open-flusher"] = true
			}
		}
	}
	check := func(fam int, when string) {
		st := &levelStats{}
		checkLevels(ft, fmt.Sprintf("family %d %s", fam, when), families[fam], storeOpt.Levels, models[fam], probeSeed+uint64(fam), st)
		stats["checks"]++
		if failedEnds > 0 {
			checksAfterFailure++
		}
	}
	level0Files := func(fam int) int {
		snap := families[fam].GetSnapshot()
		defer snap.Close()
		return snap.GetCurrent().NumberOfFilesInLevel(0)
	}
	openOf := func(fam int) *openFlush {
		for _, of := range open {
			if of.fam == fam {
				return of
			}
		}
		return nil
	}

	nSteps := rapid.IntRange(8, 32).Draw(t, "steps")
	for i := 0; i < nSteps; i++ {
		fam := 0
		if nFam > 1 {
			fam = rapid.IntRange(0, nFam-1).Draw(t, "family")
		}
		a := rapid.IntRange(0, 13).Draw(t, "step")
		if a >= 7 && a <= 10 && level0Files(fam) < 2 {
			// the guard of Family.Compact would say no: look for a family with work, else flush instead
			a = 0
			for other := range families {
				if level0Files(other) >= 2 {
					fam, a = other, 7
				}
			}
		}
		fmt.Fprintf(canon, "S%d/%d|", fam, a)
		switch {
		case a <= 4: // a flush: complete at once, or the flusher stays open
			if of := openOf(fam); of != nil {
				finish(of)
				continue
			}
			of := &openFlush{fam: fam, id: flushID, flusher: families[fam].NewFlusher(), keys: genSubsets(t, pool, 1)[0],
				nAtoms: rapid.IntRange(1, 2).Draw(t, "valuesPerKey"), stream: rapid.IntRange(0, 2).Draw(t, "flushMode")}
			flushID++
			switch f := rapid.IntRange(0, 9).Draw(t, "flushFault"); {
			case f < 1:
				of.fault, of.faultAt = 1, rapid.IntRange(0, 2).Draw(t, "flushFaultWrite")
			case f == 1:
				of.fault = 2
			case f == 2:
				of.fault, of.faultAt = 3, rapid.IntRange(0, len(of.keys)-1).Draw(t, "flushFaultKey")
			}
			open = append(open, of)
			if rapid.IntRange(0, 9).Draw(t, "stayOpen") < 5 {
				advance(of, rapid.IntRange(0, len(of.keys)/2).Draw(t, "firstKeys"))
				trace = append(trace, fmt.Sprintf("flush#%d fam%d opened, %d of %d keys added", of.id, fam, of.next, len(of.keys)))
			} else {
				finish(of)
			}
		case a == 5: // more keys of an open flusher
			if len(open) > 0 {
				advance(open[rapid.IntRange(0, len(open)-1).Draw(t, "advanceWhich")], rapid.IntRange(1, 4).Draw(t, "advanceKeys"))
			}
		case a == 6:
			if len(open) > 0 {
				finish(open[rapid.IntRange(0, len(open)-1).Draw(t, "finishWhich")])
			}
		case a <= 10:
			compact(fam)
		case a == 11:
			kv.VerifDeleteObsoleteFiles(families[fam])
			trace = append(trace, fmt.Sprintf("obsolete-file pass fam%d", fam))
		default:
			check(fam, fmt.Sprintf("after step %d", i+1))
		}
	}
	for len(open) > 0 {
		finish(open[0])
	}
	for fam := range families {
		check(fam, "at the end of the history")
	}

	classes := []string{fmt.Sprintf("families=%d", nFam), "maxFileSize" + bucket(int(famOpt.MaxFileSize), 0, 16, 64),
		"failed-ends" + bucket(failedEnds, 0, 1, 2, 4), "committed-flushes" + bucket(stats["committed"], 0, 1, 2, 4),
		"completed-compactions" + bucket(stats["compactions"], 0, 1, 2),
		"flushes/compactions-completed-after-a-failed-end" + bucket(goodAfterFailure, 0, 1, 2)}
	for c := range cls {
		classes = append(classes, c)
	}
	nested := cls["committed-flush-with-keys-added-inside-compaction-writes"] || cls["completed-compaction-with-flusher-keys-added-inside-its-writes"]
	nt := (failedEnds > 0 && goodAfterFailure > 0) || nested
	ev.Case("TestOwnerHistories", fmt.Sprintf("%016x", canon.Sum64()), nt, classes, map[string]any{
		"families": nFam, "poolKeys": len(pool), "maxFileSize": famOpt.MaxFileSize, "failedEnds": failedEnds,
		"committedFlushes": stats["committed"], "completedCompactions": stats["compactions"], "checks": stats["checks"],
		"checksAfterAFailedEnd": checksAfterFailure, "history": headStrings(trace, 40),
	})
}

func TestOwnerHistories(t *testing.T) {
	rapid.Check(t, ownerHistoryCase)
}
