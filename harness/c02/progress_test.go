package c02

// Bounded-progress half of the mechanisms C02 is anchored in (DESIGN C02 O: "after all snapshots are closed and
// a cleanup ran, every unreferenced table is gone"; properties.jsonl mechanisms: "obsolete-file deletion keeps the
// union of files of all active versions, pending outputs and live rollup files", "reader cache closes a mapping
// ... on explicit eviction of a dead file or when unreferenced and expired"). Sound on the unchanged tree:
//
//   - right after an obsolete-file pass of a family (explicit, or the one that ends a compaction job) during which
//     no snapshot was closed: every table file in the family directory is needed by someone - the current version,
//     a pending output, a snapshot the harness holds or a close in progress - and every table of the current
//     version is there;
//   - a table is deleted only after the reader cache gave up its mapping (the obsolete-file pass evicts first);
//   - end of a history (all snapshots closed, writer finished, one more pass per family): the family directory
//     holds exactly the tables of the current version;
//   - histories of the point-reader profile only (no Snapshot.Load anywhere: Load never gives its readers back,
//     a recorded observation of the unchanged tree): after the TTL and one more cache cleanup no table mapping is
//     left, and after the store is closed the process has no file of the store open.

import (
	"fmt"
	"os"
	"path/filepath"
	"sort"
	"strings"

	"github.com/lindb/lindb/kv"
)

func tablesInDir(dir string) (map[int64]bool, error) {
	ents, err := os.ReadDir(dir)
	if err != nil {
		return nil, err
	}
	out := map[int64]bool{}
	for _, en := range ents {
		if num, ok := fileNumberOf(en.Name()); ok {
			out[num] = true
		}
	}
	return out, nil
}

func currentTables(f kv.Family) map[int64]bool {
	snap := f.GetSnapshot()
	defer snap.Close()
	out := map[int64]bool{}
	for _, fm := range snap.GetCurrent().GetAllFiles() {
		out[fm.GetFileNumber().Int64()] = true
	}
	return out
}

func sortedNums(m map[int64]bool) []int64 { return keysOfInt(m) }

// checkDirectoryAfterPass: see the package comment of this file. exact: nobody but the current version may need a file.
func (e *env) checkDirectoryAfterPass(fam, when string, exact bool) {
	dir, err := tablesInDir(filepath.Join(e.storePath, fam))
	if err != nil {
		e.fatalf("harness: %v", err)
	}
	cur := currentTables(e.fams[fam])
	needed := map[int64]bool{}
	for n := range cur {
		needed[n] = true
		if !dir[n] {
			e.fatalf("%s: table %d of the current version of %s is not in the family directory %v", when, n, fam, sortedNums(dir))
		}
	}
	if !exact {
		for _, p := range kv.VerifPendingOutputs(e.fams[fam]) {
			needed[p] = true
		}
		for _, h := range e.held {
			if h.fam == fam {
				for n := range h.files {
					needed[n] = true
				}
			}
		}
		for _, c := range e.closing {
			if c.h.fam == fam {
				for n := range c.h.files {
					needed[n] = true
				}
			}
		}
	}
	var extra []int64
	for n := range dir {
		if !needed[n] {
			extra = append(extra, n)
		}
	}
	if len(extra) > 0 {
		sort.Slice(extra, func(i, j int) bool { return extra[i] < extra[j] })
		e.fatalf("%s: the obsolete-file pass of %s left tables %v which neither the current version %v nor a pending output, an open snapshot or a close in progress needs (directory %v)",
			when, fam, extra, sortedNums(cur), sortedNums(dir))
	}
	if exact {
		e.classes["end-of-history-directory-is-exactly-the-current-version"]++
	} else {
		e.classes["directory-checked-after-obsolete-file-pass"]++
		if len(dir) > len(cur) {
			e.classes["directory-checked-after-pass-with-tables-kept-for-snapshots-or-writers"]++
		}
	}
}

func mappedTables(e *env) []string {
	e.mapMu.Lock()
	defer e.mapMu.Unlock()
	var out []string
	for k, n := range e.mapped {
		if n > 0 {
			out = append(out, fmt.Sprintf("%s x%d", k, n))
		}
	}
	sort.Strings(out)
	return out
}

// openFilesUnder lists the files under dir this process has open.
func openFilesUnder(dir string) []string {
	ents, err := os.ReadDir("/proc/self/fd")
	if err != nil {
		return nil
	}
	var out []string
	for _, en := range ents {
		if target, err := os.Readlink(filepath.Join("/proc/self/fd", en.Name())); err == nil && strings.HasPrefix(target, dir+"/") {
			out = append(out, target)
		}
	}
	sort.Strings(out)
	return out
}

// endOfHistory: all snapshots are closed, no writer is unfinished, no close is in progress.
func (e *env) endOfHistory() {
	for _, n := range e.famNames {
		e.logf("final deleteObsolete %s", n)
		kv.VerifDeleteObsoleteFiles(e.fams[n]) // not a job of the history: nothing is nested into it
		if e.violation != "" {
			e.fatalf("final obsolete-file pass: %s", e.violation)
		}
		if len(e.held) == 0 && len(e.closing) == 0 {
			e.checkDirectoryAfterPass(n, "end of history", true)
		}
	}
	if !e.pointOnly || len(e.held) > 0 || len(e.closing) > 0 {
		return
	}
	e.noRace = true
	e.opCacheCleanup() // sleeps beyond the TTL first
	if left := mappedTables(e); len(left) > 0 {
		e.fatalf("end of history (point readers only, every snapshot closed, TTL passed, cache cleanup ran): the reader cache still maps %v", left)
	}
	e.classes["end-of-history-no-mapping-left"]++
	if err := kv.GetStoreManager().CloseStore(e.storePath); err != nil {
		e.fatalf("close: %v", err)
	}
	if open := openFilesUnder(e.dir); len(open) > 0 {
		e.fatalf("end of history: the store is closed but the process still has %v open", open)
	}
	e.classes["end-of-history-no-file-open-after-close"]++
	e.open() // the deferred clean-up closes it again
}
