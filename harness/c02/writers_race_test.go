package c02

// TestWritersRacingCommits: WRITERS RACING COMMITS while readers hold snapshots.
//
// TestSnapshotStability has one unfinished writer and synchronous commits. In production every family of a
// store flushes on its own goroutine, compaction and rollup outputs are further writers, and all of them
// share the store's table-file numbers and queue on the version-set mutex (kv/version/version_set.go
// NextFileNumber, CommitFamilyEditLog). Here a history has up to 5 unfinished writers (flushers of the same
// and of other families of the store) which are committed in any order, and the operation "window":
// a flusher commit (the holder) sits at a generated manifestWrite|manifestSync (before|after) seam - between
// reading the file number it logs and installing its version - while
//   - an opener goroutine opens 1-3 further writers (NewFlusher + Add: each takes a table-file number and
//     creates its table), and
//   - 0-2 of the already unfinished writers are committed on goroutines of their own (commit burst).
// The main goroutine waits at the seam until the helpers have started plus a few milliseconds (bounded; on
// the unchanged tree the helpers park on the version-set mutex: counted as serialised, otherwise as
// ran-inside), joins them right after the holder's commit returned, and then opens 0-2 writers itself (the
// "later allocations"). Snapshots are taken right after commits (between a commit and the later
// allocations) and all held snapshots are read again after every step, i.e. also after the later writers
// wrote their tables.
//
// Oracle (C02's statement; independent of the order the scheduler picks - the union merger makes content
// independent of the commit order):
//   - every Commit returns nil; a held snapshot returns the content it had at acquisition at every later step;
//   - a reader that starts after a step sees every commit that completed before (fresh snapshot == model,
//     for every family, after every step), and every table of the current versions is a file;
//   - tableCreate monitor (file numbers are store wide): no table file is created (os.Create truncates)
//     under a number that a held snapshot or the current version of a family references or that an
//     unfinished writer owns; removeDir monitor: no such table is deleted.

import (
	"fmt"
	"os"
	"path/filepath"
	"runtime/debug"
	"strings"
	"sync"
	"sync/atomic"
	"testing"
	"time"

	"github.com/lindb/common/pkg/ltoml"
	"pgregory.net/rapid"

	"github.com/lindb/lindb/kv"
	"github.com/lindb/lindb/kv/table"
	"github.com/lindb/lindb/kv/version"
	"github.com/lindb/lindb/verifharness/sim/ev"
	"github.com/lindb/lindb/verifharness/sim/kvsim"
)

type wWriter struct {
	id    int
	fam   string
	keys  []uint32
	atom  uint32
	fl    kv.Flusher
	table int64 // number of the table it created (-1: none)
	where string
	err   error
	done  bool // committed and released
}

func (w *wWriter) String() string {
	return fmt.Sprintf("w%d@%s keys=%v atom=%d table=%d", w.id, w.fam, w.keys, w.atom, w.table)
}

type wSnap struct {
	id           int
	fam          string
	snap         version.Snapshot
	content      kvsim.Content
	files        map[int64]bool
	laterAllocs  int // tables created by later writers while held
	laterCommits int
}

type wWindow struct {
	seamOp  string
	before  bool
	open    []*wWriter // opened by the opener goroutine
	burst   []*wWriter // unfinished writers committed on goroutines of their own
	armed   atomic.Bool
	fired   bool
	started atomic.Int32
	done    chan struct{}
	inside  bool // all helpers finished while the holder was still at the seam
}

type wenv struct {
	t         *rapid.T
	dir       string
	storePath string
	store     kv.Store
	famNames  []string
	fams      map[string]kv.Family
	model     map[string]kvsim.Content
	pending   []*wWriter
	all       []*wWriter
	held      []*wSnap
	nextID    int
	snapSeq   int
	atom      uint32
	ops       []string
	classes   map[string]int
	window    atomic.Pointer[wWindow]
	opening   atomic.Pointer[wWriter] // the writer whose table is being created (one opener at a time)
	nt        bool

	mu        sync.Mutex         // guards the fields below (hooks run on helper goroutines)
	owner     map[int64]*wWriter // table number => unfinished writer that created it
	heldFiles map[int64]int      // table number => held snapshots referencing it
	violation string
	creates   int
}

const maxUnfinished = 5

func (e *wenv) logf(format string, args ...any) { e.ops = append(e.ops, fmt.Sprintf(format, args...)) }

func (e *wenv) fatalf(format string, args ...any) {
	e.t.Helper()
	e.t.Fatalf(format+"\nhistory:\n  %s", append(args, strings.Join(e.ops, "\n  "))...)
}

func (e *wenv) setViolation(format string, args ...any) {
	e.mu.Lock()
	if e.violation == "" {
		e.violation = fmt.Sprintf(format, args...)
	}
	e.mu.Unlock()
}

// referencedBy tells who needs table num right now ("" if nobody). Called from hooks on any goroutine.
func (e *wenv) referencedBy(num int64, self *wWriter) string {
	e.mu.Lock()
	if w, ok := e.owner[num]; ok && w != self {
		e.mu.Unlock()
		return fmt.Sprintf("unfinished writer w%d of family %s owns it", w.id, w.fam)
	}
	if n := e.heldFiles[num]; n > 0 {
		e.mu.Unlock()
		return fmt.Sprintf("%d open snapshot(s) reference it", n)
	}
	e.mu.Unlock()
	for _, name := range e.famNames {
		snap := e.fams[name].GetSnapshot()
		for _, fm := range snap.GetCurrent().GetAllFiles() {
			if fm.GetFileNumber().Int64() == num {
				snap.Close()
				return "the current version of family " + name + " references it"
			}
		}
		snap.Close()
	}
	return ""
}

func (e *wenv) tableHook(op, path string, before bool) {
	if op != "tableCreate" || !before {
		return
	}
	num, ok := fileNumberOf(path)
	if !ok {
		return
	}
	w := e.opening.Load()
	who := "a compaction"
	if w != nil {
		who = fmt.Sprintf("writer w%d of family %s (%s)", w.id, w.fam, w.where)
	}
	if why := e.referencedBy(num, w); why != "" {
		e.setViolation("table file %s is created (truncated) by %s although %s", filepath.Base(path), who, why)
	}
	e.mu.Lock()
	e.creates++
	if w != nil {
		e.owner[num] = w
		w.table = num
	}
	e.mu.Unlock()
}

func (e *wenv) fsHook(op, path string, before bool) {
	if op != "removeDir" || !before {
		return
	}
	num, ok := fileNumberOf(path)
	if !ok {
		return
	}
	if why := e.referencedBy(num, nil); why != "" {
		e.setViolation("table file %s is deleted although %s", filepath.Base(path), why)
	}
}

func (e *wenv) manifestHook(op, _ string, before bool) {
	p := e.window.Load()
	if p == nil || op != p.seamOp || before != p.before || !p.armed.CompareAndSwap(true, false) {
		return
	}
	// the holder's commit sits here (it holds the version-set mutex)
	p.fired = true
	p.done = make(chan struct{})
	var wg sync.WaitGroup
	helpers := 0
	if len(p.open) > 0 {
		helpers++
		wg.Add(1)
		go func() {
			defer wg.Done()
			p.started.Add(1)
			for _, w := range p.open {
				e.openRaw(w)
				if w.err != nil {
					return
				}
			}
		}()
	}
	for _, w := range p.burst {
		helpers++
		wg.Add(1)
		go func(w *wWriter) {
			defer wg.Done()
			p.started.Add(1)
			w.err = w.fl.Commit()
		}(w)
	}
	go func() { wg.Wait(); close(p.done) }()
	// bounded rendezvous: the helpers have started, then a few milliseconds for what the implementation lets them do
	for i := 0; i < 1000 && int(p.started.Load()) < helpers; i++ {
		time.Sleep(50 * time.Microsecond)
	}
	timer := time.NewTimer(4 * time.Millisecond)
	select {
	case <-p.done:
		p.inside = true
	case <-timer.C:
	}
	timer.Stop()
}

// openRaw opens a writer: NewFlusher + Add of its keys (the first Add takes a file number and creates the table).
// It may run on the opener goroutine of a window: it touches no rapid state.
func (e *wenv) openRaw(w *wWriter) {
	w.fl = e.fams[w.fam].NewFlusher()
	e.opening.Store(w)
	defer e.opening.Store(nil)
	for _, k := range w.keys {
		if err := w.fl.Add(k, kvsim.Encode(map[uint32]bool{w.atom: true})); err != nil {
			w.err = fmt.Errorf("Add(%d): %w", k, err)
			return
		}
	}
}

func (e *wenv) newWriter(where string) *wWriter {
	e.nextID++
	e.atom++
	w := &wWriter{id: e.nextID, fam: rapid.SampledFrom(e.famNames).Draw(e.t, "family"), keys: genKeys(e.t, 5), atom: e.atom, table: -1, where: where}
	e.all = append(e.all, w)
	return w
}

func (e *wenv) noteOpened(w *wWriter) {
	if w.err != nil {
		e.fatalf("opening %s (%s) failed: %v", w, w.where, w.err)
	}
	e.pending = append(e.pending, w)
	e.logf("  opened %s (%s)", w, w.where)
	for _, h := range e.held {
		h.laterAllocs++
	}
}

// committed: the writer's Commit returned nil.
func (e *wenv) noteCommitted(w *wWriter, how string) {
	for _, k := range w.keys {
		e.model[w.fam].AddAtom(k, w.atom)
	}
	e.mu.Lock()
	delete(e.owner, w.table)
	e.mu.Unlock()
	w.fl.Release()
	w.done = true
	for i, p := range e.pending {
		if p == w {
			e.pending = append(e.pending[:i], e.pending[i+1:]...)
			break
		}
	}
	for _, h := range e.held {
		h.laterCommits++
	}
	e.logf("  committed %s (%s)", w, how)
}

func (e *wenv) takeSnapshot(fam, why string) {
	if len(e.held) >= 4 {
		return
	}
	e.snapSeq++
	h := &wSnap{id: e.snapSeq, fam: fam, snap: e.fams[fam].GetSnapshot(), content: e.model[fam].Clone(), files: map[int64]bool{}}
	e.mu.Lock()
	for _, fm := range h.snap.GetCurrent().GetAllFiles() {
		n := fm.GetFileNumber().Int64()
		h.files[n] = true
		e.heldFiles[n]++
	}
	e.mu.Unlock()
	e.held = append(e.held, h)
	e.logf("snapshot #%d of %s (%s) files=%v", h.id, fam, why, keysOfInt(h.files))
}

func (e *wenv) closeSnapshot(i int) {
	h := e.held[i]
	e.logf("close snapshot #%d", h.id)
	e.mu.Lock()
	for n := range h.files {
		e.heldFiles[n]--
	}
	e.mu.Unlock()
	h.snap.Close()
	e.held = append(e.held[:i], e.held[i+1:]...)
}

// check runs after every step.
func (e *wenv) check(when string) {
	e.mu.Lock()
	v := e.violation
	e.mu.Unlock()
	if v != "" {
		e.fatalf("%s: %s", when, v)
	}
	for _, name := range e.famNames {
		snap := e.fams[name].GetSnapshot()
		for _, fm := range snap.GetCurrent().GetAllFiles() {
			if _, err := os.Stat(filepath.Join(e.storePath, name, version.Table(fm.GetFileNumber()))); err != nil {
				snap.Close()
				e.fatalf("%s: table %d of the current version of %s: %v", when, fm.GetFileNumber().Int64(), name, err)
			}
		}
		got, err := kvsim.ReadSnapshot(snap, universe)
		snap.Close()
		if err != nil {
			e.fatalf("%s: a reader of %s starting now: %v", when, name, err)
		}
		if !e.model[name].Equal(got) {
			e.fatalf("%s: a reader of %s starting now does not see all completed commits:%s", when, name, kvsim.Diff(e.model[name], got))
		}
	}
	for _, h := range e.held {
		got, err := kvsim.ReadSnapshot(h.snap, universe)
		if err != nil {
			e.fatalf("%s: held snapshot #%d of %s (%d tables created and %d commits by later writers since it was taken): %v", when, h.id, h.fam, h.laterAllocs, h.laterCommits, err)
		}
		if !h.content.Equal(got) {
			e.fatalf("%s: held snapshot #%d of %s no longer shows the content at acquisition (%d tables created and %d commits by later writers since):%s", when, h.id, h.fam, h.laterAllocs, h.laterCommits, kvsim.Diff(h.content, got))
		}
		if h.laterAllocs > 0 && h.laterCommits > 0 {
			e.classes["held-snapshot-read-after-later-writers-created-tables-and-committed"]++
		}
	}
}

func (e *wenv) opOpenWriter(where string) {
	if len(e.pending) >= maxUnfinished {
		return
	}
	w := e.newWriter(where)
	e.openRaw(w)
	e.noteOpened(w)
}

func (e *wenv) opCommitWriter() {
	if len(e.pending) == 0 {
		e.t.Skip("no unfinished writer")
	}
	w := e.pending[rapid.IntRange(0, len(e.pending)-1).Draw(e.t, "writer")]
	e.logf("commitWriter w%d", w.id)
	if err := w.fl.Commit(); err != nil {
		e.fatalf("commit of %s: %v", w, err)
	}
	e.noteCommitted(w, "sequential")
	if rapid.Bool().Draw(e.t, "snapshotAfterCommit") {
		e.takeSnapshot(w.fam, "right after the commit of w"+fmt.Sprint(w.id))
	}
}

// opWindow: a holder commit with helpers at its manifest seam.
func (e *wenv) opWindow() {
	var holder *wWriter
	if len(e.pending) > 0 && rapid.Bool().Draw(e.t, "holderIsUnfinishedWriter") {
		holder = e.pending[rapid.IntRange(0, len(e.pending)-1).Draw(e.t, "holder")]
	} else {
		if len(e.pending) >= maxUnfinished {
			e.t.Skip("too many unfinished writers")
		}
		holder = e.newWriter("holder")
		e.openRaw(holder)
		e.noteOpened(holder)
	}
	p := &wWindow{
		seamOp: rapid.SampledFrom([]string{"manifestWrite", "manifestSync"}).Draw(e.t, "seamOp"),
		before: rapid.Bool().Draw(e.t, "seamBefore"),
	}
	room := maxUnfinished - len(e.pending) + 1
	nOpen := rapid.IntRange(0, 3).Draw(e.t, "openInWindow")
	if nOpen > room {
		nOpen = room
	}
	for i := 0; i < nOpen; i++ {
		p.open = append(p.open, e.newWriter("opened while w"+fmt.Sprint(holder.id)+" commits"))
	}
	var others []*wWriter
	for _, w := range e.pending {
		if w != holder {
			others = append(others, w)
		}
	}
	nBurst := rapid.IntRange(0, 2).Draw(e.t, "burst")
	for i := 0; i < nBurst && len(others) > 0; i++ {
		j := rapid.IntRange(0, len(others)-1).Draw(e.t, "burstWriter")
		p.burst = append(p.burst, others[j])
		others = append(others[:j], others[j+1:]...)
	}
	tail := rapid.IntRange(0, 2).Draw(e.t, "laterAllocations")
	snapAfter := rapid.Bool().Draw(e.t, "snapshotAfterWindow")
	ph := map[bool]string{true: "before", false: "after"}[p.before]
	e.logf("window: w%d commits; at %s-%s: open %d writers, commit %v concurrently; then %d later allocations", holder.id, ph, p.seamOp, len(p.open), ids(p.burst), tail)
	p.armed.Store(true)
	e.window.Store(p)
	err := holder.fl.Commit()
	e.window.Store(nil)
	if p.done != nil {
		<-p.done // joined before anything else happens
	}
	if err != nil {
		e.fatalf("commit of %s: %v", holder, err)
	}
	if !p.fired {
		e.fatalf("harness: the commit of %s did not pass the %s seam", holder, p.seamOp)
	}
	e.noteCommitted(holder, "holder")
	for _, w := range p.burst {
		if w.err != nil {
			e.fatalf("commit of %s, started while w%d was committing: %v", w, holder.id, w.err)
		}
		e.noteCommitted(w, "burst")
	}
	for _, w := range p.open {
		if w.fl != nil {
			e.noteOpened(w)
		}
	}
	e.classes["window"]++
	if len(p.open) >= 2 {
		e.classes["window->=2-writers-opened-inside"]++
	}
	if len(p.burst) > 0 {
		e.classes["window-commit-burst"]++
	}
	if len(p.open)+len(p.burst) > 0 {
		if p.inside {
			e.classes["window-helpers-ran-inside-the-commit"]++
		} else {
			e.classes["window-helpers-serialised-by-version-set-lock"]++
		}
		e.nt = e.nt || len(e.held) > 0
	}
	if snapAfter {
		e.takeSnapshot(holder.fam, "between the commit of w"+fmt.Sprint(holder.id)+" and the later allocations")
	}
	for i := 0; i < tail; i++ {
		e.opOpenWriter("later allocation after the window of w" + fmt.Sprint(holder.id))
		e.classes["later-allocation-after-window"]++
	}
}

func ids(ws []*wWriter) []string {
	out := []string{}
	for _, w := range ws {
		out = append(out, fmt.Sprintf("w%d", w.id))
	}
	return out
}

func TestWritersRacingCommits(t *testing.T) {
	rapid.Check(t, func(t *rapid.T) {
		defer debug.SetPanicOnFault(debug.SetPanicOnFault(true))
		kvsim.Register()
		dir, err := os.MkdirTemp("", "c02w-")
		if err != nil {
			t.Fatalf("harness: %v", err)
		}
		e := &wenv{t: t, dir: dir, storePath: filepath.Join(dir, "store"), fams: map[string]kv.Family{}, model: map[string]kvsim.Content{},
			classes: map[string]int{}, owner: map[int64]*wWriter{}, heldFiles: map[int64]int{}}
		opt := kv.StoreOption{Levels: 2, TTL: ltoml.Duration(time.Hour)}
		famOpt := kv.FamilyOption{Merger: kvsim.MergerName, CompactThreshold: 0, MaxFileSize: 1 << 20}
		open := func() {
			s, err := kv.GetStoreManager().CreateStore(e.storePath, opt)
			if err != nil {
				e.fatalf("open store: %v", err)
			}
			e.store = s
			for _, n := range e.famNames {
				f, err := s.CreateFamily(n, famOpt)
				if err != nil {
					e.fatalf("create family: %v", err)
				}
				e.fams[n] = f
			}
		}
		nf := rapid.IntRange(1, 3).Draw(t, "families")
		for i := 0; i < nf; i++ {
			n := fmt.Sprintf("f%d", i)
			e.famNames = append(e.famNames, n)
			e.model[n] = kvsim.Content{}
		}
		table.VerifSetFSHook(e.tableHook)
		kv.VerifSetFSHook(e.fsHook)
		version.VerifSetFSHook(e.manifestHook)
		defer func() {
			if p := e.window.Load(); p != nil && p.done != nil {
				<-p.done
			}
			table.VerifSetFSHook(nil)
			kv.VerifSetFSHook(nil)
			version.VerifSetFSHook(nil)
			for _, h := range e.held {
				h.snap.Close()
			}
			for _, w := range e.all {
				if w.fl != nil && !w.done {
					w.fl.Release()
				}
			}
			_ = kv.GetStoreManager().CloseStore(e.storePath)
			_ = os.RemoveAll(dir)
		}()
		open()
		t.Repeat(map[string]func(*rapid.T){
			"window":       func(t *rapid.T) { e.t = t; e.opWindow() },
			"window2":      func(t *rapid.T) { e.t = t; e.opWindow() },
			"openWriter":   func(t *rapid.T) { e.t = t; e.logf("openWriter"); e.opOpenWriter("sequential") },
			"commitWriter": func(t *rapid.T) { e.t = t; e.opCommitWriter() },
			"snapshot": func(t *rapid.T) {
				e.t = t
				e.takeSnapshot(rapid.SampledFrom(e.famNames).Draw(t, "family"), "top")
			},
			"close": func(t *rapid.T) {
				e.t = t
				if len(e.held) == 0 {
					t.Skip("no snapshot")
				}
				e.closeSnapshot(rapid.IntRange(0, len(e.held)-1).Draw(t, "snap"))
			},
			"compact": func(t *rapid.T) {
				e.t = t
				fam := rapid.SampledFrom(e.famNames).Draw(t, "family")
				e.logf("compact %s", fam)
				if _, err := kv.VerifCompactSync(e.fams[fam], true); err != nil {
					e.fatalf("compaction of %s: %v", fam, err)
				}
			},
			"deleteObsolete": func(t *rapid.T) {
				e.t = t
				fam := rapid.SampledFrom(e.famNames).Draw(t, "family")
				e.logf("deleteObsolete %s", fam)
				kv.VerifDeleteObsoleteFiles(e.fams[fam])
			},
			"": func(t *rapid.T) { e.t = t; e.check("after step") },
		})
		e.t = t
		// the unfinished writers finish in a drawn order; then every held snapshot is read once more, closed,
		// and the store is reopened
		for len(e.pending) > 0 {
			e.opCommitWriter()
			e.check("after final commit")
		}
		for len(e.held) > 0 {
			e.closeSnapshot(0)
		}
		if _, err := kv.VerifCompactSync(e.fams[e.famNames[0]], true); err != nil {
			e.fatalf("final compaction: %v", err)
		}
		e.check("after final compaction")
		// bounded progress: no snapshot, no unfinished writer: after a pass every family directory holds exactly
		// the tables of its current version
		for _, n := range e.famNames {
			kv.VerifDeleteObsoleteFiles(e.fams[n])
			dir, err := tablesInDir(filepath.Join(e.storePath, n))
			if err != nil {
				e.fatalf("harness: %v", err)
			}
			if cur := currentTables(e.fams[n]); fmt.Sprint(keysOfInt(dir)) != fmt.Sprint(keysOfInt(cur)) {
				e.fatalf("end of history: the directory of %s holds tables %v, its current version %v", n, keysOfInt(dir), keysOfInt(cur))
			}
		}
		e.check("after final obsolete-file passes")
		e.classes["end-of-history-directory-is-exactly-the-current-version"]++
		e.logf("reopen")
		if err := kv.GetStoreManager().CloseStore(e.storePath); err != nil {
			e.fatalf("close: %v", err)
		}
		open()
		e.check("after reopen")
		for c, n := range e.classes {
			ev.Class("TestWritersRacingCommits", c, n)
		}
		ev.Class("TestWritersRacingCommits", "tables-created", e.creates)
		ev.Case("TestWritersRacingCommits", fmt.Sprintf("%d|%v", nf, e.ops), e.nt, nil, map[string]any{"families": nf, "history": e.ops})
	})
}
