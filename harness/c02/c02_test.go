// Package c02 checks property C02: snapshot reads of a kv family are stable and the files a
// snapshot / unfinished writer needs stay alive under concurrent flushes, compactions,
// obsolete-file cleanup and reader-cache cleanup.
//
// Readers: take / read / close snapshots at operation granularity, re-entrantly at the listDir/removeDir
// seams of the obsolete-file pass, and at the open/mmap seams of a reader-cache miss (openHook: a second
// first reader of the very file being opened, reads/closes of other snapshots, TTL + cache cleanup) whenever
// the implementation does not hold the cache lock there. Reader profiles per history: mixed (Load, FindReaders+Get,
// full scan) or point readers only (no Load, which never gives its readers back and so pins files in the
// cache); 2/3/5 readers open at a time; the invariant reader after each step reads in full, by point reads or
// not at all (so that freshly written files stay cold for the readers of the history); at the end the readers
// finish one by one in a drawn order with a TTL + cache cleanup after each.
// Mappings are identified by the open file behind them (table.VerifReaderFile), so closing a duplicate
// mapping nobody got is not taken for unmapping a reader in use.
//
// cleanup_race_test.go: readers against a RUNNING reader-cache cleanup (unmap seam inside storeCache.Cleanup;
// nested on the spot when the cache lock is free there, released on their own goroutines when it is held) and
// the third phase of TestConcurrentStress (readers released inside a cleanup over >= 3 expired files).
// rollup_pending_test.go: TestPendingRollupFiles, files of pending rollups (two target intervals) survive.
// two_step_close_test.go: Snapshot.Close in its two halves (closeBegin/closeEnd) as history operations.
package c02

import (
	"fmt"
	"os"
	"path/filepath"
	"runtime/debug"
	"sort"
	"strings"
	"sync"
	"sync/atomic"
	"testing"
	"time"

	"github.com/lindb/common/pkg/ltoml"
	"pgregory.net/rapid"

	"github.com/lindb/lindb/kv"
	"github.com/lindb/lindb/kv/table"
	"github.com/lindb/lindb/kv/version"
	"github.com/lindb/lindb/verifharness/sim/ev"
	"github.com/lindb/lindb/verifharness/sim/kvsim"
)

func TestMain(m *testing.M) { ev.Main(m) }

var universe = []uint32{0, 1, 2, 3, 4, 5, 6, 7, 8, 9, 10, 11, 12, 13, 14, 15, 100, 101, 4095, 4096, 65535, 65536, 65537, 1 << 31, 1<<32 - 1}

type heldSnap struct {
	id        int
	fam       string
	snap      version.Snapshot
	content   kvsim.Content
	files     map[int64]bool      // table files of the snapshot's version
	readers   map[*os.File]string // mappings (identified by the open file behind them) of the readers the snapshot handed out => table file name
	compacts  int                 // compaction commits seen while held
	cleanups  int                 // obsolete-file passes / cache cleanups seen while held
	flushes   int
	reads     int
	takenAtOp int
}

type env struct {
	t           *rapid.T
	dir         string
	storePath   string
	opt         kv.StoreOption
	famOpt      kv.FamilyOption
	store       kv.Store
	famNames    []string
	fams        map[string]kv.Family
	model       map[string]kvsim.Content
	held        []*heldSnap
	snapSeq     int
	atom        uint32
	ops         []string
	inJob       bool // a compaction / cleanup is running (hooks may run nested reader operations)
	nestBudg    int
	inWriter    bool // a flusher is adding data / committing
	writerNest  int
	jobNest     int
	inNestedJob bool
	jobFam      string
	flushNest   int
	classes     map[string]int
	ntSnaps     int
	reading     *heldSnap     // the held snapshot whose read call is on the stack (nil: a transient reader such as checkCurrent / a compaction)
	inOpenSeam  bool          // nested operations are running at the open/mmap seam of a cold table file
	openSpent   map[int64]int // table file => open-seam visits with nested operations during the current top-level operation (at most 1 per file)
	opening     bool          // the store is being (re)opened
	hint        []uint32      // keys the next point read probes first (keys of the table file being opened)
	raced       int           // readers nested into the cold open of the same file (current history)
	pointOnly   bool          // reader profile of the history: every reader looks keys up through FindReaders+Get (no Load, which never gives its readers back)
	maxHeld     int           // readers (snapshots) open at the same time
	seamSeed    uint64        // drawn once per history: decisions at the open seams are a function of it and of the seam
	seamRng     *uint64       // != nil while operations nested into an open seam run: their choices come from it
	seamVisits  map[string]int
	pendingFl   kv.Flusher // an unfinished writer (flusher with data added but not yet committed)
	pendingFm   string
	pendingKs   []uint32
	pendingAt   uint32
	violation   string
	// reader cache as the harness sees it (guarded by mapMu: racing readers run on goroutines of their own)
	mapMu         sync.Mutex
	mapped        map[string]int // family/table => mappings created - mappings closed
	opens         map[string]int // table path => opens by the reader cache (cache misses)
	helpers       atomic.Int32   // racing readers running on their own goroutines (hooks called by them must not touch env)
	cleanup       *cleanupRun    // the cache cleanup started by opCacheCleanup which is running now
	lastCleanup   *cleanupRun
	closes        int            // snapshots closed so far (second halves included)
	closing       []*closingSnap // snapshots between the two halves of their Close (two_step_close_test.go)
	noRace        bool           // no further racing readers (the history is finishing: every cleanup would add snapshots)
	racedCleanups int
}

// intn is the source of every choice of the reader operations. At top level and inside jobs it is a
// rapid draw. Inside an open seam it is a generator seeded from (the history's rapid-drawn seamSeed, table
// file, seam, number of the visit): in which order the files of one level are opened is decided by a
// map iteration inside lindb (level.getFiles), so draws made there would shift the rapid bit stream from
// run to run; this way the choices at a seam do not depend on that order.
func (e *env) intn(label string, lo, hi int) int {
	if e.seamRng == nil {
		return rapid.IntRange(lo, hi).Draw(e.t, label)
	}
	return lo + int(splitmix(e.seamRng)%uint64(hi-lo+1))
}

func splitmix(x *uint64) uint64 {
	*x += 0x9e3779b97f4a7c15
	z := *x
	z = (z ^ (z >> 30)) * 0xbf58476d1ce4e5b9
	z = (z ^ (z >> 27)) * 0x94d049bb133111eb
	return z ^ (z >> 31)
}

func (e *env) logf(format string, args ...any) {
	e.ops = append(e.ops, fmt.Sprintf(format, args...))
}

func (e *env) fatalf(format string, args ...any) {
	e.t.Helper()
	e.t.Fatalf(format+"\nhistory:\n  %s", append(args, strings.Join(e.ops, "\n  "))...)
}

func fileNumberOf(path string) (int64, bool) {
	desc := version.ParseFileName(filepath.Base(path))
	if desc == nil || desc.FileType != version.TypeTable {
		return 0, false
	}
	return desc.FileNumber.Int64(), true
}

// ---- monitors (installed through the verif seams) ---------------------------------------------

func (e *env) fsHook(op, path string, before bool) {
	switch op {
	case "removeDir":
		if before {
			num, ok := fileNumberOf(path)
			if !ok {
				return
			}
			fam := filepath.Base(filepath.Dir(path))
			for _, h := range e.held {
				if h.fam == fam && h.files[num] {
					e.violation = fmt.Sprintf("table %d of family %s is deleted while open snapshot #%d (taken at op %d) still references it", num, fam, h.id, h.takenAtOp)
				}
			}
			e.mapMu.Lock()
			if n := e.mapped[fam+"/"+filepath.Base(path)]; n > 0 && e.violation == "" {
				e.violation = fmt.Sprintf("table %d of family %s is deleted while the reader cache still holds %d mapping(s) of it (a dead file is evicted before it is deleted)", num, fam, n)
			}
			e.mapMu.Unlock()
			if f, ok := e.fams[fam]; ok {
				for _, p := range kv.VerifPendingOutputs(f) {
					if p == num {
						e.violation = fmt.Sprintf("table %d of family %s is deleted while it is a pending output of an unfinished writer", num, fam)
					}
				}
				snap := f.GetSnapshot()
				for _, fm := range snap.GetCurrent().GetAllFiles() {
					if fm.GetFileNumber().Int64() == num {
						e.violation = fmt.Sprintf("table %d of family %s is deleted although the current version references it", num, fam)
					}
				}
				snap.Close()
			}
			e.nested("before-removeDir")
		} else {
			e.nested("after-removeDir")
		}
	case "listDir":
		// a complete flush of another writer may land anywhere inside the obsolete-file pass
		if e.inJob && !e.inNestedJob && !e.inWriter && e.flushNest > 0 && rapid.IntRange(0, 2).Draw(e.t, "nestedFlushAtListDir") == 0 {
			e.flushNest--
			e.inNestedJob = true
			e.logf("  nested@%s-listDir: flush by another writer", map[bool]string{true: "before", false: "after"}[before])
			e.opFlush()
			e.inNestedJob = false
			e.classes["flush-nested-in-cleanup"]++
		}
		if !before {
			e.nested("after-listDir")
		}
	}
}

// tableHook runs at the table-file seams. While a writer (flush) creates its table, and while a
// compaction writes its outputs, no kv lock is held: another job of the same family may run its
// obsolete-file pass right there (in production: the trailing cleanup of a rollup / compaction job,
// or the periodic store job). Files of unfinished writers and unfinished compactions must survive.
func (e *env) tableHook(op, path string, before bool) {
	if before || e.inNestedJob || e.violation != "" {
		return
	}
	if op != "tableCreate" && op != "tableClose" {
		return
	}
	fam := filepath.Base(filepath.Dir(path))
	f, ok := e.fams[fam]
	if !ok {
		return
	}
	switch {
	case e.inWriter && e.writerNest > 0:
		e.writerNest--
		kind := rapid.IntRange(0, 3).Draw(e.t, "nestedJobAtWriterSeam")
		if kind == 0 {
			return
		}
		e.inNestedJob = true
		if kind == 1 {
			e.logf("  nested@%s(%s): deleteObsolete %s", op, filepath.Base(path), fam)
			kv.VerifDeleteObsoleteFiles(f)
		} else {
			e.logf("  nested@%s(%s): compact %s", op, filepath.Base(path), fam)
			if _, err := kv.VerifCompactSync(f, kind == 2); err != nil {
				e.violation = fmt.Sprintf("nested compaction failed: %v", err)
			}
		}
		e.inNestedJob = false
		e.classes["job-nested-in-writer"]++
	case e.inJob && e.jobNest > 0:
		e.jobNest--
		if rapid.IntRange(0, 2).Draw(e.t, "nestedCleanupAtCompactionSeam") == 0 {
			return
		}
		e.inNestedJob = true
		e.logf("  nested@%s(%s): deleteObsolete %s (inside a running job)", op, filepath.Base(path), fam)
		kv.VerifDeleteObsoleteFiles(f)
		e.inNestedJob = false
		e.classes["cleanup-nested-in-compaction"]++
	}
}

// manifestHook: the seam right before a job commits its edit log (outputs are finished, not yet
// part of any version). The commit holds the version-set mutex, which the obsolete-file pass never takes.
func (e *env) manifestHook(op, _ string, before bool) {
	if !before || op != "manifestWrite" || !e.inJob || e.inNestedJob || e.jobFam == "" || e.violation != "" {
		return
	}
	if rapid.IntRange(0, 1).Draw(e.t, "nestedCleanupBeforeCommit") == 0 {
		return
	}
	f, ok := e.fams[e.jobFam]
	if !ok {
		return
	}
	e.inNestedJob = true
	e.logf("  nested@before-commit: deleteObsolete %s (inside a running job)", e.jobFam)
	kv.VerifDeleteObsoleteFiles(f)
	e.inNestedJob = false
	e.classes["cleanup-nested-before-commit"]++
}

// unmapHook: a mapping is identified by the open file behind it (two mappings of the same table file
// are different mappings: closing a duplicate nobody got is fine).
func (e *env) unmapHook(path string, f *os.File) {
	name := filepath.Base(path)
	fam := filepath.Base(filepath.Dir(path))
	e.mapMu.Lock()
	e.mapped[fam+"/"+name]--
	e.mapMu.Unlock()
	if c := e.cleanup; c != nil {
		// seam inside a running cache cleanup: racing readers (see cleanup_race_test.go)
		defer e.checkUnmapped(name, fam, f)
		e.cleanupSeam(c, fam, name, f)
		return
	}
	e.checkUnmapped(name, fam, f)
}

func (e *env) checkUnmapped(name, fam string, f *os.File) {
	for _, h := range e.held {
		if _, ok := h.readers[f]; ok && h.fam == fam {
			e.violation = fmt.Sprintf("table %s of family %s is unmapped while open snapshot #%d holds a reader of it", name, fam, h.id)
		}
	}
}

// openHook runs at the seams of a reader-cache miss: before/after the open and before/after the mmap
// of a cold table file (reader path: Snapshot.FindReaders/Load/GetReader -> Cache.GetReader; also the
// input files of a compaction). If the implementation holds the cache lock there, nothing that needs
// the reader cache can run at this point (the implementation serialises it; counted). If it does not,
// other readers and the periodic cache cleanup may run right here - in particular a second reader
// that misses the cache for the very same file: take a snapshot of that family and look up a key of
// the file being opened; read / close other held snapshots; let the TTL pass and run the cache cleanup.
func (e *env) openHook(op, path string, before bool) {
	if before && op == "tableOpen" {
		e.mapMu.Lock()
		e.opens[path]++
		e.mapMu.Unlock()
	}
	if !before && op == "tableMap" {
		e.mapMu.Lock()
		e.mapped[filepath.Base(filepath.Dir(path))+"/"+filepath.Base(path)]++
		e.mapMu.Unlock()
	}
	if e.helpers.Load() > 0 {
		return // called by a racing reader on its own goroutine
	}
	if e.violation != "" || e.inOpenSeam || e.opening || e.store == nil {
		return
	}
	num, ok := fileNumberOf(path)
	if !ok {
		return
	}
	fam := filepath.Base(filepath.Dir(path))
	if _, ok := e.fams[fam]; !ok {
		return
	}
	if op == "tableOpen" && before {
		e.classes["cold-open"]++
		if e.reading != nil {
			e.classes["cold-open-by-held-snapshot"]++
		}
	}
	if kv.VerifCacheBusy(e.store) {
		e.classes["cold-open-seam-serialised-by-cache-lock"]++
		return
	}
	e.classes["cold-open-seam-outside-cache-lock"]++
	where := fmt.Sprintf("nested@%s-%s(%s/%s)", map[bool]string{true: "before", false: "after"}[before], op, fam, filepath.Base(path))
	e.seamVisits[where]++
	rng := e.seamSeed
	for _, c := range []byte(fmt.Sprintf("%s#%d", where, e.seamVisits[where])) {
		rng = (rng ^ uint64(c)) * 0x100000001b3
	}
	e.seamRng = &rng
	e.inOpenSeam = true
	defer func() { e.inOpenSeam, e.seamRng = false, nil }()
	n := e.intn("openSeamOps", 0, 2)
	if n == 0 || e.openSpent[num] >= 1 {
		return
	}
	e.openSpent[num]++
	others := func() []int {
		var idx []int
		for i, h := range e.held {
			if h != e.reading {
				idx = append(idx, i)
			}
		}
		return idx
	}
	for i := 0; i < n && e.violation == ""; i++ {
		switch kind := e.intn("openSeamKind", 0, 6); {
		case kind <= 2: // another first reader of the same (cold) file
			if len(e.held) >= e.maxHeld+1 {
				continue
			}
			h := e.takeSnapshotOf(fam, where)
			if !h.files[num] {
				// the file is not part of the current version (e.g. input of a running compaction that
				// another job already replaced): an ordinary nested reader
				e.readHeld(h, where)
				e.classes["reader-nested-in-cold-open"]++
				continue
			}
			// keys of the file being opened, from the snapshot's own version
			e.hint = nil
			for _, fm := range h.snap.GetCurrent().GetAllFiles() {
				if fm.GetFileNumber().Int64() == num {
					e.hint = []uint32{fm.GetMinKey(), fm.GetMaxKey()}
				}
			}
			e.readHeld(h, where+" same file")
			e.hint = nil
			e.raced++
			e.classes["first-reader-nested-in-cold-open-of-same-file"]++
		case kind == 3:
			if o := others(); len(o) > 0 {
				e.readHeld(e.held[o[e.intn("openSeamSnap", 0, len(o)-1)]], where)
				e.classes["reader-nested-in-cold-open"]++
			}
		case kind == 4:
			if o := others(); len(o) > 0 {
				e.opCloseSnapshot(o[e.intn("openSeamSnap", 0, len(o)-1)], where)
				e.classes["close-nested-in-cold-open"]++
			}
		default:
			e.logf("  %s: cacheCleanup", where)
			time.Sleep(2 * time.Millisecond)
			kv.VerifCacheCleanup(e.store)
			for _, h := range e.held {
				h.cleanups++
			}
			e.classes["cache-cleanup-nested-in-cold-open"]++
		}
	}
	// a violation seen by the monitors is reported when the interrupted operation has returned
	// (no panic through the frames of the operation that sits at this seam)
}

// nested runs reader operations re-entrantly at a seam inside a compaction / cleanup job.
// Only reader operations are allowed here: they take the family-version read lock and the
// cache mutex, neither of which is held by deleteObsoleteFiles at its seams.
func (e *env) nested(where string) {
	if !e.inJob || e.nestBudg <= 0 || e.violation != "" {
		return
	}
	e.nestBudg--
	n := rapid.IntRange(0, 2).Draw(e.t, "nestedOps")
	for i := 0; i < n; i++ {
		switch rapid.IntRange(0, 5).Draw(e.t, "nestedKind") {
		case 4:
			if len(e.held) > 0 {
				e.opCloseBegin(rapid.IntRange(0, len(e.held)-1).Draw(e.t, "nestedSnap"), "nested@"+where)
			}
		case 5:
			if len(e.closing) > 0 {
				e.opCloseEnd(rapid.IntRange(0, len(e.closing)-1).Draw(e.t, "nestedClosing"), "nested@"+where)
			}
		case 0:
			e.opTakeSnapshot("nested@" + where)
		case 1, 2:
			if len(e.held) > 0 {
				e.opReadSnapshot(rapid.IntRange(0, len(e.held)-1).Draw(e.t, "nestedSnap"), "nested@"+where)
			}
		case 3:
			if len(e.held) > 0 {
				e.opCloseSnapshot(rapid.IntRange(0, len(e.held)-1).Draw(e.t, "nestedSnap"), "nested@"+where)
			}
		}
		e.classes["nested-reader-op"]++
	}
}

// ---- operations ------------------------------------------------------------------------------

func (e *env) pickFamily() string {
	return rapid.SampledFrom(e.famNames).Draw(e.t, "family")
}

func genKeys(t *rapid.T, max int) []uint32 {
	n := rapid.IntRange(1, max).Draw(t, "nKeys")
	set := map[uint32]bool{}
	for i := 0; i < n; i++ {
		set[rapid.SampledFrom(universe).Draw(t, "key")] = true
	}
	keys := make([]uint32, 0, len(set))
	for k := range set {
		keys = append(keys, k)
	}
	sort.Slice(keys, func(i, j int) bool { return keys[i] < keys[j] })
	return keys
}

func (e *env) opFlush() {
	fam := e.pickFamily()
	keys := genKeys(e.t, 8)
	e.atom++
	atom := e.atom
	e.logf("flush %s keys=%v atom=%d", fam, keys, atom)
	e.inWriter, e.writerNest = true, 2
	defer func() { e.inWriter = false }()
	fl := e.fams[fam].NewFlusher()
	// released on every path: rapid aborts a case (out of data while shrinking, Skip) by a panic that may
	// start in a draw made by a hook below Add/Commit, and Store.Close waits for unreleased flushers
	defer fl.Release()
	for _, k := range keys {
		if err := fl.Add(k, kvsim.Encode(map[uint32]bool{atom: true})); err != nil {
			e.fatalf("flush add: %v", err)
		}
	}
	err := fl.Commit()
	if err != nil {
		e.fatalf("flush commit: %v", err)
	}
	for _, k := range keys {
		e.model[fam].AddAtom(k, atom)
	}
	e.noteBetween(fam, true, false, false)
	for _, h := range e.held {
		if h.fam == fam {
			h.flushes++
		}
	}
}

// opBeginWriter starts a writer and leaves it unfinished (its table is a pending output).
func (e *env) opBeginWriter() {
	if e.pendingFl != nil {
		e.t.Skip("writer already open")
	}
	fam := e.pickFamily()
	keys := genKeys(e.t, 5)
	e.atom++
	e.logf("beginWriter %s keys=%v atom=%d", fam, keys, e.atom)
	e.inWriter, e.writerNest = true, 2
	defer func() { e.inWriter = false }()
	fl := e.fams[fam].NewFlusher()
	defer func() {
		if e.pendingFl != fl {
			fl.Release() // see opFlush
		}
	}()
	for _, k := range keys {
		if err := fl.Add(k, kvsim.Encode(map[uint32]bool{e.atom: true})); err != nil {
			e.fatalf("writer add: %v", err)
		}
	}
	e.pendingFl, e.pendingFm, e.pendingKs, e.pendingAt = fl, fam, keys, e.atom
}

func (e *env) opFinishWriter() {
	if e.pendingFl == nil {
		e.t.Skip("no open writer")
	}
	e.logf("finishWriter %s", e.pendingFm)
	fl := e.pendingFl
	e.pendingFl = nil
	defer fl.Release()
	err := fl.Commit()
	if err != nil {
		e.fatalf("writer commit (its table must have survived every cleanup): %v", err)
	}
	for _, k := range e.pendingKs {
		e.model[e.pendingFm].AddAtom(k, e.pendingAt)
	}
	e.noteBetween(e.pendingFm, true, false, false)
	for _, h := range e.held {
		if h.fam == e.pendingFm {
			h.flushes++
		}
	}
	e.classes["writer-finished-after-jobs"]++
}

func (e *env) runJob(name string, fn func()) {
	e.inJob, e.nestBudg, e.jobNest, e.flushNest = true, 4, 4, 1
	e.openSpent = map[int64]int{}
	fn()
	e.inJob = false
	if e.violation != "" {
		e.fatalf("%s: %s", name, e.violation)
	}
}

func (e *env) opCompact() {
	fam := e.pickFamily()
	force := rapid.Bool().Draw(e.t, "force")
	e.logf("compact %s force=%v", fam, force)
	var ran bool
	var err error
	e.jobFam = fam
	closes := e.closes
	e.runJob("compact", func() { ran, err = kv.VerifCompactSync(e.fams[fam], force) })
	e.jobFam = ""
	if err != nil {
		e.fatalf("compaction failed: %v", err)
	}
	if ran && closes == e.closes {
		e.checkDirectoryAfterPass(fam, "after the compaction job", false)
	}
	if ran {
		e.classes["compaction-ran"]++
		e.noteBetween(fam, true, true, false)
		for _, h := range e.held {
			if h.fam == fam {
				h.compacts++
				h.cleanups++ // every compaction job ends with an obsolete-file pass
			}
		}
	}
}

func (e *env) opDeleteObsolete() {
	fam := e.pickFamily()
	e.logf("deleteObsolete %s", fam)
	closes := e.closes
	e.runJob("deleteObsolete", func() { kv.VerifDeleteObsoleteFiles(e.fams[fam]) })
	e.noteBetween(fam, false, true, false)
	if closes == e.closes {
		e.checkDirectoryAfterPass(fam, "after the obsolete-file pass", false)
	}
	for _, h := range e.held {
		if h.fam == fam {
			h.cleanups++
		}
	}
}

func (e *env) opCacheCleanup() {
	e.logf("cacheCleanup")
	c := &cleanupRun{}
	e.lastCleanup = c
	if !e.noRace {
		c.plan = e.planRace()
	}
	time.Sleep(2 * time.Millisecond) // entries idle for > TTL(=1ns, compared in ms) become evictable
	e.runJob("cacheCleanup", func() {
		e.cleanup = c
		defer func() { // also when rapid aborts the case by a panic below
			e.cleanup = nil
			c.wg.Wait()
			e.helpers.Store(0)
		}()
		kv.VerifCacheCleanup(e.store)
		e.cleanup = nil
		e.finishRace(c)
	})
	for _, h := range e.held {
		h.cleanups++
	}
	e.noteBetween("", false, false, true)
	e.classes["cache-cleanup"]++
}

func (e *env) opTakeSnapshot(why string) {
	if len(e.held) >= e.maxHeld {
		return
	}
	e.takeSnapshotOf(e.pickFamily(), why)
}

func (e *env) takeSnapshotOf(fam, why string) *heldSnap {
	snap := e.fams[fam].GetSnapshot()
	e.snapSeq++
	h := &heldSnap{id: e.snapSeq, fam: fam, snap: snap, content: e.model[fam].Clone(), files: map[int64]bool{}, readers: map[*os.File]string{}, takenAtOp: len(e.ops)}
	for _, fm := range snap.GetCurrent().GetAllFiles() {
		h.files[fm.GetFileNumber().Int64()] = true
	}
	e.held = append(e.held, h)
	for _, c := range e.closing {
		if c.v == snap.GetCurrent() {
			c.retained++
		}
	}
	e.logf("snapshot #%d of %s (%s) files=%v", h.id, fam, why, keysOfInt(h.files))
	return h
}

// probe draws the j-th key of a point read; hinted keys (of a file being opened) come first.
func (e *env) probe(j int) uint32 {
	if j < len(e.hint) {
		return e.hint[j]
	}
	return universe[e.intn("probe", 0, len(universe)-1)]
}

// noteReader records that the snapshot handed out this reader (the mapping must live until Close).
func (e *env) noteReader(h *heldSnap, r table.Reader) {
	if f := table.VerifReaderFile(r); f != nil {
		h.readers[f] = r.FileName()
	}
}

func keysOfInt(m map[int64]bool) []int64 {
	out := make([]int64, 0, len(m))
	for k := range m {
		out = append(out, k)
	}
	sort.Slice(out, func(i, j int) bool { return out[i] < out[j] })
	return out
}

func (e *env) opReadSnapshot(i int, why string) { e.readHeld(e.held[i], why) }

// violated tells whether a monitor noted a violation during the call that just returned. It is reported
// at once by a top-level reader; a reader nested into a job / an open seam just stops (the operation it
// interrupted reports when it has returned).
func (e *env) violated() bool {
	if e.violation == "" {
		return false
	}
	if !e.inJob && !e.inOpenSeam {
		e.fatalf("%s", e.violation)
	}
	return true
}

func (e *env) readHeld(h *heldSnap, why string) {
	defer func(prev *heldSnap) { e.reading = prev }(e.reading)
	e.reading = h
	if !e.inOpenSeam && !e.inJob {
		e.openSpent = map[int64]int{}
	}
	h.reads++
	kind := e.intn("readKind", 0, 3)
	if kind == 3 || len(e.hint) > 0 || e.pointOnly {
		kind = 1 // point reads through FindReaders are the common reader (tsdb data files)
	}
	e.logf("read snapshot #%d kind=%d hint=%v (%s)", h.id, kind, e.hint, why)
	switch kind {
	case 0: // complete read, two ways (Load + scan of every file through GetReader)
		got, err := kvsim.ReadSnapshot(h.snap, universe)
		if e.violated() {
			return
		}
		if err != nil {
			e.fatalf("snapshot #%d of %s (taken at op %d): %v", h.id, h.fam, h.takenAtOp, err)
		}
		for _, f := range keysOfInt(h.files) { // the scan got a reader of every file from the snapshot: learn which mappings
			r, err := h.snap.GetReader(table.FileNumber(f))
			if err != nil || r == nil {
				e.fatalf("snapshot #%d of %s: GetReader(%d): %v", h.id, h.fam, f, err)
			}
			e.noteReader(h, r)
		}
		if !h.content.Equal(got) {
			e.fatalf("snapshot #%d of %s (taken at op %d) no longer shows the content at acquisition:%s", h.id, h.fam, h.takenAtOp, kvsim.Diff(h.content, got))
		}
	case 1: // point reads through FindReaders + Get
		for j := 0; j < 3; j++ {
			k := e.probe(j)
			readers, err := h.snap.FindReaders(k)
			if e.violated() {
				return
			}
			if err != nil {
				e.fatalf("snapshot #%d FindReaders(%d): %v", h.id, k, err)
			}
			got := map[uint32]bool{}
			for _, r := range readers {
				e.noteReader(h, r)
			}
			for _, r := range readers {
				v, err := r.Get(k)
				if err == table.ErrKeyNotExist {
					continue
				}
				if err != nil {
					e.fatalf("snapshot #%d Get(%d) on %s: %v", h.id, k, r.FileName(), err)
				}
				atoms, err := kvsim.Decode(v)
				if err != nil {
					e.fatalf("snapshot #%d key %d in %s: %v", h.id, k, r.FileName(), err)
				}
				for _, a := range atoms {
					got[a] = true
				}
			}
			want := h.content[k]
			if len(want) != len(got) {
				e.fatalf("snapshot #%d of %s key %d: atoms %v, at acquisition %v", h.id, h.fam, k, got, want)
			}
			for a := range want {
				if !got[a] {
					e.fatalf("snapshot #%d of %s key %d lacks atom %d", h.id, h.fam, k, a)
				}
			}
		}
	case 2: // Load of a few keys
		for j := 0; j < 3; j++ {
			k := e.probe(len(e.hint) + j)
			got := map[uint32]bool{}
			err := h.snap.Load(k, func(v []byte) error {
				atoms, err := kvsim.Decode(v)
				for _, a := range atoms {
					got[a] = true
				}
				return err
			})
			if e.violated() {
				return
			}
			if err != nil {
				e.fatalf("snapshot #%d Load(%d): %v", h.id, k, err)
			}
			want := h.content[k]
			if len(want) != len(got) {
				e.fatalf("snapshot #%d of %s key %d: Load sees atoms %v, at acquisition %v", h.id, h.fam, k, got, want)
			}
			for a := range want {
				if !got[a] {
					e.fatalf("snapshot #%d of %s key %d lacks atom %d", h.id, h.fam, k, a)
				}
			}
		}
	}
	if h.compacts > 0 && h.cleanups > 0 {
		e.classes["read-after-compaction-and-cleanup"]++
	}
}

func (e *env) closeHeld(h *heldSnap, why string) {
	for i := range e.held {
		if e.held[i] == h {
			e.opCloseSnapshot(i, why)
			return
		}
	}
}

func (e *env) opCloseSnapshot(i int, why string) {
	h := e.held[i]
	e.logf("close snapshot #%d (%s)", h.id, why)
	if h.compacts > 0 && h.cleanups > 0 && h.reads > 0 {
		e.ntSnaps++
	}
	h.snap.Close()
	e.closes++
	e.held = append(e.held[:i], e.held[i+1:]...)
}

func (e *env) opReopen() {
	if e.pendingFl != nil {
		e.t.Skip("writer open")
	}
	for len(e.held) > 0 {
		e.opCloseSnapshot(0, "before reopen")
	}
	e.finishClosing("before reopen")
	e.logf("reopen")
	if err := kv.GetStoreManager().CloseStore(e.storePath); err != nil {
		e.fatalf("close: %v", err)
	}
	e.open()
}

func (e *env) open() {
	e.opening = true
	defer func() { e.opening = false }()
	s, err := kv.GetStoreManager().CreateStore(e.storePath, e.opt)
	if err != nil {
		e.fatalf("open store: %v", err)
	}
	e.store = s
	for _, n := range e.famNames {
		f, err := s.CreateFamily(n, e.famOpt)
		if err != nil {
			e.fatalf("create family: %v", err)
		}
		e.fams[n] = f
	}
}

// checkCurrent: a reader that starts now sees every commit that completed before.
// mode 0: complete read (Load of every key + scan of every file); mode 1: point reads of every key
// through FindReaders + Get (the reader of tsdb data files; unlike Load it gives its readers back at
// Close, so the files stay evictable); mode 2: no reader (table files written since stay cold for the
// readers of the history).
func (e *env) checkCurrent(mode int) {
	if e.violation != "" {
		e.fatalf("%s", e.violation)
	}
	if mode == 2 {
		return
	}
	if e.pointOnly {
		mode = 1
	}
	e.openSpent = map[int64]int{}
	for _, n := range e.famNames {
		var got kvsim.Content
		var err error
		if mode == 0 {
			got, err = kvsim.ReadFamily(e.fams[n], universe)
		} else {
			got, err = e.pointReadFamily(n)
		}
		if e.violation != "" {
			e.fatalf("%s", e.violation)
		}
		if err != nil {
			e.fatalf("family %s: %v", n, err)
		}
		if !e.model[n].Equal(got) {
			e.fatalf("a reader starting now (mode %d) does not see all completed commits of %s:%s", mode, n, kvsim.Diff(e.model[n], got))
		}
	}
}

func (e *env) pointReadFamily(fam string) (kvsim.Content, error) {
	snap := e.fams[fam].GetSnapshot()
	defer snap.Close()
	got := kvsim.Content{}
	for _, k := range universe {
		readers, err := snap.FindReaders(k)
		if err != nil {
			return nil, fmt.Errorf("FindReaders(%d): %w", k, err)
		}
		for _, r := range readers {
			v, err := r.Get(k)
			if err == table.ErrKeyNotExist {
				continue
			}
			if err != nil {
				return nil, fmt.Errorf("Get(%d) on %s: %w", k, r.FileName(), err)
			}
			atoms, err := kvsim.Decode(v)
			if err != nil {
				return nil, fmt.Errorf("key %d in %s: %w", k, r.FileName(), err)
			}
			for _, a := range atoms {
				got.AddAtom(k, a)
			}
		}
	}
	return got, nil
}

func TestSnapshotStability(t *testing.T) {
	rapid.Check(t, func(t *rapid.T) {
		// a read through a dead mapping becomes a failure of the case instead of killing the process
		defer debug.SetPanicOnFault(debug.SetPanicOnFault(true))
		kvsim.Register()
		dir, err := os.MkdirTemp("", "c02-")
		if err != nil {
			t.Fatalf("harness: %v", err)
		}
		e := &env{t: t, dir: dir, storePath: filepath.Join(dir, "store"), fams: map[string]kv.Family{},
			model: map[string]kvsim.Content{}, classes: map[string]int{}, seamVisits: map[string]int{}, openSpent: map[int64]int{}, mapped: map[string]int{}, opens: map[string]int{}}
		e.seamSeed = rapid.Uint64().Draw(t, "openSeamSeed")
		e.pointOnly = rapid.IntRange(0, 2).Draw(t, "readerProfile") == 2
		e.maxHeld = rapid.SampledFrom([]int{2, 3, 5}).Draw(t, "maxHeld")
		e.opt = kv.StoreOption{Levels: rapid.IntRange(2, 3).Draw(t, "levels"), TTL: ltoml.Duration(time.Nanosecond)}
		e.famOpt = kv.FamilyOption{
			Merger:           kvsim.MergerName,
			CompactThreshold: rapid.SampledFrom([]int{0, 1, 2, 3}).Draw(t, "compactThreshold"),
			MaxFileSize:      rapid.SampledFrom([]uint32{0, 8, 24, 1 << 20}).Draw(t, "maxFileSize"),
		}
		nf := rapid.IntRange(1, 2).Draw(t, "families")
		for i := 0; i < nf; i++ {
			n := fmt.Sprintf("f%d", i)
			e.famNames = append(e.famNames, n)
			e.model[n] = kvsim.Content{}
		}
		kv.VerifSetFSHook(e.fsHook)
		table.VerifSetFSHook(e.tableHook)
		version.VerifSetFSHook(e.manifestHook)
		table.VerifSetUnmapFileHook(e.unmapHook)
		table.VerifSetOpenHook(e.openHook)
		defer func() {
			kv.VerifSetFSHook(nil)
			table.VerifSetFSHook(nil)
			version.VerifSetFSHook(nil)
			table.VerifSetUnmapFileHook(nil)
			table.VerifSetOpenHook(nil)
			e.inJob = false
			if e.pendingFl != nil {
				e.pendingFl.Release()
			}
			for _, h := range e.held {
				h.snap.Close()
			}
			e.held = nil
			for _, c := range e.closing {
				c.second()
				c.v.Retain()
				c.h.snap.Close()
			}
			e.closing = nil
			if c := e.lastCleanup; c != nil {
				c.wg.Wait()
				for _, r := range c.plan {
					if r.snap != nil && r.held == nil {
						r.snap.Close() // the case was aborted before the racing reader's snapshot was registered
					}
				}
			}
			_ = kv.GetStoreManager().CloseStore(e.storePath)
			_ = os.RemoveAll(dir)
		}()
		e.open()

		t.Repeat(map[string]func(*rapid.T){
			"flush":          func(t *rapid.T) { e.t = t; e.opFlush() },
			"flush2":         func(t *rapid.T) { e.t = t; e.opFlush() },
			"beginWriter":    func(t *rapid.T) { e.t = t; e.opBeginWriter() },
			"finishWriter":   func(t *rapid.T) { e.t = t; e.opFinishWriter() },
			"compact":        func(t *rapid.T) { e.t = t; e.opCompact() },
			"compact2":       func(t *rapid.T) { e.t = t; e.opCompact() },
			"deleteObsolete": func(t *rapid.T) { e.t = t; e.opDeleteObsolete() },
			"cacheCleanup":   func(t *rapid.T) { e.t = t; e.opCacheCleanup() },
			"snapshot":       func(t *rapid.T) { e.t = t; e.opTakeSnapshot("top") },
			"read": func(t *rapid.T) {
				e.t = t
				if len(e.held) == 0 {
					t.Skip("no snapshot")
				}
				e.opReadSnapshot(rapid.IntRange(0, len(e.held)-1).Draw(t, "snap"), "top")
			},
			"close": func(t *rapid.T) {
				e.t = t
				if len(e.held) == 0 {
					t.Skip("no snapshot")
				}
				e.opCloseSnapshot(rapid.IntRange(0, len(e.held)-1).Draw(t, "snap"), "top")
			},
			"closeBegin": func(t *rapid.T) {
				e.t = t
				if len(e.held) == 0 || len(e.closing) >= maxClosing {
					t.Skip("no snapshot / enough closing")
				}
				e.opCloseBegin(rapid.IntRange(0, len(e.held)-1).Draw(t, "snap"), "top")
			},
			"closeEnd": func(t *rapid.T) {
				e.t = t
				if len(e.closing) == 0 {
					t.Skip("no snapshot is closing")
				}
				e.opCloseEnd(rapid.IntRange(0, len(e.closing)-1).Draw(t, "closing"), "top")
			},
			"reopen": func(t *rapid.T) {
				e.t = t
				if rapid.IntRange(0, 3).Draw(t, "reopenGate") != 0 {
					t.Skip("reopen throttled")
				}
				e.opReopen()
			},
			"": func(t *rapid.T) {
				e.t = t
				e.checkCurrent(rapid.SampledFrom([]int{0, 1, 1, 2, 2, 2}).Draw(t, "checkCurrentMode"))
				e.checkActive("after step")
			},
		})
		e.t = t
		// final: the readers finish one after the other in a drawn order; each is read once more right before
		// (in full, or with point reads in the point-reader profile); the TTL passes and the cache cleanup runs
		// before the first and after each of them
		e.opCacheCleanup()
		e.noRace = true
		// the closes in progress finish; an obsolete-file pass per family shows what they did to the held snapshots
		if len(e.closing) > 0 {
			e.finishClosing("final")
			for _, n := range e.famNames {
				e.runJob("deleteObsolete", func() { kv.VerifDeleteObsoleteFiles(e.fams[n]) })
			}
			e.checkActive("final")
		}
		for len(e.held) > 0 {
			h := e.held[rapid.IntRange(0, len(e.held)-1).Draw(t, "finalClose")]
			if e.pointOnly {
				e.readHeld(h, "final")
			} else {
				e.reading, e.openSpent = h, map[int64]int{}
				got, err := kvsim.ReadSnapshot(h.snap, universe)
				e.reading = nil
				if e.violation != "" {
					e.fatalf("final read of snapshot #%d: %s", h.id, e.violation)
				}
				if err != nil {
					e.fatalf("final read of snapshot #%d: %v", h.id, err)
				}
				if !h.content.Equal(got) {
					e.fatalf("final read: snapshot #%d of %s changed:%s", h.id, h.fam, kvsim.Diff(h.content, got))
				}
				h.reads++
			}
			e.closeHeld(h, "final")
			if len(e.held) > 0 {
				e.opCacheCleanup()
			}
		}
		if e.pendingFl != nil {
			e.opFinishWriter()
		}
		e.checkCurrent(0)
		e.endOfHistory()
		if e.pointOnly {
			e.classes["history-point-readers-only"]++
		}
		if e.raced > 0 {
			e.classes["history-with-racing-first-readers"]++
		}
		if e.racedCleanups > 0 {
			e.classes["history-with-readers-racing-a-cache-cleanup"]++
		}
		for c, n := range e.classes {
			ev.Class("TestSnapshotStability", c, n)
		}
		ev.Case("TestSnapshotStability", fmt.Sprintf("%v|%v|%v", e.opt.Levels, e.famOpt, e.ops), e.ntSnaps > 0, nil,
			map[string]any{"levels": e.opt.Levels, "point_readers_only": e.pointOnly, "max_held": e.maxHeld, "compactThreshold": e.famOpt.CompactThreshold, "maxFileSize": e.famOpt.MaxFileSize,
				"snapshots_held_across_compaction_and_cleanup": e.ntSnaps, "history": e.ops})
	})
}

// ---- unsystematic variant on real goroutines (schedule owned by the Go scheduler) ---------------
//
// One writer commits flushes 1..N in order; flush i writes atom i to the keys keysOfFlush(i).
// Readers take snapshots concurrently. Oracle per snapshot: it shows exactly the atoms 1..m for
// one m (prefix-closed), with started-before <= m <= finished-after, and re-reading it later gives
// the same m. Compactor and cleaners run all the time. Failures are reported with the history.

func keysOfFlush(i int) []uint32 {
	ks := []uint32{uint32(i % 7), uint32(7 + i%5), 65536 + uint32(i%3)}
	sort.Slice(ks, func(a, b int) bool { return ks[a] < ks[b] })
	return ks
}

func contentUpTo(m int) kvsim.Content {
	c := kvsim.Content{}
	for i := 1; i <= m; i++ {
		for _, k := range keysOfFlush(i) {
			c.AddAtom(k, uint32(i))
		}
	}
	return c
}

func prefixOf(c kvsim.Content) (int, bool) {
	max := 0
	for _, s := range c {
		for a := range s {
			if int(a) > max {
				max = int(a)
			}
		}
	}
	return max, contentUpTo(max).Equal(c)
}

func TestConcurrentStress(t *testing.T) {
	kvsim.Register()
	rounds := 6
	flushes := 60
	if os.Getenv("VERIF_TIER") == "thorough" {
		rounds, flushes = 40, 150
	}
	probe := []uint32{0, 1, 2, 3, 4, 5, 6, 7, 8, 9, 10, 11, 65536, 65537, 65538}
	for round := 0; round < rounds; round++ {
		dir, err := os.MkdirTemp("", "c02s-")
		if err != nil {
			t.Fatal(err)
		}
		path := filepath.Join(dir, "store")
		s, err := kv.GetStoreManager().CreateStore(path, kv.StoreOption{Levels: 2, TTL: ltoml.Duration(time.Nanosecond)})
		if err != nil {
			t.Fatal(err)
		}
		f, err := s.CreateFamily("f", kv.FamilyOption{Merger: kvsim.MergerName, CompactThreshold: 2, MaxFileSize: []uint32{0, 16, 64}[round%3]})
		if err != nil {
			t.Fatal(err)
		}
		var committed, started atomic.Int64
		var failMu sync.Mutex
		var failure string
		fail := func(format string, args ...any) {
			failMu.Lock()
			if failure == "" {
				failure = fmt.Sprintf(format, args...)
			}
			failMu.Unlock()
		}
		done := make(chan struct{})
		var wg sync.WaitGroup
		var snapsChecked, snapsAcross atomic.Int64
		wg.Add(1)
		go func() { // writer
			defer wg.Done()
			defer close(done)
			for i := 1; i <= flushes; i++ {
				fl := f.NewFlusher()
				for _, k := range keysOfFlush(i) {
					if err := fl.Add(k, kvsim.Encode(map[uint32]bool{uint32(i): true})); err != nil {
						fail("flush %d add: %v", i, err)
					}
				}
				started.Store(int64(i))
				err := fl.Commit()
				fl.Release()
				if err != nil {
					fail("flush %d commit: %v", i, err)
					return
				}
				committed.Store(int64(i))
			}
		}()
		wg.Add(1)
		go func() { // compactor + cleaner
			defer wg.Done()
			for {
				select {
				case <-done:
					return
				default:
				}
				if _, err := kv.VerifCompactSync(f, true); err != nil {
					fail("compaction: %v", err)
					return
				}
				kv.VerifCacheCleanup(s)
			}
		}()
		for r := 0; r < 3; r++ {
			wg.Add(1)
			go func() { // reader
				defer wg.Done()
				for {
					select {
					case <-done:
						return
					default:
					}
					lo := committed.Load()
					snap := f.GetSnapshot()
					hi := started.Load()
					first, err := kvsim.ReadSnapshot(snap, probe)
					if err != nil {
						fail("snapshot read: %v", err)
						snap.Close()
						return
					}
					m, ok := prefixOf(first)
					if !ok {
						fail("snapshot is not a prefix of the commit order: %s", first)
					} else if int64(m) < lo || int64(m) > hi {
						fail("snapshot shows commits 1..%d, but %d commits had completed before it was taken and %d had started when it returned", m, lo, hi)
					}
					c0 := committed.Load()
					// hold it for a while, read again
					for j := 0; j < 3; j++ {
						again, err := kvsim.ReadSnapshot(snap, probe)
						if err != nil {
							fail("re-read of held snapshot (commits 1..%d): %v", m, err)
							break
						}
						if !first.Equal(again) {
							fail("held snapshot changed: first %s, later %s", first, again)
							break
						}
					}
					if committed.Load() > c0 {
						snapsAcross.Add(1)
					}
					snapsChecked.Add(1)
					snap.Close()
				}
			}()
		}
		wg.Wait()
		// final state
		final, err := kvsim.ReadFamily(f, probe)
		if err != nil {
			fail("final read: %v", err)
		} else if !contentUpTo(flushes).Equal(final) {
			fail("final content differs:%s", kvsim.Diff(contentUpTo(flushes), final))
		}
		_ = kv.GetStoreManager().CloseStore(path)
		_ = os.RemoveAll(dir)
		ev.Case("TestConcurrentStress", fmt.Sprintf("round-%d-%d", round, snapsChecked.Load()), snapsAcross.Load() > 0, nil,
			map[string]any{"round": round, "flushes": flushes, "snapshots_checked": snapsChecked.Load(), "snapshots_held_across_commit": snapsAcross.Load()})
		ev.Class("TestConcurrentStress", "snapshots-checked", int(snapsChecked.Load()))
		ev.Class("TestConcurrentStress", "snapshots-held-across-commit", int(snapsAcross.Load()))
		if failure != "" {
			t.Fatalf("round %d (maxFileSize %d): %s", round, []uint32{0, 16, 64}[round%3], failure)
		}
	}
	coldFirstReaders(t)
	expiredHitReaders(t)
}

// ---- second phase of TestConcurrentStress: real goroutines on the reader-cache miss path -----------
//
// Per round the writer flushes a new table file (nobody has read it, so it is not in the reader cache) and
// 2..4 readers are released together; each takes a snapshot and looks a key of the new file up (FindReaders,
// every third round GetReader of the file). In every second round a cleaner runs the reader-cache cleanup
// concurrently with them. Then some of the readers finish (pattern by round; at least one stays), the TTL
// passes and the cache cleanup runs; every fourth round ends with a compaction (the inputs are evicted, the
// output is another cold file). The open hook only perturbs the schedule (it yields while a cold file is
// being mapped, so that the other first readers arrive meanwhile if the implementation lets them).
// Oracle (holds under every interleaving, checked when the goroutines of the round have joined): a mapping
// that has been unmapped - identified by the open file behind it - is not the mapping of a reader which a
// still open snapshot handed out, and every such reader still returns the atom flushed under its key.
func coldFirstReaders(t *testing.T) {
	rounds := 60
	if os.Getenv("VERIF_TIER") == "thorough" {
		rounds = 1500
	}
	dir, err := os.MkdirTemp("", "c02r-")
	if err != nil {
		t.Fatal(err)
	}
	defer os.RemoveAll(dir)
	path := filepath.Join(dir, "store")
	s, err := kv.GetStoreManager().CreateStore(path, kv.StoreOption{Levels: 2, TTL: ltoml.Duration(time.Millisecond)})
	if err != nil {
		t.Fatal(err)
	}
	defer func() { _ = kv.GetStoreManager().CloseStore(path) }()
	f, err := s.CreateFamily("f", kv.FamilyOption{Merger: kvsim.MergerName, CompactThreshold: 0, MaxFileSize: 1 << 20})
	if err != nil {
		t.Fatal(err)
	}
	var mu sync.Mutex
	unmapped := map[*os.File]string{}
	table.VerifSetUnmapFileHook(func(p string, fl *os.File) {
		mu.Lock()
		unmapped[fl] = filepath.Base(p)
		mu.Unlock()
	})
	defer table.VerifSetUnmapFileHook(nil)
	table.VerifSetOpenHook(func(op, _ string, before bool) {
		if op == "tableMap" && before {
			time.Sleep(200 * time.Microsecond)
		}
	})
	defer table.VerifSetOpenHook(nil)

	type first struct {
		snap    version.Snapshot
		readers []table.Reader
		err     error
	}
	var coldRounds, overlapped, heldChecked int
	for round := 0; round < rounds; round++ {
		key, atom := uint32(round*16+3), uint32(round+1)
		fl := f.NewFlusher()
		for k := uint32(round * 16); k < uint32(round*16+16); k++ {
			if err := fl.Add(k, kvsim.Encode(map[uint32]bool{atom: true})); err != nil {
				t.Fatalf("round %d: flush add: %v", round, err)
			}
		}
		err := fl.Commit()
		fl.Release()
		if err != nil {
			t.Fatalf("round %d: flush commit: %v", round, err)
		}
		cur := f.GetSnapshot()
		var newFile table.FileNumber
		for _, fm := range cur.GetCurrent().GetAllFiles() {
			if fm.GetFileNumber() > newFile {
				newFile = fm.GetFileNumber()
			}
		}
		cur.Close()

		n := 2 + round%3
		firsts := make([]first, n)
		start := make(chan struct{})
		var wg sync.WaitGroup
		for i := 0; i < n; i++ {
			wg.Add(1)
			go func(i int) {
				defer wg.Done()
				<-start
				snap := f.GetSnapshot()
				firsts[i].snap = snap
				if round%3 == 2 {
					r, err := snap.GetReader(newFile)
					firsts[i].err = err
					if r != nil {
						firsts[i].readers = []table.Reader{r}
					}
				} else {
					firsts[i].readers, firsts[i].err = snap.FindReaders(key)
				}
			}(i)
		}
		if round%2 == 1 {
			wg.Add(1)
			go func() {
				defer wg.Done()
				<-start
				for j := 0; j < 3; j++ {
					kv.VerifCacheCleanup(s)
					time.Sleep(100 * time.Microsecond)
				}
			}()
		}
		close(start)
		wg.Wait()
		coldRounds++
		for i := range firsts {
			if firsts[i].err != nil || len(firsts[i].readers) == 0 {
				t.Fatalf("round %d reader %d: %d readers for key %d of the file flushed before, err=%v", round, i, len(firsts[i].readers), key, firsts[i].err)
			}
		}
		// some readers finish; reader (round % n) always stays
		open := map[int]bool{}
		for i := range firsts {
			if i == round%n || (round/n+i)%3 == 0 {
				open[i] = true
			} else {
				firsts[i].snap.Close()
			}
		}
		if len(open) > 1 {
			overlapped++
		}
		time.Sleep(3 * time.Millisecond)
		kv.VerifCacheCleanup(s)
		mu.Lock()
		for i := range firsts {
			if !open[i] {
				continue
			}
			for _, r := range firsts[i].readers {
				if name, dead := unmapped[table.VerifReaderFile(r)]; dead {
					mu.Unlock()
					t.Fatalf("round %d: the mapping of table %s was unmapped while the snapshot of reader %d (one of %d readers released together on the freshly flushed file; %d of them still open) holds a reader of it",
						round, name, i, n, len(open))
				}
			}
		}
		mu.Unlock()
		for i := range firsts {
			if !open[i] {
				continue
			}
			got := map[uint32]bool{}
			for _, r := range firsts[i].readers {
				v, err := r.Get(key)
				if err == table.ErrKeyNotExist {
					continue
				}
				if err != nil {
					t.Fatalf("round %d reader %d: Get(%d) on %s: %v", round, i, key, r.FileName(), err)
				}
				atoms, err := kvsim.Decode(v)
				if err != nil {
					t.Fatalf("round %d reader %d: key %d in %s: %v", round, i, key, r.FileName(), err)
				}
				for _, a := range atoms {
					got[a] = true
				}
			}
			if !got[atom] || len(got) != 1 {
				t.Fatalf("round %d reader %d: key %d shows atoms %v, flushed atom %d", round, i, key, got, atom)
			}
			heldChecked++
			firsts[i].snap.Close()
		}
		if round%4 == 3 {
			if _, err := kv.VerifCompactSync(f, true); err != nil {
				t.Fatalf("round %d: compaction: %v", round, err)
			}
		}
	}
	ev.Case("TestConcurrentStress", fmt.Sprintf("cold-first-readers-rounds-%d", rounds), overlapped > 0, nil,
		map[string]any{"rounds": rounds, "rounds_with_several_readers_left_open": overlapped, "held_readers_checked_after_cleanup": heldChecked})
	ev.Class("TestConcurrentStress", "cold-round-first-readers-released-together-on-cold-file", coldRounds)
	ev.Class("TestConcurrentStress", "cold-round-with-concurrent-cache-cleanup", rounds/2)
	ev.Class("TestConcurrentStress", "cold-held-reader-checked-after-ttl-cleanup", heldChecked)
}
