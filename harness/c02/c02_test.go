// Package c02 checks property C02: snapshot reads of a kv family are stable and the files a
// snapshot / unfinished writer needs stay alive under concurrent flushes, compactions,
// obsolete-file cleanup and reader-cache cleanup.
package c02

import (
	"fmt"
	"os"
	"path/filepath"
	"sort"
	"strings"
	"sync"
	"sync/atomic"
	"testing"
	"time"

	"github.com/lindb/common/pkg/ltoml"
	"pgregory.net/rapid"

	"github.com/lindb/lindb/kv"
	"github.com/lindb/lindb/kv/table"
	"github.com/lindb/lindb/kv/version"
	"github.com/lindb/lindb/verifharness/sim/ev"
	"github.com/lindb/lindb/verifharness/sim/kvsim"
)

func TestMain(m *testing.M) { ev.Main(m) }

var universe = []uint32{0, 1, 2, 3, 4, 5, 6, 7, 8, 9, 10, 11, 12, 13, 14, 15, 100, 101, 4095, 4096, 65535, 65536, 65537, 1 << 31, 1<<32 - 1}

type heldSnap struct {
	id        int
	fam       string
	snap      version.Snapshot
	content   kvsim.Content
	files     map[int64]bool  // table files of the snapshot's version
	readers   map[string]bool // table file names for which the snapshot handed out a reader
	compacts  int             // compaction commits seen while held
	cleanups  int             // obsolete-file passes / cache cleanups seen while held
	flushes   int
	reads     int
	takenAtOp int
}

type env struct {
	t         *rapid.T
	dir       string
	storePath string
	opt       kv.StoreOption
	famOpt    kv.FamilyOption
	store     kv.Store
	famNames  []string
	fams      map[string]kv.Family
	model     map[string]kvsim.Content
	held      []*heldSnap
	snapSeq   int
	atom      uint32
	ops       []string
	inJob     bool // a compaction / cleanup is running (hooks may run nested reader operations)
	nestBudg  int
	inWriter    bool // a flusher is adding data / committing
	writerNest  int
	jobNest     int
	inNestedJob bool
	jobFam      string
	flushNest   int
	classes   map[string]int
	ntSnaps   int
	pendingFl kv.Flusher // an unfinished writer (flusher with data added but not yet committed)
	pendingFm string
	pendingKs []uint32
	pendingAt uint32
	violation string
}

func (e *env) logf(format string, args ...any) {
	e.ops = append(e.ops, fmt.Sprintf(format, args...))
}

func (e *env) fatalf(format string, args ...any) {
	e.t.Helper()
	e.t.Fatalf(format+"\nhistory:\n  %s", append(args, strings.Join(e.ops, "\n  "))...)
}

func fileNumberOf(path string) (int64, bool) {
	desc := version.ParseFileName(filepath.Base(path))
	if desc == nil || desc.FileType != version.TypeTable {
		return 0, false
	}
	return desc.FileNumber.Int64(), true
}

// ---- monitors (installed through the verif seams) ---------------------------------------------

func (e *env) fsHook(op, path string, before bool) {
	switch op {
	case "removeDir":
		if before {
			num, ok := fileNumberOf(path)
			if !ok {
				return
			}
			fam := filepath.Base(filepath.Dir(path))
			for _, h := range e.held {
				if h.fam == fam && h.files[num] {
					e.violation = fmt.Sprintf("table %d of family %s is deleted while open snapshot #%d (taken at op %d) still references it", num, fam, h.id, h.takenAtOp)
				}
			}
			if f, ok := e.fams[fam]; ok {
				for _, p := range kv.VerifPendingOutputs(f) {
					if p == num {
						e.violation = fmt.Sprintf("table %d of family %s is deleted while it is a pending output of an unfinished writer", num, fam)
					}
				}
				snap := f.GetSnapshot()
				for _, fm := range snap.GetCurrent().GetAllFiles() {
					if fm.GetFileNumber().Int64() == num {
						e.violation = fmt.Sprintf("table %d of family %s is deleted although the current version references it", num, fam)
					}
				}
				snap.Close()
			}
			e.nested("before-removeDir")
		} else {
			e.nested("after-removeDir")
		}
	case "listDir":
		// a complete flush of another writer may land anywhere inside the obsolete-file pass
		if e.inJob && !e.inNestedJob && !e.inWriter && e.flushNest > 0 && rapid.IntRange(0, 2).Draw(e.t, "nestedFlushAtListDir") == 0 {
			e.flushNest--
			e.inNestedJob = true
			e.logf("  nested@%s-listDir: flush by another writer", map[bool]string{true: "before", false: "after"}[before])
			e.opFlush()
			e.inNestedJob = false
			e.classes["flush-nested-in-cleanup"]++
		}
		if !before {
			e.nested("after-listDir")
		}
	}
}

// tableHook runs at the table-file seams. While a writer (flush) creates its table, and while a
// compaction writes its outputs, no kv lock is held: another job of the same family may run its
// obsolete-file pass right there (in production: the trailing cleanup of a rollup / compaction job,
// or the periodic store job). Files of unfinished writers and unfinished compactions must survive.
func (e *env) tableHook(op, path string, before bool) {
	if before || e.inNestedJob || e.violation != "" {
		return
	}
	if op != "tableCreate" && op != "tableClose" {
		return
	}
	fam := filepath.Base(filepath.Dir(path))
	f, ok := e.fams[fam]
	if !ok {
		return
	}
	switch {
	case e.inWriter && e.writerNest > 0:
		e.writerNest--
		kind := rapid.IntRange(0, 3).Draw(e.t, "nestedJobAtWriterSeam")
		if kind == 0 {
			return
		}
		e.inNestedJob = true
		if kind == 1 {
			e.logf("  nested@%s(%s): deleteObsolete %s", op, filepath.Base(path), fam)
			kv.VerifDeleteObsoleteFiles(f)
		} else {
			e.logf("  nested@%s(%s): compact %s", op, filepath.Base(path), fam)
			if _, err := kv.VerifCompactSync(f, kind == 2); err != nil {
				e.violation = fmt.Sprintf("nested compaction failed: %v", err)
			}
		}
		e.inNestedJob = false
		e.classes["job-nested-in-writer"]++
	case e.inJob && e.jobNest > 0:
		e.jobNest--
		if rapid.IntRange(0, 2).Draw(e.t, "nestedCleanupAtCompactionSeam") == 0 {
			return
		}
		e.inNestedJob = true
		e.logf("  nested@%s(%s): deleteObsolete %s (inside a running job)", op, filepath.Base(path), fam)
		kv.VerifDeleteObsoleteFiles(f)
		e.inNestedJob = false
		e.classes["cleanup-nested-in-compaction"]++
	}
}

// manifestHook: the seam right before a job commits its edit log (outputs are finished, not yet
// part of any version). The commit holds the version-set mutex, which the obsolete-file pass never takes.
func (e *env) manifestHook(op, _ string, before bool) {
	if !before || op != "manifestWrite" || !e.inJob || e.inNestedJob || e.jobFam == "" || e.violation != "" {
		return
	}
	if rapid.IntRange(0, 1).Draw(e.t, "nestedCleanupBeforeCommit") == 0 {
		return
	}
	f, ok := e.fams[e.jobFam]
	if !ok {
		return
	}
	e.inNestedJob = true
	e.logf("  nested@before-commit: deleteObsolete %s (inside a running job)", e.jobFam)
	kv.VerifDeleteObsoleteFiles(f)
	e.inNestedJob = false
	e.classes["cleanup-nested-before-commit"]++
}

func (e *env) unmapHook(path string) {
	name := filepath.Base(path)
	fam := filepath.Base(filepath.Dir(path))
	for _, h := range e.held {
		if h.fam == fam && h.readers[name] {
			e.violation = fmt.Sprintf("table %s of family %s is unmapped while open snapshot #%d holds a reader of it", name, fam, h.id)
		}
	}
}

// nested runs reader operations re-entrantly at a seam inside a compaction / cleanup job.
// Only reader operations are allowed here: they take the family-version read lock and the
// cache mutex, neither of which is held by deleteObsoleteFiles at its seams.
func (e *env) nested(where string) {
	if !e.inJob || e.nestBudg <= 0 || e.violation != "" {
		return
	}
	e.nestBudg--
	n := rapid.IntRange(0, 2).Draw(e.t, "nestedOps")
	for i := 0; i < n; i++ {
		switch rapid.IntRange(0, 3).Draw(e.t, "nestedKind") {
		case 0:
			e.opTakeSnapshot("nested@" + where)
		case 1, 2:
			if len(e.held) > 0 {
				e.opReadSnapshot(rapid.IntRange(0, len(e.held)-1).Draw(e.t, "nestedSnap"), "nested@"+where)
			}
		case 3:
			if len(e.held) > 0 {
				e.opCloseSnapshot(rapid.IntRange(0, len(e.held)-1).Draw(e.t, "nestedSnap"), "nested@"+where)
			}
		}
		e.classes["nested-reader-op"]++
	}
}

// ---- operations ------------------------------------------------------------------------------

func (e *env) pickFamily() string {
	return rapid.SampledFrom(e.famNames).Draw(e.t, "family")
}

func genKeys(t *rapid.T, max int) []uint32 {
	n := rapid.IntRange(1, max).Draw(t, "nKeys")
	set := map[uint32]bool{}
	for i := 0; i < n; i++ {
		set[rapid.SampledFrom(universe).Draw(t, "key")] = true
	}
	keys := make([]uint32, 0, len(set))
	for k := range set {
		keys = append(keys, k)
	}
	sort.Slice(keys, func(i, j int) bool { return keys[i] < keys[j] })
	return keys
}

func (e *env) opFlush() {
	fam := e.pickFamily()
	keys := genKeys(e.t, 8)
	e.atom++
	atom := e.atom
	e.logf("flush %s keys=%v atom=%d", fam, keys, atom)
	e.inWriter, e.writerNest = true, 2
	defer func() { e.inWriter = false }()
	fl := e.fams[fam].NewFlusher()
	for _, k := range keys {
		if err := fl.Add(k, kvsim.Encode(map[uint32]bool{atom: true})); err != nil {
			fl.Release()
			e.fatalf("flush add: %v", err)
		}
	}
	err := fl.Commit()
	fl.Release()
	if err != nil {
		e.fatalf("flush commit: %v", err)
	}
	for _, k := range keys {
		e.model[fam].AddAtom(k, atom)
	}
	for _, h := range e.held {
		if h.fam == fam {
			h.flushes++
		}
	}
}

// opBeginWriter starts a writer and leaves it unfinished (its table is a pending output).
func (e *env) opBeginWriter() {
	if e.pendingFl != nil {
		e.t.Skip("writer already open")
	}
	fam := e.pickFamily()
	keys := genKeys(e.t, 5)
	e.atom++
	e.logf("beginWriter %s keys=%v atom=%d", fam, keys, e.atom)
	e.inWriter, e.writerNest = true, 2
	defer func() { e.inWriter = false }()
	fl := e.fams[fam].NewFlusher()
	for _, k := range keys {
		if err := fl.Add(k, kvsim.Encode(map[uint32]bool{e.atom: true})); err != nil {
			fl.Release()
			e.fatalf("writer add: %v", err)
		}
	}
	e.pendingFl, e.pendingFm, e.pendingKs, e.pendingAt = fl, fam, keys, e.atom
}

func (e *env) opFinishWriter() {
	if e.pendingFl == nil {
		e.t.Skip("no open writer")
	}
	e.logf("finishWriter %s", e.pendingFm)
	err := e.pendingFl.Commit()
	e.pendingFl.Release()
	if err != nil {
		e.fatalf("writer commit (its table must have survived every cleanup): %v", err)
	}
	for _, k := range e.pendingKs {
		e.model[e.pendingFm].AddAtom(k, e.pendingAt)
	}
	for _, h := range e.held {
		if h.fam == e.pendingFm {
			h.flushes++
		}
	}
	e.classes["writer-finished-after-jobs"]++
	e.pendingFl = nil
}

func (e *env) runJob(name string, fn func()) {
	e.inJob, e.nestBudg, e.jobNest, e.flushNest = true, 4, 4, 1
	fn()
	e.inJob = false
	if e.violation != "" {
		e.fatalf("%s: %s", name, e.violation)
	}
}

func (e *env) opCompact() {
	fam := e.pickFamily()
	force := rapid.Bool().Draw(e.t, "force")
	e.logf("compact %s force=%v", fam, force)
	var ran bool
	var err error
	e.jobFam = fam
	e.runJob("compact", func() { ran, err = kv.VerifCompactSync(e.fams[fam], force) })
	e.jobFam = ""
	if err != nil {
		e.fatalf("compaction failed: %v", err)
	}
	if ran {
		e.classes["compaction-ran"]++
		for _, h := range e.held {
			if h.fam == fam {
				h.compacts++
				h.cleanups++ // every compaction job ends with an obsolete-file pass
			}
		}
	}
}

func (e *env) opDeleteObsolete() {
	fam := e.pickFamily()
	e.logf("deleteObsolete %s", fam)
	e.runJob("deleteObsolete", func() { kv.VerifDeleteObsoleteFiles(e.fams[fam]) })
	for _, h := range e.held {
		if h.fam == fam {
			h.cleanups++
		}
	}
}

func (e *env) opCacheCleanup() {
	e.logf("cacheCleanup")
	time.Sleep(2 * time.Millisecond) // entries idle for > TTL(=1ns, compared in ms) become evictable
	e.runJob("cacheCleanup", func() { kv.VerifCacheCleanup(e.store) })
	for _, h := range e.held {
		h.cleanups++
	}
	e.classes["cache-cleanup"]++
}

func (e *env) opTakeSnapshot(why string) {
	if len(e.held) >= 5 {
		return
	}
	fam := e.pickFamily()
	snap := e.fams[fam].GetSnapshot()
	e.snapSeq++
	h := &heldSnap{id: e.snapSeq, fam: fam, snap: snap, content: e.model[fam].Clone(), files: map[int64]bool{}, readers: map[string]bool{}, takenAtOp: len(e.ops)}
	for _, fm := range snap.GetCurrent().GetAllFiles() {
		h.files[fm.GetFileNumber().Int64()] = true
	}
	e.held = append(e.held, h)
	e.logf("snapshot #%d of %s (%s) files=%v", h.id, fam, why, keysOfInt(h.files))
}

func keysOfInt(m map[int64]bool) []int64 {
	out := make([]int64, 0, len(m))
	for k := range m {
		out = append(out, k)
	}
	sort.Slice(out, func(i, j int) bool { return out[i] < out[j] })
	return out
}

func (e *env) opReadSnapshot(i int, why string) {
	h := e.held[i]
	h.reads++
	kind := rapid.IntRange(0, 2).Draw(e.t, "readKind")
	e.logf("read snapshot #%d kind=%d (%s)", h.id, kind, why)
	switch kind {
	case 0: // complete read, two ways (Load + scan of every file through GetReader)
		got, err := kvsim.ReadSnapshot(h.snap, universe)
		for f := range h.files {
			h.readers[version.Table(table.FileNumber(f))] = true
		}
		if err != nil {
			e.fatalf("snapshot #%d of %s (taken at op %d): %v", h.id, h.fam, h.takenAtOp, err)
		}
		if !h.content.Equal(got) {
			e.fatalf("snapshot #%d of %s (taken at op %d) no longer shows the content at acquisition:%s", h.id, h.fam, h.takenAtOp, kvsim.Diff(h.content, got))
		}
	case 1: // point reads through FindReaders + Get
		for j := 0; j < 3; j++ {
			k := rapid.SampledFrom(universe).Draw(e.t, "probe")
			readers, err := h.snap.FindReaders(k)
			if err != nil {
				e.fatalf("snapshot #%d FindReaders(%d): %v", h.id, k, err)
			}
			got := map[uint32]bool{}
			for _, r := range readers {
				h.readers[r.FileName()] = true
				v, err := r.Get(k)
				if err == table.ErrKeyNotExist {
					continue
				}
				if err != nil {
					e.fatalf("snapshot #%d Get(%d) on %s: %v", h.id, k, r.FileName(), err)
				}
				atoms, err := kvsim.Decode(v)
				if err != nil {
					e.fatalf("snapshot #%d key %d in %s: %v", h.id, k, r.FileName(), err)
				}
				for _, a := range atoms {
					got[a] = true
				}
			}
			want := h.content[k]
			if len(want) != len(got) {
				e.fatalf("snapshot #%d of %s key %d: atoms %v, at acquisition %v", h.id, h.fam, k, got, want)
			}
			for a := range want {
				if !got[a] {
					e.fatalf("snapshot #%d of %s key %d lacks atom %d", h.id, h.fam, k, a)
				}
			}
		}
	case 2: // Load of a few keys
		for j := 0; j < 3; j++ {
			k := rapid.SampledFrom(universe).Draw(e.t, "probe")
			got := map[uint32]bool{}
			err := h.snap.Load(k, func(v []byte) error {
				atoms, err := kvsim.Decode(v)
				for _, a := range atoms {
					got[a] = true
				}
				return err
			})
			if err != nil {
				e.fatalf("snapshot #%d Load(%d): %v", h.id, k, err)
			}
			want := h.content[k]
			if len(want) != len(got) {
				e.fatalf("snapshot #%d of %s key %d: Load sees atoms %v, at acquisition %v", h.id, h.fam, k, got, want)
			}
			for a := range want {
				if !got[a] {
					e.fatalf("snapshot #%d of %s key %d lacks atom %d", h.id, h.fam, k, a)
				}
			}
		}
	}
	if h.compacts > 0 && h.cleanups > 0 {
		e.classes["read-after-compaction-and-cleanup"]++
	}
}

func (e *env) opCloseSnapshot(i int, why string) {
	h := e.held[i]
	e.logf("close snapshot #%d (%s)", h.id, why)
	if h.compacts > 0 && h.cleanups > 0 && h.reads > 0 {
		e.ntSnaps++
	}
	h.snap.Close()
	e.held = append(e.held[:i], e.held[i+1:]...)
}

func (e *env) opReopen() {
	if e.pendingFl != nil {
		e.t.Skip("writer open")
	}
	for len(e.held) > 0 {
		e.opCloseSnapshot(0, "before reopen")
	}
	e.logf("reopen")
	if err := kv.GetStoreManager().CloseStore(e.storePath); err != nil {
		e.fatalf("close: %v", err)
	}
	e.open()
}

func (e *env) open() {
	s, err := kv.GetStoreManager().CreateStore(e.storePath, e.opt)
	if err != nil {
		e.fatalf("open store: %v", err)
	}
	e.store = s
	for _, n := range e.famNames {
		f, err := s.CreateFamily(n, e.famOpt)
		if err != nil {
			e.fatalf("create family: %v", err)
		}
		e.fams[n] = f
	}
}

func (e *env) checkCurrent() {
	if e.violation != "" {
		e.fatalf("%s", e.violation)
	}
	// a reader that starts now sees every commit that completed before
	for _, n := range e.famNames {
		got, err := kvsim.ReadFamily(e.fams[n], universe)
		if err != nil {
			e.fatalf("family %s: %v", n, err)
		}
		if !e.model[n].Equal(got) {
			e.fatalf("a reader starting now does not see all completed commits of %s:%s", n, kvsim.Diff(e.model[n], got))
		}
	}
}

func TestSnapshotStability(t *testing.T) {
	rapid.Check(t, func(t *rapid.T) {
		kvsim.Register()
		dir, err := os.MkdirTemp("", "c02-")
		if err != nil {
			t.Fatalf("harness: %v", err)
		}
		e := &env{t: t, dir: dir, storePath: filepath.Join(dir, "store"), fams: map[string]kv.Family{},
			model: map[string]kvsim.Content{}, classes: map[string]int{}}
		e.opt = kv.StoreOption{Levels: rapid.IntRange(2, 3).Draw(t, "levels"), TTL: ltoml.Duration(time.Nanosecond)}
		e.famOpt = kv.FamilyOption{
			Merger:           kvsim.MergerName,
			CompactThreshold: rapid.SampledFrom([]int{0, 1, 2, 3}).Draw(t, "compactThreshold"),
			MaxFileSize:      rapid.SampledFrom([]uint32{0, 8, 24, 1 << 20}).Draw(t, "maxFileSize"),
		}
		nf := rapid.IntRange(1, 2).Draw(t, "families")
		for i := 0; i < nf; i++ {
			n := fmt.Sprintf("f%d", i)
			e.famNames = append(e.famNames, n)
			e.model[n] = kvsim.Content{}
		}
		kv.VerifSetFSHook(e.fsHook)
		table.VerifSetFSHook(e.tableHook)
		version.VerifSetFSHook(e.manifestHook)
		table.VerifSetUnmapHook(e.unmapHook)
		defer func() {
			kv.VerifSetFSHook(nil)
			table.VerifSetFSHook(nil)
			version.VerifSetFSHook(nil)
			table.VerifSetUnmapHook(nil)
			e.inJob = false
			if e.pendingFl != nil {
				e.pendingFl.Release()
			}
			for _, h := range e.held {
				h.snap.Close()
			}
			e.held = nil
			_ = kv.GetStoreManager().CloseStore(e.storePath)
			_ = os.RemoveAll(dir)
		}()
		e.open()

		t.Repeat(map[string]func(*rapid.T){
			"flush":          func(t *rapid.T) { e.t = t; e.opFlush() },
			"flush2":         func(t *rapid.T) { e.t = t; e.opFlush() },
			"beginWriter":    func(t *rapid.T) { e.t = t; e.opBeginWriter() },
			"finishWriter":   func(t *rapid.T) { e.t = t; e.opFinishWriter() },
			"compact":        func(t *rapid.T) { e.t = t; e.opCompact() },
			"compact2":       func(t *rapid.T) { e.t = t; e.opCompact() },
			"deleteObsolete": func(t *rapid.T) { e.t = t; e.opDeleteObsolete() },
			"cacheCleanup":   func(t *rapid.T) { e.t = t; e.opCacheCleanup() },
			"snapshot":       func(t *rapid.T) { e.t = t; e.opTakeSnapshot("top") },
			"read": func(t *rapid.T) {
				e.t = t
				if len(e.held) == 0 {
					t.Skip("no snapshot")
				}
				e.opReadSnapshot(rapid.IntRange(0, len(e.held)-1).Draw(t, "snap"), "top")
			},
			"close": func(t *rapid.T) {
				e.t = t
				if len(e.held) == 0 {
					t.Skip("no snapshot")
				}
				e.opCloseSnapshot(rapid.IntRange(0, len(e.held)-1).Draw(t, "snap"), "top")
			},
			"reopen": func(t *rapid.T) {
				e.t = t
				if rapid.IntRange(0, 3).Draw(t, "reopenGate") != 0 {
					t.Skip("reopen throttled")
				}
				e.opReopen()
			},
			"": func(t *rapid.T) { e.t = t; e.checkCurrent() },
		})
		e.t = t
		// final: every held snapshot is read once more in full, then closed
		for len(e.held) > 0 {
			h := e.held[0]
			got, err := kvsim.ReadSnapshot(h.snap, universe)
			if err != nil {
				e.fatalf("final read of snapshot #%d: %v", h.id, err)
			}
			if !h.content.Equal(got) {
				e.fatalf("final read: snapshot #%d of %s changed:%s", h.id, h.fam, kvsim.Diff(h.content, got))
			}
			h.reads++
			e.opCloseSnapshot(0, "final")
		}
		if e.pendingFl != nil {
			e.opFinishWriter()
		}
		e.checkCurrent()
		for c, n := range e.classes {
			ev.Class("TestSnapshotStability", c, n)
		}
		ev.Case("TestSnapshotStability", fmt.Sprintf("%v|%v|%v", e.opt.Levels, e.famOpt, e.ops), e.ntSnaps > 0, nil,
			map[string]any{"levels": e.opt.Levels, "compactThreshold": e.famOpt.CompactThreshold, "maxFileSize": e.famOpt.MaxFileSize,
				"snapshots_held_across_compaction_and_cleanup": e.ntSnaps, "history": e.ops})
	})
}

// ---- unsystematic variant on real goroutines (schedule owned by the Go scheduler) ---------------
//
// One writer commits flushes 1..N in order; flush i writes atom i to the keys keysOfFlush(i).
// Readers take snapshots concurrently. Oracle per snapshot: it shows exactly the atoms 1..m for
// one m (prefix-closed), with started-before <= m <= finished-after, and re-reading it later gives
// the same m. Compactor and cleaners run all the time. Failures are reported with the history.

func keysOfFlush(i int) []uint32 {
	ks := []uint32{uint32(i % 7), uint32(7 + i%5), 65536 + uint32(i%3)}
	sort.Slice(ks, func(a, b int) bool { return ks[a] < ks[b] })
	return ks
}

func contentUpTo(m int) kvsim.Content {
	c := kvsim.Content{}
	for i := 1; i <= m; i++ {
		for _, k := range keysOfFlush(i) {
			c.AddAtom(k, uint32(i))
		}
	}
	return c
}

func prefixOf(c kvsim.Content) (int, bool) {
	max := 0
	for _, s := range c {
		for a := range s {
			if int(a) > max {
				max = int(a)
			}
		}
	}
	return max, contentUpTo(max).Equal(c)
}

func TestConcurrentStress(t *testing.T) {
	kvsim.Register()
	rounds := 6
	flushes := 60
	if os.Getenv("VERIF_TIER") == "thorough" {
		rounds, flushes = 40, 150
	}
	probe := []uint32{0, 1, 2, 3, 4, 5, 6, 7, 8, 9, 10, 11, 65536, 65537, 65538}
	for round := 0; round < rounds; round++ {
		dir, err := os.MkdirTemp("", "c02s-")
		if err != nil {
			t.Fatal(err)
		}
		path := filepath.Join(dir, "store")
		s, err := kv.GetStoreManager().CreateStore(path, kv.StoreOption{Levels: 2, TTL: ltoml.Duration(time.Nanosecond)})
		if err != nil {
			t.Fatal(err)
		}
		f, err := s.CreateFamily("f", kv.FamilyOption{Merger: kvsim.MergerName, CompactThreshold: 2, MaxFileSize: []uint32{0, 16, 64}[round%3]})
		if err != nil {
			t.Fatal(err)
		}
		var committed, started atomic.Int64
		var failMu sync.Mutex
		var failure string
		fail := func(format string, args ...any) {
			failMu.Lock()
			if failure == "" {
				failure = fmt.Sprintf(format, args...)
			}
			failMu.Unlock()
		}
		done := make(chan struct{})
		var wg sync.WaitGroup
		var snapsChecked, snapsAcross atomic.Int64
		wg.Add(1)
		go func() { // writer
			defer wg.Done()
			defer close(done)
			for i := 1; i <= flushes; i++ {
				fl := f.NewFlusher()
				for _, k := range keysOfFlush(i) {
					if err := fl.Add(k, kvsim.Encode(map[uint32]bool{uint32(i): true})); err != nil {
						fail("flush %d add: %v", i, err)
					}
				}
				started.Store(int64(i))
				err := fl.Commit()
				fl.Release()
				if err != nil {
					fail("flush %d commit: %v", i, err)
					return
				}
				committed.Store(int64(i))
			}
		}()
		wg.Add(1)
		go func() { // compactor + cleaner
			defer wg.Done()
			for {
				select {
				case <-done:
					return
				default:
				}
				if _, err := kv.VerifCompactSync(f, true); err != nil {
					fail("compaction: %v", err)
					return
				}
				kv.VerifCacheCleanup(s)
			}
		}()
		for r := 0; r < 3; r++ {
			wg.Add(1)
			go func() { // reader
				defer wg.Done()
				for {
					select {
					case <-done:
						return
					default:
					}
					lo := committed.Load()
					snap := f.GetSnapshot()
					hi := started.Load()
					first, err := kvsim.ReadSnapshot(snap, probe)
					if err != nil {
						fail("snapshot read: %v", err)
						snap.Close()
						return
					}
					m, ok := prefixOf(first)
					if !ok {
						fail("snapshot is not a prefix of the commit order: %s", first)
					} else if int64(m) < lo || int64(m) > hi {
						fail("snapshot shows commits 1..%d, but %d commits had completed before it was taken and %d had started when it returned", m, lo, hi)
					}
					c0 := committed.Load()
					// hold it for a while, read again
					for j := 0; j < 3; j++ {
						again, err := kvsim.ReadSnapshot(snap, probe)
						if err != nil {
							fail("re-read of held snapshot (commits 1..%d): %v", m, err)
							break
						}
						if !first.Equal(again) {
							fail("held snapshot changed: first %s, later %s", first, again)
							break
						}
					}
					if committed.Load() > c0 {
						snapsAcross.Add(1)
					}
					snapsChecked.Add(1)
					snap.Close()
				}
			}()
		}
		wg.Wait()
		// final state
		final, err := kvsim.ReadFamily(f, probe)
		if err != nil {
			fail("final read: %v", err)
		} else if !contentUpTo(flushes).Equal(final) {
			fail("final content differs:%s", kvsim.Diff(contentUpTo(flushes), final))
		}
		_ = kv.GetStoreManager().CloseStore(path)
		_ = os.RemoveAll(dir)
		ev.Case("TestConcurrentStress", fmt.Sprintf("round-%d-%d", round, snapsChecked.Load()), snapsAcross.Load() > 0, nil,
			map[string]any{"round": round, "flushes": flushes, "snapshots_checked": snapsChecked.Load(), "snapshots_held_across_commit": snapsAcross.Load()})
		ev.Class("TestConcurrentStress", "snapshots-checked", int(snapsChecked.Load()))
		ev.Class("TestConcurrentStress", "snapshots-held-across-commit", int(snapsAcross.Load()))
		if failure != "" {
			t.Fatalf("round %d (maxFileSize %d): %s", round, []uint32{0, 16, 64}[round%3], failure)
		}
	}
}
