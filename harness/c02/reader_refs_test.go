package c02

// reader_refs_test.go: TestReaderReferences - the bookkeeping of reader references on the cached table
// files, in the two directions the other histories of this package do not reach:
//
//   - I/O faults inside a lookup: Snapshot.FindReaders / GetReader / Load of a snapshot that shares table
//     files with other open snapshots while the open (EMFILE/EIO) or the mmap (ENOMEM) of a cold table file
//     of that lookup fails (table.VerifSetOpenHookWithFaults; 1-3 failing attempts, optional successful
//     retry), then close + TTL + reader-cache cleanup in any order with the other operations;
//   - reference volume: one snapshot, several snapshots or many Snapshot.Load calls take very many
//     references on ONE cached table file (bulk operation: brings the number of references the harness knows
//     of to a drawn boundary 2^8, 2^15, 2^16, 2^17, 3*2^16 -1/+0/+1 ...), usually followed at once by TTL +
//     cleanup, then partial closes and further cleanups.
//
// Load profile of a history: never | only in lookups with an injected fault | everywhere (Snapshot.Load never gives
// its references back, and the cleanup walk stops at the first referenced entry, so Loads hide later evictions).
// The order in which lindb looks up the files of one level is a map iteration: no draw of this file depends on it.
//
// Oracle (independent of the cache's counters): the unmap monitor - a mapping (identified by the open file
// behind it) that is closed must not be the mapping of a reader that an open snapshot of this history was
// handed by a successful call; every such reader keeps returning the bytes it returned for its probe key
// when it was handed out; a successful FindReaders(k) returns the content of k at acquisition. Progress:
// in histories without Snapshot.Load, after every snapshot is closed, TTL + cleanup leaves no mapping.

import (
	"bytes"
	"fmt"
	"os"
	"path/filepath"
	"runtime/debug"
	"sort"
	"strings"
	"syscall"
	"testing"
	"time"

	"github.com/lindb/common/pkg/ltoml"
	"pgregory.net/rapid"

	"github.com/lindb/lindb/kv"
	"github.com/lindb/lindb/kv/table"
	"github.com/lindb/lindb/kv/version"
	"github.com/lindb/lindb/verifharness/sim/ev"
	"github.com/lindb/lindb/verifharness/sim/kvsim"
)

var refKeys = []uint32{1, 2, 3, 4, 5, 6}

// refTargets are the reference counts a bulk operation aims at (boundaries of narrow counters).
var refTargets = []int{255, 256, 257, 32767, 32768, 32769, 65535, 65536, 65536, 65536, 65537, 131071, 131072, 131072, 131073, 196608}

type refGot struct {
	r    table.Reader
	f    *os.File
	name string
	key  uint32
	want []byte
	miss bool
}

type refSnap struct {
	id      int
	snap    version.Snapshot
	content kvsim.Content
	got     map[*os.File]*refGot // mappings of the readers successful calls handed to this snapshot
	refs    map[string]int       // table file name => references this snapshot took through successful FindReaders/GetReader calls
	failed  int                  // lookups of this snapshot that failed by an injected fault
	shared  bool                 // a failed lookup covered a cached file of which another open snapshot holds a reader
}

type refEnv struct {
	t         *rapid.T
	storePath string
	store     kv.Store
	fam       kv.Family
	model     kvsim.Content
	held      []*refSnap
	seq       int
	atom      uint32
	ops       []string
	classes   map[string]int
	known     map[string]int // table file name => outstanding references the harness knows of (successful calls of open snapshots + Loads)
	loaded    bool           // some Snapshot.Load ran (its references are never given back)
	noLoad    bool
	rareLoad  bool // Load only in lookups with an injected fault (its references are never given back and block the cleanup walk)
	mapped    map[string]int
	armed     string // "", tableOpen, tableMap: the operation that fails while a faulted lookup runs
	armedErr  error
	injected  map[string]bool
	hits      int
	violation string
	maxKnown  int  // largest number of known references on one file seen at a cleanup while a holder was open
	faultSeq  bool // failed shared lookup -> close of that snapshot -> cleanup with the sharer open happened
	closedSh  bool
	bulkRefs  int // references taken by bulk operations in this history
}

func (e *refEnv) logf(format string, args ...any) {
	e.ops = append(e.ops, fmt.Sprintf(format, args...))
}

func (e *refEnv) fatalf(format string, args ...any) {
	e.t.Helper()
	e.t.Fatalf("%s\nhistory:\n  %s", fmt.Sprintf(format, args...), strings.Join(e.ops, "\n  "))
}

func (e *refEnv) openHook(op, path string, before bool) {
	if !before && op == "tableMap" {
		if e.injected[path] {
			delete(e.injected, path)
			return
		}
		e.mapped[filepath.Base(path)]++
	}
}

func (e *refEnv) fault(op, path string) error {
	if e.armed == "" || op != e.armed {
		return nil
	}
	e.hits++
	if op == "tableMap" {
		e.injected[path] = true
	}
	return &os.PathError{Op: map[string]string{"tableOpen": "open", "tableMap": "mmap"}[op], Path: path, Err: e.armedErr}
}

func (e *refEnv) unmapHook(path string, f *os.File) {
	name := filepath.Base(path)
	e.mapped[name]--
	e.known[name] = 0
	if e.loaded {
		// references of Loads die with the mapping
		e.classes["mapping-with-load-references-closed"]++
	}
	for _, h := range e.held {
		if g, ok := h.got[f]; ok {
			e.violation = fmt.Sprintf("table %s is unmapped while open snapshot #%d holds a reader of it (got by a successful call, probe key %d; the snapshot took %d references on that file)",
				name, h.id, g.key, h.refs[name])
		}
	}
}

func (e *refEnv) covering(s *refSnap, key uint32) []*version.FileMeta {
	return s.snap.GetCurrent().FindFiles(key)
}

// note registers the readers a successful call handed to s.
func (e *refEnv) note(s *refSnap, key uint32, readers []table.Reader) {
	for _, r := range readers {
		s.refs[r.FileName()]++
		e.known[r.FileName()]++
		f := table.VerifReaderFile(r)
		if f == nil {
			e.fatalf("harness: reader of %s is not a mapped reader", r.FileName())
		}
		if _, ok := s.got[f]; ok {
			continue
		}
		v, err := r.Get(key)
		g := &refGot{r: r, f: f, name: r.FileName(), key: key}
		if err == table.ErrKeyNotExist {
			g.miss = true
		} else if err != nil {
			e.fatalf("Get(%d) on %s handed to snapshot #%d: %v", key, r.FileName(), s.id, err)
		} else {
			g.want = append([]byte(nil), v...)
		}
		s.got[f] = g
	}
}

func (e *refEnv) verify(when string) {
	if e.violation != "" {
		e.fatalf("%s: %s", when, e.violation)
	}
	for _, h := range e.held {
		for _, g := range h.got {
			v, err := g.r.Get(g.key)
			switch {
			case g.miss && err == table.ErrKeyNotExist:
			case g.miss || err != nil:
				e.fatalf("%s: reader of %s held by open snapshot #%d: Get(%d) = %x, %v; when handed out: miss=%v %x", when, g.name, h.id, g.key, v, err, g.miss, g.want)
			case !bytes.Equal(v, g.want):
				e.fatalf("%s: reader of %s held by open snapshot #%d: Get(%d) = %x, was %x when handed out", when, g.name, h.id, g.key, v, g.want)
			}
		}
	}
}

func (e *refEnv) opFlush() {
	n := rapid.IntRange(1, 3).Draw(e.t, "nKeys")
	set := map[uint32]bool{}
	for i := 0; i < n; i++ {
		set[rapid.SampledFrom(refKeys).Draw(e.t, "key")] = true
	}
	var keys []uint32
	for k := range set {
		keys = append(keys, k)
	}
	sort.Slice(keys, func(i, j int) bool { return keys[i] < keys[j] })
	e.flushKeys(keys)
}

func (e *refEnv) flushKeys(keys []uint32) {
	e.atom++
	e.logf("flush keys=%v atom=%d", keys, e.atom)
	fl := e.fam.NewFlusher()
	defer fl.Release()
	for _, k := range keys {
		if err := fl.Add(k, kvsim.Encode(map[uint32]bool{e.atom: true})); err != nil {
			e.fatalf("flush add: %v", err)
		}
	}
	if err := fl.Commit(); err != nil {
		e.fatalf("flush commit: %v", err)
	}
	for _, k := range keys {
		e.model.AddAtom(k, e.atom)
	}
}

func (e *refEnv) opCompact() {
	ran, err := kv.VerifCompactSync(e.fam, true)
	e.logf("compact ran=%v", ran)
	if err != nil {
		e.fatalf("compaction failed: %v", err)
	}
	if ran {
		e.classes["compaction-ran"]++
	}
	e.verify("after a compaction")
}

func (e *refEnv) opSnapshot() *refSnap {
	if len(e.held) >= 4 {
		return nil
	}
	e.seq++
	s := &refSnap{id: e.seq, snap: e.fam.GetSnapshot(), content: e.model.Clone(), got: map[*os.File]*refGot{}, refs: map[string]int{}}
	e.held = append(e.held, s)
	var files []string
	for _, fm := range s.snap.GetCurrent().GetAllFiles() {
		files = append(files, version.Table(fm.GetFileNumber()))
	}
	sort.Strings(files)
	e.logf("snapshot #%d files=%v", s.id, files)
	return s
}

func (e *refEnv) pickSnap() *refSnap {
	if len(e.held) == 0 {
		return e.opSnapshot()
	}
	return e.held[rapid.IntRange(0, len(e.held)-1).Draw(e.t, "snap")]
}

// lookupOnce runs one lookup of kind how; readers the snapshot was handed are registered.
func (e *refEnv) lookupOnce(s *refSnap, how int, key uint32, fm *version.FileMeta) error {
	switch how {
	case 0:
		readers, err := s.snap.FindReaders(key)
		if err != nil {
			if readers != nil {
				e.fatalf("FindReaders(%d) of snapshot #%d returned readers together with %v", key, s.id, err)
			}
			return err
		}
		e.note(s, key, readers)
		// content of the key at acquisition
		got := map[uint32]bool{}
		for _, r := range readers {
			v, err := r.Get(key)
			if err == table.ErrKeyNotExist {
				continue
			}
			if err != nil {
				e.fatalf("Get(%d) on %s: %v", key, r.FileName(), err)
			}
			atoms, err := kvsim.Decode(v)
			if err != nil {
				e.fatalf("key %d in %s: %v", key, r.FileName(), err)
			}
			for _, a := range atoms {
				got[a] = true
			}
		}
		if fmt.Sprint(keysOfSet(got)) != fmt.Sprint(keysOfSet(s.content[key])) {
			e.fatalf("snapshot #%d: FindReaders(%d) gives atoms %v, content at acquisition %v", s.id, key, keysOfSet(got), keysOfSet(s.content[key]))
		}
		return nil
	case 1:
		r, err := s.snap.GetReader(fm.GetFileNumber())
		if err != nil {
			return err
		}
		e.note(s, fm.GetMinKey(), []table.Reader{r})
		return nil
	default:
		got := map[uint32]bool{}
		files := e.covering(s, key)
		err := s.snap.Load(key, func(v []byte) error {
			atoms, err := kvsim.Decode(v)
			for _, a := range atoms {
				got[a] = true
			}
			return err
		})
		e.loaded = true
		if err != nil {
			return err
		}
		for _, f := range files {
			e.known[version.Table(f.GetFileNumber())]++
		}
		if fmt.Sprint(keysOfSet(got)) != fmt.Sprint(keysOfSet(s.content[key])) {
			e.fatalf("snapshot #%d: Load(%d) gives atoms %v, content at acquisition %v", s.id, key, keysOfSet(got), keysOfSet(s.content[key]))
		}
		return nil
	}
}

func keysOfSet(m map[uint32]bool) []uint32 {
	out := make([]uint32, 0, len(m))
	for k := range m {
		out = append(out, k)
	}
	sort.Slice(out, func(i, j int) bool { return out[i] < out[j] })
	return out
}

func (e *refEnv) drawHow(faulted bool) int {
	if e.noLoad || (e.rareLoad && !faulted) {
		return rapid.IntRange(0, 1).Draw(e.t, "how")
	}
	// Load twice as often as each of the others: histories with Load have no end-of-history mapping check,
	// so its error path is only seen through the unmap monitor
	return []int{0, 1, 2, 2}[rapid.IntRange(0, 3).Draw(e.t, "how")]
}

var howNames = []string{"FindReaders", "GetReader", "Load"}

// opLookup: one lookup of a held snapshot; in 1 of 2 cases the open or the mmap of cold table files fails
// for 1-3 attempts, optionally followed by a successful retry.
func (e *refEnv) opLookup() {
	s := e.pickSnap()
	if s == nil {
		return
	}
	faultKind := rapid.IntRange(0, 3).Draw(e.t, "fault") // 0,1 none; 2 open; 3 mmap
	how := e.drawHow(faultKind >= 2)
	key := rapid.SampledFrom(refKeys).Draw(e.t, "key")
	var fm *version.FileMeta
	if how == 1 {
		all := s.snap.GetCurrent().GetAllFiles()
		if len(all) == 0 {
			return
		}
		sort.Slice(all, func(i, j int) bool { return all[i].GetFileNumber() < all[j].GetFileNumber() })
		fm = all[rapid.IntRange(0, len(all)-1).Draw(e.t, "file")]
	}
	attempts := rapid.IntRange(1, 3).Draw(e.t, "attempts")
	retry := rapid.Bool().Draw(e.t, "retry")
	followUp := rapid.IntRange(0, 3).Draw(e.t, "followUp") // after a failed lookup: 0 nothing; 1 ttl + cleanup with the snapshot open; 2 close the snapshot; 3 close + ttl + cleanup
	warmUp := rapid.Bool().Draw(e.t, "warmUp")             // before a faulted lookup the snapshot looks up another key whose files are all cached
	if faultKind >= 2 {
		// a fault needs a cold table file: prefer (snapshot, key | file) with a cold file, and among those the ones
		// that also cover a cached file of which another open snapshot holds a reader
		type cand struct {
			s      *refSnap
			key    uint32
			fm     *version.FileMeta
			shared bool
		}
		var cands, sharedCands []cand
		if how != 1 && rapid.Bool().Draw(e.t, "newFileUnderReaders") {
			// a new table file arrives for a key of which an open snapshot holds readers, and a reader that starts now
			// (and so sees the cached files of the others plus the cold new one) is the one whose lookup fails
			var ks []uint32
			for _, k := range refKeys {
				for _, o := range e.held {
					for _, f := range e.covering(o, k) {
						if o.refs[version.Table(f.GetFileNumber())] > 0 && len(ks) < len(refKeys) && (len(ks) == 0 || ks[len(ks)-1] != k) {
							ks = append(ks, k)
						}
					}
				}
			}
			if len(ks) > 0 && len(e.held) < 4 {
				k := ks[rapid.IntRange(0, len(ks)-1).Draw(e.t, "sharedKey")]
				e.flushKeys([]uint32{k})
				e.opSnapshot()
				e.classes["new-file-under-readers-then-new-reader"]++
			}
		}
		for _, hs := range e.held {
			if how == 1 {
				all := hs.snap.GetCurrent().GetAllFiles()
				sort.Slice(all, func(i, j int) bool { return all[i].GetFileNumber() < all[j].GetFileNumber() })
				for _, f := range all {
					if e.mapped[version.Table(f.GetFileNumber())] == 0 {
						cands = append(cands, cand{s: hs, key: f.GetMinKey(), fm: f})
					}
				}
				continue
			}
			for _, k := range refKeys {
				cold, shared := false, false
				for _, f := range e.covering(hs, k) {
					name := version.Table(f.GetFileNumber())
					if e.mapped[name] == 0 {
						cold = true
						continue
					}
					for _, o := range e.held {
						if o != hs && o.refs[name] > 0 {
							shared = true
						}
					}
				}
				if cold {
					cands = append(cands, cand{s: hs, key: k, shared: shared})
					if shared {
						sharedCands = append(sharedCands, cand{s: hs, key: k, shared: true})
					}
				}
			}
		}
		var ownCands []cand
		for _, c := range cands {
			if len(c.s.refs) > 0 {
				ownCands = append(ownCands, c)
			}
		}
		switch prefer := rapid.IntRange(0, 3).Draw(e.t, "prefer"); {
		case prefer >= 2 && len(sharedCands) > 0:
			cands = sharedCands
		case prefer == 1 && len(ownCands) > 0:
			cands = ownCands // the snapshot whose lookup fails holds readers of earlier lookups itself
		}
		if len(cands) > 0 {
			c := cands[rapid.IntRange(0, len(cands)-1).Draw(e.t, "coldCandidate")]
			s, key = c.s, c.key
			if how == 1 {
				fm = c.fm
			}
			e.classes["faulted-lookup-aimed-at-cold-file"]++
			if warmUp {
				var ks []uint32
				for _, k := range refKeys {
					fs := e.covering(s, k)
					ok := k != key && len(fs) > 0
					for _, f := range fs {
						ok = ok && e.mapped[version.Table(f.GetFileNumber())] > 0
					}
					if ok {
						ks = append(ks, k)
					}
				}
				if len(ks) > 0 {
					k := ks[rapid.IntRange(0, len(ks)-1).Draw(e.t, "warmKey")]
					if err := e.lookupOnce(s, 0, k, nil); err != nil {
						e.fatalf("FindReaders(%d) of snapshot #%d failed without a fault: %v", k, s.id, err)
					}
					e.logf("lookup #%d FindReaders key=%d ok (before a faulted lookup)", s.id, k)
				}
			}
			if len(s.refs) > 0 {
				e.classes["faulted-lookup-by-snapshot-holding-readers-of-earlier-lookups"]++
			}
		}
	}
	if faultKind >= 2 {
		e.armed = []string{"tableOpen", "tableMap"}[faultKind-2]
		e.armedErr = []error{syscall.EMFILE, syscall.ENOMEM}[faultKind-2]
		for i := 0; i < attempts; i++ {
			hits := e.hits
			err := e.lookupOnce(s, how, key, fm)
			if e.hits == hits {
				// every file of the lookup was cached: nothing to fail
				if err != nil {
					e.armed = ""
					e.fatalf("%s of snapshot #%d failed without a fault: %v", howNames[how], s.id, err)
				}
				e.classes["faulted-lookup-all-files-cached"]++
				e.logf("lookup #%d %s key=%d (fault armed, all cached)", s.id, howNames[how], key)
				break
			}
			if err == nil {
				e.fatalf("%s of snapshot #%d succeeded although the %s of a table file failed", howNames[how], s.id, e.armed)
			}
			s.failed++
			e.classes["lookup-failed-by-"+e.armed+"-fault/"+howNames[how]]++
			e.logf("lookup #%d %s key=%d: %v", s.id, howNames[how], key, err)
			// a cached file covering the key of which another open snapshot holds a reader
			if how != 1 {
				for _, f := range e.covering(s, key) {
					name := version.Table(f.GetFileNumber())
					for _, o := range e.held {
						if o != s && o.refs[name] > 0 && e.mapped[name] > 0 {
							s.shared = true
						}
					}
				}
				if s.shared {
					e.classes["failed-lookup-covers-cached-file-shared-with-open-snapshot"]++
				}
			}
		}
		e.armed = ""
		e.verify("after a failed lookup")
		if retry {
			if err := e.lookupOnce(s, how, key, fm); err != nil {
				e.fatalf("%s of snapshot #%d failed without a fault: %v", howNames[how], s.id, err)
			}
			e.logf("lookup #%d %s key=%d ok (retry)", s.id, howNames[how], key)
		}
		if s.failed > 0 {
			switch followUp {
			case 1:
				if len(s.refs) > 0 {
					e.classes["cleanup-right-after-failed-lookup-of-snapshot-holding-readers"]++
				}
				e.opCleanup()
			case 2, 3:
				for i, h := range e.held {
					if h == s {
						e.closeAt(i)
						break
					}
				}
				if followUp == 3 {
					e.opCleanup()
				}
			}
		}
		return
	}
	if err := e.lookupOnce(s, how, key, fm); err != nil {
		e.fatalf("%s of snapshot #%d failed without a fault: %v", howNames[how], s.id, err)
	}
	e.classes["lookup/"+howNames[how]]++
	e.logf("lookup #%d %s key=%d ok", s.id, howNames[how], key)
}

// opBulk brings the references known on one table file to a drawn boundary.
func (e *refEnv) opBulk() {
	s := e.pickSnap()
	if s == nil {
		return
	}
	all := s.snap.GetCurrent().GetAllFiles()
	if len(all) == 0 {
		return
	}
	sort.Slice(all, func(i, j int) bool { return all[i].GetFileNumber() < all[j].GetFileNumber() })
	fm := all[rapid.IntRange(0, len(all)-1).Draw(e.t, "file")]
	name := version.Table(fm.GetFileNumber())
	target := rapid.SampledFrom(refTargets).Draw(e.t, "target")
	how := e.drawHow(false)
	holders := rapid.IntRange(1, 3).Draw(e.t, "holders")
	cleanupNow := rapid.IntRange(0, 3).Draw(e.t, "cleanupNow") > 0
	n := target - e.known[name]
	small := rapid.IntRange(1, 300).Draw(e.t, "n")
	if n <= 0 || e.bulkRefs+n > 200000 { // cost bound per history
		n = small
	}
	e.bulkRefs += n
	key := fm.GetMinKey()
	// the last references are taken by holders: snapshots that stay open with a reader of the file
	var hs []*refSnap
	hs = append(hs, s)
	for _, o := range e.held {
		if len(hs) < holders && o != s && o.snap.GetCurrent() == s.snap.GetCurrent() {
			hs = append(hs, o)
		}
	}
	if how == 2 && n > len(hs) {
		// many Loads (a transient reader), then the holders take one reference each
		tr := e.fam.GetSnapshot()
		files := tr.GetCurrent().FindFiles(key)
		has := false
		for _, f := range files {
			has = has || f.GetFileNumber() == fm.GetFileNumber()
		}
		if has {
			m := n - len(hs)
			for i := 0; i < m; i++ {
				if err := tr.Load(key, func([]byte) error { return nil }); err != nil {
					tr.Close()
					e.fatalf("Load(%d): %v", key, err)
				}
			}
			for _, f := range files {
				e.known[version.Table(f.GetFileNumber())] += m
			}
			e.loaded = true
			n = len(hs)
			e.classes["bulk-loads-by-transient-reader"]++
		}
		tr.Close()
	}
	e.logf("bulk %s on %s key=%d: %d references by %d holder(s) (#%d first), target %d", howNames[how], name, key, n, len(hs), s.id, target)
	for i, h := range hs {
		share := n / len(hs)
		if i == 0 {
			share += n % len(hs)
		}
		for j := 0; j < share; j++ {
			if how == 0 {
				readers, err := h.snap.FindReaders(key)
				if err != nil {
					e.fatalf("FindReaders(%d) of snapshot #%d: %v", key, h.id, err)
				}
				e.note(h, key, readers)
			} else {
				r, err := h.snap.GetReader(fm.GetFileNumber())
				if err != nil {
					e.fatalf("GetReader(%s) of snapshot #%d: %v", name, h.id, err)
				}
				e.note(h, key, []table.Reader{r})
			}
		}
	}
	e.classes["bulk"]++
	switch k := e.known[name]; {
	case k >= 1<<16 && k%(1<<16) == 0:
		e.classes["bulk-known-references-multiple-of-65536"]++
	case k >= 1<<16:
		e.classes["bulk-known-references->=65536"]++
	case k >= 1<<15:
		e.classes["bulk-known-references->=32768"]++
	}
	if len(hs) > 1 {
		e.classes["bulk-references-split-over-snapshots"]++
	}
	if cleanupNow {
		e.opCleanup()
	}
}

func (e *refEnv) opClose() {
	if len(e.held) == 0 {
		return
	}
	e.closeAt(rapid.IntRange(0, len(e.held)-1).Draw(e.t, "snap"))
}

func (e *refEnv) closeAt(i int) {
	s := e.held[i]
	e.logf("close #%d (refs %v, failed lookups %d)", s.id, s.refs, s.failed)
	e.held = append(e.held[:i], e.held[i+1:]...)
	s.snap.Close()
	for name, n := range s.refs {
		if e.known[name] >= n {
			e.known[name] -= n
		}
	}
	if s.shared && len(e.held) > 0 {
		e.closedSh = true
		e.classes["closed-snapshot-with-failed-shared-lookup-while-sharer-open"]++
	}
	e.verify("after a close")
}

func (e *refEnv) opCleanup() {
	e.logf("ttl + cacheCleanup")
	time.Sleep(2 * time.Millisecond) // entries idle for > TTL(=1ns, compared in ms) become evictable
	for _, h := range e.held {
		for name, n := range h.refs {
			if n > 0 && e.known[name] > e.maxKnown {
				e.maxKnown = e.known[name]
			}
			if n > 0 && e.known[name] >= 1<<16 && e.known[name]%(1<<16) == 0 {
				e.classes["cleanup-with-multiple-of-65536-references-on-held-file"]++
			}
		}
	}
	if e.closedSh && len(e.held) > 0 {
		e.faultSeq = true
		e.classes["cleanup-after-close-of-failed-shared-lookup"]++
	}
	kv.VerifCacheCleanup(e.store)
	e.classes["cache-cleanup"]++
	e.verify("after the cache cleanup")
}

func TestReaderReferences(t *testing.T) {
	rapid.Check(t, func(t *rapid.T) {
		defer debug.SetPanicOnFault(debug.SetPanicOnFault(true))
		kvsim.Register()
		dir, err := os.MkdirTemp("", "c02r-")
		if err != nil {
			t.Fatalf("harness: %v", err)
		}
		e := &refEnv{t: t, storePath: filepath.Join(dir, "store"), model: kvsim.Content{}, classes: map[string]int{},
			known: map[string]int{}, mapped: map[string]int{}, injected: map[string]bool{}}
		switch rapid.IntRange(0, 4).Draw(t, "loadProfile") {
		case 0, 1:
			e.noLoad = true
		case 2, 3:
			e.rareLoad = true
		}
		opt := kv.StoreOption{Levels: rapid.IntRange(2, 3).Draw(t, "levels"), TTL: ltoml.Duration(time.Nanosecond)}
		famOpt := kv.FamilyOption{Merger: kvsim.MergerName, CompactThreshold: 0, MaxFileSize: rapid.SampledFrom([]uint32{0, 1 << 20}).Draw(t, "maxFileSize")}
		table.VerifSetUnmapFileHook(e.unmapHook)
		table.VerifSetOpenHookWithFaults(e.openHook, e.fault)
		defer func() {
			for _, h := range e.held {
				h.snap.Close()
			}
			e.held = nil
			_ = kv.GetStoreManager().CloseStore(e.storePath)
			table.VerifSetUnmapFileHook(nil)
			table.VerifSetOpenHook(nil)
			_ = os.RemoveAll(dir)
		}()
		e.store, err = kv.GetStoreManager().CreateStore(e.storePath, opt)
		if err != nil {
			t.Fatalf("open store: %v", err)
		}
		e.fam, err = e.store.CreateFamily("f0", famOpt)
		if err != nil {
			t.Fatalf("create family: %v", err)
		}
		// every history starts with a few table files, some of them compacted into level 1
		for i, n := 0, rapid.IntRange(1, 3).Draw(t, "initialFlushes"); i < n; i++ {
			e.opFlush()
		}
		if rapid.Bool().Draw(t, "initialCompact") {
			e.opCompact()
			e.opFlush()
		}

		t.Repeat(map[string]func(*rapid.T){
			"flush":     func(t *rapid.T) { e.t = t; e.opFlush() },
			"compact":   func(t *rapid.T) { e.t = t; e.opCompact() },
			"snapshot":  func(t *rapid.T) { e.t = t; e.opSnapshot() },
			"snapshot2": func(t *rapid.T) { e.t = t; e.opSnapshot() },
			"lookup":    func(t *rapid.T) { e.t = t; e.opLookup() },
			"lookup2":   func(t *rapid.T) { e.t = t; e.opLookup() },
			"lookup3":   func(t *rapid.T) { e.t = t; e.opLookup() },
			"bulk":      func(t *rapid.T) { e.t = t; e.opBulk() },
			"close":     func(t *rapid.T) { e.t = t; e.opClose() },
			"cleanup":   func(t *rapid.T) { e.t = t; e.opCleanup() },
			"": func(t *rapid.T) {
				e.t = t
				if e.violation != "" {
					e.fatalf("%s", e.violation)
				}
			},
		})
		e.t = t
		// the readers finish one by one, a cleanup after each
		for len(e.held) > 0 {
			e.opClose()
			e.opCleanup()
		}
		e.opCleanup()
		if !e.loaded {
			var left []string
			for name, n := range e.mapped {
				if n != 0 {
					left = append(left, fmt.Sprintf("%s:%d", name, n))
				}
			}
			sort.Strings(left)
			if len(left) > 0 {
				e.fatalf("every snapshot is closed, no Snapshot.Load ran, TTL passed and the cache cleanup ran: table mappings left %v", left)
			}
			e.classes["end-no-mapping-left"]++
		}
		faults := 0
		for c, n := range e.classes {
			if strings.HasPrefix(c, "lookup-failed-by-") {
				faults += n
			}
		}
		nonTrivial := e.faultSeq || e.maxKnown >= 1<<15
		cls := make([]string, 0, len(e.classes)+2)
		for c := range e.classes {
			cls = append(cls, c)
		}
		if e.noLoad {
			cls = append(cls, "profile-no-load")
		} else if e.rareLoad {
			cls = append(cls, "profile-load-only-in-faulted-lookups")
		}
		if e.maxKnown >= 1<<16 {
			cls = append(cls, "cleanup-with->=65536-known-references-on-a-held-file")
		} else if e.maxKnown >= 1<<15 {
			cls = append(cls, "cleanup-with->=32768-known-references-on-a-held-file")
		}
		sort.Strings(cls)
		ev.Case("TestReaderReferences", strings.Join(e.ops, ";"), nonTrivial, cls,
			map[string]any{"ops": len(e.ops), "faultedLookups": faults, "maxKnownRefsAtCleanup": e.maxKnown})
	})
}
