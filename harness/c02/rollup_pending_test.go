package c02

// "No file that ... a pending rollup still needs is ever deleted": histories over a source store that is
// rolled up into TWO target intervals (5m -> month store, 1h -> year store; store and family names laid out
// as tsdb does). Each target store is open or closed at generated times; a rollup job only reaches the
// targets that are open, so a table file can be rolled up for one interval while its rollup into the other
// one is still pending. Operations: flush, rollup job (production family.rollup on its own goroutine,
// waited for), level-0 compaction of the source family (ends with an obsolete-file pass), obsolete-file
// pass, open/close of a target store, reopen of the source store, readers holding snapshots of the source.
//
// Model (from the statement and the doc of kv/family.go deleteObsoleteFiles, not from the bookkeeping code):
// a flushed table is pending for every rollup interval of the store; (table, interval) stops being pending
// when a rollup job ran while the target store of that interval was open. Oracle:
//   - delete monitor: no table of the source family is deleted while it is pending for some interval or
//     belongs to a snapshot the harness holds;
//   - after every step every pending (table, interval) is still registered (FamilyVersion.GetLiveRollupFiles)
//     and the table file exists; a reader starting now sees every commit; held snapshots are stable.

import (
	"fmt"
	"os"
	"path/filepath"
	"runtime"
	"sort"
	"testing"

	"pgregory.net/rapid"

	"github.com/lindb/lindb/kv"
	"github.com/lindb/lindb/kv/table"
	"github.com/lindb/lindb/kv/version"
	"github.com/lindb/lindb/pkg/timeutil"
	"github.com/lindb/lindb/verifharness/sim/ev"
	"github.com/lindb/lindb/verifharness/sim/kvsim"
)

const (
	rollSource = timeutil.Interval(10 * 1000) // day store, family = hour
)

var rollTargets = []struct {
	interval timeutil.Interval
	typ, seg string
}{
	{timeutil.Interval(5 * 60 * 1000), "month", "201907"},
	{timeutil.Interval(60 * 60 * 1000), "year", "2019"},
}

type rollSnap struct {
	id      int
	snap    version.Snapshot
	content kvsim.Content
	files   map[int64]bool
	jobs    int
	passes  int
}

type rollEnv struct {
	t         *rapid.T
	base      string
	srcPath   string
	famPath   string
	src       kv.Store
	fam       kv.Family
	targets   [2]kv.Store
	model     kvsim.Content
	pending   map[int64]map[timeutil.Interval]bool
	held      []*rollSnap
	snapSeq   int
	atom      uint32
	ops       []string
	violation string
	classes   map[string]int
	partial   bool // some table was rolled up for one interval while the other one stayed pending
	nt        bool
}

func (e *rollEnv) logf(format string, args ...any) {
	e.ops = append(e.ops, fmt.Sprintf(format, args...))
}

func (e *rollEnv) fatalf(format string, args ...any) {
	e.t.Helper()
	msg := fmt.Sprintf(format, args...)
	hist := ""
	for _, o := range e.ops {
		hist += "\n  " + o
	}
	e.t.Fatalf("%s\nhistory:%s", msg, hist)
}

// fsHook may run on the goroutine of the rollup job (its trailing obsolete-file pass) while the test
// goroutine waits for the job: it only records.
func (e *rollEnv) fsHook(op, path string, before bool) {
	if op != "removeDir" || !before || filepath.Dir(path) != e.famPath {
		return
	}
	num, ok := fileNumberOf(path)
	if !ok {
		return
	}
	if iv := e.pending[num]; len(iv) > 0 && e.violation == "" {
		e.violation = fmt.Sprintf("table %d of the source family is deleted although its rollup into %v is still pending", num, intervalsOf(iv))
	}
	for _, h := range e.held {
		if h.files[num] && e.violation == "" {
			e.violation = fmt.Sprintf("table %d of the source family is deleted while open snapshot #%d references it", num, h.id)
		}
	}
}

func tableNumber(n int64) table.FileNumber { return table.FileNumber(n) }

func intervalsOf(m map[timeutil.Interval]bool) []string {
	var out []string
	for _, t := range rollTargets {
		if m[t.interval] {
			out = append(out, t.interval.String())
		}
	}
	return out
}

func (e *rollEnv) openSource() {
	opt := kv.DefaultStoreOption()
	opt.Source = rollSource
	opt.Rollup = []timeutil.Interval{rollTargets[0].interval, rollTargets[1].interval}
	s, err := kv.GetStoreManager().CreateStore(e.srcPath, opt)
	if err != nil {
		e.fatalf("open source store: %v", err)
	}
	e.src = s
	f, err := s.CreateFamily("10", kv.FamilyOption{Merger: kvsim.MergerName, CompactThreshold: 0, MaxFileSize: 1 << 20, RollupThreshold: 1000})
	if err != nil {
		e.fatalf("create source family: %v", err)
	}
	e.fam = f
}

func (e *rollEnv) targetPath(i int) string {
	return filepath.Join(e.base, rollTargets[i].typ, rollTargets[i].seg)
}

func (e *rollEnv) level0() map[int64]bool {
	snap := e.fam.GetSnapshot()
	defer snap.Close()
	out := map[int64]bool{}
	for _, fm := range snap.GetCurrent().GetAllFiles() {
		out[fm.GetFileNumber().Int64()] = true
	}
	return out
}

func (e *rollEnv) step(name string) {
	if e.violation != "" {
		e.fatalf("%s: %s", name, e.violation)
	}
	live := kv.VerifFamilyVersion(e.fam).(version.FamilyVersion).GetLiveRollupFiles()
	var nums []int64
	for n := range e.pending {
		nums = append(nums, n)
	}
	sort.Slice(nums, func(i, j int) bool { return nums[i] < nums[j] })
	for _, n := range nums {
		for _, t := range rollTargets {
			if !e.pending[n][t.interval] {
				continue
			}
			found := false
			for _, iv := range live[tableNumber(n)] {
				if iv == t.interval {
					found = true
				}
			}
			if !found {
				e.fatalf("%s: table %d was flushed and no rollup job has reached the %s target since, but it is no longer registered for that rollup (registrations of the table: %v)", name, n, t.interval, live[tableNumber(n)])
			}
			if _, err := os.Stat(filepath.Join(e.famPath, version.Table(tableNumber(n)))); err != nil {
				e.fatalf("%s: table %d is pending for the %s rollup but its file is gone: %v", name, n, t.interval, err)
			}
		}
	}
	got, err := kvsim.ReadFamily(e.fam, universe)
	if err != nil {
		e.fatalf("%s: read of the source family: %v", name, err)
	}
	if !e.model.Equal(got) {
		e.fatalf("%s: a reader starting now does not see all completed commits:%s", name, kvsim.Diff(e.model, got))
	}
	for _, h := range e.held {
		got, err := kvsim.ReadSnapshot(h.snap, universe)
		if err != nil {
			e.fatalf("%s: snapshot #%d: %v", name, h.id, err)
		}
		if !h.content.Equal(got) {
			e.fatalf("%s: snapshot #%d no longer shows the content at acquisition:%s", name, h.id, kvsim.Diff(h.content, got))
		}
	}
}

func (e *rollEnv) partiallyRolledUp() (n, notCurrent int) {
	cur := e.level0()
	for num, iv := range e.pending {
		if len(iv) == 1 {
			n++
			if !cur[num] {
				notCurrent++
			}
		}
	}
	return
}

func (e *rollEnv) notePass(what string) {
	n, gone := e.partiallyRolledUp()
	if n > 0 {
		e.classes[what+"-with-table-rolled-up-for-one-of-two-intervals"]++
		e.nt = true
	}
	if gone > 0 {
		e.classes[what+"-with-partially-rolled-up-table-kept-only-by-its-rollup-registration"]++
	}
	for _, h := range e.held {
		h.passes++
	}
}

func TestPendingRollupFiles(t *testing.T) {
	rapid.Check(t, func(t *rapid.T) {
		kvsim.Register()
		dir, err := os.MkdirTemp("", "c02u-")
		if err != nil {
			t.Fatalf("harness: %v", err)
		}
		e := &rollEnv{t: t, base: filepath.Join(dir, "db", "shard", "1", "segment"), model: kvsim.Content{},
			pending: map[int64]map[timeutil.Interval]bool{}, classes: map[string]int{}}
		e.srcPath = filepath.Join(e.base, "day", "20190702")
		e.famPath = filepath.Join(e.srcPath, "10")
		kv.VerifSetFSHook(e.fsHook)
		defer func() {
			kv.VerifSetFSHook(nil)
			for _, h := range e.held {
				h.snap.Close()
			}
			if e.fam != nil {
				kv.VerifWaitIdle(e.fam)
			}
			for i := range e.targets {
				if e.targets[i] != nil {
					_ = kv.GetStoreManager().CloseStore(e.targetPath(i))
				}
			}
			_ = kv.GetStoreManager().CloseStore(e.srcPath)
			_ = os.RemoveAll(dir)
		}()
		e.openSource()
		setTarget := func(i int, open bool) {
			if open == (e.targets[i] != nil) {
				return
			}
			if open {
				s, err := kv.GetStoreManager().CreateStore(e.targetPath(i), kv.DefaultStoreOption())
				if err != nil {
					e.fatalf("open target store %s: %v", rollTargets[i].typ, err)
				}
				e.targets[i] = s
			} else {
				if err := kv.GetStoreManager().CloseStore(e.targetPath(i)); err != nil {
					e.fatalf("close target store %s: %v", rollTargets[i].typ, err)
				}
				e.targets[i] = nil
			}
			e.logf("target %s open=%v", rollTargets[i].interval, open)
		}
		// one of the two target segments is usually not open at first (tsdb opens target segments lazily)
		switch rapid.IntRange(0, 3).Draw(t, "targetsOpen") {
		case 0:
			setTarget(0, true)
		case 1:
			setTarget(1, true)
		case 2:
			setTarget(0, true)
			setTarget(1, true)
		}
		rollupJob := func(why string) {
			var reach []string
			for i, tg := range rollTargets {
				if e.targets[i] != nil {
					reach = append(reach, tg.interval.String())
				}
			}
			e.logf("rollup job (%s); targets open: %v; pending before: %s", why, reach, e.pendingString())
			// the job deletes nothing before it has committed: deletions inside it are judged against the state after it
			for num, iv := range e.pending {
				for i, tg := range rollTargets {
					if e.targets[i] != nil {
						delete(iv, tg.interval)
					}
				}
				if len(iv) == 0 {
					delete(e.pending, num)
				} else if len(iv) == 1 && len(reach) == 1 {
					e.partial = true
				}
			}
			if len(reach) == 1 && len(e.pending) > 0 {
				e.classes["rollup-job-completes-one-of-two-intervals"]++
			}
			kv.VerifRollup(e.fam)
			kv.VerifWaitIdle(e.fam)
			for !kv.VerifRollupIdle(e.fam) {
				runtime.Gosched()
			}
			for _, h := range e.held {
				h.jobs++
			}
			e.notePass("rollup-job-cleanup")
		}
		t.Repeat(map[string]func(*rapid.T){
			"flush": func(t *rapid.T) {
				e.t = t
				keys := genKeys(t, 6)
				e.atom++
				before := e.level0()
				fl := e.fam.NewFlusher()
				defer fl.Release()
				for _, k := range keys {
					if err := fl.Add(k, kvsim.Encode(map[uint32]bool{e.atom: true})); err != nil {
						e.fatalf("flush add: %v", err)
					}
				}
				if err := fl.Commit(); err != nil {
					e.fatalf("flush commit: %v", err)
				}
				for _, k := range keys {
					e.model.AddAtom(k, e.atom)
				}
				for num := range e.level0() {
					if !before[num] {
						e.pending[num] = map[timeutil.Interval]bool{rollTargets[0].interval: true, rollTargets[1].interval: true}
						e.logf("flush keys=%v atom=%d -> table %d", keys, e.atom, num)
					}
				}
			},
			"rollup": func(t *rapid.T) { e.t = t; rollupJob("top") },
			"compact": func(t *rapid.T) {
				e.t = t
				e.logf("compact; pending: %s", e.pendingString())
				ran, err := kv.VerifCompactSync(e.fam, true)
				if err != nil {
					e.fatalf("compaction: %v", err)
				}
				if ran {
					e.notePass("compaction-cleanup")
				}
			},
			"deleteObsolete": func(t *rapid.T) {
				e.t = t
				e.logf("deleteObsolete; pending: %s", e.pendingString())
				kv.VerifDeleteObsoleteFiles(e.fam)
				e.notePass("obsolete-file-pass")
			},
			"toggleTarget": func(t *rapid.T) {
				e.t = t
				i := rapid.IntRange(0, 1).Draw(t, "target")
				setTarget(i, e.targets[i] == nil)
			},
			"snapshot": func(t *rapid.T) {
				e.t = t
				if len(e.held) >= 2 {
					t.Skip("enough snapshots")
				}
				e.snapSeq++
				h := &rollSnap{id: e.snapSeq, snap: e.fam.GetSnapshot(), content: e.model.Clone(), files: map[int64]bool{}}
				for _, fm := range h.snap.GetCurrent().GetAllFiles() {
					h.files[fm.GetFileNumber().Int64()] = true
				}
				e.held = append(e.held, h)
				e.logf("snapshot #%d files=%v", h.id, keysOfInt(h.files))
			},
			"close": func(t *rapid.T) {
				e.t = t
				if len(e.held) == 0 {
					t.Skip("no snapshot")
				}
				i := rapid.IntRange(0, len(e.held)-1).Draw(t, "snap")
				e.logf("close snapshot #%d", e.held[i].id)
				if e.held[i].jobs > 0 && e.held[i].passes > 0 {
					e.classes["snapshot-held-across-rollup-job-and-obsolete-file-pass"]++
				}
				e.held[i].snap.Close()
				e.held = append(e.held[:i], e.held[i+1:]...)
			},
			"reopen": func(t *rapid.T) {
				e.t = t
				if rapid.IntRange(0, 2).Draw(t, "reopenGate") != 0 {
					t.Skip("reopen throttled")
				}
				for _, h := range e.held {
					h.snap.Close()
				}
				e.held = nil
				e.logf("reopen source store; pending: %s", e.pendingString())
				if err := kv.GetStoreManager().CloseStore(e.srcPath); err != nil {
					e.fatalf("close source store: %v", err)
				}
				e.fam = nil
				e.openSource()
				if len(e.pending) > 0 {
					e.classes["reopen-with-pending-rollup-registrations"]++
				}
				e.notePass("reopen")
			},
			"": func(t *rapid.T) { e.t = t; e.step("after step") },
		})
		e.t = t
		// both targets get available: the pending rollups can run, then everything may be cleaned up
		setTarget(0, true)
		setTarget(1, true)
		e.step("before final rollup")
		rollupJob("final, both targets open")
		if len(e.pending) != 0 {
			e.fatalf("harness: model still has pending rollups after a job with both targets open: %s", e.pendingString())
		}
		if _, err := kv.VerifCompactSync(e.fam, true); err != nil {
			e.fatalf("final compaction: %v", err)
		}
		e.step("final")
		// bounded progress: nothing is pending any more, every snapshot is closed, one more pass: the source
		// family directory holds exactly the tables of its current version
		for _, h := range e.held {
			h.snap.Close()
		}
		e.held = nil
		kv.VerifDeleteObsoleteFiles(e.fam)
		if e.violation != "" {
			e.fatalf("final obsolete-file pass: %s", e.violation)
		}
		tables, derr := tablesInDir(e.famPath)
		if derr != nil {
			e.fatalf("harness: %v", derr)
		}
		cur := currentTables(e.fam)
		if fmt.Sprint(keysOfInt(tables)) != fmt.Sprint(keysOfInt(cur)) {
			e.fatalf("end of history (every rollup completed, every snapshot closed, obsolete-file pass ran): the source family directory holds tables %v, its current version %v; rollup registrations left: %v",
				keysOfInt(tables), keysOfInt(cur), kv.VerifFamilyVersion(e.fam).(version.FamilyVersion).GetLiveRollupFiles())
		}
		e.classes["end-of-history-directory-is-exactly-the-current-version"]++
		for c, n := range e.classes {
			ev.Class("TestPendingRollupFiles", c, n)
		}
		ev.Case("TestPendingRollupFiles", fmt.Sprintf("%v", e.ops), e.nt, nil, map[string]any{"history": e.ops})
	})
}

func (e *rollEnv) pendingString() string {
	var nums []int64
	for n := range e.pending {
		nums = append(nums, n)
	}
	sort.Slice(nums, func(i, j int) bool { return nums[i] < nums[j] })
	s := ""
	for _, n := range nums {
		s += fmt.Sprintf("%d:%v ", n, intervalsOf(e.pending[n]))
	}
	if s == "" {
		return "none"
	}
	return s
}
