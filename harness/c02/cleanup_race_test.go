package c02

// Readers against a RUNNING reader-cache cleanup (storeCache.Cleanup, run by store.compact()).
//
// The window: the cleanup walks the expired, unreferenced entries of the cache (oldest first) and unmaps
// them one after the other; a reader that takes a snapshot meanwhile and asks for a table file which is
// cached, expired and unreferenced (cache HIT, reference 0 -> 1) must either get a mapping that stays alive
// until its snapshot is closed, or wait. The harness owns the unmap seam (table.VerifSetUnmapFileHook):
//
//   - the implementation does not hold the cache lock at the seam: the racing readers run right there, on
//     the goroutine of the cleanup (deterministic): each takes a snapshot and gets readers of the planned
//     files (cached + unreferenced files of the family, the file being unmapped first), through
//     Snapshot.GetReader or Snapshot.FindReaders; the snapshots stay open;
//   - it holds the lock (unchanged tree: the whole cleanup is one critical section; counted as serialised):
//     the same readers are released on goroutines of their own at the first unmap of the cleanup, which
//     waits a few milliseconds there (schedule perturbation only). Whatever the implementation lets them
//     do, the oracle holds: on the unchanged tree they are served when the cleanup has finished.
//
// Oracle (interleaving independent, evaluated when the cleanup has returned and the readers have joined):
// no mapping the cleanup closed - identified by the open file behind it - is the mapping of a reader a
// racing snapshot got; every such reader still returns the atoms of its file's smallest key as of the
// snapshot's content; the snapshots join the held snapshots of the history (read at later steps, closed one
// by one with cleanups in between).

import (
	"fmt"
	"os"
	"path/filepath"
	"sort"
	"sync"
	"sync/atomic"
	"testing"
	"time"

	"github.com/lindb/common/pkg/ltoml"
	"pgregory.net/rapid"

	"github.com/lindb/lindb/kv"
	"github.com/lindb/lindb/kv/table"
	"github.com/lindb/lindb/kv/version"
	"github.com/lindb/lindb/verifharness/sim/ev"
	"github.com/lindb/lindb/verifharness/sim/kvsim"
)

type raceTarget struct {
	num    int64
	minKey uint32
}

type raceGot struct {
	target raceTarget
	reader table.Reader
	file   *os.File
	name   string
	missed bool // the reader cache opened the file for this request (cache miss)
}

// raceReader is one planned reader; while it runs on its own goroutine it only touches its own fields.
type raceReader struct {
	fam     kv.Family
	famName string
	targets []raceTarget
	useFind bool // FindReaders(min key of the file) instead of GetReader(file)
	snap    version.Snapshot
	got     []raceGot
	err     error
	held    *heldSnap
}

type unmapRec struct {
	fam, name string
	file      *os.File
}

// cleanupRun is the state of one cache cleanup started by opCacheCleanup.
type cleanupRun struct {
	unmaps     []unmapRec
	plan       []*raceReader
	launched   bool
	inlineDone bool
	wg         sync.WaitGroup
	arrived    atomic.Int32 // racing readers that have taken their snapshot and are about to ask the reader cache
}

// awaitArrival lets the released readers reach the reader cache: bounded (about 50 ms on a busy machine),
// never a correctness signal - if they are late they are simply served after the cleanup.
func awaitArrival(arrived *atomic.Int32, n int) {
	for i := 0; i < 1000 && int(arrived.Load()) < n; i++ {
		time.Sleep(50 * time.Microsecond)
	}
}

func (r *raceReader) run(e *env, arrived *atomic.Int32) {
	r.snap = r.fam.GetSnapshot()
	if arrived != nil {
		arrived.Add(1)
	}
	for _, tg := range r.targets {
		before := e.opensSnapshot()
		var readers []table.Reader
		var err error
		if r.useFind {
			readers, err = r.snap.FindReaders(tg.minKey)
		} else {
			var rd table.Reader
			rd, err = r.snap.GetReader(table.FileNumber(tg.num))
			if rd != nil {
				readers = []table.Reader{rd}
			}
		}
		if err != nil {
			r.err = fmt.Errorf("table %d: %w", tg.num, err)
			return
		}
		after := e.opensSnapshot()
		for _, rd := range readers {
			path := filepath.Join(e.storePath, r.famName, rd.FileName())
			r.got = append(r.got, raceGot{target: tg, reader: rd, file: table.VerifReaderFile(rd), name: rd.FileName(), missed: after[path] > before[path]})
		}
	}
}

func (e *env) opensSnapshot() map[string]int {
	e.mapMu.Lock()
	defer e.mapMu.Unlock()
	out := make(map[string]int, len(e.opens))
	for k, v := range e.opens {
		out[k] = v
	}
	return out
}

func (e *env) isMapped(fam, name string) bool {
	e.mapMu.Lock()
	defer e.mapMu.Unlock()
	return e.mapped[fam+"/"+name] > 0
}

// raceCandidates: table files of the family's current version that sit in the reader cache and that no held
// snapshot of the harness got a reader of (Load pins are invisible to the harness; such a file is simply not
// evicted).
func (e *env) raceCandidates(fam string) []raceTarget {
	snap := e.fams[fam].GetSnapshot()
	defer snap.Close()
	used := map[string]bool{}
	for _, h := range e.held {
		if h.fam == fam {
			for _, n := range h.readers {
				used[n] = true
			}
		}
	}
	var out []raceTarget
	for _, fm := range snap.GetCurrent().GetAllFiles() {
		name := version.Table(fm.GetFileNumber())
		if e.isMapped(fam, name) && !used[name] {
			out = append(out, raceTarget{num: fm.GetFileNumber().Int64(), minKey: fm.GetMinKey()})
		}
	}
	sort.Slice(out, func(i, j int) bool { return out[i].num < out[j].num })
	return out
}

// planRace draws the readers that will race with the cleanup which is about to start (top level: rapid draws).
func (e *env) planRace() []*raceReader {
	type famCand struct {
		fam  string
		cand []raceTarget
	}
	var fcs []famCand
	total := 0
	for _, n := range e.famNames {
		if c := e.raceCandidates(n); len(c) > 0 {
			fcs = append(fcs, famCand{n, c})
			total += len(c)
		}
	}
	switch {
	case total == 0:
		e.classes["cache-cleanup-starts-with-0-cached-unreferenced-files"]++
	case total < 3:
		e.classes["cache-cleanup-starts-with-1-2-cached-unreferenced-files"]++
	default:
		e.classes["cache-cleanup-starts-with->=3-cached-unreferenced-files"]++
	}
	if total < 2 || len(e.held) >= e.maxHeld+1 {
		return nil
	}
	if rapid.IntRange(0, 3).Draw(e.t, "raceCleanup") == 0 {
		return nil
	}
	n := rapid.IntRange(1, 2).Draw(e.t, "raceReaders")
	var plan []*raceReader
	for i := 0; i < n && len(e.held)+len(plan) < e.maxHeld+1; i++ {
		fc := fcs[rapid.IntRange(0, len(fcs)-1).Draw(e.t, "raceFamily")]
		perm := rapid.Permutation(fc.cand).Draw(e.t, "raceTargets")
		if !rapid.Bool().Draw(e.t, "raceAllCandidates") {
			perm = perm[:rapid.IntRange(1, len(perm)).Draw(e.t, "raceTargetCount")]
		}
		plan = append(plan, &raceReader{fam: e.fams[fc.fam], famName: fc.fam, targets: perm, useFind: rapid.Bool().Draw(e.t, "raceUseFindReaders")})
	}
	return plan
}

// cleanupSeam runs at every unmap inside a cache cleanup that opCacheCleanup started (before the unmap).
func (e *env) cleanupSeam(c *cleanupRun, fam, name string, f *os.File) {
	c.unmaps = append(c.unmaps, unmapRec{fam, name, f})
	if kv.VerifCacheBusy(e.store) {
		e.classes["cleanup-unmap-seam-serialised-by-cache-lock"]++
		if len(c.plan) > 0 && !c.launched {
			c.launched = true
			e.helpers.Store(int32(len(c.plan)))
			for _, r := range c.plan {
				c.wg.Add(1)
				go func(r *raceReader) {
					defer c.wg.Done()
					r.run(e, &c.arrived)
				}(r)
			}
			// the readers reach the cache while the cleanup sits here; if the implementation lets them in
			// before the cleanup is done, that is now
			awaitArrival(&c.arrived, len(c.plan))
			time.Sleep(3 * time.Millisecond)
			e.classes["cleanup-race-readers-released-at-first-unmap"] += len(c.plan)
		} else if c.launched && len(c.unmaps) <= 4 {
			// a reader that was woken by an unlock and lost the lock again gets it handed over at the next unlock
			// (sync.Mutex starvation mode) if it had the time to notice: schedule perturbation only
			time.Sleep(1500 * time.Microsecond)
		}
		return
	}
	e.classes["cleanup-unmap-seam-outside-cache-lock"]++
	if len(c.plan) == 0 || c.launched || c.inlineDone || e.violation != "" {
		return
	}
	c.inlineDone = true
	num, _ := fileNumberOf(name)
	for _, r := range c.plan {
		if r.famName == fam {
			// the file whose mapping is being closed right now comes first
			tg := raceTarget{num: num}
			for _, fm := range e.versionFiles(r.fam) {
				if fm.GetFileNumber().Int64() == num {
					tg.minKey = fm.GetMinKey()
					r.targets = append([]raceTarget{tg}, r.targets...)
				}
			}
		}
		e.logf("  nested@unmap(%s/%s) inside cacheCleanup: racing reader of %s targets=%v find=%v", fam, name, r.famName, r.targets, r.useFind)
		r.run(e, nil)
		e.classes["cleanup-race-readers-nested-at-unmap-seam"]++
	}
}

func (e *env) versionFiles(f kv.Family) []*version.FileMeta {
	snap := f.GetSnapshot()
	defer snap.Close()
	return snap.GetCurrent().GetAllFiles()
}

// finishRace: the cleanup has returned. Joins the racing readers, registers their snapshots as held
// snapshots of the history and evaluates the oracle.
func (e *env) finishRace(c *cleanupRun) {
	c.wg.Wait()
	e.helpers.Store(0)
	if e.violation != "" {
		// a monitor fired inside the cleanup: reported by runJob; the racing snapshots are closed with the case
		return
	}
	switch n := len(c.unmaps); {
	case n == 0:
		e.classes["cache-cleanup-evicted-0"]++
	case n < 3:
		e.classes["cache-cleanup-evicted-1-2"]++
	default:
		e.classes["cache-cleanup-evicted->=3-expired-unreferenced-files"]++
	}
	if !c.launched && !c.inlineDone {
		if len(c.plan) > 0 {
			e.classes["cleanup-race-planned-but-nothing-evicted"]++
		}
		return
	}
	if len(c.unmaps) >= 3 {
		e.classes["cleanup-race-with->=3-files-evicted"]++
	}
	closedFile := map[*os.File]string{}
	closedName := map[string]bool{}
	for _, u := range c.unmaps {
		closedFile[u.file] = u.fam + "/" + u.name
		closedName[u.fam+"/"+u.name] = true
	}
	for _, r := range c.plan {
		if r.snap == nil {
			continue
		}
		e.snapSeq++
		h := &heldSnap{id: e.snapSeq, fam: r.famName, snap: r.snap, content: e.model[r.famName].Clone(), files: map[int64]bool{}, readers: map[*os.File]string{}, takenAtOp: len(e.ops)}
		for _, fm := range r.snap.GetCurrent().GetAllFiles() {
			h.files[fm.GetFileNumber().Int64()] = true
		}
		h.cleanups++
		e.held = append(e.held, h)
		r.held = h
		e.logf("  snapshot #%d of %s taken by a reader racing with the cache cleanup; targets=%v find=%v; cleanup closed %d mappings", h.id, r.famName, r.targets, r.useFind, len(c.unmaps))
	}
	for _, r := range c.plan {
		if r.snap == nil {
			continue
		}
		h := r.held
		if r.err != nil {
			e.fatalf("reader racing with the cache cleanup (snapshot #%d of %s): %v", h.id, r.famName, r.err)
		}
		for _, g := range r.got {
			if g.file != nil {
				h.readers[g.file] = g.name
			}
			if closedName[r.famName+"/"+g.name] {
				e.classes["cleanup-race-target-was-evicted-by-this-cleanup"]++
			}
			if g.missed {
				e.classes["cleanup-race-target-cache-miss"]++
			} else {
				e.classes["cleanup-race-target-cache-hit"]++
			}
		}
	}
	for _, r := range c.plan {
		if r.snap == nil {
			continue
		}
		h := r.held
		for _, g := range r.got {
			if what, dead := closedFile[g.file]; dead && g.file != nil {
				e.fatalf("cache cleanup closed the mapping of table %s (%d mappings closed by this cleanup) although open snapshot #%d, taken while the cleanup was running, got that reader from the cache (hit=%v)",
					what, len(c.unmaps), h.id, !g.missed)
			}
		}
		// the readers the snapshot holds still read their file
		for _, g := range r.got {
			if g.name != version.Table(table.FileNumber(g.target.num)) {
				continue // another file FindReaders returned for the key
			}
			v, err := g.reader.Get(g.target.minKey)
			if err != nil {
				e.fatalf("snapshot #%d (racing with the cache cleanup): Get(%d) on %s: %v", h.id, g.target.minKey, g.name, err)
			}
			atoms, err := kvsim.Decode(v)
			if err != nil || len(atoms) == 0 {
				e.fatalf("snapshot #%d (racing with the cache cleanup): key %d in %s: atoms %v, %v", h.id, g.target.minKey, g.name, atoms, err)
			}
			for _, a := range atoms {
				if !h.content[g.target.minKey][a] {
					e.fatalf("snapshot #%d (racing with the cache cleanup): key %d in %s shows atom %d which is not in the content at acquisition %v", h.id, g.target.minKey, g.name, a, h.content[g.target.minKey])
				}
			}
			e.classes["cleanup-race-held-reader-checked-after-cleanup"]++
		}
	}
	e.classes["cache-cleanup-raced-by-readers"]++
	e.racedCleanups++
}

// ---- third phase of TestConcurrentStress: readers released inside a running cache cleanup --------------
//
// Per round the family has k >= 3 table files, all of them read before (cached), unreferenced and older than
// the TTL. A cleaner runs the cache cleanup; 2..3 readers are released when the cleanup is at its first unmap
// (or when it returned without closing anything); each takes a snapshot and gets readers of the files, most
// recently used - evicted last - first (GetReader, every third round FindReaders). The unmap hook only
// perturbs the schedule (the first three unmaps of a round take 1.5 ms). Oracle when all have joined: no mapping
// closed during the round is the mapping of a reader an open snapshot got, each reader returns the atom of
// its file; every second round a second cleanup runs while the snapshots are open, same check.
func expiredHitReaders(t *testing.T) {
	rounds := 40
	if os.Getenv("VERIF_TIER") == "thorough" {
		rounds = 800
	}
	dir, err := os.MkdirTemp("", "c02x-")
	if err != nil {
		t.Fatal(err)
	}
	defer os.RemoveAll(dir)
	path := filepath.Join(dir, "store")
	s, err := kv.GetStoreManager().CreateStore(path, kv.StoreOption{Levels: 2, TTL: ltoml.Duration(time.Millisecond)})
	if err != nil {
		t.Fatal(err)
	}
	defer func() { _ = kv.GetStoreManager().CloseStore(path) }()
	f, err := s.CreateFamily("f", kv.FamilyOption{Merger: kvsim.MergerName, CompactThreshold: 0, MaxFileSize: 1 << 20})
	if err != nil {
		t.Fatal(err)
	}
	var mu sync.Mutex
	unmapped := map[*os.File]string{}
	var inRound bool
	var slow, racing int
	var release func()
	var arrived atomic.Int32
	table.VerifSetUnmapFileHook(func(p string, fl *os.File) {
		mu.Lock()
		unmapped[fl] = filepath.Base(p)
		rel, wait, n := release, inRound && slow > 0, racing
		if wait {
			slow--
		}
		mu.Unlock()
		if rel != nil {
			rel()
		}
		if wait {
			awaitArrival(&arrived, n)
			time.Sleep(1500 * time.Microsecond)
		}
	})
	defer table.VerifSetUnmapFileHook(nil)

	type fileInfo struct {
		num  table.FileNumber
		key  uint32
		atom uint32
	}
	type got struct {
		fi fileInfo
		r  table.Reader
	}
	type racer struct {
		snap version.Snapshot
		got  []got
		err  error
	}
	var files []fileInfo
	var nextKey, nextAtom uint32 = 0, 0
	flushOne := func() {
		nextAtom++
		fl := f.NewFlusher()
		defer fl.Release()
		for k := nextKey; k < nextKey+8; k++ {
			if err := fl.Add(k, kvsim.Encode(map[uint32]bool{nextAtom: true})); err != nil {
				t.Fatalf("flush add: %v", err)
			}
		}
		if err := fl.Commit(); err != nil {
			t.Fatalf("flush commit: %v", err)
		}
		cur := f.GetSnapshot()
		var newest table.FileNumber
		for _, fm := range cur.GetCurrent().GetAllFiles() {
			if fm.GetFileNumber() > newest {
				newest = fm.GetFileNumber()
			}
		}
		cur.Close()
		files = append(files, fileInfo{num: newest, key: nextKey + 3, atom: nextAtom})
		nextKey += 8
	}
	var roundsDone, evicted3, checked, second int
	for round := 0; round < rounds; round++ {
		want := 3 + round%4
		if len(files) > 9 {
			// start again from one (compacted) file set: the old files die, new cold ones are written
			if _, err := kv.VerifCompactSync(f, true); err != nil {
				t.Fatalf("round %d: compaction: %v", round, err)
			}
			files = files[:0]
		}
		for len(files) < want || round%5 == 0 && len(files) < want+1 {
			flushOne()
		}
		// warm: every file is read once and given back (cached, unreferenced); order of use = order of eviction
		order := make([]fileInfo, len(files))
		copy(order, files)
		if round%2 == 1 {
			for i, j := 0, len(order)-1; i < j; i, j = i+1, j-1 {
				order[i], order[j] = order[j], order[i]
			}
		}
		warm := f.GetSnapshot()
		for _, fi := range order {
			r, err := warm.GetReader(fi.num)
			if err != nil || r == nil {
				t.Fatalf("round %d: warm GetReader(%d): %v", round, fi.num, err)
			}
			if _, err := r.Get(fi.key); err != nil {
				t.Fatalf("round %d: warm Get(%d) on %s: %v", round, fi.key, r.FileName(), err)
			}
		}
		warm.Close()
		time.Sleep(3 * time.Millisecond) // > TTL

		n := 2 + round%2
		racers := make([]racer, n)
		start := make(chan struct{})
		var once sync.Once
		mu.Lock()
		before := len(unmapped)
		inRound, slow, racing = true, 3, n
		arrived.Store(0)
		release = func() { once.Do(func() { close(start) }) }
		mu.Unlock()
		var wg sync.WaitGroup
		for i := 0; i < n; i++ {
			wg.Add(1)
			go func(i int) {
				defer wg.Done()
				<-start
				snap := f.GetSnapshot()
				racers[i].snap = snap
				arrived.Add(1)
				// most recently used first (the cleanup reaches them last); reader i starts i files further
				for j := range order {
					fi := order[(len(order)-1-j-i+2*len(order))%len(order)]
					if round%3 == 2 {
						rs, err := snap.FindReaders(fi.key)
						if err != nil {
							racers[i].err = err
							return
						}
						for _, r := range rs {
							racers[i].got = append(racers[i].got, got{fi, r})
						}
					} else {
						r, err := snap.GetReader(fi.num)
						if err != nil || r == nil {
							racers[i].err = fmt.Errorf("GetReader(%d): %v", fi.num, err)
							return
						}
						racers[i].got = append(racers[i].got, got{fi, r})
					}
				}
			}(i)
		}
		wg.Add(1)
		go func() {
			defer wg.Done()
			kv.VerifCacheCleanup(s)
			release() // nothing was closed: the readers run now
		}()
		wg.Wait()
		mu.Lock()
		inRound, release = false, nil
		closed := len(unmapped) - before
		mu.Unlock()
		roundsDone++
		if closed >= 3 {
			evicted3++
		}
		check := func(phase string) {
			mu.Lock()
			defer mu.Unlock()
			for i := range racers {
				if racers[i].err != nil {
					t.Fatalf("round %d reader %d: %v", round, i, racers[i].err)
				}
				for _, g := range racers[i].got {
					if name, dead := unmapped[table.VerifReaderFile(g.r)]; dead {
						t.Fatalf("round %d (%s): the mapping of table %s was closed by the cache cleanup (%d mappings closed in this round, %d files cached, expired and unreferenced when it started) "+
							"while the snapshot of reader %d, released inside the cleanup, holds that reader", round, phase, name, closed, len(order), i)
					}
				}
			}
		}
		check("readers released inside the cleanup")
		if round%2 == 0 {
			time.Sleep(2 * time.Millisecond)
			kv.VerifCacheCleanup(s)
			check("second cleanup with the snapshots open")
			second++
		}
		for i := range racers {
			for _, g := range racers[i].got {
				v, err := g.r.Get(g.fi.key)
				if err != nil {
					t.Fatalf("round %d reader %d: Get(%d) on %s: %v", round, i, g.fi.key, g.r.FileName(), err)
				}
				atoms, err := kvsim.Decode(v)
				if err != nil || len(atoms) != 1 || atoms[0] != g.fi.atom {
					t.Fatalf("round %d reader %d: key %d in %s shows atoms %v (%v), flushed atom %d", round, i, g.fi.key, g.r.FileName(), atoms, err, g.fi.atom)
				}
				checked++
			}
			racers[i].snap.Close()
		}
	}
	ev.Case("TestConcurrentStress", fmt.Sprintf("expired-hit-readers-rounds-%d", rounds), evicted3 > 0, nil,
		map[string]any{"rounds": rounds, "rounds_with_>=3_mappings_closed_by_the_raced_cleanup": evicted3, "held_readers_checked": checked})
	ev.Class("TestConcurrentStress", "expired-round-readers-released-inside-running-cache-cleanup", roundsDone)
	ev.Class("TestConcurrentStress", "expired-round-cleanup-closed->=3-expired-unreferenced-files", evicted3)
	ev.Class("TestConcurrentStress", "expired-round-second-cleanup-with-snapshots-open", second)
	ev.Class("TestConcurrentStress", "expired-held-reader-checked-after-cleanup", checked)
}
