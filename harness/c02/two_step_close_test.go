package c02

// Closing a snapshot is not atomic: Snapshot.Close -> Version.Release decrements the reference count and then,
// if it saw 0, removes the version from the family's active versions - two steps without a common lock (the
// defect repaired by d8a928b lived between them, see regression_test.go). The history generator owns that
// window through version.VerifReleaseInTwoSteps: "closeBegin" performs the first half for a held snapshot (from
// then on the reader does not use it and the harness does not expect its files to stay), "closeEnd" the second
// half plus the rest of Close; in between any other operation of the history may run (snapshots - in particular of
// the very version being released -, flush commits, compactions, obsolete-file passes, cache cleanups; also
// nested at the seams of an obsolete-file pass). Oracle: the existing ones (held snapshots stable, delete/unmap
// monitors) plus, after every step, the files of every held snapshot are among FamilyVersion.GetAllActiveFiles
// (the set the obsolete-file pass keeps; anchors: "activeVersions = all versions still referenced by a snapshot
// plus the newest one").

import (
	"fmt"
	"sort"

	"pgregory.net/rapid"

	"github.com/lindb/lindb/kv"
	"github.com/lindb/lindb/kv/version"
)

type closingSnap struct {
	h        *heldSnap
	v        version.Version
	second   func()
	sawZero  bool // the first half brought the count to 0: the second half will try to remove the version
	commits  int  // between the halves, same family
	passes   int
	cleanups int
	retained int // snapshots taken of the version being released, between the halves
}

const maxClosing = 2

func (e *env) opCloseBegin(i int, why string) {
	if len(e.closing) >= maxClosing {
		return
	}
	h := e.held[i]
	if h == e.reading {
		return
	}
	e.held = append(e.held[:i], e.held[i+1:]...)
	if h.compacts > 0 && h.cleanups > 0 && h.reads > 0 {
		e.ntSnaps++
	}
	v := h.snap.GetCurrent()
	c := &closingSnap{h: h, v: v, second: version.VerifReleaseInTwoSteps(v)}
	c.sawZero = v.NumOfRef() == 0
	e.closing = append(e.closing, c)
	e.logf("closeBegin snapshot #%d (%s): reference count of its version now %d", h.id, why, v.NumOfRef())
	e.classes["two-step-close-begun"]++
	if c.sawZero {
		e.classes["two-step-close-first-half-saw-zero"]++
		// another reader arrives right now (the version is retained again if it is still the current one)
		if len(e.held) < e.maxHeld && e.seamRng == nil && rapid.IntRange(0, 1).Draw(e.t, "readerArrivesBetweenHalves") == 1 {
			e.takeSnapshotOf(h.fam, "between the halves of the close of #"+fmt.Sprint(h.id))
		}
	}
}

func (e *env) currentVersion(fam string) version.Version {
	snap := e.fams[fam].GetSnapshot()
	defer snap.Close()
	return snap.GetCurrent()
}

func (e *env) opCloseEnd(j int, why string) {
	c := e.closing[j]
	e.closing = append(e.closing[:j], e.closing[j+1:]...)
	replaced := c.v != e.currentVersion(c.h.fam)
	others := c.v.NumOfRef() > 0
	e.logf("closeEnd snapshot #%d (%s): between the halves %d commits, %d obsolete-file passes, %d cache cleanups, %d snapshots of that version; version replaced=%v, held by others=%v",
		c.h.id, why, c.commits, c.passes, c.cleanups, c.retained, replaced, others)
	e.closes++
	c.second()
	// the rest of Close (the readers go back to the cache); Close releases the version once more, hence the Retain
	c.v.Retain()
	c.h.snap.Close()
	e.classes["two-step-close-ended"]++
	if c.commits > 0 {
		e.classes["two-step-close-commit-between-halves"]++
	}
	if c.passes > 0 {
		e.classes["two-step-close-obsolete-file-pass-between-halves"]++
	}
	if c.cleanups > 0 {
		e.classes["two-step-close-cache-cleanup-between-halves"]++
	}
	if c.retained > 0 {
		e.classes["two-step-close-snapshot-of-that-version-taken-between-halves"]++
	}
	if c.sawZero && replaced && others {
		e.classes["two-step-close-second-half-on-replaced-version-another-snapshot-retained"]++
	}
	e.checkActive("after closeEnd")
}

func (e *env) noteBetween(fam string, commit, pass, cleanup bool) {
	for _, c := range e.closing {
		if fam != "" && c.h.fam != fam {
			continue
		}
		if commit {
			c.commits++
		}
		if pass {
			c.passes++
		}
		if cleanup {
			c.cleanups++
		}
	}
}

// checkActive: the version of every held snapshot is still an active version of its family.
func (e *env) checkActive(when string) {
	if e.inJob || e.inOpenSeam {
		return
	}
	active := map[string]map[int64]bool{}
	for _, h := range e.held {
		a, ok := active[h.fam]
		if !ok {
			a = map[int64]bool{}
			fv := kv.VerifFamilyVersion(e.fams[h.fam]).(version.FamilyVersion)
			for _, fm := range fv.GetAllActiveFiles() {
				a[fm.GetFileNumber().Int64()] = true
			}
			active[h.fam] = a
		}
		var missing []int64
		for f := range h.files {
			if !a[f] {
				missing = append(missing, f)
			}
		}
		if len(missing) > 0 {
			sort.Slice(missing, func(i, j int) bool { return missing[i] < missing[j] })
			e.fatalf("%s: open snapshot #%d of %s (taken at op %d) lists tables %v, but the active versions of the family (the files the obsolete-file pass keeps) do not contain them", when, h.id, h.fam, h.takenAtOp, missing)
		}
	}
}

func (e *env) finishClosing(why string) {
	for len(e.closing) > 0 {
		e.opCloseEnd(0, why)
	}
}
