package c02

// Goroutine variant of the finding of regression_test.go (C02/stale-release-drops-version-another-snapshot-retained),
// at the level of the bookkeeping the statement's anchors name: "activeVersions = all versions still referenced by a
// snapshot plus the newest one". 3 readers take and close snapshots of one family in a tight loop while a writer
// commits flushes; a reader that holds a snapshot asks for the files of all active versions
// (FamilyVersion.GetAllActiveFiles, the set the obsolete-file pass keeps) and requires the files of its own version
// among them. Interleaving independent: holds under every schedule if Release/Retain are correct.

import (
	"fmt"
	"os"
	"path/filepath"
	"sync"
	"sync/atomic"
	"testing"
	"time"

	"github.com/lindb/common/pkg/ltoml"

	"github.com/lindb/lindb/kv"
	"github.com/lindb/lindb/kv/table"
	"github.com/lindb/lindb/kv/version"
	"github.com/lindb/lindb/verifharness/sim/ev"
	"github.com/lindb/lindb/verifharness/sim/kvsim"
)

func TestRegression_OpenSnapshotVersionStaysActiveUnderConcurrentClose(t *testing.T) {
	kvsim.Register()
	dir, err := os.MkdirTemp("", "c02v-")
	if err != nil {
		t.Fatal(err)
	}
	defer os.RemoveAll(dir)
	path := filepath.Join(dir, "store")
	s, err := kv.GetStoreManager().CreateStore(path, kv.StoreOption{Levels: 2, TTL: ltoml.Duration(time.Hour)})
	if err != nil {
		t.Fatal(err)
	}
	defer func() { _ = kv.GetStoreManager().CloseStore(path) }()
	f, err := s.CreateFamily("f", kv.FamilyOption{Merger: kvsim.MergerName, CompactThreshold: 0, MaxFileSize: 1 << 20})
	if err != nil {
		t.Fatal(err)
	}
	fv := kv.VerifFamilyVersion(f).(version.FamilyVersion)
	flushes := 1500
	if os.Getenv("VERIF_TIER") == "thorough" {
		flushes = 8000
	}
	var failMu sync.Mutex
	var failure string
	var stop atomic.Bool
	var checked atomic.Int64
	var wg sync.WaitGroup
	for r := 0; r < 3; r++ {
		wg.Add(1)
		go func(r int) {
			defer wg.Done()
			for !stop.Load() {
				snap := f.GetSnapshot()
				mine := snap.GetCurrent().GetAllFiles()
				active := map[table.FileNumber]bool{}
				for _, fm := range fv.GetAllActiveFiles() {
					active[fm.GetFileNumber()] = true
				}
				for _, fm := range mine {
					if !active[fm.GetFileNumber()] {
						failMu.Lock()
						if failure == "" {
							failure = fmt.Sprintf("reader %d holds an open snapshot whose version lists table %d, but the active versions of the family (the files the obsolete-file pass keeps) do not contain it", r, fm.GetFileNumber().Int64())
						}
						failMu.Unlock()
						stop.Store(true)
					}
				}
				checked.Add(1)
				snap.Close()
			}
		}(r)
	}
	for i := 1; i <= flushes && !stop.Load(); i++ {
		fl := f.NewFlusher()
		if err := fl.Add(uint32(i%7), kvsim.Encode(map[uint32]bool{uint32(i): true})); err != nil {
			t.Fatal(err)
		}
		err := fl.Commit()
		fl.Release()
		if err != nil {
			t.Fatal(err)
		}
		if i%20 == 0 {
			if _, err := kv.VerifCompactSync(f, true); err != nil {
				t.Fatal(err)
			}
		}
	}
	stop.Store(true)
	wg.Wait()
	ev.Case("TestRegression_OpenSnapshotVersionStaysActiveUnderConcurrentClose", fmt.Sprintf("flushes-%d", flushes), true, nil, map[string]any{"flushes": flushes, "snapshots_checked": checked.Load()})
	if failure != "" {
		t.Fatalf("%s (after %d snapshots)", failure, checked.Load())
	}
}
