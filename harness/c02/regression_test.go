package c02

// Genuine defect (repaired in /repo by d8a928b; this test fails if it returns), found by the first phase of TestConcurrentStress (thorough tier,
// -race, busy machine: "re-read of held snapshot (commits 1..1): Load(1): open .../000002.sst: no such file
// or directory"), signature C02/stale-release-drops-version-another-snapshot-retained.
//
// kv/version/version.go Version.Release decrements the reference count and, if it saw 0, calls
// FamilyVersion.removeVersion - two steps without a common lock. removeVersion (family_version.go) removes
// the version from the active versions unless it is the current one; it does not look at the reference
// count again. Schedule: reader 1 closes its snapshot of the current version P (count 1 -> 0) and is
// pre-empted before removeVersion; reader 2 takes a snapshot (P is still current: count 0 -> 1); a commit
// installs a new version (P stays active: reader 2 holds it); reader 1 continues: P is not current any more,
// so it is dropped from the active versions although reader 2 holds it. The next obsolete-file pass (every
// compaction ends with one) deletes the table files only P references: reader 2's open snapshot loses its
// files (Load/FindReaders fail with "no such file" once the reader cache has no mapping, and a mapping it
// got earlier is evicted as the file of a dead table).
//
// The test replays that schedule on one goroutine; the two steps of Release are taken apart by the verif
// seam version.VerifReleaseInTwoSteps (same statements as Release). Repair (d8a928b, kept here as
// proposed_fix_remove_version_rechecks_reference.diff): removeVersion re-checks the count under the lock
// that GetSnapshot's Retain runs under.

import (
	"fmt"
	"os"
	"path/filepath"
	"testing"
	"time"

	"github.com/lindb/common/pkg/ltoml"

	"github.com/lindb/lindb/kv"
	"github.com/lindb/lindb/kv/version"
	"github.com/lindb/lindb/verifharness/sim/ev"
	"github.com/lindb/lindb/verifharness/sim/kvsim"
)

const sigStaleRelease = "C02/stale-release-drops-version-another-snapshot-retained"

func TestRegression_StaleReleaseDropsVersionAnotherSnapshotRetained(t *testing.T) {
	kvsim.Register()
	dir, err := os.MkdirTemp("", "c02g-")
	if err != nil {
		t.Fatal(err)
	}
	defer os.RemoveAll(dir)
	path := filepath.Join(dir, "store")
	s, err := kv.GetStoreManager().CreateStore(path, kv.StoreOption{Levels: 2, TTL: ltoml.Duration(time.Nanosecond)})
	if err != nil {
		t.Fatal(err)
	}
	defer func() { _ = kv.GetStoreManager().CloseStore(path) }()
	f, err := s.CreateFamily("f", kv.FamilyOption{Merger: kvsim.MergerName, CompactThreshold: 0, MaxFileSize: 1 << 20})
	if err != nil {
		t.Fatal(err)
	}
	flush := func(atom uint32) {
		fl := f.NewFlusher()
		defer fl.Release()
		if err := fl.Add(1, kvsim.Encode(map[uint32]bool{atom: true})); err != nil {
			t.Fatal(err)
		}
		if err := fl.Commit(); err != nil {
			t.Fatal(err)
		}
	}
	var deleted []string
	kv.VerifSetFSHook(func(op, p string, before bool) {
		if op == "removeDir" && before {
			deleted = append(deleted, filepath.Base(p))
		}
	})
	defer kv.VerifSetFSHook(nil)

	flush(1) // table A; version P is current
	s1 := f.GetSnapshot()
	p := s1.GetCurrent()
	// reader 1 closes its snapshot: Release decrements (1 -> 0) ...
	second := version.VerifReleaseInTwoSteps(p)
	// ... reader 2 takes a snapshot of the current version P (0 -> 1) ...
	s2 := f.GetSnapshot()
	defer s2.Close()
	if s2.GetCurrent() != p {
		t.Fatal("harness: reader 2 did not get the version reader 1 is releasing")
	}
	held := map[string]bool{}
	for _, fm := range s2.GetCurrent().GetAllFiles() {
		held[version.Table(fm.GetFileNumber())] = true
	}
	// ... a commit installs a new version ...
	flush(2) // table B
	// ... reader 1 continues with the value it saw
	second()
	// any compaction (it ends with an obsolete-file pass): A and B are merged into C
	if ran, err := kv.VerifCompactSync(f, true); err != nil || !ran {
		t.Fatalf("compaction: ran=%v err=%v", ran, err)
	}
	for _, name := range deleted {
		if held[name] {
			t.Errorf("table %s was deleted while the open snapshot of reader 2 references it (deleted: %v)", name, deleted)
		}
	}
	got, err := kvsim.ReadSnapshot(s2, []uint32{1})
	if err != nil {
		t.Fatalf("reader 2, snapshot still open: %v", err)
	}
	want := kvsim.Content{}
	want.AddAtom(1, 1)
	if !want.Equal(got) {
		t.Fatalf("reader 2 no longer sees the content at acquisition:%s", kvsim.Diff(want, got))
	}
	ev.Case("TestRegression_StaleReleaseDropsVersionAnotherSnapshotRetained", "replay", true, nil, map[string]any{"deleted": fmt.Sprint(deleted)})
}
