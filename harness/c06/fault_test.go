package c06

// Page-store faults on the fan-out queue.
//
// Everything the queue stores goes through page.Factory / page.MappedPage. AcquirePage of a page the
// factory does not hold yet creates and maps a file (pkg/queue/page/factory.go, mpage.go,
// pkg/fileutil/mmap.go): open can fail (EMFILE/ENOSPC: no file), ftruncate can fail (ENOSPC: an
// empty file stays behind), mmap can fail (ENOMEM / vm.max_map_count: a zero file of the page size
// stays behind); the construction of a factory (mkdir / list) can fail. The callers return the
// error: Queue.Put (next data page at a roll-over, next index page when the sequence is the first
// of an index page - or the first append after an index reset into another page),
// GetOrCreateConsumerGroup (the group's meta page). The producer / the stream handler retries.
//
// Steps of this file let such a creation fail once (or twice) and retry, at the places the fan-out
// queue creates page files: the index page at a sequence k*262144 (reached through the follower
// reset FanOutQueue.SetAppendedSeq to just below the boundary, as the machine does anyway, plus
// ordinary appends up to the last slot), the index page of the first append after a reset, the
// data page of a roll-over (roll-over machine, thorough tier), the meta page / page factory of a
// group that is created or re-opened.
//
// Oracle unchanged (statement): a failed append consumes no sequence (appended does not move,
// positions of the groups do not move), every sequence in (queue ack, appended] stays readable
// byte for byte - checked after every failed attempt, after the retry and after every later step,
// reopen included; a failed GetOrCreateConsumerGroup lists no group, the retry gives a group with
// the positions a group opened without fault would have (new: -1/-1 or the queue ack; stopped:
// persisted positions lifted to the queue ack).

import (
	"fmt"
	"os"
	"path/filepath"
	"sync"
	"syscall"
	"testing"

	"pgregory.net/rapid"

	"github.com/lindb/lindb/pkg/queue/page"
	"github.com/lindb/lindb/verifharness/sim/ev"
)

// sigGroupMetaResidue: the creation of the meta page of a brand-new group fails after the file was
// created (ftruncate / mmap); the retry takes the zero file for persisted positions 0/0.
const sigGroupMetaResidue = "C06/new-group-after-failed-meta-page-creation-starts-at-zero"

type pageFaults struct {
	mu         sync.Mutex
	acquireKey string // creation of a page file of this factory fails: "data" | "index" | group name
	acquireN   int
	residue    string // none | empty-file | full-file
	ctorKey    string // construction of this factory fails once
	fired      []string
}

var pfault = &pageFaults{}

var residues = []string{"none", "none", "empty-file", "full-file"}

func (f *pageFaults) arm(acquireKey string, n int, residue, ctorKey string) {
	f.mu.Lock()
	f.acquireKey, f.acquireN, f.residue, f.ctorKey, f.fired = acquireKey, n, residue, ctorKey, nil
	f.mu.Unlock()
}

func (f *pageFaults) disarm() []string {
	f.mu.Lock()
	defer f.mu.Unlock()
	f.acquireKey, f.acquireN, f.ctorKey = "", 0, ""
	return f.fired
}

func (f *pageFaults) count() int {
	f.mu.Lock()
	defer f.mu.Unlock()
	return len(f.fired)
}

// acquire: the creation of page file index of factory key fails (a page the factory holds is
// served from its map: no file is created, nothing can fail).
func (f *pageFaults) acquire(fct page.Factory, key, path string, pageSize int, index int64) error {
	f.mu.Lock()
	defer f.mu.Unlock()
	if f.acquireN == 0 || key != f.acquireKey {
		return nil
	}
	if _, held := fct.GetPage(index); held {
		return nil
	}
	f.acquireN--
	name := filepath.Join(path, fmt.Sprintf("%d.bat", index))
	f.fired = append(f.fired, fmt.Sprintf("create %s/%d.bat (residue %s)", key, index, f.residue))
	switch f.residue {
	case "empty-file", "full-file":
		fh, err := os.OpenFile(name, os.O_CREATE|os.O_RDWR, 0o644)
		if err != nil {
			panic(fmt.Sprintf("harness: residue file: %v", err))
		}
		if f.residue == "full-file" {
			if err := fh.Truncate(int64(pageSize)); err != nil {
				panic(fmt.Sprintf("harness: residue file: %v", err))
			}
		}
		_ = fh.Close()
		if f.residue == "empty-file" {
			return &os.PathError{Op: "truncate", Path: name, Err: syscall.ENOSPC}
		}
		return syscall.ENOMEM // mmap
	}
	return &os.PathError{Op: "open", Path: name, Err: syscall.EMFILE}
}

func (f *pageFaults) construct(key, path string) error {
	f.mu.Lock()
	defer f.mu.Unlock()
	if f.ctorKey == "" || f.ctorKey != key {
		return nil
	}
	f.ctorKey = ""
	f.fired = append(f.fired, "construct page factory "+key)
	return &os.PathError{Op: "open", Path: path, Err: syscall.EMFILE}
}

// faultFactory: a data / index page factory whose page creation can be made to fail.
type faultFactory struct {
	page.Factory
	key      string
	path     string
	pageSize int
}

func (f *faultFactory) AcquirePage(index int64) (page.MappedPage, error) {
	if err := pfault.acquire(f.Factory, f.key, f.path, f.pageSize, index); err != nil {
		return nil, err
	}
	p, err := f.Factory.AcquirePage(index)
	if err == nil && f.key == "index" {
		idxTrack.set(index, p) // reset_test.go: the index page the queue stores its next entry through
	}
	return p, err
}

// ---- appends under faults ------------------------------------------------------------------------

// faultyPut appends m while the creation of the next `n` page files of factory key fails. Every
// failed attempt is checked (no sequence consumed, everything readable), other roles may act, the
// producer retries until the message is in.
func (w *world) faultyPut(m msg, key string, n int, residue, where string) {
	pfault.arm(key, n, residue, "")
	defer pfault.disarm()
	data := m.bytes()
	failures := 0
	for {
		before := pfault.count()
		q := w.fq.Queue() // a reopen between failure and retry replaces it
		err := q.Put(data)
		if err == nil {
			break
		}
		if pfault.count() == before {
			w.fatalf("Put(%s) fails although no page-store fault was injected: %v", m, err)
		}
		failures++
		w.class("fault-append-failed")
		w.class("fault-append-failed:" + key + "-page(" + residue + ")")
		w.logf("append %s fails: %v (creation of the next %s page file failed, residue %s)", m, err, key, residue)
		if app := q.AppendedSeq(); app != w.appended {
			w.fatalf("the failed append of %s consumed a sequence: appended %d -> %d", m, w.appended, app)
		}
		w.check("after a failed append")
		// what the other roles do before the producer retries
		switch rapid.IntRange(0, 7).Draw(w.t, "betweenFailureAndRetry") {
		case 0, 1:
			w.opTick()
			w.check("after sync+gc between failure and retry")
		case 2, 3:
			if w.catchUpAll(2) {
				w.logf("catchUpAll -> %s", w.modelString())
				w.check("after catch up between failure and retry")
			}
		case 4:
			// the node restarts (a transient fault is gone afterwards)
			pfault.disarm()
			w.opReopen()
			w.check("after reopen between failure and retry")
			w.class("fault-reopen-before-retry")
		}
		if failures > 4 {
			w.fatalf("harness: append of %s failed %d times with %d faults armed", m, failures, n)
		}
	}
	fired := pfault.disarm()
	w.appended++
	w.msgs[w.appended] = m
	switch {
	case failures > 0:
		w.class("fault-append-retry-succeeded")
		w.class("fault-append-retry-succeeded:" + where)
		if key == "index" && w.appended%itemsPerIndexPage == 0 {
			w.class("fault-index-page-roll-failed-then-retried-at-boundary")
		}
		w.ntFault = true
	case len(fired) > 0:
		w.class("fault-append-succeeded-despite-fault")
	default:
		w.class("fault-armed-but-no-page-created")
	}
	w.logf("append %s -> appended=%d (after %d failed attempts)", m, w.appended, failures)
}

func (w *world) opFaultyAppend() {
	where := rapid.SampledFrom([]string{"boundary", "boundary", "boundary", "after-reset", "here"}).Draw(w.t, "faultWhere")
	next := (w.appended/itemsPerIndexPage + 1) * itemsPerIndexPage // first sequence of the next index page
	if where != "here" && w.anyStopped() && !(where == "boundary" && next-1-w.appended <= 6) {
		where = "here" // an index reset would not reach a stopped group
	}
	switch where {
	case "boundary":
		if next-1-w.appended > 6 {
			// follower-side reset to just below the boundary (the machine's reset operation)
			s := next - 1 - int64(rapid.IntRange(0, 3).Draw(w.t, "faultBelowBoundary"))
			if rapid.IntRange(0, 3).Draw(w.t, "faultFartherPage") == 0 {
				s += itemsPerIndexPage
				next += itemsPerIndexPage
			}
			w.opSetAppended(s)
			w.check("after the reset below the boundary")
			if rapid.Bool().Draw(w.t, "faultReopenAfterReset") {
				w.opReopen()
				w.check("after reopen below the boundary")
			}
		}
		for w.appended < next-1 {
			w.put(w.newMsg(w.genSize()))
		}
		w.logf("appends up to the last slot of the index page -> appended=%d", w.appended)
		w.check("at the last slot of an index page")
		w.class("fault-at-index-page-boundary")
	case "after-reset":
		s := w.appended + itemsPerIndexPage*int64(rapid.IntRange(1, 2).Draw(w.t, "faultResetPages")) + int64(rapid.IntRange(0, 1000).Draw(w.t, "faultResetInto"))
		w.opSetAppended(s)
		w.check("after the reset into another index page")
		w.class("fault-first-append-after-reset-into-another-index-page")
	}
	w.faultyPut(w.newMsg(w.genSize()), "index", rapid.IntRange(1, 2).Draw(w.t, "faultCount"), rapid.SampledFrom(residues).Draw(w.t, "faultResidue"), where)
	w.check("after the append under faults")
	// the log keeps working: more appends, the groups consume what was appended
	for i, n := 0, rapid.IntRange(0, 3).Draw(w.t, "faultAppendsAfter"); i < n; i++ {
		w.put(w.newMsg(w.genSize()))
	}
	if rapid.Bool().Draw(w.t, "faultCatchUpAfter") && w.catchUpAll(2) {
		w.logf("catchUpAll -> %s", w.modelString())
	}
}

// opFaultyBigAppend (roll-over machine): a message of tens of MiB whose data page creation fails.
func (w *world) opFaultyBigAppend() {
	if w.bigLeft == 0 {
		w.t.Skip("no big append left")
	}
	w.bigLeft--
	m := w.newMsg(rapid.IntRange(35<<20, 70<<20).Draw(w.t, "bigSize"))
	w.class("big-append")
	w.faultyPut(m, "data", rapid.IntRange(1, 2).Draw(w.t, "faultCount"), rapid.SampledFrom(residues).Draw(w.t, "faultResidue"), "data-page-roll-over")
}

// ---- group creation under faults -----------------------------------------------------------------

func (w *world) opFaultyCreateGroup() {
	var cands []string
	for _, n := range w.universe {
		if g, ok := w.groups[n]; !ok || !g.open {
			cands = append(cands, n)
		}
	}
	if len(cands) == 0 {
		w.t.Skip("all groups exist")
	}
	name := cands[rapid.IntRange(0, len(cands)-1).Draw(w.t, "faultCreateName")]
	g, persisted := w.groups[name]
	kind := "ctor" // the meta page file of a stopped group exists: only the construction of its factory can fail
	residue := "none"
	if !persisted {
		kind = rapid.SampledFrom([]string{"acquire", "acquire", "acquire", "ctor"}).Draw(w.t, "faultCreateKind")
		if kind == "acquire" {
			residue = rapid.SampledFrom(residues).Draw(w.t, "faultResidue")
			if residue != "none" && ev.Known(sigGroupMetaResidue) {
				w.class("excluded_known")
				residue = "none"
			}
		}
	}
	if kind == "acquire" {
		pfault.arm(name, 1, residue, "")
	} else {
		pfault.arm("", 0, "", name)
	}
	h, err := w.fq.GetOrCreateConsumerGroup(name)
	fired := pfault.disarm()
	what := fmt.Sprintf("%s of the meta page of group %s fails (residue %s)", map[string]string{"acquire": "creation", "ctor": "construction of the page factory"}[kind], name, residue)
	if err != nil {
		if len(fired) == 0 {
			w.fatalf("GetOrCreateConsumerGroup(%s) fails although no page-store fault was injected: %v", name, err)
		}
		w.logf("createGroup %s fails: %v (%s)", name, err, what)
		w.class("fault-create-group-failed:" + kind + "(" + residue + ")")
		w.check("after a failed group creation") // the group is not listed, nothing moved
		h, err = w.fq.GetOrCreateConsumerGroup(name)
		if err != nil {
			w.fatalf("GetOrCreateConsumerGroup(%s) fails again without a fault: %v", name, err)
		}
	} else if len(fired) > 0 {
		w.class("fault-create-group-succeeded-despite-fault")
	}
	if persisted {
		w.attach(g, h, "re-create stopped group after "+what)
		w.class("fault-recreate-stopped-group")
		w.logf("createGroup %s (stopped before; retry) -> consumed=%d ack=%d", name, g.consumed, g.ack)
		return
	}
	c, a := h.ConsumedSeq(), h.AcknowledgedSeq()
	if c != a || (c != -1 && c != w.qack) {
		w.fatalf("new group %s starts at consumed=%d ack=%d (queue ack %d, appended %d) after the %s and a retry: neither the documented start (queue ack) nor -1",
			name, c, a, w.qack, w.appended, what)
	}
	w.groups[name] = &grp{name: name, consumed: c, ack: a, open: true, h: h}
	w.class("fault-create-fresh-group")
	w.logf("createGroup %s (new; retry) -> consumed=%d ack=%d", name, c, a)
}

// TestGroupPageFaults: the state machine of TestGroupHistory plus steps in which the creation of an
// index page (at a sequence k*262144, or at the first append after an index reset), of a group's
// meta page or of its page factory fails once or twice and the caller retries.
// non-trivial = some append failed in the creation of an index page and its retry succeeded.
func TestGroupPageFaults(t *testing.T) {
	thorough := os.Getenv("VERIF_TIER") == "thorough"
	installPages()
	defer uninstallPages()
	rapid.Check(t, func(t *rapid.T) {
		runHistoryMode(t, "TestGroupPageFaults", thorough, false, machineMode{faults: true})
	})
}
