package c06

// Page truncation against page acquisition, at the page store itself.
//
// Queue.GC() removes index / data pages through page.Factory.TruncatePages; appends and index resets
// (re-)acquire pages through Factory.AcquirePage, readers use GetPage. The factory protects its page
// map, the mapped files and their removal with one mutex: a truncation is one step for every other
// user of the factory. Since the fix "queue GC unmaps the index/data page that appends still store
// through after an index reset" the queue additionally keeps appends and resets out of a running GC
// (GC holds the queue lock), so the window inside TruncatePages is no longer reachable through the
// fan-out queue (TestGroupIndexReset still starts the racing reset + append inside it and sees it
// wait). This test checks the page store's own half of "garbage collection removes only what lies
// below the acknowledged position ... and what was appended survives close and reopen" directly:
//
// rapid state machine over one page.Factory with small pages (16 B .. 64 KiB; the page size is an
// argument of NewFactory): acquire + write (every write is a self-describing marker), get + compare,
// truncate, close + reopen, and truncate with a racing actor started on its own goroutine while the
// truncation unmaps a chosen page (seam: page.MMapCloseFunc, before or after the real unmap, always
// before the file removal): AcquirePage of the page being collected (what the append after an index
// reset back into that page does) / of another collected page / of a page above the truncation index,
// followed by a write, or GetPage + read. The harness waits until the actor completed or is parked on a
// lock, lets the truncation continue and joins both.
//
// Oracle: linearizability - what is observable afterwards (ids the factory hands out, bytes of every
// page, page files on disk, Size, and everything again after Close + NewFactory) equals one of the two
// sequential orders: "truncate; actor" (the actor got a fresh zero page whose file exists and keeps
// what the actor wrote) or "actor; truncate" (the actor got the old page with its old bytes, the
// truncation then removed it: not handed out, no file).

import (
	"bytes"
	"encoding/binary"
	"fmt"
	"os"
	"path/filepath"
	"sort"
	"strconv"
	"strings"
	"testing"
	"time"

	"pgregory.net/rapid"

	"github.com/lindb/lindb/pkg/queue/page"
	"github.com/lindb/lindb/verifharness/sim/ev"
)

type pageWorld struct {
	t       *rapid.T
	path    string
	size    int
	f       page.Factory
	model   map[int64][]byte // id -> expected bytes of the page (pages the factory holds = files on disk)
	stamp   uint64
	ops     []string
	classes map[string]int
}

func (w *pageWorld) logf(format string, args ...any) { w.ops = append(w.ops, fmt.Sprintf(format, args...)) }

func (w *pageWorld) fatalf(format string, args ...any) {
	w.t.Helper()
	w.t.Fatalf(format+"\nmodel pages: %v\nhistory:\n  %s", append(args, w.ids(), strings.Join(w.ops, "\n  "))...)
}

func (w *pageWorld) ids() []int64 {
	var ids []int64
	for id := range w.model {
		ids = append(ids, id)
	}
	sort.Slice(ids, func(i, j int) bool { return ids[i] < ids[j] })
	return ids
}

func (w *pageWorld) filesOnDisk() []int64 {
	es, err := os.ReadDir(w.path)
	if err != nil {
		w.fatalf("harness: %v", err)
	}
	var ids []int64
	for _, e := range es {
		id, err := strconv.ParseInt(strings.TrimSuffix(e.Name(), ".bat"), 10, 64)
		if err != nil {
			w.fatalf("unexpected file %s in the page directory", e.Name())
		}
		ids = append(ids, id)
	}
	sort.Slice(ids, func(i, j int) bool { return ids[i] < ids[j] })
	return ids
}

// nextStamp returns a fresh non-zero 8-byte marker.
func (w *pageWorld) nextStamp() uint64 {
	w.stamp++
	return w.stamp*0x9E3779B97F4A7C15 | 1
}

// verify compares everything observable with the model.
func (w *pageWorld) verify(where string) {
	ids := w.ids()
	if disk := w.filesOnDisk(); fmt.Sprint(disk) != fmt.Sprint(ids) {
		w.fatalf("%s: page files on disk %v, pages the model holds %v", where, disk, ids)
	}
	if got, want := w.f.Size(), int64(len(ids)*w.size); got != want {
		w.fatalf("%s: Size() = %d with %d pages of %d bytes", where, got, len(ids), w.size)
	}
	for id := int64(0); id < 10; id++ {
		pg, ok := w.f.GetPage(id)
		want, held := w.model[id]
		if ok != held {
			w.fatalf("%s: GetPage(%d) ok=%v, model holds the page: %v", where, id, ok, held)
		}
		if !ok {
			continue
		}
		if pg.Closed() {
			w.fatalf("%s: GetPage(%d) hands out an unmapped page", where, id)
		}
		if got := pg.ReadBytes(0, w.size); !bytes.Equal(got, want) {
			w.fatalf("%s: page %d holds bytes that differ from what was written to it (first difference at offset %d)", where, id, firstDiff(got, want))
		}
	}
}

func firstDiff(a, b []byte) int {
	for i := range a {
		if i >= len(b) || a[i] != b[i] {
			return i
		}
	}
	return len(a)
}

func (w *pageWorld) class(c string) { w.classes[c]++ }

func (w *pageWorld) opAcquire() {
	id := rapid.Int64Range(0, 7).Draw(w.t, "acquireID")
	off := rapid.IntRange(0, w.size/8-1).Draw(w.t, "acquireSlot") * 8
	pg, err := w.f.AcquirePage(id)
	if err != nil {
		w.fatalf("AcquirePage(%d): %v", id, err)
	}
	want, held := w.model[id]
	if !held {
		want = make([]byte, w.size)
		w.model[id] = want
		w.class("acquire-new-page")
	} else {
		w.class("acquire-held-page")
	}
	if got := pg.ReadBytes(0, w.size); !bytes.Equal(got, want) {
		w.fatalf("AcquirePage(%d) (held before: %v) hands out a page whose bytes differ from what was written to it (offset %d)", id, held, firstDiff(got, want))
	}
	v := w.nextStamp()
	pg.PutUint64(v, off)
	binary.LittleEndian.PutUint64(want[off:], v)
	w.logf("acquire %d (held before: %v), write %#x at %d", id, held, v, off)
}

func (w *pageWorld) opTruncate() {
	index := rapid.Int64Range(0, 9).Draw(w.t, "truncateIndex")
	w.f.TruncatePages(index)
	n := 0
	for id := range w.model {
		if id < index {
			delete(w.model, id)
			n++
		}
	}
	if n > 0 {
		w.class("truncate-removed-pages")
	}
	w.logf("truncate %d -> %d pages removed", index, n)
}

func (w *pageWorld) opReopen() {
	if err := w.f.Close(); err != nil {
		w.fatalf("Close: %v", err)
	}
	f, err := page.NewFactory(w.path, w.size)
	if err != nil {
		w.fatalf("NewFactory: %v", err)
	}
	w.f = f
	w.class("reopen")
	w.logf("close + reopen")
}

// opTruncateRace: see the file comment.
func (w *pageWorld) opTruncateRace() {
	ids := w.ids()
	if len(ids) == 0 {
		w.t.Skip("no page")
	}
	victim := ids[rapid.IntRange(0, len(ids)-1).Draw(w.t, "raceVictim")]
	index := rapid.Int64Range(victim+1, 9).Draw(w.t, "raceIndex")
	kind := rapid.SampledFrom([]string{"acquire-victim", "acquire-victim", "acquire-victim", "acquire-other", "get-victim", "get-other"}).Draw(w.t, "raceKind")
	target := victim
	if kind == "acquire-other" || kind == "get-other" {
		target = rapid.Int64Range(0, 8).Draw(w.t, "raceOther")
	}
	off := rapid.IntRange(0, w.size/8-1).Draw(w.t, "raceSlot") * 8
	afterUnmap := rapid.Bool().Draw(w.t, "raceAfterUnmap")
	thenReopen := rapid.IntRange(0, 2).Draw(w.t, "raceThenReopen") != 0
	v := w.nextStamp()

	// what the actor observes
	var (
		gotPage page.MappedPage
		gotOK   bool
		gotErr  error
		seen    []byte
	)
	f := w.f
	size := w.size
	actor := func() {
		if strings.HasPrefix(kind, "acquire") {
			gotPage, gotErr = f.AcquirePage(target)
			gotOK = gotErr == nil
			if gotOK {
				seen = append([]byte(nil), gotPage.ReadBytes(0, size)...)
				gotPage.PutUint64(v, off)
			}
			return
		}
		gotPage, gotOK = f.GetPage(target)
		if gotOK && !gotPage.Closed() {
			seen = append([]byte(nil), gotPage.ReadBytes(0, size)...)
		}
	}
	done := make(chan struct{})
	how := "page-not-unmapped"
	cseam.arm(filepath.Join(w.path, fmt.Sprintf("%d.bat", victim)), afterUnmap, func() { how = runNested(actor, done) })
	w.f.TruncatePages(index)
	fired := cseam.disarm()
	if !fired {
		actor()
		close(done)
	}
	select {
	case <-done:
	case <-time.After(20 * time.Second):
		w.fatalf("truncate race: the actor (%s %d) started while TruncatePages(%d) unmapped page %d has not returned 20 s after the truncation returned", kind, target, index, victim)
	}
	point := "before-unmap"
	if afterUnmap {
		point = "after-unmap"
	}
	w.logf("truncate %d racing [%s %d, write %#x at %d] started %s of page %d: %s", index, kind, target, v, off, point, victim, how)
	if gotErr != nil {
		w.fatalf("truncate race: AcquirePage(%d): %v", target, gotErr)
	}

	// the two sequential orders on the model
	old, held := w.model[target]
	clone := func(m map[int64][]byte) map[int64][]byte {
		c := map[int64][]byte{}
		for k, b := range m {
			c[k] = append([]byte(nil), b...)
		}
		return c
	}
	truncate := func(m map[int64][]byte) {
		for id := range m {
			if id < index {
				delete(m, id)
			}
		}
	}
	// order A: truncate; actor
	a := clone(w.model)
	truncate(a)
	var seenA []byte
	okA := true
	if strings.HasPrefix(kind, "acquire") {
		if _, h := a[target]; !h {
			a[target] = make([]byte, w.size)
		}
		seenA = append([]byte(nil), a[target]...)
		binary.LittleEndian.PutUint64(a[target][off:], v)
	} else if b, h := a[target]; h {
		seenA = b
	} else {
		okA = false
	}
	// order B: actor; truncate
	b := clone(w.model)
	var seenB []byte
	okB := true
	if strings.HasPrefix(kind, "acquire") {
		if !held {
			b[target] = make([]byte, w.size)
		}
		seenB = append([]byte(nil), b[target]...)
		binary.LittleEndian.PutUint64(b[target][off:], v)
	} else if held {
		seenB = old
	} else {
		okB = false
	}
	truncate(b)

	matches := func(m map[int64][]byte, ok bool, seenWant []byte) string {
		if gotOK != ok {
			return fmt.Sprintf("the actor's call reported ok=%v, this order gives %v", gotOK, ok)
		}
		if ok && seen != nil && !bytes.Equal(seen, seenWant) {
			return fmt.Sprintf("the actor read bytes that differ from this order's at offset %d", firstDiff(seen, seenWant))
		}
		var ids []int64
		for id := range m {
			ids = append(ids, id)
		}
		sort.Slice(ids, func(i, j int) bool { return ids[i] < ids[j] })
		if disk := w.filesOnDisk(); fmt.Sprint(disk) != fmt.Sprint(ids) {
			return fmt.Sprintf("page files on disk %v, this order leaves %v", disk, ids)
		}
		for id := int64(0); id < 10; id++ {
			pg, ok := w.f.GetPage(id)
			want, h := m[id]
			if ok != h {
				return fmt.Sprintf("GetPage(%d) ok=%v, this order: %v", id, ok, h)
			}
			if ok && (pg.Closed() || !bytes.Equal(pg.ReadBytes(0, w.size), want)) {
				return fmt.Sprintf("page %d unmapped or with other bytes than this order's", id)
			}
		}
		return ""
	}
	whyA := matches(a, okA, seenA)
	whyB := matches(b, okB, seenB)
	switch {
	case whyA == "":
		w.model = a
		w.class("truncate-race-order:truncate-then-actor")
	case whyB == "":
		w.model = b
		w.class("truncate-race-order:actor-then-truncate")
	default:
		w.fatalf("truncate race: TruncatePages(%d) with [%s %d + write] started %s of page %d (%s): the outcome is neither 'truncate; actor' (%s) nor 'actor; truncate' (%s)",
			index, kind, target, point, victim, how, whyA, whyB)
	}
	w.class("truncate-race")
	w.class("truncate-race:" + kind)
	w.class("truncate-race-actor-" + how)
	if fired && kind == "acquire-victim" {
		w.class("truncate-race-acquire-of-the-page-being-collected")
	}
	if fired && strings.HasPrefix(kind, "acquire") && target != victim && target < index {
		if _, h := w.model[target]; h {
			w.class("truncate-race-acquire-of-another-collected-page")
		}
	}
	w.verify("after the truncate race")
	if thenReopen {
		w.opReopen()
		w.verify("after the reopen that follows the truncate race")
		w.class("truncate-race-then-reopen")
	}
}

// TestPageFactoryTruncateRace: see the file comment. non-trivial = some racing actor acquired the page
// that was being collected (started inside the truncation) and a reopen followed.
func TestPageFactoryTruncateRace(t *testing.T) {
	installCloseSeam()
	defer uninstallCloseSeam()
	rapid.Check(t, func(t *rapid.T) {
		root, err := os.MkdirTemp("", "c06p-")
		if err != nil {
			t.Fatalf("harness: %v", err)
		}
		defer os.RemoveAll(root)
		w := &pageWorld{t: t, path: filepath.Join(root, "index"), model: map[int64][]byte{}, classes: map[string]int{}}
		w.size = rapid.SampledFrom([]int{16, 64, 4096, 65536}).Draw(t, "pageSize")
		w.stamp = uint64(rapid.Uint32().Draw(t, "salt"))
		f, err := page.NewFactory(w.path, w.size)
		if err != nil {
			t.Fatalf("NewFactory: %v", err)
		}
		w.f = f
		defer func() { _ = w.f.Close() }()
		step := func(fn func()) func(*rapid.T) {
			return func(t *rapid.T) { w.t = t; fn() }
		}
		t.Repeat(map[string]func(*rapid.T){
			"acquire":       step(w.opAcquire),
			"acquire2":      step(w.opAcquire),
			"acquire3":      step(w.opAcquire),
			"truncate":      step(w.opTruncate),
			"truncateRace":  step(w.opTruncateRace),
			"truncateRace2": step(w.opTruncateRace),
			"truncateRace3": step(w.opTruncateRace),
			"reopen":        step(w.opReopen),
			"":              step(func() { w.verify("after step") }),
		})
		w.t = t
		w.opReopen()
		w.verify("after the final reopen")
		for c, k := range w.classes {
			ev.Class("TestPageFactoryTruncateRace", c, k)
		}
		nt := w.classes["truncate-race-acquire-of-the-page-being-collected"] > 0 && w.classes["truncate-race-then-reopen"] > 0
		ev.Case("TestPageFactoryTruncateRace", strings.Join(w.ops, ";"), nt, nil, map[string]any{"history": w.ops, "page_size": w.size})
	})
}
