package c06

// The parked consumer.
//
// A replica loop spends most of its life inside ConsumerGroup.Consume of a drained group: it read
// consumed+1, found nothing appended there and waits in Queue.NotEmpty (sync.Cond.Wait) until the
// appender publishes a message or the group is paused / closed. While it waits, other goroutines
// work on the same group and on the queue (replica/partition.go, replicator*.go,
// app/storage/rpc/replica.go):
//   - Ack of the group (family flush callback, answer of the follower);
//   - the follower-side index reset (ReplicaHandler.Reset -> partition.ResetReplicaIndex ->
//     FanOutQueue.SetAppendedSeq -> SetSeq of every group), forward only;
//   - a re-consume request SetConsumedSeq(back), ack <= back <= consumed (ResetReplicaIndex of a
//     replicator; the interface offers it "when re-consume message" and serialises it with the
//     hand-out through the group's lock - production issues it from the replica loop itself and
//     from the construction of a replicator, see the assumption in checks_config.py);
//   - Sync, GC, appends to wake it, operations on other groups;
//   - Pause, StopConsumerGroup of the (empty) group by the expiry task, Close of the whole log.
//
// A step starts Consume of a drained group on its own goroutine, waits until that goroutine is
// parked in sync.Cond.Wait (scheduler state read from runtime.Stack - no clock), runs 1..3 generated
// operations of other roles on the harness goroutine (they complete while the consumer sleeps),
// then wakes the consumer: an append (mostly), Pause, StopConsumerGroup (if the group is empty) or
// Close + reopen.
//
// Oracle (statement): the sequence handed out is consumed+1 for the consumed position that is
// current when it is handed out, i.e. after the operations that completed before the wake-up - a
// re-consume request or an index reset is not lost, hand-outs are consecutive otherwise; the message
// is readable byte for byte; a consumer woken by Pause / Stop / Close is handed nothing and moves
// nothing; afterwards the checks of the machine (ack <= consumed <= appended, positions == model,
// everything above the queue ack readable).

import (
	"os"
	"testing"
	"time"

	"pgregory.net/rapid"

	"github.com/lindb/lindb/pkg/queue"
)

// startParked runs fn on its own goroutine and returns once that goroutine waits in
// sync.Cond.Wait ("parked") or fn returned ("returned").
func (w *world) startParked(fn func(), done chan struct{}) string {
	idc := make(chan int64, 1)
	go func() {
		idc <- goroutineID()
		fn()
		close(done)
	}()
	id := <-idc
	start := time.Now()
	seen := 0
	for i := 0; ; i++ {
		select {
		case <-done:
			return "returned"
		default:
		}
		if goroutineState(id) == "sync.Cond.Wait" {
			if seen++; seen >= 2 {
				return "parked"
			}
		} else {
			seen = 0
		}
		if time.Since(start) > 60*time.Second { // liveness of the harness only
			w.fatalf("harness: the consumer goroutine neither waits in sync.Cond.Wait nor returned after 60 s (state %q)", goroutineState(id))
		}
		if i > 4 {
			time.Sleep(20 * time.Microsecond)
		}
	}
}

func (w *world) anyStopped() bool {
	for _, g := range w.groups {
		if !g.open {
			return true
		}
	}
	return false
}

func (w *world) opParkedConsume() {
	var cands []*grp
	for _, g := range w.openGroups() {
		if !g.paused && g.ack <= g.consumed && g.consumed <= w.appended && !w.tooFar(g) {
			cands = append(cands, g)
		}
	}
	if len(cands) == 0 {
		w.t.Skip("no group that can be drained")
	}
	g := cands[rapid.IntRange(0, len(cands)-1).Draw(w.t, "parkedGroup")]
	if g.consumed < w.appended {
		for g.consumed < w.appended {
			w.consumeOnce(g, false)
		}
		w.logf("consume %s up to the end -> consumed=%d", g.name, g.consumed)
	}
	if rapid.IntRange(0, 2).Draw(w.t, "parkedAckFirst") == 0 && g.ack < g.consumed {
		w.ack(g, rapid.Int64Range(g.ack, g.consumed).Draw(w.t, "parkedAckSeq"), "before parking")
	}

	// the consumer parks
	h := g.h
	var handed int64
	done := make(chan struct{})
	if st := w.startParked(func() { handed = h.Consume() }, done); st != "parked" {
		w.fatalf("Consume on drained group %s (consumed=%d appended=%d, not paused) returned %d instead of waiting", g.name, g.consumed, w.appended, handed)
	}
	w.logf("consumer of %s parks inside Consume (consumed=%d ack=%d appended=%d)", g.name, g.consumed, g.ack, w.appended)
	release := func() { // so that no goroutine outlives a failing case
		h.Pause()
		select {
		case <-done:
		case <-time.After(10 * time.Second):
		}
	}
	w.class("parked-consume")

	// operations of other roles while it sleeps
	moved := false
	n := rapid.IntRange(1, 3).Draw(w.t, "parkedOps")
	for i := 0; i < n; i++ {
		kinds := []string{"reconsume", "reconsume", "reconsume", "ack", "ack", "tick", "sync", "gc", "otherConsume", "otherAck"}
		if !w.anyStopped() {
			kinds = append(kinds, "reset", "reset")
		}
		kind := rapid.SampledFrom(kinds).Draw(w.t, "parkedOp")
		var other *grp
		if kind == "otherConsume" || kind == "otherAck" {
			var os []*grp
			for _, o := range w.openGroups() {
				if o != g && !o.paused && o.ack <= o.consumed && o.consumed <= w.appended && (kind == "otherAck" || o.consumed < w.appended) {
					os = append(os, o)
				}
			}
			if len(os) == 0 {
				kind = "tick"
			} else {
				other = os[rapid.IntRange(0, len(os)-1).Draw(w.t, "parkedOther")]
			}
		}
		switch kind {
		case "reconsume":
			// re-consume request: ack <= back <= consumed
			back := g.ack
			if rapid.Bool().Draw(w.t, "parkedBackAnywhere") {
				back = rapid.Int64Range(g.ack, g.consumed).Draw(w.t, "parkedBack")
			}
			h.SetConsumedSeq(back)
			if back < g.consumed {
				moved = true
				w.class("parked-op:re-consume-request-below-consumed")
			} else {
				w.class("parked-op:re-consume-request-at-consumed")
			}
			g.consumed = back
			w.logf("setConsumed %s %d (consumer parked)", g.name, back)
		case "ack":
			if g.ack > g.consumed {
				continue
			}
			k := rapid.Int64Range(g.ack, g.consumed).Draw(w.t, "parkedAckSeq")
			if rapid.IntRange(0, 4).Draw(w.t, "parkedAckOutside") == 0 {
				k = w.appended + int64(rapid.IntRange(1, 3).Draw(w.t, "parkedAckBeyond"))
			}
			w.ack(g, k, "consumer parked")
			w.class("parked-op:ack")
		case "reset":
			// follower-side index reset, forward
			s := w.appended + int64(rapid.IntRange(1, 6).Draw(w.t, "parkedResetBy"))
			if rapid.IntRange(0, 3).Draw(w.t, "parkedResetFar") == 0 {
				s = (w.appended/itemsPerIndexPage+1)*itemsPerIndexPage - int64(rapid.IntRange(1, 4).Draw(w.t, "parkedResetBelowBoundary"))
				if s <= w.appended {
					s += itemsPerIndexPage
				}
			}
			w.opSetAppended(s)
			moved = true
			w.class("parked-op:index-reset")
		case "tick":
			w.opTick()
			w.pairTick = true // the queue ack may follow an ack given inside this very step
			w.class("parked-op:sync+gc")
		case "sync":
			w.opSync()
			w.pairTick = true
			w.class("parked-op:sync")
		case "gc":
			w.opGC()
			w.class("parked-op:gc")
		case "otherConsume":
			w.consumeOnce(other, false)
			w.logf("consume %s -> consumed=%d", other.name, other.consumed)
			w.class("parked-op:other-group-consumes")
		case "otherAck":
			w.ack(other, rapid.Int64Range(other.ack, other.consumed).Draw(w.t, "parkedOtherAckSeq"), "other group")
			w.class("parked-op:other-group-acks")
		}
		select {
		case <-done:
			w.fatalf("the parked consumer of group %s returned %d although nothing was appended and the group was neither paused nor closed", g.name, handed)
		default:
		}
	}

	// the wake-up
	wakes := []string{"append", "append", "append", "append", "append", "append", "pause", "close"}
	if g.ack >= w.appended && g.consumed <= w.appended {
		wakes = append(wakes, "stop", "stop") // partition.IsExpire stops a group that IsEmpty
	}
	wake := rapid.SampledFrom(wakes).Draw(w.t, "parkedWake")
	join := func(what string) {
		select {
		case <-done:
		case <-time.After(60 * time.Second): // liveness
			release()
			w.fatalf("the parked consumer of group %s still waits 60 s after %s (consumed=%d appended=%d)", g.name, what, g.consumed, w.appended)
		}
	}
	w.class("parked-wake:" + wake)
	switch wake {
	case "append":
		m := w.newMsg(w.genSize())
		w.put(m)
		w.logf("append %s -> appended=%d (wakes the consumer of %s)", m, w.appended, g.name)
		join("message " + m.String() + " was appended")
		want := g.consumed + 1
		if handed != want {
			w.fatalf("the consumer of group %s waited inside Consume; when it was woken the group's consumed position was %d (appended=%d), but it was handed %d, want %d: "+
				"the sequence handed out must be the successor of the consumed position that is current when it is handed out", g.name, g.consumed, w.appended, handed, want)
		}
		g.consumed = want
		if c := h.ConsumedSeq(); c != want {
			w.fatalf("the consumer of group %s was handed %d but the group's consumed position is %d", g.name, handed, c)
		}
		if handed > w.qack {
			data, err := w.fq.Queue().Get(handed)
			if err != nil {
				w.fatalf("group %s was handed sequence %d (ack=%d, queue ack=%d) but cannot read it: %v", g.name, handed, g.ack, w.qack, err)
			}
			if mm := w.msgs[handed]; !mm.matches(data) {
				w.fatalf("sequence %d handed to group %s reads back %d bytes that differ from appended message %s", handed, g.name, len(data), mm)
			}
		}
		w.logf("consumer of %s woken -> handed %d", g.name, handed)
		if moved {
			w.class("parked-woken-by-append-after-position-change")
			w.ntParked = true
		}
	case "pause":
		h.Pause()
		g.paused = true
		join("Pause")
		w.logf("pause %s -> consumer woken, handed %d", g.name, handed)
	case "stop":
		w.fq.StopConsumerGroup(g.name)
		g.open, g.h, g.paused = false, nil, false
		join("StopConsumerGroup")
		w.logf("stopGroup %s (consumed=%d ack=%d) -> consumer woken, handed %d", g.name, g.consumed, g.ack, handed)
	case "close":
		w.fq.Close() // partition.Close on shutdown; the reopen below finds it closed already
		join("Close")
		w.logf("close -> consumer of %s woken, handed %d", g.name, handed)
		w.opReopen()
	}
	if wake != "append" && handed != queue.SeqNoNewMessageAvailable {
		w.fatalf("the consumer of group %s was woken by %s (nothing appended at consumed+1... consumed=%d appended=%d) and was handed %d, want SeqNoNewMessageAvailable",
			g.name, wake, g.consumed, w.appended, handed)
	}
}

// TestGroupParkedConsumer: the state machine of TestGroupHistory plus steps in which a consumer is
// parked inside Consume while other roles work on its group, other groups and the queue.
// non-trivial = some parked consumer was woken by an append after a re-consume request below its
// consumed position or an index reset had completed.
func TestGroupParkedConsumer(t *testing.T) {
	thorough := os.Getenv("VERIF_TIER") == "thorough"
	installPages()
	defer uninstallPages()
	rapid.Check(t, func(t *rapid.T) {
		runHistoryMode(t, "TestGroupParkedConsumer", thorough, false, machineMode{parked: true})
	})
}
