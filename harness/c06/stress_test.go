package c06

import (
	"fmt"
	"os"
	"path/filepath"
	"runtime"
	"strings"
	"sync"
	"sync/atomic"
	"testing"

	"github.com/lindb/lindb/pkg/queue"
	"github.com/lindb/lindb/verifharness/sim/ev"
)

// ---- schedules: real goroutines (the Go scheduler owns the interleaving) ------------------------
//
// Per round one appender, per group one consumer and one acker ("a single go-routine to consume
// message, and other go-routine to ack", consumer_group.go), one ticker doing Sync+GC and one
// observer. Oracle = statements that hold under every interleaving:
//   - the consumer is handed exactly last+1, and the message it is handed is readable byte for
//     byte (its group exists and has not acknowledged it);
//   - an Ack(k) of the single acker with k <= what the consumer already received and k >= its own
//     previous ack is in the window, so it takes effect at once; acks beyond everything appended
//     and below the previous ack change nothing;
//   - reading ack, then consumed, then appended of a group gives ack <= consumed <= appended
//     (positions only grow here), the group ack never decreases;
//   - reading the queue ack, then the group acks gives queue ack <= every group ack; the queue ack
//     never decreases and never exceeds the appended position read afterwards;
//   - at quiescence consumed == appended, ack == last ack sent, Sync moves the queue ack to the
//     smallest group ack, and all of it survives a reopen.
// Failures come without shrinking: the complete event log of the round is part of the message.

type eventLog struct {
	mu  sync.Mutex
	evs []string
}

func (l *eventLog) add(format string, args ...any) {
	s := fmt.Sprintf(format, args...)
	l.mu.Lock()
	l.evs = append(l.evs, s)
	l.mu.Unlock()
}

func (l *eventLog) dump(max int) string {
	l.mu.Lock()
	defer l.mu.Unlock()
	evs := l.evs
	head := ""
	if len(evs) > max {
		head = fmt.Sprintf("... %d earlier events ...\n  ", len(evs)-max)
		evs = evs[len(evs)-max:]
	}
	return head + strings.Join(evs, "\n  ")
}

func stressMsg(round, i int) msg {
	return msg{id: uint64(i), salt: uint64(round)*0x51_7c_c1_b7_27_22_0a_95 + 7, size: 8 + (i*37+round*11)%700}
}

func TestConcurrentConsumeAck(t *testing.T) {
	rounds := 12
	if os.Getenv("VERIF_TIER") == "thorough" {
		rounds = 120
	}
	for round := 0; round < rounds; round++ {
		runStressRound(t, round)
	}
}

func runStressRound(t *testing.T, round int) {
	root, err := os.MkdirTemp("", "c06s-")
	if err != nil {
		t.Fatal(err)
	}
	defer os.RemoveAll(root)
	dir := filepath.Join(root, "wal")
	fq, err := queue.NewFanOutQueue(dir, dataPageBytes)
	if err != nil {
		t.Fatal(err)
	}
	closed := false
	defer func() {
		if !closed {
			fq.Close()
		}
	}()
	nGroups := 1 + round%3
	total := 400 + 300*(round%5)
	preload := (round % 4) * 50 // some rounds start with a backlog, others with waiting consumers
	batch := []int{1, 3, 8, 21}

	log := &eventLog{}
	var failed atomic.Bool
	var failMu sync.Mutex
	failure := ""
	var groups []queue.ConsumerGroup
	fail := func(format string, args ...any) {
		failMu.Lock()
		if failure == "" {
			failure = fmt.Sprintf(format, args...)
		}
		failMu.Unlock()
		if failed.CompareAndSwap(false, true) {
			for _, g := range groups { // release consumers that wait for data
				g.Pause()
			}
		}
	}
	for i := 0; i < nGroups; i++ {
		g, err := fq.GetOrCreateConsumerGroup(fmt.Sprintf("%d", i+1))
		if err != nil {
			t.Fatal(err)
		}
		groups = append(groups, g)
	}
	q := fq.Queue()
	for i := 0; i < preload; i++ {
		if err := q.Put(stressMsg(round, i).bytes()); err != nil {
			t.Fatal(err)
		}
	}

	var wg sync.WaitGroup
	var workers sync.WaitGroup // appender, consumers, ackers
	done := make(chan struct{})
	lastAcks := make([]int64, nGroups)

	workers.Add(1)
	go func() { // appender
		defer workers.Done()
		for i := preload; i < total && !failed.Load(); i++ {
			if err := q.Put(stressMsg(round, i).bytes()); err != nil {
				fail("Put #%d: %v", i, err)
				return
			}
			if i%64 == 0 {
				log.add("appender: appended %d", i)
			}
			if i%17 == round%17 {
				runtime.Gosched()
			}
		}
	}()

	for gi := range groups {
		gi, g := gi, groups[gi]
		name := fmt.Sprintf("g%d", gi+1)
		handed := make(chan int64, total)
		workers.Add(2)
		go func() { // consumer
			defer workers.Done()
			defer close(handed)
			last := int64(-1)
			for last < int64(total)-1 && !failed.Load() {
				seq := g.Consume()
				if failed.Load() {
					return
				}
				if seq != last+1 {
					fail("%s consumer: Consume returned %d after %d", name, seq, last)
					return
				}
				data, err := q.Get(seq)
				if err != nil {
					fail("%s consumer: Get(%d) of a message the group has not acknowledged (group ack %d, queue ack %d): %v",
						name, seq, g.AcknowledgedSeq(), q.AcknowledgedSeq(), err)
					return
				}
				if !stressMsg(round, int(seq)).matches(data) {
					fail("%s consumer: sequence %d reads back %d bytes that are not message #%d", name, seq, len(data), seq)
					return
				}
				last = seq
				if seq%32 == 0 {
					log.add("%s consumer: handed %d", name, seq)
				}
				handed <- seq
			}
		}()
		go func() { // acker
			defer workers.Done()
			myAck := int64(-1)
			b := batch[(gi+round)%len(batch)]
			n := 0
			lastSeen := int64(-1)
			sendAck := func(k int64) {
				g.Ack(k)
				if got := g.AcknowledgedSeq(); got != k {
					fail("%s acker: Ack(%d) inside [ack=%d, consumed>=%d] left the acknowledged position at %d", name, k, myAck, lastSeen, got)
					return
				}
				log.add("%s acker: ack %d", name, k)
				myAck = k
				atomic.StoreInt64(&lastAcks[gi], k)
			}
			for seq := range handed {
				lastSeen = seq
				n++
				if n%b != 0 {
					continue
				}
				sendAck(seq)
				if failed.Load() {
					continue
				}
				if n%(3*b) == 0 { // beyond everything that will ever be appended: must be ignored
					g.Ack(int64(total) + 100 + seq)
					if got := g.AcknowledgedSeq(); got != myAck {
						fail("%s acker: Ack(%d) beyond the appended position moved the acknowledged position %d -> %d", name, int64(total)+100+seq, myAck, got)
					}
				}
				if n%(5*b) == 0 && myAck > 0 { // below the window: must be ignored
					g.Ack(myAck - 1)
					if got := g.AcknowledgedSeq(); got != myAck {
						fail("%s acker: Ack(%d) below the acknowledged position %d moved it to %d", name, myAck-1, myAck, got)
					}
				}
			}
			if !failed.Load() && lastSeen >= 0 && gi%2 == 0 && lastSeen != myAck {
				sendAck(lastSeen) // even groups acknowledge everything, odd ones keep a tail
			}
		}()
	}

	wg.Add(2)
	go func() { // ticker: partition.IsExpire
		defer wg.Done()
		lastQA := int64(-1)
		for i := 0; ; i++ {
			select {
			case <-done:
				return
			default:
			}
			fq.Sync()
			q.GC()
			qa := q.AcknowledgedSeq()
			if qa < lastQA {
				fail("ticker: queue acknowledged position moved backwards %d -> %d", lastQA, qa)
				return
			}
			if qa != lastQA {
				log.add("ticker: queue ack %d", qa)
			}
			lastQA = qa
			for gi, g := range groups {
				if a := g.AcknowledgedSeq(); qa > a {
					fail("ticker: queue acknowledged position %d is beyond the acknowledged position %d (read afterwards) of group g%d", qa, a, gi+1)
					return
				}
			}
			if app := q.AppendedSeq(); qa > app {
				fail("ticker: queue acknowledged position %d is beyond the appended position %d (read afterwards)", qa, app)
				return
			}
			runtime.Gosched()
		}
	}()
	go func() { // observer
		defer wg.Done()
		lastA := make([]int64, nGroups)
		for i := range lastA {
			lastA[i] = -1
		}
		for {
			select {
			case <-done:
				return
			default:
			}
			for gi, g := range groups {
				a := g.AcknowledgedSeq()
				c := g.ConsumedSeq()
				app := q.AppendedSeq()
				if !(a <= c && c <= app) {
					fail("observer: group g%d read in the order ack, consumed, appended: %d, %d, %d", gi+1, a, c, app)
					return
				}
				if a < lastA[gi] {
					fail("observer: acknowledged position of group g%d moved backwards %d -> %d", gi+1, lastA[gi], a)
					return
				}
				lastA[gi] = a
			}
			runtime.Gosched()
		}
	}()

	workers.Wait()
	close(done)
	wg.Wait()

	finish := func() {
		if failure != "" {
			t.Fatalf("round %d (%d groups, %d messages, %d preloaded): %s\nevent log:\n  %s", round, nGroups, total, preload, failure, log.dump(300))
		}
	}
	finish()

	// quiescence
	minAck := int64(total) - 1
	for gi, g := range groups {
		want := atomic.LoadInt64(&lastAcks[gi])
		if c, a := g.ConsumedSeq(), g.AcknowledgedSeq(); c != int64(total)-1 || a != want {
			fail("quiescent: group g%d at consumed=%d ack=%d, want consumed=%d ack=%d", gi+1, c, a, total-1, want)
		}
		if want < minAck {
			minAck = want
		}
	}
	fq.Sync()
	q.GC()
	if qa := q.AcknowledgedSeq(); qa != minAck {
		fail("quiescent: Sync left the queue acknowledged position at %d, smallest group ack is %d", qa, minAck)
	}
	finish()
	fq.Close()
	closed = true
	fq, err = queue.NewFanOutQueue(dir, dataPageBytes)
	if err != nil {
		t.Fatalf("round %d: reopen: %v", round, err)
	}
	closed = false
	q = fq.Queue()
	if app, qa := q.AppendedSeq(), q.AcknowledgedSeq(); app != int64(total)-1 || qa != minAck {
		fail("after reopen: appended=%d queue ack=%d, want %d and %d", app, qa, total-1, minAck)
	}
	for gi := range groups {
		g, err := fq.GetOrCreateConsumerGroup(fmt.Sprintf("%d", gi+1))
		if err != nil {
			t.Fatal(err)
		}
		want := atomic.LoadInt64(&lastAcks[gi])
		if c, a := g.ConsumedSeq(), g.AcknowledgedSeq(); c != int64(total)-1 || a != want {
			fail("after reopen: group g%d at consumed=%d ack=%d, want consumed=%d ack=%d", gi+1, c, a, total-1, want)
		}
	}
	for s := minAck + 1; s < int64(total); s++ {
		data, err := q.Get(s)
		if err != nil || !stressMsg(round, int(s)).matches(data) {
			fail("after reopen: sequence %d above the queue ack %d not readable byte for byte (err=%v)", s, minAck, err)
			break
		}
	}
	finish()
	different := false
	for gi := 1; gi < nGroups; gi++ {
		if lastAcks[gi] != lastAcks[0] {
			different = true
		}
	}
	ev.Case("TestConcurrentConsumeAck", fmt.Sprintf("round-%d", round), true, nil,
		map[string]any{"round": round, "groups": nGroups, "messages": total, "preloaded": preload, "final_acks": lastAcks, "queue_ack": minAck})
	if different {
		ev.Class("TestConcurrentConsumeAck", "groups-ended-with-different-acks", 1)
	}
}
