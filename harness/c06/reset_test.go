package c06

// Explicit index resets in every direction, and GC racing a reset that re-acquires the page GC collects.
//
// FanOutQueue.SetAppendedSeq(seq) is the explicit index reset of the statement ("outside an explicit
// index reset"): partition.ResetReplicaIndex(idx) -> log.SetAppendedSeq(idx-1) behind the follower's
// Reset RPC (app/storage/rpc/replica.go takes whatever AppendIndex the request carries, idx >= 0),
// replicator.ResetAppendIndex on the leader. The interface puts no lower bound on seq; today's leader
// only sends forward resets, which is all the machine of c06_test.go generated. This file widens the
// reset operation to targets BELOW / AT / ABOVE the queue-wide acknowledged position (and below the
// positions every group acknowledged, back across index pages, into index pages GC has collected, to
// the empty log -1), each followed by an episode of appends, consumes, acks, Sync, GC and reopen.
//
// Oracle (statement, unchanged): a reset puts the appended position, the queue's own acknowledged
// position and both positions of every existing group at seq; afterwards - as after every step -
// per group acknowledged <= consumed <= appended, the queue's acknowledged position is never beyond
// the appended one and follows nothing but the minimum group ack at a Sync, every message in
// (queue ack, appended] - hence every message appended after the reset that some group has not
// acknowledged - reads back byte for byte and Consume hands out consumed+1, all positions survive
// close + reopen.
//
// GC race (opGCRace): Queue.GC() collects the index pages below the page of the acknowledged position
// (page.Factory.TruncatePages: unmap through the exported variable page.MMapCloseFunc, file removal,
// removal from the factory map). While GC unmaps a page (harness-owned interleaving point inside
// TruncatePages: before or after the real unmap, before the file removal) another actor - the stream
// handler of the follower: Reset RPC, then appends, then the replica loop of each group - runs on its
// own goroutine: an index reset back into the page being collected (or elsewhere), 1..3 appends,
// optionally one Consume per group. The harness waits until that goroutine completed or is parked on a
// lock, lets GC continue and joins both. GC changes no position, so both orders give the same model
// state; the appended messages must read back at once, after close + reopen and after later steps.

import (
	"context"
	"fmt"
	"os"
	"os/exec"
	"path/filepath"
	"sort"
	"strconv"
	"strings"
	"sync"
	"testing"
	"time"

	"pgregory.net/rapid"

	"github.com/lindb/lindb/pkg/queue"
	"github.com/lindb/lindb/pkg/queue/page"
	"github.com/lindb/lindb/verifharness/sim/ev"
)

// sigResetIntoCollectedCachedPage: the queue stores index entries through the index page it acquired
// last (queue.indexPage / indexPageIndex) and re-acquires only when the page NUMBER changes; GC
// collects by the page of the acknowledged position. After resets that leave the acknowledged position
// in a page above the cached one (back into page p + append, then forward into an existing page q > p
// without an append) GC unmaps and unlinks page p; a reset back into page p followed by an append
// stores through the unmapped page: SIGSEGV (the process dies inside Put).
const sigResetIntoCollectedCachedPage = "C06/index-reset-back-into-collected-index-page-the-queue-still-caches"

// ---- the index page the queue caches ---------------------------------------------------------------

// idxTracker remembers the index page the queue acquired last through the (harness-owned) factory
// wrapper: that is the page its next index entry goes through unless the page number changes.
type idxTracker struct {
	mu sync.Mutex
	id int64
	pg page.MappedPage
}

var idxTrack = &idxTracker{id: -1}

func (t *idxTracker) set(id int64, pg page.MappedPage) {
	t.mu.Lock()
	t.id, t.pg = id, pg
	t.mu.Unlock()
}

// cachedCollected reports whether the queue's cached index page is page id and has been unmapped.
func (t *idxTracker) cachedCollected(id int64) bool {
	t.mu.Lock()
	defer t.mu.Unlock()
	return t.pg != nil && t.id == id && t.pg.Closed()
}

// cached reports whether the queue's cached index page is page id.
func (t *idxTracker) cached(id int64) bool {
	t.mu.Lock()
	defer t.mu.Unlock()
	return t.pg != nil && t.id == id
}

// ---- seam inside TruncatePages ---------------------------------------------------------------------

// closeSeam runs a callback on the goroutine that unmaps page file `file` (page.MMapCloseFunc), once.
type closeSeam struct {
	mu         sync.Mutex
	armed      bool
	file       string
	afterUnmap bool
	fired      bool
	run        func()
	orig       page.CloseFunc
	installed  bool
}

var cseam = &closeSeam{}

func installCloseSeam() {
	cseam.mu.Lock()
	defer cseam.mu.Unlock()
	if cseam.installed {
		return
	}
	cseam.orig, cseam.installed = page.MMapCloseFunc, true
	page.MMapCloseFunc = cseam.close
}

func uninstallCloseSeam() {
	cseam.mu.Lock()
	defer cseam.mu.Unlock()
	if cseam.installed {
		page.MMapCloseFunc, cseam.installed = cseam.orig, false
	}
	cseam.armed, cseam.run = false, nil
}

func (c *closeSeam) arm(file string, afterUnmap bool, run func()) {
	c.mu.Lock()
	c.armed, c.file, c.afterUnmap, c.fired, c.run = true, file, afterUnmap, false, run
	c.mu.Unlock()
}

func (c *closeSeam) disarm() bool {
	c.mu.Lock()
	defer c.mu.Unlock()
	c.armed, c.run = false, nil
	return c.fired
}

func (c *closeSeam) close(f *os.File, mapped []byte) error {
	c.mu.Lock()
	orig := c.orig
	if !c.armed || f == nil || f.Name() != c.file {
		c.mu.Unlock()
		return orig(f, mapped)
	}
	c.armed, c.fired = false, true
	run, after := c.run, c.afterUnmap
	c.mu.Unlock()
	if after {
		err := orig(f, mapped)
		run()
		return err
	}
	run()
	return orig(f, mapped)
}

// ---- helpers ---------------------------------------------------------------------------------------

func pageOf(seq int64) int64 {
	if seq < 0 {
		return 0
	}
	return seq / itemsPerIndexPage
}

func (w *world) indexFile(id int64) string {
	return filepath.Join(w.dir, "index", fmt.Sprintf("%d.bat", id))
}

func (w *world) indexFileExists(id int64) bool {
	_, err := os.Stat(w.indexFile(id))
	return err == nil
}

// indexPagesBelow returns the ids (ascending) of the index page files with an id below p.
func (w *world) indexPagesBelow(p int64) []int64 {
	es, err := os.ReadDir(filepath.Join(w.dir, "index"))
	if err != nil {
		return nil
	}
	var ids []int64
	for _, e := range es {
		if !strings.HasSuffix(e.Name(), ".bat") {
			continue
		}
		id, err := strconv.ParseInt(strings.TrimSuffix(e.Name(), ".bat"), 10, 64)
		if err == nil && id < p {
			ids = append(ids, id)
		}
	}
	sort.Slice(ids, func(i, j int) bool { return ids[i] < ids[j] })
	return ids
}

// groupAckRange returns the smallest and largest acknowledged position of the open groups.
func (w *world) groupAckRange() (lo, hi int64, ok bool) {
	for _, g := range w.openGroups() {
		if !ok || g.ack < lo {
			lo = g.ack
		}
		if !ok || g.ack > hi {
			hi = g.ack
		}
		ok = true
	}
	return lo, hi, ok
}

// excludedResetShape handles the shape of sigResetIntoCollectedCachedPage for a reset to s that is
// followed by an append: true = the caller must not run it (listed finding: excluded by construction).
// While the finding is not listed the shape is executed only on a tree on which the plain reproduction
// (child process) survives; otherwise the history fails here instead of killing the worker.
func (w *world) excludedResetShape(s int64, where string) bool {
	return w.excludedCachedPageShape(idxTrack.cachedCollected(pageOf(s+1)), s, where)
}

// excludedCachedPageShape: applies = the reset to s and the append that follows store through an index
// page that GC has collected or (gc race) is collecting at that moment.
func (w *world) excludedCachedPageShape(applies bool, s int64, where string) bool {
	p := pageOf(s + 1)
	if !applies {
		return false
	}
	if ev.Known(sigResetIntoCollectedCachedPage) {
		w.class("excluded_known")
		w.class("excluded_known:reset-back-into-collected-index-page-still-cached")
		return true
	}
	if died, out := resetIntoCollectedCachedPageKills(); died {
		w.logf("%s: index reset to %d, then an append", where, s)
		w.fatalf("%s: index reset to %d followed by an append: the queue still caches index page %d, whose file GC has unmapped and removed / is unmapping and removing (the acknowledged position is in a higher page); "+
			"Put stores the index entry of sequence %d through the unmapped page and the process dies. Not executed here; plain reproduction TestRegression_ResetBackIntoCollectedIndexPageStillCached (child process):\n%s",
			where, s, p, s+1, out)
	}
	w.class("reset-back-into-collected-index-page-still-cached")
	return false
}

// ---- resets in every direction ---------------------------------------------------------------------

// opResetAnywhere: explicit index reset to a target drawn relative to the queue's acknowledged
// position, the groups' positions, the appended position and the index pages, then an episode.
func (w *world) opResetAnywhere() {
	if w.anyStopped() {
		w.t.Skip("a stopped group would miss the reset")
	}
	const n = int64(itemsPerIndexPage)
	// half of the resets find a queue ack that Sync has pushed up to what every group acknowledged: the
	// groups catch up, acknowledge, the ticker syncs (ordinary operations of the machine)
	if gs := w.openGroups(); !w.qackBySync && len(gs) > 0 && rapid.Bool().Draw(w.t, "resetAfterSync") {
		ok := true
		for _, g := range gs {
			if g.paused || w.tooFar(g) || g.consumed > w.appended {
				ok = false
			}
		}
		if ok {
			for i, k := 0, rapid.IntRange(1, 3).Draw(w.t, "resetAppendsBefore"); i < k; i++ {
				w.put(w.newMsg(w.genSize()))
			}
			w.logf("append -> appended=%d", w.appended)
			w.catchUpAll(2)
			w.logf("catchUpAll -> %s", w.modelString())
			w.check("after the catch-up before the index reset")
			w.opSync()
			w.check("after the sync before the index reset")
		}
	}
	app, qa := w.appended, w.qack
	kinds := []string{"forward", "forward", "at-appended", "at-queue-ack"}
	if qa >= 0 {
		kinds = append(kinds, "below-queue-ack", "below-queue-ack", "below-queue-ack", "below-queue-ack")
	}
	if app-qa >= 2 {
		kinds = append(kinds, "between", "between")
	}
	if app >= n {
		kinds = append(kinds, "back-across-index-page", "back-across-index-page")
	}
	if app >= 0 {
		kinds = append(kinds, "to-empty")
	}
	kinds = append(kinds, "forward-near-index-boundary")
	var s int64
	kind := rapid.SampledFrom(kinds).Draw(w.t, "resetKind")
	switch kind {
	case "below-queue-ack":
		switch rapid.IntRange(0, 3).Draw(w.t, "resetBelowHow") {
		case 0, 1: // just below
			s = qa - int64(rapid.IntRange(1, 6).Draw(w.t, "resetBelowBy"))
		case 2: // anywhere in the index page of the queue ack (or one slot before it)
			s = rapid.Int64Range(pageOf(qa)*n-1, qa-1).Draw(w.t, "resetBelowSeq")
		default:
			s = rapid.Int64Range(-1, qa-1).Draw(w.t, "resetBelowSeq")
		}
		if s < -1 {
			s = -1
		}
	case "at-queue-ack":
		s = qa
	case "between":
		s = rapid.Int64Range(qa+1, app-1).Draw(w.t, "resetBetweenSeq")
	case "at-appended":
		s = app
	case "to-empty":
		s = -1
	case "back-across-index-page":
		p := rapid.Int64Range(0, pageOf(app)-1).Draw(w.t, "resetBackPage")
		switch rapid.IntRange(0, 3).Draw(w.t, "resetBackWhere") {
		case 0: // the following appends roll into the next page again
			s = (p+1)*n - 1 - int64(rapid.IntRange(0, 4).Draw(w.t, "resetBackBelowBoundary"))
		case 1: // first slots of the page (p*n-1: the next message is the first entry of page p)
			s = p*n - 1 + int64(rapid.IntRange(0, 4).Draw(w.t, "resetBackAboveStart"))
		default:
			s = rapid.Int64Range(p*n-1, (p+1)*n-2).Draw(w.t, "resetBackSeq")
		}
	case "forward-near-index-boundary":
		s = (app/n+1)*n - int64(rapid.IntRange(1, 8).Draw(w.t, "resetBelowBoundary"))
		if s <= app {
			s += n
		}
	default:
		s = app + int64(rapid.IntRange(1, 6).Draw(w.t, "resetBy"))
	}
	episode := rapid.IntRange(0, 3).Draw(w.t, "resetEpisode") != 0
	appends := 0
	if episode {
		appends = rapid.IntRange(0, 4).Draw(w.t, "resetAppendsAfter")
	}
	if w.excludedResetShape(s, "reset") {
		w.t.Skip("known finding shape")
	}

	// classes: where the target lies
	lo, hi, hasGroups := w.groupAckRange()
	switch {
	case s < qa:
		w.class("reset-below-queue-ack")
		if w.qackBySync {
			w.class("reset-below-queue-ack-moved-by-sync")
		}
	case s == qa && s == app:
		w.class("reset-at-queue-ack=appended")
	case s == qa:
		w.class("reset-at-queue-ack")
	case s < app:
		w.class("reset-between-queue-ack-and-appended")
	case s == app:
		w.class("reset-at-appended")
	default:
		w.class("reset-forward")
	}
	if hasGroups {
		switch {
		case s < lo:
			w.class("reset-below-every-group-ack")
		case s < hi:
			w.class("reset-between-the-group-acks")
		}
		for _, g := range w.openGroups() {
			if s < g.consumed {
				w.class("reset-below-a-consumed-position")
				break
			}
		}
	}
	if s == -1 {
		w.class("reset-to-empty-log")
	}
	if pageOf(s+1) < pageOf(app+1) {
		w.class("reset-back-into-a-lower-index-page")
	}
	if !w.indexFileExists(pageOf(s + 1)) {
		if pageOf(s+1) < pageOf(qa) {
			w.class("reset-into-index-page-collected-by-gc")
		} else {
			w.class("reset-into-index-page-without-file")
		}
	}
	below := s < qa && w.qackBySync

	w.opSetAppended(s)
	w.check("after the index reset")
	if !episode {
		return
	}
	w.class("reset-episode")
	for i := 0; i < appends; i++ {
		w.put(w.newMsg(w.genSize()))
	}
	if appends > 0 {
		w.logf("append x%d after the reset -> appended=%d", appends, w.appended)
		w.check("after the appends that follow the index reset")
		if below {
			w.ntBack = true
			w.class("reset-below-queue-ack-then-append")
		}
	}
	// every group is handed the messages appended after the reset (consumeOnce: consumed+1; check: bytes)
	for _, what := range rapid.SliceOfN(rapid.SampledFrom([]string{"catchUp", "catchUp", "sync", "gc", "tick", "reopen", "reopen", "append"}), 0, 4).Draw(w.t, "resetThen") {
		switch what {
		case "catchUp":
			if w.catchUpAll(2) {
				w.logf("catchUpAll -> %s", w.modelString())
			}
		case "sync":
			w.opSync()
		case "gc":
			w.opGC()
		case "tick":
			w.opTick()
		case "append":
			w.put(w.newMsg(w.genSize()))
			w.logf("append -> appended=%d", w.appended)
		case "reopen":
			w.opReopen()
			if below {
				w.class("reset-below-queue-ack-then-reopen")
			}
		}
		w.check("after " + what + " in the episode of the index reset")
	}
}

// ---- GC racing a reset + append --------------------------------------------------------------------

// opGCRace: see the file comment. Preparation (ordinary operations of the machine): the log is brought
// across an index-page boundary, the groups catch up and acknowledge beyond it, Sync moves the queue
// ack into the upper page; the page files below are what the next GC collects.
func (w *world) opGCRace() {
	if w.anyStopped() {
		w.t.Skip("a stopped group would miss the reset")
	}
	gs := w.openGroups()
	if len(gs) == 0 {
		w.t.Skip("no group: Sync moves nothing")
	}
	for _, g := range gs {
		if g.paused || w.tooFar(g) || g.consumed > w.appended {
			w.t.Skip("a group cannot catch up")
		}
	}
	const n = int64(itemsPerIndexPage)
	victims := w.indexPagesBelow(pageOf(w.qack))
	if len(victims) == 0 {
		next := (w.appended/n + 1) * n
		if w.appended < 0 {
			next = n
		}
		if next-1-w.appended > 8 {
			s := next - 1 - int64(rapid.IntRange(0, 5).Draw(w.t, "raceBelowBoundary"))
			if w.excludedResetShape(s, "gc race preparation") {
				w.t.Skip("known finding shape")
			}
			w.opSetAppended(s)
			w.check("after the reset below the index-page boundary")
		}
		target := next + int64(rapid.IntRange(0, 3).Draw(w.t, "raceBeyondBoundary"))
		for w.appended < target {
			w.put(w.newMsg(w.genSize()))
		}
		w.logf("appends across the index-page boundary -> appended=%d", w.appended)
		for _, g := range gs {
			leave := int64(rapid.IntRange(0, 1).Draw(w.t, "raceLeaveUnconsumed"))
			for g.consumed < w.appended-leave || g.consumed < next {
				w.consumeOnce(g, false)
			}
			k := g.consumed - int64(rapid.IntRange(0, 1).Draw(w.t, "raceLeaveUnacked"))
			if k < next {
				k = next
			}
			w.ack(g, k, "beyond the boundary")
		}
		w.check("after the groups acknowledged beyond the index-page boundary")
		w.opSync()
		w.check("after the preparation of the gc race")
		victims = w.indexPagesBelow(pageOf(w.qack))
		if len(victims) == 0 {
			w.class("gc-race-not-prepared")
			return
		}
	}
	if rapid.Bool().Draw(w.t, "raceAppendBefore") || idxTrack.cachedCollected(pageOf(w.appended+1)) {
		w.put(w.newMsg(w.genSize()))
		w.logf("append -> appended=%d", w.appended)
	}
	victim := victims[rapid.IntRange(0, len(victims)-1).Draw(w.t, "raceVictim")]
	p := pageOf(w.qack)

	// plan of the racing actor
	kind := rapid.SampledFrom([]string{"into-collected-page", "into-collected-page", "into-collected-page", "into-collected-page",
		"into-ack-page", "forward", "append-only"}).Draw(w.t, "raceKind")
	reset := true
	var s int64
	switch kind {
	case "into-collected-page":
		var off int64
		switch rapid.IntRange(0, 3).Draw(w.t, "raceInto") {
		case 0:
			off = int64(rapid.IntRange(0, 4).Draw(w.t, "raceSlot")) // first slots (0: the page's first entry)
		case 1:
			off = n - 1 - int64(rapid.IntRange(0, 3).Draw(w.t, "raceSlot")) // last slots: the appends roll into the next page
		default:
			off = rapid.Int64Range(0, n-1).Draw(w.t, "raceSlot")
		}
		s = victim*n + off - 1
	case "into-ack-page":
		s = rapid.Int64Range(p*n-1, w.appended).Draw(w.t, "raceSeq")
	case "forward":
		s = w.appended + int64(rapid.IntRange(1, 5).Draw(w.t, "raceBy"))
	default:
		reset = false
		s = w.appended
	}
	ms := make([]msg, rapid.IntRange(1, 3).Draw(w.t, "raceAppends"))
	datas := make([][]byte, len(ms))
	for i := range ms {
		ms[i] = w.newMsg(w.genSize())
		datas[i] = ms[i].bytes()
	}
	consumeAfter := rapid.Bool().Draw(w.t, "raceConsume")
	afterUnmap := rapid.Bool().Draw(w.t, "raceAfterUnmap")
	thenReopen := rapid.IntRange(0, 3).Draw(w.t, "raceThenReopen") != 0
	if reset && w.excludedResetShape(s, "gc race") {
		w.t.Skip("known finding shape")
	}
	// same finding, race form: the queue caches the very page GC is collecting (its last append went into a
	// page below the page of the queue ack) and the actor resets into it: no re-acquisition, the entry goes
	// into the file GC unlinks (before the unmap) or through the unmapped page (after it)
	if kind == "into-collected-page" && w.excludedCachedPageShape(idxTrack.cached(victim), s, "gc race (the page being collected is the cached one)") {
		w.t.Skip("known finding shape")
	}

	fq, q := w.fq, w.fq.Queue()
	var putErr error
	puts := 0
	handed := map[string]int64{}
	nested := func() {
		if reset {
			fq.SetAppendedSeq(s)
		}
		for _, d := range datas {
			if putErr = q.Put(d); putErr != nil {
				return
			}
			puts++
		}
		if consumeAfter {
			for _, g := range gs {
				handed[g.name] = g.h.Consume()
			}
		}
	}
	done := make(chan struct{})
	how := "page-not-unmapped"
	point := "before-unmap"
	if afterUnmap {
		point = "after-unmap"
	}
	d0, i0 := countPages(w.dir)
	cseam.arm(w.indexFile(victim), afterUnmap, func() { how = runNested(nested, done) })
	q.GC()
	fired := cseam.disarm()
	if !fired {
		// GC did not unmap the page (a tree that collects differently): the actor follows GC
		nested()
		close(done)
	}
	select {
	case <-done:
	case <-time.After(20 * time.Second):
		w.fatalf("gc race: the actor (reset=%v to %d, %d appends) started while GC unmapped index page %d has not returned 20 s after GC returned", reset, s, len(ms), victim)
	}
	d1, i1 := countPages(w.dir)

	// model: GC moves no position; the actor's operations in order
	desc := fmt.Sprintf("gc racing [%s", kind)
	if reset {
		desc += fmt.Sprintf(": reset %d", s)
		w.appended, w.qack = s, s
		for _, g := range gs {
			g.consumed, g.ack = s, s
		}
		w.resetNow = true
		w.qackBySync = false
	}
	for i := 0; i < puts; i++ {
		w.appended++
		w.msgs[w.appended] = ms[i]
	}
	desc += fmt.Sprintf("; append x%d", len(ms))
	if consumeAfter {
		desc += "; consume by every group"
	}
	desc += fmt.Sprintf("] started %s of index page %d inside GC (queue ack page %d): %s; gc removed %d index / %d data page files", point, victim, p, how, i0-i1, d0-d1)
	w.logf("%s -> appended=%d queueAck=%d", desc, w.appended, w.qack)
	if putErr != nil {
		w.fatalf("gc race: Put fails: %v", putErr)
	}
	if consumeAfter {
		for _, g := range gs {
			if got := handed[g.name]; got != g.consumed+1 {
				w.fatalf("gc race: Consume on group %s returned %d, want consumed+1 = %d (appended=%d)", g.name, got, g.consumed+1, w.appended)
			}
			g.consumed++
		}
	}
	w.class("gc-race")
	w.class("gc-race:" + kind)
	w.class("gc-race-actor-" + how)
	if fired {
		w.class("gc-race-started-" + point)
		if kind == "into-collected-page" {
			w.ntRace = true
			w.class("gc-race-reset-into-the-page-being-collected")
			if pageOf(w.appended) > victim {
				w.class("gc-race-appends-rolled-out-of-the-collected-page")
			}
		}
	}
	if i1 < i0 {
		w.class("gc-removed-index-page")
	}
	w.check("after gc racing a reset and appends")
	if thenReopen {
		w.class("gc-race-then-reopen")
		w.opReopen()
		w.check("after the reopen that follows the gc race")
	}
	for _, what := range rapid.SliceOfN(rapid.SampledFrom([]string{"catchUp", "catchUp", "tick", "reopen", "append"}), 0, 3).Draw(w.t, "raceThen") {
		switch what {
		case "catchUp":
			if w.catchUpAll(2) {
				w.logf("catchUpAll -> %s", w.modelString())
			}
		case "tick":
			w.opTick()
		case "append":
			w.put(w.newMsg(w.genSize()))
			w.logf("append -> appended=%d", w.appended)
		case "reopen":
			w.opReopen()
		}
		w.check("after " + what + " following the gc race")
	}
}

// TestGroupIndexReset: the state machine of TestGroupHistory with index resets in every direction
// (below / at / above the queue ack) at a higher weight and GC racing a reset that re-acquires the
// index page being collected. non-trivial = a reset below a queue ack that Sync had moved was followed
// by an append, or the racing actor reset into the page GC was unmapping.
func TestGroupIndexReset(t *testing.T) {
	thorough := os.Getenv("VERIF_TIER") == "thorough"
	installPages()
	defer uninstallPages()
	installCloseSeam()
	defer uninstallCloseSeam()
	rapid.Check(t, func(t *rapid.T) {
		runHistoryMode(t, "TestGroupIndexReset", thorough, false, machineMode{backReset: true, gcRace: true})
	})
}

// ---- plain reproduction of sigResetIntoCollectedCachedPage -----------------------------------------

const childResetEnv = "C06_CHILD"
const childResetName = "reset-back-into-collected-cached-index-page"

var resetChild struct {
	once sync.Once
	died bool
	out  string
}

// resetIntoCollectedCachedPageKills runs the plain reproduction in a child process (once per process)
// and reports whether the child died.
func resetIntoCollectedCachedPageKills() (bool, string) {
	resetChild.once.Do(func() {
		// the time limit is for liveness only (a child that hangs counts as a child that died)
		ctx, cancel := context.WithTimeout(context.Background(), 2*time.Minute)
		defer cancel()
		cmd := exec.CommandContext(ctx, os.Args[0], "-test.run=^TestRegression_ResetBackIntoCollectedIndexPageStillCached$", "-test.count=1", "-test.v")
		var env []string
		for _, e := range os.Environ() {
			if !strings.HasPrefix(e, "VERIF_EV_OUT=") && !strings.HasPrefix(e, childResetEnv+"=") {
				env = append(env, e)
			}
		}
		cmd.Env = append(env, childResetEnv+"="+childResetName)
		out, err := cmd.CombinedOutput()
		text := string(out)
		if i := strings.Index(text, "\ngoroutine "); i > 0 {
			if j := strings.Index(text[i+1:], "\n\n"); j > 0 {
				text = text[:i+1+j] + "\n..."
			}
		}
		if len(text) > 3000 {
			text = text[:3000] + "..."
		}
		resetChild.died = err != nil
		resetChild.out = text
	})
	return resetChild.died, resetChild.out
}

// TestRegression_ResetBackIntoCollectedIndexPageStillCached: minimal history (shrunk by hand from the
// machine): follower reset to just below an index-page boundary, appends across it, reset back into
// page 0 + one append (the queue caches page 0 again), forward reset into page 1 (its file exists) with
// no append, Sync+GC (collects page 0, the cached page), reset back into page 0, append.
func TestRegression_ResetBackIntoCollectedIndexPageStillCached(t *testing.T) {
	if os.Getenv(childResetEnv) == childResetName {
		childResetBackIntoCollectedCachedPage(t)
		return
	}
	died, out := resetIntoCollectedCachedPageKills()
	if !died {
		return
	}
	what := sigResetIntoCollectedCachedPage + ": index reset back into an index page that GC collected while the queue still caches it, then Put: the index entry is stored through the unmapped page (process dies in Put)"
	if ev.Known(sigResetIntoCollectedCachedPage) {
		ev.KnownFinding("C06", what)
		t.Logf("listed in known_findings.json: %s\n%s", what, out)
		return
	}
	t.Fatalf("%s\nchild process:\n%s", what, out)
}

func childResetBackIntoCollectedCachedPage(t *testing.T) {
	root, err := os.MkdirTemp("", "c06x-")
	if err != nil {
		t.Fatal(err)
	}
	defer os.RemoveAll(root)
	fq, err := queue.NewFanOutQueue(filepath.Join(root, "wal"), dataPageBytes)
	if err != nil {
		t.Fatal(err)
	}
	defer fq.Close()
	g, _ := fq.GetOrCreateConsumerGroup("1")
	put := func(id uint64) msg {
		m := msg{id: id, size: 24}
		if err := fq.Queue().Put(m.bytes()); err != nil {
			t.Fatalf("Put: %v", err)
		}
		return m
	}
	fq.SetAppendedSeq(itemsPerIndexPage - 3)
	for i := 0; i < 6; i++ {
		put(uint64(i)) // ... 262144, 262145, 262146: index page 1 exists
	}
	fq.SetAppendedSeq(100) // back into page 0
	put(10)                // sequence 101: the queue caches page 0
	fq.SetAppendedSeq(itemsPerIndexPage + 5)
	fq.Sync()
	fq.Queue().GC() // the acknowledged position is in page 1: page 0 is collected
	fq.SetAppendedSeq(50)
	m := put(11) // sequence 51
	if c, a := g.ConsumedSeq(), g.AcknowledgedSeq(); c != 50 || a != 50 {
		t.Fatalf("group 1 is at consumed=%d acknowledged=%d after the reset to 50", c, a)
	}
	if s := g.Consume(); s != 51 {
		t.Fatalf("Consume = %d, want 51", s)
	}
	data, err := fq.Queue().Get(51)
	if err != nil || !m.matches(data) {
		t.Fatalf("Get(51) = %d bytes, %v: not the message appended after the reset", len(data), err)
	}
}
