// Package c06 checks property C06: WAL consumer groups keep ordered positions
// (acknowledged <= consumed <= appended), Consume hands out consecutive sequences, an
// acknowledgement outside [acknowledged, consumed] is ignored, the queue-wide acknowledged
// position only moves forward and never beyond the appended position nor beyond the smallest
// acknowledged position of the groups existing at that moment, garbage collection never removes
// a message above it, and all positions survive close and reopen.
//
// Generator soundness (call orders taken from replica/partition.go, replica/replicator*.go,
// app/storage/rpc/{write,replica}.go):
//   - one appender (Queue().Put); overlapping appenders belong to C05;
//   - per group Consume -> Queue().Get -> Ack(seq) with arbitrary ack values (IgnoreMessage, the
//     family flush callback and the follower's answer all feed Ack), values >= -1;
//   - SetConsumedSeq(s) only with own ack <= s <= appended (ResetReplicaIndex(ack+1) of the local
//     replicator, the re-synchronisation of the remote replicator);
//   - FanOutQueue.SetAppendedSeq(s): today's leader only produces forward resets (the follower reset is
//     sent when the follower is behind the leader's ack, the leader reset when the follower is ahead of
//     the leader); the interface and the follower's Reset RPC accept any index, so TestGroupHistory and
//     TestGroupIndexReset draw targets below / at / above the queue ack (reset_test.go), the other
//     machines stay forward only;
//   - Sync followed by Queue().GC() from the expiry ticker (also generated separately);
//   - StopConsumerGroup only for a group that IsEmpty() (partition.IsExpire), re-creation by
//     name afterwards (BuildReplicaForLeader on the next write stream), reopen = Close + NewFanOutQueue;
//   - pairs (pair_test.go): one operation each of two different roles of one group - consumer
//     (Consume / SetConsumedSeq: the replica loop), acker (Ack: family flush callback, follower
//     answer), ticker (Sync+GC), appender (Put) - the second one started inside a meta-page store
//     of the first; only pairs both of whose sequential orders keep ack <= consumed <= appended;
//   - create steps (create_pair_test.go, TestGroupCreateRace): GetOrCreateConsumerGroup of a new or a
//     stopped group (buildReplica / IsExpire / getReplicaState) interleaved with operations of other
//     roles at the page steps of the opening; reopen_stress_test.go races it against Sync+GC on real
//     goroutines;
//   - parked consumer (parked_test.go, TestGroupParkedConsumer): operations of other roles while the
//     group's consumer waits inside Consume, then the wake-up (append / Pause / Stop / Close);
//   - page-store faults (fault_test.go, TestGroupPageFaults): the creation of an index / data / group
//     meta page file fails once or twice, the caller retries;
//   - interleaved reset (reset_race_test.go, TestGroupResetInterleaved): one operation of another actor
//     (consumer turns, Ack, Pending/IsEmpty, Sync, Put, creation of a group) nested at a seam inside
//     FanOutQueue.SetAppendedSeq (its page stores, entry to / return from each group's SetSeq).
package c06

import (
	"bytes"
	"encoding/binary"
	"fmt"
	"os"
	"path/filepath"
	"runtime"
	"sort"
	"strings"
	"testing"
	"time"

	"github.com/cespare/xxhash/v2"
	"github.com/lindb/common/pkg/logger"
	"go.uber.org/zap/zapcore"
	"pgregory.net/rapid"

	"github.com/lindb/lindb/pkg/queue"
	"github.com/lindb/lindb/verifharness/sim/ev"
)

func TestMain(m *testing.M) {
	// out-of-window acks are logged at WARN by the queue; the histories produce thousands of them
	logger.RunningAtomicLevel.SetLevel(zapcore.ErrorLevel)
	ev.Main(m)
}

const (
	// documented layout constants of pkg/queue/constants.go (unexported there)
	itemsPerIndexPage = 1024 * 256
	dataPageBytes     = 128 << 20

	// sigReopenAckAboveConsumed: NewConsumerGroup raises the acknowledged position of a persisted
	// group to the queue's acknowledged position but leaves its consumed position below it.
	sigReopenAckAboveConsumed = "C06/reopen-ack-above-consumed"

	bigThreshold = 1 << 20
)

// ---- self-describing messages ------------------------------------------------------------------

// msg describes one appended message: bytes 0..7 = id, the rest a xorshift stream seeded by
// (id, salt); salt is drawn per case, so the payload is random but reproducible.
type msg struct {
	id   uint64
	salt uint64
	size int    // >= 8
	sum  uint64 // xxhash of the bytes (only filled for big messages)
}

func (m msg) bytes() []byte {
	b := make([]byte, m.size)
	binary.LittleEndian.PutUint64(b, m.id)
	x := (m.id+1)*0x9E3779B97F4A7C15 ^ m.salt
	if x == 0 {
		x = 1
	}
	i := 8
	for ; i+8 <= m.size; i += 8 {
		x ^= x << 13
		x ^= x >> 7
		x ^= x << 17
		binary.LittleEndian.PutUint64(b[i:], x)
	}
	for ; i < m.size; i++ {
		x ^= x << 13
		x ^= x >> 7
		x ^= x << 17
		b[i] = byte(x)
	}
	return b
}

func (m msg) String() string { return fmt.Sprintf("#%d(%dB)", m.id, m.size) }

// matches reports whether data is byte for byte the message m.
func (m msg) matches(data []byte) bool {
	if len(data) != m.size {
		return false
	}
	if m.size >= bigThreshold {
		return binary.LittleEndian.Uint64(data) == m.id && xxhash.Sum64(data) == m.sum
	}
	return bytes.Equal(data, m.bytes())
}

// ---- reference model ---------------------------------------------------------------------------

// grp is the model of one consumer group. A group is "persisted" from its creation on (its meta
// page stays on disk when it is stopped) and "open" while the fan-out queue lists it.
type grp struct {
	name     string
	consumed int64
	ack      int64
	open     bool
	paused   bool
	h        queue.ConsumerGroup
}

type world struct {
	t        *rapid.T
	root     string
	dir      string
	limit    int64
	fq       queue.FanOutQueue
	appended int64
	qack     int64
	msgs     map[int64]msg // sequence -> message appended last under that sequence
	groups   map[string]*grp
	universe []string
	nextID   uint64
	salt     uint64
	ops      []string
	classes  map[string]int

	// what the implementation showed at the end of the previous step (for the "moment it moved" rule)
	prevQAck int64
	prevAcks map[string]int64
	resetNow bool // the current step is an explicit index reset (SetAppendedSeq)

	bigLeft  int
	bulkLeft int
	thorough bool
	heavy    bool

	rolled   bool // two data page files existed at some GC
	ntGC     bool
	ntReopen bool
	ntPair   bool // some pair step really interleaved (the nested operation started inside the first one)
	pairTick bool // the current step was a pair with a Sync: the queue ack may follow an ack of this very step

	// create_pair_test.go
	createRace bool   // the machine also interleaves the (re)opening of a group with operations of other roles
	freshNow   string // group created from scratch (no meta page) by the current step: it may start below the queue ack
	ntCreate   bool   // some create step ran a Sync inside the window of a lagging re-opened group (see opCreatePair)

	// parked_test.go / fault_test.go
	parked   bool // the machine also runs operations of other roles while a consumer is parked inside Consume
	faults   bool // the machine also lets the creation of page files fail once (the caller retries)
	ntParked bool // a parked consumer was woken by an append after its group's position was changed by another role
	ntFault  bool // an append failed in the creation of an index/data page and the retry succeeded

	// reset_test.go
	backReset  bool // index resets in every direction (below / at / above the queue ack), not only forward
	gcRace     bool // the machine also runs GC with a racing reset + append started while GC unmaps an index page
	qackBySync bool // the queue ack was last moved by a Sync (not by an index reset)
	ntBack     bool // a reset below a queue ack that Sync had moved was followed by an append
	ntRace     bool // the racing actor reset into the index page GC was unmapping

	// reset_race_test.go
	resetRace   bool // the machine also nests an operation of another actor at a page store inside the index reset
	ntResetRace bool // a consumer step ran inside the reset, after one group was positioned, on a group that had data pending beyond the target
}

// machineMode selects the extra operation classes of a history (see the tests that set them).
type machineMode struct {
	createRace, parked, faults bool
	backReset, gcRace          bool
	resetRace                  bool
}

func (w *world) logf(format string, args ...any) {
	w.ops = append(w.ops, fmt.Sprintf(format, args...))
}

func (w *world) fatalf(format string, args ...any) {
	w.t.Helper()
	hist := w.ops
	if len(hist) > 400 {
		hist = append([]string{fmt.Sprintf("... %d earlier steps ...", len(hist)-400)}, hist[len(hist)-400:]...)
	}
	w.t.Fatalf(format+"\nmodel: %s\nhistory:\n  %s", append(args, w.modelString(), strings.Join(hist, "\n  "))...)
}

func (w *world) modelString() string {
	var sb strings.Builder
	fmt.Fprintf(&sb, "appended=%d queueAck=%d", w.appended, w.qack)
	for _, n := range w.universe {
		if g, ok := w.groups[n]; ok {
			fmt.Fprintf(&sb, " %s{consumed=%d ack=%d open=%v paused=%v}", n, g.consumed, g.ack, g.open, g.paused)
		}
	}
	return sb.String()
}

func (w *world) class(c string) { w.classes[c]++ }

func (w *world) openGroups() []*grp {
	var gs []*grp
	for _, n := range w.universe {
		if g, ok := w.groups[n]; ok && g.open {
			gs = append(gs, g)
		}
	}
	return gs
}

func (w *world) pickOpen(label string) *grp {
	gs := w.openGroups()
	if len(gs) == 0 {
		w.t.Skip("no open group")
	}
	return gs[rapid.IntRange(0, len(gs)-1).Draw(w.t, label)]
}

func (w *world) newMsg(size int) msg {
	m := msg{id: w.nextID, salt: w.salt, size: size}
	w.nextID++
	if size >= bigThreshold {
		m.sum = xxhash.Sum64(m.bytes())
	}
	return m
}

func (w *world) put(m msg) {
	if err := w.fq.Queue().Put(m.bytes()); err != nil {
		w.fatalf("Put(%s): %v", m, err)
	}
	w.appended++
	w.msgs[w.appended] = m
}

// countPages returns the number of data and index page files of the queue.
func countPages(dir string) (data, index int) {
	count := func(sub string) int {
		n := 0
		es, err := os.ReadDir(filepath.Join(dir, sub))
		if err != nil {
			return 0
		}
		for _, e := range es {
			if strings.HasSuffix(e.Name(), ".bat") {
				n++
			}
		}
		return n
	}
	return count("data"), count("index")
}

// ---- oracle ------------------------------------------------------------------------------------

// scanSeqs returns the sequences of (ack, app] to read: all of them when the window is small,
// else both ends, the neighbourhood of every index-page boundary, every big message and a stride.
func (w *world) scanSeqs(ack, app int64) []int64 {
	if app-ack <= 3000 {
		out := make([]int64, 0, app-ack)
		for s := ack + 1; s <= app; s++ {
			out = append(out, s)
		}
		return out
	}
	set := map[int64]bool{}
	add := func(s int64) {
		if s > ack && s <= app {
			set[s] = true
		}
	}
	for d := int64(0); d < 100; d++ {
		add(ack + 1 + d)
		add(app - d)
	}
	for b := (ack / itemsPerIndexPage) * itemsPerIndexPage; b <= app+itemsPerIndexPage; b += itemsPerIndexPage {
		for d := int64(-4); d <= 4; d++ {
			add(b + d)
		}
	}
	stride := (app-ack)/500 + 1
	for s := ack + 1; s <= app; s += stride {
		add(s)
	}
	for s, m := range w.msgs {
		if m.size >= bigThreshold {
			add(s)
			add(s - 1)
			add(s + 1)
		}
	}
	out := make([]int64, 0, len(set))
	for s := range set {
		out = append(out, s)
	}
	sort.Slice(out, func(i, j int) bool { return out[i] < out[j] })
	return out
}

// check is the oracle that runs after every step.
func (w *world) check(where string) {
	q := w.fq.Queue()
	app, qa := q.AppendedSeq(), q.AcknowledgedSeq()

	// queue-wide acknowledged position: forward only, <= appended, <= smallest group ack at the
	// moment it moved (groups and acks as the implementation showed them before this step)
	if qa > app {
		w.fatalf("%s: queue acknowledged position %d is beyond the appended position %d", where, qa, app)
	}
	if qa != w.prevQAck && !w.resetNow {
		if qa < w.prevQAck {
			w.fatalf("%s: queue acknowledged position moved backwards %d -> %d without an index reset", where, w.prevQAck, qa)
		}
		for n, a := range w.prevAcks {
			if w.pairTick {
				break // checked against the two sequential orders by the pair step, and against the present acks below
			}
			if qa > a {
				w.fatalf("%s: queue acknowledged position moved %d -> %d, beyond the acknowledged position %d of existing group %s",
					where, w.prevQAck, qa, a, n)
			}
		}
	}
	if app != w.appended {
		w.fatalf("%s: appended position is %d, model says %d", where, app, w.appended)
	}
	if qa != w.qack {
		w.fatalf("%s: queue acknowledged position is %d, model says %d", where, qa, w.qack)
	}

	// set of existing groups
	names := w.fq.ConsumerGroupNames()
	sort.Strings(names)
	var want []string
	for _, g := range w.openGroups() {
		want = append(want, g.name)
	}
	sort.Strings(want)
	if strings.Join(names, ",") != strings.Join(want, ",") {
		w.fatalf("%s: fan-out queue lists groups %v, model says %v", where, names, want)
	}

	// per group positions
	acks := map[string]int64{}
	for _, g := range w.openGroups() {
		c, a := g.h.ConsumedSeq(), g.h.AcknowledgedSeq()
		acks[g.name] = a
		if c != g.consumed || a != g.ack {
			w.fatalf("%s: group %s is at consumed=%d acknowledged=%d, model says consumed=%d acknowledged=%d",
				where, g.name, c, a, g.consumed, g.ack)
		}
		if !(a <= c && c <= app) {
			w.fatalf("%s: group %s violates acknowledged <= consumed <= appended: acknowledged=%d consumed=%d appended=%d",
				where, g.name, a, c, app)
		}
		wantPending := app - c
		if wantPending < 0 {
			wantPending = 0
		}
		if p := g.h.Pending(); p != wantPending {
			w.fatalf("%s: group %s Pending()=%d with consumed=%d appended=%d", where, g.name, p, c, app)
		}
		if e := g.h.IsEmpty(); e != (app <= a) {
			w.fatalf("%s: group %s IsEmpty()=%v with acknowledged=%d appended=%d", where, g.name, e, a, app)
		}
	}

	// every sequence above the queue ack is readable byte for byte (hence every message that
	// some existing group has not acknowledged: group acks are >= the queue ack for every group
	// that existed when it moved)
	for _, s := range w.scanSeqs(qa, app) {
		data, err := q.Get(s)
		if err != nil {
			w.fatalf("%s: Get(%d) fails although queue ack=%d < %d <= appended=%d: %v", where, s, qa, s, app, err)
		}
		m, ok := w.msgs[s]
		if !ok {
			w.fatalf("%s: harness: no model message for sequence %d", where, s)
		}
		if !m.matches(data) {
			w.fatalf("%s: sequence %d reads back %d bytes that differ from appended message %s", where, s, len(data), m)
		}
	}
	if _, err := q.Get(app + 1); err == nil {
		w.fatalf("%s: Get(%d) succeeds beyond the appended position %d", where, app+1, app)
	}

	if w.pairTick && qa != w.prevQAck && !w.resetNow {
		for n, a := range acks { // group acks only grow inside a pair step
			if n == w.freshNow {
				continue // a brand-new group starts at -1 (FA of DESIGN 4/C06): it never existed below the barrier
			}
			if qa > a {
				w.fatalf("%s: queue acknowledged position moved %d -> %d, beyond the acknowledged position %d of existing group %s",
					where, w.prevQAck, qa, a, n)
			}
		}
	}
	w.prevQAck = qa
	w.prevAcks = acks
	w.resetNow = false
	w.pairTick = false
	w.freshNow = ""
}

// ---- operations --------------------------------------------------------------------------------

func (w *world) open() {
	fq, err := queue.NewFanOutQueue(w.dir, w.limit)
	if err != nil {
		w.fatalf("NewFanOutQueue: %v", err)
	}
	w.fq = fq
}

func (w *world) genSize() int {
	switch rapid.IntRange(0, 9).Draw(w.t, "sizeKind") {
	case 0:
		return 8
	case 1:
		return rapid.IntRange(8, 40).Draw(w.t, "size")
	case 2:
		return rapid.IntRange(60000, 70000).Draw(w.t, "size")
	default:
		return rapid.IntRange(8, 1500).Draw(w.t, "size")
	}
}

func (w *world) opAppend() {
	n := rapid.IntRange(1, 4).Draw(w.t, "appendCount")
	var ms []string
	for i := 0; i < n; i++ {
		m := w.newMsg(w.genSize())
		w.put(m)
		ms = append(ms, m.String())
	}
	w.logf("append %s -> appended=%d", strings.Join(ms, " "), w.appended)
}

// opBigAppend appends one message of tens of MiB (data-page roll-over after two or three).
func (w *world) opBigAppend() {
	if w.bigLeft == 0 {
		w.t.Skip("no big append left")
	}
	w.bigLeft--
	m := w.newMsg(rapid.IntRange(35<<20, 70<<20).Draw(w.t, "bigSize"))
	w.put(m)
	w.class("big-append")
	w.logf("bigAppend %s -> appended=%d", m, w.appended)
}

// opBulkAppend appends enough tiny messages to reach the next index page.
func (w *world) opBulkAppend() {
	if w.bulkLeft == 0 {
		w.t.Skip("no bulk append left")
	}
	w.bulkLeft--
	target := (w.appended/itemsPerIndexPage+1)*itemsPerIndexPage + int64(rapid.IntRange(-3, 40).Draw(w.t, "bulkBeyond"))
	n := target - w.appended
	for i := int64(0); i < n; i++ {
		w.put(w.newMsg(8 + int(i%9)))
	}
	w.class("bulk-append")
	w.logf("bulkAppend %d tiny messages -> appended=%d", n, w.appended)
}

// consumeOnce performs one Consume on g and checks the value handed out.
// It returns false when the group could not take a step (nothing pending and blocking not wanted).
func (w *world) consumeOnce(g *grp, allowBlocked bool) bool {
	switch {
	case g.paused:
		if got := g.h.Consume(); got != queue.SeqNoNewMessageAvailable {
			w.fatalf("Consume on paused group %s returned %d, want SeqNoNewMessageAvailable", g.name, got)
		}
		if c := g.h.ConsumedSeq(); c != g.consumed {
			w.fatalf("Consume on paused group %s moved consumed %d -> %d", g.name, g.consumed, c)
		}
		w.class("consume-paused")
		w.logf("consume %s (paused) -> none", g.name)
		return false
	case g.consumed < w.appended:
		got := g.h.Consume()
		if got != g.consumed+1 {
			w.fatalf("Consume on group %s returned %d, want consumed+1 = %d (appended=%d)", g.name, got, g.consumed+1, w.appended)
		}
		g.consumed++
		return true
	case g.consumed == w.appended && allowBlocked:
		// nothing pending: the consumer waits (production: the replica loop) until the appender
		// publishes the next message, which it must then be handed
		res := make(chan int64, 1)
		h := g.h
		go func() { res <- h.Consume() }()
		if rapid.Bool().Draw(w.t, "yieldBeforePut") {
			runtime.Gosched()
		}
		m := w.newMsg(w.genSize())
		w.put(m)
		var got int64
		select {
		case got = <-res:
		case <-time.After(30 * time.Second):
			g.h.Pause() // releases the waiter so that no goroutine outlives the case
			<-res
			w.fatalf("Consume on group %s still blocks 30s after message %s was appended as %d", g.name, m, w.appended)
		}
		if got != g.consumed+1 {
			w.fatalf("blocked Consume on group %s returned %d, want %d after the append", g.name, got, g.consumed+1)
		}
		g.consumed++
		w.class("consume-blocked-then-append")
		w.logf("consume %s blocked; append %s -> handed %d", g.name, m, got)
		return true
	}
	return false
}

func (w *world) opConsume() {
	g := w.pickOpen("consumeGroup")
	n := rapid.IntRange(1, 6).Draw(w.t, "consumeCount")
	from := g.consumed
	for i := 0; i < n; i++ {
		if !w.consumeOnce(g, rapid.IntRange(0, 2).Draw(w.t, "mayBlock") == 0) {
			break
		}
	}
	if g.consumed == from && !g.paused {
		w.t.Skip("nothing to consume")
	}
	if !g.paused {
		w.logf("consume %s x%d -> consumed=%d", g.name, g.consumed-from, g.consumed)
	}
}

func (w *world) ack(g *grp, k int64, why string) {
	g.h.Ack(k)
	lo, hi := g.ack, g.consumed
	verdict := "must be ignored"
	if lo <= k && k <= hi {
		g.ack = k
		verdict = "accepted"
	}
	w.logf("ack %s %d (%s; window [%d,%d]: %s) -> ack=%d", g.name, k, why, lo, hi, verdict, g.ack)
}

func (w *world) opAck() {
	g := w.pickOpen("ackGroup")
	kind := rapid.IntRange(0, 9).Draw(w.t, "ackKind")
	switch {
	case kind <= 3 && g.ack <= g.consumed:
		w.class("ack-in-window")
		w.ack(g, rapid.Int64Range(g.ack, g.consumed).Draw(w.t, "ackSeq"), "inside")
	case kind <= 6 && g.ack <= g.consumed:
		w.class("ack-consumed")
		w.ack(g, g.consumed, "all consumed")
	case kind == 7 && g.ack > -1:
		w.class("ack-below-window")
		w.ack(g, rapid.Int64Range(-1, g.ack-1).Draw(w.t, "ackSeq"), "below")
	case kind == 8:
		w.class("ack-above-consumed")
		w.ack(g, g.consumed+int64(rapid.IntRange(1, 3).Draw(w.t, "ackBeyond")), "above consumed")
	default:
		w.class("ack-above-appended")
		hi := w.appended
		if g.consumed > hi {
			hi = g.consumed
		}
		w.ack(g, hi+int64(rapid.IntRange(1, 5).Draw(w.t, "ackBeyond")), "above appended")
	}
}

func (w *world) opSetConsumed() {
	g := w.pickOpen("setConsumedGroup")
	if g.ack > w.appended {
		w.t.Skip("ack beyond appended")
	}
	s := g.ack // ResetReplicaIndex(ack+1): replay from the acknowledged position
	if rapid.Bool().Draw(w.t, "setConsumedAnywhere") {
		s = rapid.Int64Range(g.ack, w.appended).Draw(w.t, "setConsumedSeq")
	}
	g.h.SetConsumedSeq(s)
	if s < g.consumed {
		w.class("set-consumed-rewind")
	} else {
		w.class("set-consumed-forward")
	}
	g.consumed = s
	w.logf("setConsumed %s %d", g.name, s)
}

func (w *world) sync() {
	w.fq.Sync()
	if gs := w.openGroups(); len(gs) > 0 {
		cand := w.appended
		for _, g := range gs {
			if g.ack < cand {
				cand = g.ack
			}
		}
		if cand > w.qack {
			w.qack = cand
			w.qackBySync = true
			w.class("sync-moved-queue-ack")
		}
	}
}

func (w *world) gc() int {
	distinct := map[int64]bool{}
	for _, g := range w.openGroups() {
		distinct[g.ack] = true
	}
	d0, i0 := countPages(w.dir)
	if d0 >= 2 {
		w.rolled = true
	}
	w.fq.Queue().GC()
	d1, i1 := countPages(w.dir)
	removed := d0 - d1 + i0 - i1
	if d1 < d0 {
		w.class("gc-removed-data-page")
	}
	if i1 < i0 {
		w.class("gc-removed-index-page")
	}
	if removed > 0 {
		w.class("gc-removed-page")
		if len(distinct) >= 2 {
			w.ntGC = true
			w.class("gc-removed-page-with-different-acks")
		}
	}
	return removed
}

func (w *world) opSync() {
	w.sync()
	w.logf("sync -> queueAck=%d", w.qack)
}

func (w *world) opGC() {
	w.logf("gc -> %d page files removed", w.gc())
}

// opTick is partition.IsExpire: Sync followed by GC.
func (w *world) opTick() {
	w.sync()
	w.logf("sync+gc -> queueAck=%d, %d page files removed", w.qack, w.gc())
}

// knownShape reports whether (re)creating g from its persisted meta hits the listed finding.
func (w *world) knownShape(g *grp) bool {
	return g.consumed < w.qack
}

// attach applies the documented rule for a group loaded from its meta page: positions survive;
// the acknowledged position is raised to the queue's ("if queue ack > consume group ack, need
// reset use queue ack"). The consumed position must then not be below it; a tree that lifts it
// together with the ack is accepted as well as one that can never get there.
func (w *world) attach(g *grp, h queue.ConsumerGroup, where string) {
	g.h, g.open, g.paused = h, true, false
	c0, a0 := g.consumed, g.ack
	if g.ack < w.qack {
		g.ack = w.qack
		w.class("attach-ack-raised-to-queue-ack")
	}
	if c := h.ConsumedSeq(); g.consumed < g.ack && c == g.ack {
		g.consumed = c
	}
	if c, a := h.ConsumedSeq(), h.AcknowledgedSeq(); c != g.consumed || a != g.ack {
		w.logf("%s: group %s loaded from its meta page", where, g.name)
		w.fatalf("%s: positions did not survive: group %s comes back at consumed=%d acknowledged=%d, it was at consumed=%d acknowledged=%d (queue ack %d; expected now consumed=%d acknowledged=%d)",
			where, g.name, c, a, c0, a0, w.qack, g.consumed, g.ack)
	}
}

func (w *world) opCreateGroup() {
	var cands []string
	for _, n := range w.universe {
		if g, ok := w.groups[n]; !ok || !g.open {
			cands = append(cands, n)
		}
	}
	if len(cands) == 0 {
		w.t.Skip("all groups exist")
	}
	name := cands[rapid.IntRange(0, len(cands)-1).Draw(w.t, "createName")]
	if g, ok := w.groups[name]; ok {
		if ev.Known(sigReopenAckAboveConsumed) && w.knownShape(g) {
			w.class("excluded_known")
			w.t.Skip("known finding shape")
		}
		h, err := w.fq.GetOrCreateConsumerGroup(name)
		if err != nil {
			w.fatalf("GetOrCreateConsumerGroup(%s): %v", name, err)
		}
		w.attach(g, h, "re-create stopped group")
		w.class("recreate-stopped-group")
		w.logf("createGroup %s (stopped before) -> consumed=%d ack=%d", name, g.consumed, g.ack)
		return
	}
	w.createFresh(name)
	// a late joiner walks up to the read barrier before it acknowledges anything
	if g := w.groups[name]; g.consumed < w.qack && !w.tooFar(g) && rapid.Bool().Draw(w.t, "lateJoinerWalksUp") {
		target := w.qack + int64(rapid.IntRange(0, 2).Draw(w.t, "walkBeyond"))
		if target > w.appended {
			target = w.appended
		}
		for g.consumed < target {
			w.consumeOnce(g, false)
		}
		w.class("late-joiner-walked-up")
		w.logf("lateJoiner %s walks up -> consumed=%d ack=%d", name, g.consumed, g.ack)
	}
}

func (w *world) createFresh(name string) {
	h, err := w.fq.GetOrCreateConsumerGroup(name)
	if err != nil {
		w.fatalf("GetOrCreateConsumerGroup(%s): %v", name, err)
	}
	c, a := h.ConsumedSeq(), h.AcknowledgedSeq()
	// The interface promises "consume seq and ack seq == queue ack seq" for a new group, the
	// implementation starts it at -1/-1; the property does not depend on which, both are accepted.
	if c != a || (c != -1 && c != w.qack) {
		w.fatalf("new group %s starts at consumed=%d ack=%d (queue ack %d): neither the documented start (queue ack) nor -1", name, c, a, w.qack)
	}
	if c < w.qack {
		w.class("fresh-group-below-queue-ack")
	}
	w.groups[name] = &grp{name: name, consumed: c, ack: a, open: true, h: h}
	w.class("create-fresh-group")
	w.logf("createGroup %s (new) -> consumed=%d ack=%d", name, c, a)
	if h2, _ := w.fq.GetOrCreateConsumerGroup(name); h2 != h {
		w.fatalf("GetOrCreateConsumerGroup(%s) returned a second object for an existing group", name)
	}
}

// opStopGroup: production stops a group only when it IsEmpty (everything appended is acknowledged).
func (w *world) opStopGroup() {
	g := w.pickOpen("stopGroup")
	if w.appended > g.ack {
		if g.paused || g.consumed > w.appended || w.tooFar(g) || !rapid.Bool().Draw(w.t, "drainFirst") {
			w.t.Skip("group not empty")
		}
		for g.consumed < w.appended {
			w.consumeOnce(g, false)
		}
		w.ack(g, g.consumed, "drain")
		w.class("stop-after-drain")
	}
	if g.ack < w.appended {
		w.t.Skip("group not empty")
	}
	w.fq.StopConsumerGroup(g.name)
	g.open, g.h, g.paused = false, nil, false
	w.class("stop-group")
	w.logf("stopGroup %s (consumed=%d ack=%d)", g.name, g.consumed, g.ack)
}

func (w *world) opPause() {
	g := w.pickOpen("pauseGroup")
	if g.paused || rapid.IntRange(0, 5).Draw(w.t, "pauseGate") != 0 {
		w.t.Skip("pause throttled")
	}
	g.h.Pause()
	g.paused = true
	w.class("pause")
	w.logf("pause %s", g.name)
}

func (w *world) opReopen() {
	if ev.Known(sigReopenAckAboveConsumed) {
		for _, g := range w.groups {
			if w.knownShape(g) {
				w.class("excluded_known")
				w.t.Skip("known finding shape")
			}
		}
	}
	w.fq.Close()
	w.fq = nil
	w.open()
	nonInitial := w.appended >= 0

	// The re-opened queue knows every persisted group (open or stopped before: the meta page of a stopped
	// group stays on disk) before anybody asks for it: "ConsumerGroupNames returns all names", and Sync takes
	// the minimum over the groups the queue lists.
	var persisted []string
	for _, n := range w.universe {
		if _, ok := w.groups[n]; ok {
			persisted = append(persisted, n)
		}
	}
	listed := w.fq.ConsumerGroupNames()
	sort.Strings(listed)
	if want := append([]string(nil), persisted...); strings.Join(listed, ",") != strings.Join(sortedCopy(want), ",") {
		w.logf("reopen")
		w.fatalf("reopen: the re-opened fan-out queue lists the groups %v before any group is requested, the persisted groups are %v (Sync would take the minimum over the listed groups only and GC could collect messages an unlisted group has not acknowledged)",
			listed, sortedCopy(want))
	}
	// The replicas of a partition are rebuilt one after the other (GetOrCreateConsumerGroup per replica) while
	// the expiry ticker runs: a drawn part of the groups is requested, then Sync + GC, then the rest. The
	// positions of ALL persisted groups hold the queue ack back (model: every group is attached at open).
	before := len(persisted)
	order := persisted
	tickBetween := false
	if len(persisted) > 0 && rapid.IntRange(0, 2).Draw(w.t, "reopenTickBeforeAllRequested") == 0 {
		tickBetween = true
		before = rapid.IntRange(0, len(persisted)-1).Draw(w.t, "reopenRequestedBeforeTick")
		rot := rapid.IntRange(0, len(persisted)-1).Draw(w.t, "reopenRequestFrom")
		order = append(append([]string(nil), persisted[rot:]...), persisted[:rot]...)
	}
	request := func(n string) {
		g := w.groups[n]
		h, err := w.fq.GetOrCreateConsumerGroup(n)
		if err != nil {
			w.fatalf("GetOrCreateConsumerGroup(%s) after reopen: %v", n, err)
		}
		w.attach(g, h, "reopen")
		if g.consumed >= 0 || g.ack >= 0 {
			nonInitial = true
		}
	}
	for _, n := range order[:before] {
		request(n)
	}
	if tickBetween {
		lagging := false
		minReq, hasReq := int64(0), false
		for _, n := range order[:before] {
			if a := w.groups[n].ack; !hasReq || a < minReq {
				minReq, hasReq = a, true
			}
		}
		for _, n := range order[before:] {
			g := w.groups[n]
			// what attach will find: the group was loaded at open, its ack raised to the queue ack of that moment
			if g.ack < w.qack {
				g.ack = w.qack
			}
			g.open, g.paused = true, false
			if !hasReq || g.ack < minReq {
				lagging = true
			}
		}
		q0 := w.qack
		w.sync()
		removed := w.gc()
		w.pairTick = true // the Sync ran inside this step: the queue ack is judged against the acks of this moment
		w.class("reopen-tick-before-all-groups-requested")
		w.class(fmt.Sprintf("reopen-tick-after-%d-of-%d-groups-requested", before, len(persisted)))
		if lagging {
			w.class("reopen-tick-while-a-not-yet-requested-group-holds-the-queue-ack-back")
		}
		if w.qack != q0 {
			w.class("reopen-tick-before-all-groups-requested-moved-queue-ack")
		}
		w.logf("reopen: %v requested, then sync+gc before %v are requested -> queueAck=%d, %d page files removed", order[:before], order[before:], w.qack, removed)
		if qa := w.fq.Queue().AcknowledgedSeq(); qa != w.qack {
			w.fatalf("reopen: after Sync directly after the reopen, with only the groups %v requested again, the queue acknowledged position is %d; the minimum over the persisted positions of ALL groups (%v are not requested yet) puts it at %d (it was %d; model: %s)",
				order[:before], qa, order[before:], w.qack, q0, w.modelString())
		}
		for _, n := range order[before:] {
			request(n)
		}
	}
	if nonInitial {
		w.ntReopen = true
		w.class("reopen-with-positions")
	} else {
		w.class("reopen-initial-positions")
	}
	w.logf("reopen -> %s", w.modelString())
}

// opSetAppended is the explicit index reset (any direction; the callers of this file draw forward
// targets only, reset_test.go draws targets below / at / above the queue ack).
func (w *world) opSetAppended(s int64) {
	for _, g := range w.groups {
		if !g.open {
			w.t.Skip("a stopped group would miss the reset")
		}
	}
	w.fq.SetAppendedSeq(s)
	w.appended, w.qack = s, s
	for _, g := range w.openGroups() {
		g.consumed, g.ack = s, s
	}
	w.resetNow = true
	w.qackBySync = false
	w.class("set-appended-seq")
	w.logf("setAppendedSeq %d", s)
}

func (w *world) opReset() {
	if rapid.IntRange(0, 2).Draw(w.t, "resetGate") != 0 {
		w.t.Skip("reset throttled")
	}
	if w.backReset {
		w.opResetAnywhere() // reset_test.go: targets below / at / above the queue ack, then an episode
		return
	}
	var s int64
	if rapid.IntRange(0, 3).Draw(w.t, "resetFar") == 0 {
		// jump to just below the next index-page boundary
		s = (w.appended/itemsPerIndexPage+1)*itemsPerIndexPage - int64(rapid.IntRange(1, 8).Draw(w.t, "resetBelowBoundary"))
		if s <= w.appended {
			s += itemsPerIndexPage
		}
		w.class("reset-near-index-boundary")
	} else {
		s = w.appended + int64(rapid.IntRange(1, 6).Draw(w.t, "resetBy"))
	}
	w.opSetAppended(s)
}

// tooFar: a group that would have to walk over more than a few thousand sequences one by one (a
// group created at -1 after a far index reset) is left alone in the small-message machine; the
// roll-over machine walks such distances.
func (w *world) tooFar(g *grp) bool {
	return !w.heavy && w.appended-g.consumed > 3000
}

// opCatchUp lets one group consume (almost) everything and acknowledge most of it.
func (w *world) opCatchUp() {
	g := w.pickOpen("catchUpGroup")
	if g.paused || g.consumed >= w.appended || w.tooFar(g) {
		w.t.Skip("nothing to catch up")
	}
	leave := int64(rapid.IntRange(0, 3).Draw(w.t, "leaveUnconsumed"))
	for g.consumed < w.appended-leave {
		w.consumeOnce(g, false)
	}
	w.logf("catchUp %s -> consumed=%d", g.name, g.consumed)
	if rapid.IntRange(0, 3).Draw(w.t, "catchUpWithoutAck") == 0 {
		w.class("catch-up-without-ack")
		return
	}
	if k := g.consumed - int64(rapid.IntRange(0, 3).Draw(w.t, "leaveUnacked")); k >= g.ack {
		w.ack(g, k, "catch up")
	}
	w.class("catch-up")
}

// opCatchUpAll: every group that can consume catches up, each leaving a different tail behind
// (replicas progress at different speeds), so that the groups end with different acks.
func (w *world) opCatchUpAll() {
	if !w.catchUpAll(3) {
		w.t.Skip("nothing to catch up")
	}
}

func (w *world) catchUpAll(maxBehind int) bool {
	did := false
	for _, g := range w.openGroups() {
		if g.paused || g.consumed >= w.appended || w.tooFar(g) {
			continue
		}
		leave := int64(rapid.IntRange(0, maxBehind-1).Draw(w.t, "leaveUnconsumed"))
		for g.consumed < w.appended-leave {
			w.consumeOnce(g, false)
		}
		if k := g.consumed - int64(rapid.IntRange(0, maxBehind).Draw(w.t, "leaveUnacked")); k >= g.ack {
			w.ack(g, k, "catch up all")
		}
		did = true
	}
	if did {
		w.class("catch-up-all")
	}
	return did
}

// ---- the state machine -------------------------------------------------------------------------

func runHistoryMode(t *rapid.T, test string, thorough, heavy bool, mode machineMode) {
	createRace := mode.createRace
	root, err := os.MkdirTemp("", "c06-")
	if err != nil {
		t.Fatalf("harness: %v", err)
	}
	w := &world{
		t: t, root: root, dir: filepath.Join(root, "wal"),
		appended: -1, qack: -1, prevQAck: -1,
		msgs: map[int64]msg{}, groups: map[string]*grp{}, classes: map[string]int{},
		universe: []string{"1", "2", "3", "4"}, // production names groups by node id
		thorough: thorough, heavy: heavy, createRace: createRace, parked: mode.parked, faults: mode.faults,
		backReset: mode.backReset && !heavy, gcRace: mode.gcRace && !heavy,
		resetRace: mode.resetRace && !heavy,
	}
	defer func() {
		if w.fq != nil {
			w.fq.Close()
		}
		_ = os.RemoveAll(root)
	}()
	// the second argument is the data page file size; production passes 128 MiB (config default),
	// smaller values are lifted to 128 MiB by the queue
	w.limit = rapid.SampledFrom([]int64{dataPageBytes, 0, 1 << 20}).Draw(t, "pageSizeArg")
	w.salt = rapid.Uint64().Draw(t, "salt")
	if heavy {
		w.bigLeft = rapid.IntRange(4, 6).Draw(t, "bigAppends") // >= 4 x 35 MiB: at least one roll-over
		w.bulkLeft = rapid.IntRange(0, 1).Draw(t, "bulkAppends")
	}
	w.open()
	n := rapid.IntRange(1, 4).Draw(t, "initialGroups")
	for i := 0; i < n; i++ {
		w.createFresh(w.universe[i])
	}
	w.check("after setup")
	if rapid.IntRange(0, 1).Draw(t, "startNearIndexBoundary") == 0 {
		// a follower that joins late is reset to the leader's acknowledged position
		w.opSetAppended(itemsPerIndexPage*int64(rapid.IntRange(1, 2).Draw(t, "startPage")) - int64(rapid.IntRange(1, 8).Draw(t, "startBelowBoundary")))
		w.class("start-near-index-boundary")
		w.check("after initial reset")
	}

	step := func(f func()) func(*rapid.T) {
		return func(t *rapid.T) { w.t = t; f() }
	}
	actions := map[string]func(*rapid.T){
		"append":      step(w.opAppend),
		"append2":     step(w.opAppend),
		"consume":     step(w.opConsume),
		"consume2":    step(w.opConsume),
		"consume3":    step(w.opConsume),
		"ack":         step(w.opAck),
		"ack2":        step(w.opAck),
		"ack3":        step(w.opAck),
		"catchUp":     step(w.opCatchUp),
		"catchUpAll":  step(w.opCatchUpAll),
		"setConsumed": step(w.opSetConsumed),
		"sync":        step(w.opSync),
		"gc":          step(w.opGC),
		"tick":        step(w.opTick),
		"tick2":       step(w.opTick),
		"createGroup": step(w.opCreateGroup),
		"stopGroup":   step(w.opStopGroup),
		"pause":       step(w.opPause),
		"reopen":      step(w.opReopen),
		"reset":       step(w.opReset),
		"pair":        step(w.opPair),
		"pair2":       step(w.opPair),
		"":            step(func() { w.check("after step") }),
	}
	if createRace {
		// TestGroupCreateRace: the same machine plus the interleaved (re)opening of groups; groups are
		// stopped and the others move on more often, so that re-opened groups lag behind
		for _, k := range []string{"createPair", "createPair2", "createPair3", "createPair4", "createPair5", "createPair6"} {
			actions[k] = step(w.opCreatePair)
		}
		actions["stopGroup2"] = step(w.opStopGroup)
		actions["stopGroup3"] = step(w.opStopGroup)
		actions["catchUpAll2"] = step(w.opCatchUpAll)
	}
	if mode.parked {
		// TestGroupParkedConsumer: operations of other roles while a consumer waits inside Consume
		for _, k := range []string{"parkedConsume", "parkedConsume2", "parkedConsume3", "parkedConsume4", "parkedConsume5"} {
			actions[k] = step(w.opParkedConsume)
		}
		actions["catchUpAll2"] = step(w.opCatchUpAll)
	}
	if mode.faults {
		// TestGroupPageFaults: the creation of an index page / data page / group meta page fails once
		for _, k := range []string{"faultyAppend", "faultyAppend2", "faultyAppend3", "faultyAppend4"} {
			actions[k] = step(w.opFaultyAppend)
		}
		actions["faultyCreateGroup"] = step(w.opFaultyCreateGroup)
		actions["faultyCreateGroup2"] = step(w.opFaultyCreateGroup)
		actions["stopGroup2"] = step(w.opStopGroup)
		if heavy {
			actions["faultyBigAppend"] = step(w.opFaultyBigAppend)
			actions["faultyBigAppend2"] = step(w.opFaultyBigAppend)
			actions["faultyBigAppend3"] = step(w.opFaultyBigAppend)
		}
	}
	if w.gcRace {
		// TestGroupIndexReset: more resets (every direction) and GC racing a reset + append
		for _, k := range []string{"resetAnywhere", "resetAnywhere2", "resetAnywhere3"} {
			actions[k] = step(w.opResetAnywhere)
		}
		for _, k := range []string{"gcRace", "gcRace2", "gcRace3"} {
			actions[k] = step(w.opGCRace)
		}
		actions["catchUpAll2"] = step(w.opCatchUpAll)
	}
	if w.resetRace {
		// TestGroupResetInterleaved: operations of other actors nested at the page stores inside the index reset
		for _, k := range []string{"resetRace", "resetRace2", "resetRace3", "resetRace4", "resetRace5", "resetRace6"} {
			actions[k] = step(w.opResetRace)
		}
		actions["catchUpAll2"] = step(w.opCatchUpAll)
		actions["createGroup2"] = step(w.opCreateGroup)
	}
	if heavy {
		delete(actions, "pause") // a paused group pins the queue ack until the next reopen
		actions["bigAppend"] = step(w.opBigAppend)
		actions["bigAppend2"] = step(w.opBigAppend)
		actions["bulkAppend"] = step(w.opBulkAppend)
		actions["catchUp2"] = step(w.opCatchUp)
		actions["catchUp3"] = step(w.opCatchUp)
	}
	t.Repeat(actions)
	t.Repeat(actions) // a second budget of steps: histories of ~60 operations
	w.t = t

	// roll-over machine: the big appends the history did not use, each followed by the groups
	// catching up at different speeds and a Sync+GC
	for heavy && w.bigLeft > 0 {
		if w.faults && rapid.IntRange(0, 3).Draw(t, "leftoverBigAppendUnderFaults") != 0 {
			w.opFaultyBigAppend() // the creation of the next data page fails once or twice, the producer retries
		} else {
			w.opBigAppend()
		}
		w.check("after big append")
		if len(w.openGroups()) == 0 {
			continue
		}
		w.catchUpAll(1)
		w.check("after catch up")
		w.opTick()
		w.check("after sync+gc")
	}

	// closing sequence: everything must survive one more reopen, and every group that can still
	// consume is handed its next sequence
	if !(ev.Known(sigReopenAckAboveConsumed) && w.anyKnownShape()) {
		w.opReopen()
		w.check("after final reopen")
	}
	w.put(w.newMsg(24))
	w.logf("final append -> appended=%d", w.appended)
	for _, g := range w.openGroups() {
		if g.consumed < w.appended {
			w.consumeOnce(g, false)
		}
	}
	w.check("after final consume")

	heavyNT := true
	if heavy {
		if d, _ := countPages(w.dir); d >= 2 {
			w.rolled = true
		}
		heavyNT = w.rolled || w.classes["bulk-append"] > 0
		if w.rolled {
			w.class("data-page-roll-over")
		}
	}
	for c, k := range w.classes {
		ev.Class(test, c, k)
	}
	nonTrivial := (w.ntGC || w.ntReopen) && heavyNT
	switch {
	case createRace:
		nonTrivial = w.ntCreate
	case mode.parked:
		nonTrivial = w.ntParked
	case mode.faults && !heavy:
		nonTrivial = w.ntFault
	case w.gcRace:
		nonTrivial = w.ntBack || w.ntRace
	case w.resetRace:
		nonTrivial = w.ntResetRace
	}
	ev.Case(test, strings.Join(w.ops, ";"), nonTrivial, nil,
		map[string]any{"history": w.ops, "final": w.modelString(),
			"gc_removed_page_with_different_acks": w.ntGC, "reopen_with_positions": w.ntReopen, "interleaved_pair": w.ntPair,
			"sync_inside_reopen_window_of_lagging_group": w.ntCreate, "parked_consumer_woken_after_position_change": w.ntParked,
			"append_failed_at_page_creation_then_retried": w.ntFault,
			"reset_below_synced_queue_ack_then_append":    w.ntBack, "gc_raced_by_reset_into_the_collected_page": w.ntRace,
			"consumer_step_inside_index_reset_on_group_with_pending_data": w.ntResetRace})
}

func sortedCopy(in []string) []string {
	out := append([]string(nil), in...)
	sort.Strings(out)
	return out
}

func (w *world) anyKnownShape() bool {
	for _, g := range w.groups {
		if w.knownShape(g) {
			return true
		}
	}
	return false
}

// TestGroupHistory: the rapid state machine over small messages (quick and thorough tier).
func TestGroupHistory(t *testing.T) {
	thorough := os.Getenv("VERIF_TIER") == "thorough"
	installPages()
	defer uninstallPages()
	rapid.Check(t, func(t *rapid.T) {
		runHistoryMode(t, "TestGroupHistory", thorough, false, machineMode{backReset: true})
	})
}

// TestGroupHistoryRollOver: the same machine plus messages of tens of MiB (data-page roll-over;
// the page size is a constant 128 MiB) and one bulk append of tiny messages up to the next
// index page (262144 entries). Thorough tier only, a handful of cases.
func TestGroupHistoryRollOver(t *testing.T) {
	if tier := os.Getenv("VERIF_TIER"); (tier == "" || tier == "quick") && os.Getenv("C06_ROLLOVER") == "" {
		t.Skip("thorough tier only (set C06_ROLLOVER=1 to run by hand)")
	}
	installPages()
	defer uninstallPages()
	rapid.Check(t, func(t *rapid.T) { runHistoryMode(t, "TestGroupHistoryRollOver", true, true, machineMode{faults: true}) })
}

// TestQueueAckBarrier: the read barrier of the underlying queue on its own (no groups): whatever
// value is offered to SetAcknowledgedSeq, the barrier only moves forward and never beyond the
// appended position; everything above it stays readable across GC and reopen.
func TestQueueAckBarrier(t *testing.T) {
	rapid.Check(t, func(t *rapid.T) {
		root, err := os.MkdirTemp("", "c06q-")
		if err != nil {
			t.Fatalf("harness: %v", err)
		}
		w := &world{t: t, root: root, dir: filepath.Join(root, "wal"), limit: dataPageBytes,
			appended: -1, qack: -1, prevQAck: -1, msgs: map[int64]msg{}, groups: map[string]*grp{}, classes: map[string]int{}}
		defer func() {
			if w.fq != nil {
				w.fq.Close()
			}
			_ = os.RemoveAll(root)
		}()
		w.salt = rapid.Uint64().Draw(t, "salt")
		w.open()
		moved, refused := 0, 0
		step := func(f func()) func(*rapid.T) {
			return func(t *rapid.T) { w.t = t; f() }
		}
		t.Repeat(map[string]func(*rapid.T){
			"append": step(w.opAppend),
			"setAck": step(func() {
				k := rapid.Int64Range(-2, w.appended+3).Draw(w.t, "ackSeq")
				w.fq.Queue().SetAcknowledgedSeq(k)
				if k > w.qack && k <= w.appended {
					w.qack = k
					moved++
				} else {
					refused++
				}
				w.logf("queue.SetAcknowledgedSeq %d -> queueAck=%d", k, w.qack)
			}),
			"gc":     step(w.opGC),
			"sync":   step(func() { w.fq.Sync(); w.logf("sync (no groups)") }), // no groups: must not move anything
			"reopen": step(w.opReopen),
			"":       step(func() { w.check("after step") }),
		})
		ev.Case("TestQueueAckBarrier", strings.Join(w.ops, ";"), moved > 0 && refused > 0, nil, nil)
	})
}
